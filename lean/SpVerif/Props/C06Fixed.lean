import SpVerif.Props.C05
import SpVerif.Proofs.FileDirective
import SpVerif.Proofs.Ack
import SpVerif.Proofs.Prompt
import SpVerif.Proofs.KeepAlive
import SpVerif.Proofs.Nak
/-!
# C06 (part "fixed") — file-directive base class, ACK, Prompt, Keep Alive and NAK PDUs are encoded
exactly per CCSDS 727.0-B-5 §5.2 and round-trip

Property theorems only. (EOF, Finished and Metadata are in `Props/C06Var.lean`.)

Layout of every file-directive PDU (727.0-B-5 §5.1, §5.2): fixed PDU header (`C05.Spec.octets`: PDU
type 0 = file directive, segment-metadata flag 0, the direction the directive travels in, a data
field length counting every octet after the header), directive code, directive parameters, and a
CRC-16 over everything before it iff the CRC flag is set:

* ACK (code 6, §5.2.4): `acked directive code (4 bits) | subtype (4 bits)`,
  `condition code (4 bits) | spare (2 bits) | transaction status (2 bits)`; an ACK of a Finished
  PDU (code 5, subtype 1) travels towards the receiver, an ACK of an EOF PDU (code 4, subtype 0)
  towards the sender;
* Prompt (code 9, §5.2.7): `response required (1 bit) | spare (7 bits)`, towards the receiver;
* Keep Alive (code 12, §5.2.8): progress as one FSS field (32 bits, 64 with the large-file flag),
  towards the sender;
* NAK (code 8, §5.2.6): start of scope, end of scope, then the segment requests (start offset, end
  offset) in list order, each an FSS field, towards the sender.
-/
namespace SpVerif.Props.C06Fixed
open SpVerif SpVerif.CfdpHeader SpVerif.FileDirective
open SpVerif.Ack SpVerif.Prompt SpVerif.KeepAlive SpVerif.Nak

/-! ## header configurations -/

/-- every header configuration the statement quantifies over: CRC on/off, large file on/off, mode,
    (the caller's) direction, segmentation control, entity-ID width and sequence-number width in
    {1,2,4,8} (both IDs of the same width) with every value of those widths -/
def WFConf (c : PduConfig) : Prop :=
  c.transMode < 2 ∧ c.fileFlag < 2 ∧ c.crcFlag < 2 ∧ c.direction < 2 ∧ c.segCtrl < 2 ∧
  C05.WFField c.source ∧ C05.WFField c.seqNum ∧ C05.WFField c.dest ∧ c.dest.width = c.source.width

instance (c : PduConfig) : Decidable (WFConf c) := by unfold WFConf; infer_instance

/-- the header of a file directive built from configuration `c`: type 0, no segment metadata,
    direction forced by the directive class, `dlen` octets of data field -/
def dirHeader (c : PduConfig) (dir dlen : Nat) : PduHeader := ⟨0, 0, dlen, { c with direction := dir }⟩

private theorem wf_dirHeader (c : PduConfig) (wf : WFConf c) (dir dlen : Nat) (hd : dir < 2) (hl : dlen < 65536) :
    C05.WF (dirHeader c dir dlen) := by
  obtain ⟨h1, h2, h3, _, h5, h6, h7, h8, h9⟩ := wf
  exact ⟨Nat.zero_lt_two, hd, h1, h3, h2, h5, Nat.zero_lt_two, hl, h6, h7, h8, h9⟩

/-- `2` iff the CRC flag is set: the octets the trailer adds to the data field -/
def crcLen (c : PduConfig) : Nat := if c.crcFlag = 1 then 2 else 0

/-- **a file-directive PDU as the standard lays it out**: header ‖ directive code ‖ parameters ‖
    CRC-16 of all of that iff the CRC flag is set -/
def Spec.pdu (fd : FileDirective) (params : Bytes) : Bytes :=
  withCrc fd.header.conf.crcFlag (C05.Spec.octets fd.header ++ [u8 fd.code] ++ params)

/-- domain of the base object of a directive PDU with `plen` parameter octets -/
def WFBase (fd : FileDirective) (code dir plen : Nat) : Prop :=
  C05.WF fd.header ∧ fd.header.pduType = 0 ∧ fd.header.segMeta = 0 ∧ fd.code = code ∧
  fd.header.conf.direction = dir ∧ fd.header.dataFieldLen = 1 + plen + crcLen fd.header.conf

instance (fd : FileDirective) (code dir plen : Nat) : Decidable (WFBase fd code dir plen) := by
  unfold WFBase; infer_instance

/-! ## the file-directive base class (`C06_directive_*`) -/

/-- **directive header = PDU header ‖ directive code**, for every configuration, code octet and
    data-field length -/
theorem C06_directive_pack_exact (fd : FileDirective) (wf : C05.WF fd.header) (hc : fd.code < 256) :
    fd.pack = .ok (C05.Spec.octets fd.header ++ [u8 fd.code]) := pack_spec fd wf hc

/-- `header_len` is the packed length; `packet_len` is header length + data-field length -/
theorem C06_directive_len (fd : FileDirective) (wf : C05.WF fd.header) :
    (C05.Spec.octets fd.header ++ [u8 fd.code]).length = fd.headerLen ∧
    fd.headerLen = fd.header.headerLen + 1 ∧
    fd.packetLen = fd.header.headerLen + fd.header.dataFieldLen := by
  refine ⟨specOctets_length fd wf, rfl, ?_⟩
  simp [FileDirective.packetLen, PduHeader.packetLen]; omega

/-- the constructor: data-field length = directive code octet + parameter length; refused
    (`ValueError`) when that exceeds 65 535 or the ID widths differ -/
theorem C06_directive_new (c : PduConfig) (code plen : Nat) :
    FileDirective.new c code plen =
      if 65535 < plen + 1 ∨ c.source.width ≠ c.dest.width then .error .value
      else .ok ⟨⟨0, 0, plen + 1, c⟩, code⟩ := new_eq c code plen

/-- **round trip of the base class**, whatever follows the directive code -/
theorem C06_directive_roundtrip (fd : FileDirective) (wf : C05.WF fd.header) (hc : fd.code < 256)
    (rest : Bytes) :
    FileDirective.unpack (C05.Spec.octets fd.header ++ [u8 fd.code] ++ rest) = .ok fd ∧ fd.beq fd = true :=
  ⟨unpack_spec fd wf hc rest, beq_refl fd⟩

theorem C06_directive_documented (raw : Bytes) : Documented (FileDirective.unpack raw) :=
  unpack_documented raw

/-- a buffer that ends before the directive code is refused with `ValueError` -/
theorem C06_directive_short (raw : Bytes) (h : PduHeader) (hu : PduHeader.unpack raw = .ok h)
    (hl : raw.length ≤ h.headerLen) : FileDirective.unpack raw = .error .value := unpack_short raw h hu hl

/-- the parameter-length setter keeps `data field = parameters + 1` and refuses more than 65 534 -/
theorem C06_directive_set_param_len (fd : FileDirective) (n : Nat) :
    fd.setParamLen n = if 65535 < n + 1 then .error .value
      else .ok { fd with header := { fd.header with dataFieldLen := n + 1 } } := setParamLen_eq fd n

/-- **`parse_fss_field`**: 4 octets, or 8 with the large-file flag, big-endian, index advanced by
    the width; `ValueError` when the buffer is too short -/
theorem C06_directive_parse_fss (fd : FileDirective) (raw : Bytes) (i : Nat) :
    fd.parseFss raw i =
      if raw.length < i + fssWidth fd.header.conf.fileFlag then .error .value
      else .ok (i + fssWidth fd.header.conf.fileFlag,
                beNat (slice raw i (i + fssWidth fd.header.conf.fileFlag))) := parseFss_eq fd raw i

/-- an FSS value of the selected width is read back exactly, for every value of the full
    32- / 64-bit range -/
theorem C06_directive_parse_fss_roundtrip (fd : FileDirective) (pre rest : Bytes) (v : Nat)
    (hv : v < 256 ^ fssWidth fd.header.conf.fileFlag) :
    fd.parseFss (pre ++ beBytes (fssWidth fd.header.conf.fileFlag) v ++ rest) pre.length =
      .ok (pre.length + fssWidth fd.header.conf.fileFlag, v) := parseFss_spec fd pre rest v hv

/-- `_verify_file_len` refuses only sizes above 2^64 (large) / 2^32 (normal); note that 2^w itself
    passes and is stopped by `struct.pack` (`C06_directive_fss_overflow`) -/
theorem C06_directive_verify_file_len (fd : FileDirective) (size : Int) :
    fd.verifyFileLen size =
      if (fd.header.conf.fileFlag = 1 ∧ size > 18446744073709551616) ∨
         (fd.header.conf.fileFlag = 0 ∧ size > 4294967296) then .error .value else .ok () :=
  verifyFileLen_eq fd size

/-- **`struct.pack` of an FSS value never truncates**: it fails exactly for values outside
    `[0, 256^w)` and yields the `w` big-endian octets otherwise -/
theorem C06_directive_fss_overflow (w : Nat) (v : Int) :
    ((v < 0 ∨ 256 ^ w ≤ v.toNat) → packInt w v = .error .struct) ∧
    (0 ≤ v → v.toNat < 256 ^ w → packInt w v = .ok (beBytes w v.toNat)) := by
  constructor
  · rintro (h | h)
    · exact packInt_neg w v h
    · by_cases h0 : v < 0
      · exact packInt_neg w v h0
      · exact packInt_big w v (by omega) h
  · intro h0 h1
    exact packInt_fits w v ⟨h0, h1⟩

/-- what every directive decoder does first: complete description of the accepted buffers -/
theorem C06_directive_prelude (data : Bytes) (fd : FileDirective) (p : Bytes) :
    prelude data = .ok (fd, p) ↔
      (PduHeader.unpack data = .ok fd.header ∧ idx data fd.header.headerLen = .ok fd.code ∧
        fd.packetLen ≤ data.length ∧
        (fd.header.conf.crcFlag = 1 → Crc.crc16 (data.take fd.packetLen) = 0) ∧
        p = data.take fd.paramsEnd) := prelude_ok_iff data fd p

/-! ### shared machinery for the four kinds -/

private theorem spec_pdu_eq (fd : FileDirective) (P : Bytes) :
    Spec.pdu fd P = withCrc fd.header.conf.crcFlag (specOctets fd ++ P) := rfl

/-- what the common prelude returns on a laid-out PDU, and its length -/
private theorem prelude_pdu (fd : FileDirective) (code dir : Nat) (P rest : Bytes)
    (wf : WFBase fd code dir P.length) (hc : code < 256) :
    prelude (Spec.pdu fd P ++ rest) = .ok (fd, specOctets fd ++ P) ∧
    (Spec.pdu fd P).length = fd.packetLen := by
  obtain ⟨w1, _, _, w4, _, w6⟩ := wf
  rw [spec_pdu_eq]
  exact prelude_spec fd w1 (by omega) P rest (by simpa [crcLen] using w6)

private theorem idx_params (fd : FileDirective) (wf : C05.WF fd.header) (P : Bytes) (k : Nat) :
    idx (specOctets fd ++ P) (fd.headerLen + k) = idx P k := by
  rw [← specOctets_length fd wf]; exact idx_after _ _ _

private theorem slice_params (fd : FileDirective) (wf : C05.WF fd.header) (P : Bytes) (s e : Nat) :
    slice (specOctets fd ++ P) (fd.headerLen + s) (fd.headerLen + e) = slice P s e := by
  rw [← specOctets_length fd wf]; exact slice_after _ _ _ _

private theorem drop_params (fd : FileDirective) (wf : C05.WF fd.header) (P : Bytes) (k : Nat) :
    (specOctets fd ++ P).drop (fd.headerLen + k) = P.drop k := by
  rw [← specOctets_length fd wf]; exact drop_after _ _ _

private theorem pdu_len (fd : FileDirective) (code dir : Nat) (P : Bytes) (wf : WFBase fd code dir P.length) :
    (Spec.pdu fd P).length = fd.packetLen ∧
    fd.header.dataFieldLen = (Spec.pdu fd P).length - fd.header.headerLen ∧
    fd.header.dataFieldLen = fd.packetLen - fd.header.headerLen ∧
    (Spec.pdu fd P).length = fd.header.headerLen + 1 + P.length + crcLen fd.header.conf := by
  obtain ⟨w1, _, _, _, _, w6⟩ := wf
  have hs := specOctets_length fd w1
  have hhl : fd.headerLen = fd.header.headerLen + 1 := rfl
  have hpl : fd.packetLen = fd.header.dataFieldLen + fd.header.headerLen := rfl
  have : (Spec.pdu fd P).length = fd.header.headerLen + 1 + P.length + crcLen fd.header.conf := by
    rw [spec_pdu_eq]
    unfold withCrc crcLen
    split
    · simp only [List.length_append, hs, Crc.crcTrailer, Crc.be16, List.length_cons, List.length_nil]; omega
    · simp only [List.length_append, hs]; omega
  omega

/-- CRC clause: with the flag the PDU ends in the CRC-16 of everything before it (so the CRC over
    the whole PDU is zero); without the flag there is no trailer -/
private theorem pdu_crc (fd : FileDirective) (P : Bytes) :
    (fd.header.conf.crcFlag = 1 →
      Spec.pdu fd P = (C05.Spec.octets fd.header ++ [u8 fd.code] ++ P)
        ++ Crc.crcTrailer (C05.Spec.octets fd.header ++ [u8 fd.code] ++ P) ∧
      Crc.crc16 (Spec.pdu fd P) = 0) ∧
    (fd.header.conf.crcFlag ≠ 1 → Spec.pdu fd P = C05.Spec.octets fd.header ++ [u8 fd.code] ++ P) := by
  constructor
  · intro h
    have : Spec.pdu fd P = (C05.Spec.octets fd.header ++ [u8 fd.code] ++ P)
        ++ Crc.crcTrailer (C05.Spec.octets fd.header ++ [u8 fd.code] ++ P) := by
      simp [Spec.pdu, withCrc, h]
    exact ⟨this, by rw [this]; exact Crc.crc16_residue _⟩
  · intro h
    simp [Spec.pdu, withCrc, h]

/-- every strict prefix of a laid-out directive PDU is refused with `ValueError` by any decoder of
    the form "prelude, then parameter parser" -/
private theorem pdu_truncated {α : Type} (f : FileDirective × Bytes → Py α) (fd : FileDirective)
    (code dir : Nat) (P : Bytes) (wf : WFBase fd code dir P.length) (k : Nat)
    (hk : k < (Spec.pdu fd P).length) : (prelude ((Spec.pdu fd P).take k) >>= f) = .error .value := by
  have hl := (pdu_len fd code dir P wf).1
  have : ∃ R, Spec.pdu fd P = specOctets fd ++ R := by
    rw [spec_pdu_eq]; unfold withCrc
    split
    · exact ⟨P ++ Crc.crcTrailer (specOctets fd ++ P), by simp⟩
    · exact ⟨P, rfl⟩
  obtain ⟨R, hR⟩ := this
  rw [hR] at hl hk ⊢
  exact bind_prelude_truncated f fd wf.1 R hl k (by omega)

/-! ## ACK (`C06_ack_*`) -/

/-- valid ACK PDUs: the acknowledged directive is EOF (4, subtype 0, towards the sender) or Finished
    (5, subtype 1, towards the receiver), a 4-bit condition code (every member of `ConditionCode`
    except the `NO_CONDITION_FIELD = -1` marker), every `TransactionStatus`, any header configuration -/
def WFAck (a : Ack) : Prop :=
  (a.ackedCode = 4 ∨ a.ackedCode = 5) ∧ a.subtype = (if a.ackedCode = 5 then 1 else 0) ∧
  0 ≤ a.cond ∧ a.cond < 16 ∧ a.status < 4 ∧
  WFBase a.fd 6 (if a.ackedCode = 5 then 0 else 1) 2

instance (a : Ack) : Decidable (WFAck a) := by unfold WFAck; infer_instance

/-- the two parameter octets of 727.0-B-5 §5.2.4 -/
def Spec.ackParams (a : Ack) : Bytes :=
  [u8 (a.ackedCode * 16 + a.subtype), u8 (a.cond.toNat * 16 + a.status)]

def Spec.ack (a : Ack) : Bytes := Spec.pdu a.fd (Spec.ackParams a)

private theorem byteOf_lin (c : Int) (s : Nat) (h0 : 0 ≤ c) (h : c.toNat * 16 + s < 256) :
    byteOf (c * 16 + (s : Int)) = .ok (u8 (c.toNat * 16 + s)) := by
  obtain ⟨n, rfl⟩ := Int.eq_ofNat_of_zero_le h0
  simp only [Int.toNat_natCast] at h ⊢
  have g : 0 ≤ (n : Int) * 16 + (s : Int) ∧ (n : Int) * 16 + (s : Int) < 256 := by omega
  have e : ((n : Int) * 16 + (s : Int)).toNat = n * 16 + s := by omega
  simp only [byteOf, g, and_self, ↓reduceIte, e]

/-- the constructor accepts every header configuration and parameter set, forces the direction and
    the subtype code, and yields a valid PDU -/
theorem C06_ack_new (c : PduConfig) (wf : WFConf c) (acked : Nat) (ha : acked = 4 ∨ acked = 5)
    (cond : Int) (status : Nat) :
    ∃ a, Ack.new c acked cond status = .ok a ∧ a.ackedCode = acked ∧ a.cond = cond ∧ a.status = status ∧
      a.fd.header.conf = { c with direction := if acked = 5 then 0 else 1 } ∧
      (0 ≤ cond → cond < 16 → status < 4 → WFAck a) := by
  rw [Ack.new_eq]
  have g : ¬ ((acked ≠ 5 ∧ acked ≠ 4) ∨ c.source.width ≠ c.dest.width) := by
    have := wf.2.2.2.2.2.2.2.2; omega
  rw [if_neg g]
  refine ⟨_, rfl, rfl, rfl, rfl, rfl, ?_⟩
  intro h0 h1 h2
  refine ⟨by omega, rfl, h0, h1, h2, ?_, rfl, rfl, rfl, rfl, ?_⟩
  · apply wf_dirHeader c wf
    · split <;> omega
    · split <;> omega
  · simp only [crcLen]; split <;> omega

/-- only EOF and Finished PDUs can be acknowledged: any other directive code is refused (`ValueError`) -/
theorem C06_ack_refuse_code (c : PduConfig) (acked : Nat) (cond : Int) (status : Nat)
    (h : acked ≠ 4 ∧ acked ≠ 5) : Ack.new c acked cond status = .error .value := by
  rw [Ack.new_eq, if_pos (Or.inl ⟨h.2, h.1⟩)]

/-- **pack = standard layout** for every valid ACK PDU in every header configuration -/
theorem C06_ack_pack_exact (a : Ack) (wf : WFAck a) : a.pack = .ok (Spec.ack a) := by
  obtain ⟨h1, h2, h3, h4, h5, w1, _, _, w4, _, _⟩ := wf
  unfold Ack.pack
  rw [pack_spec a.fd w1 (by omega), byteOfN_ok (by split at h2 <;> omega : a.ackedCode * 16 + a.subtype < 256),
    byteOf_lin a.cond a.status h3 (by omega)]
  simp only [bind, Except.bind, pure, Except.pure, Spec.ack, Spec.pdu, Spec.ackParams, specOctets]

/-- **length clauses**: packed length = `packet_len`; data-field length = octets after the header
    = `packet_len` − header length; 2 parameter octets (+2 with CRC) -/
theorem C06_ack_len (a : Ack) (wf : WFAck a) :
    (Spec.ack a).length = a.packetLen ∧
    a.fd.header.dataFieldLen = (Spec.ack a).length - a.fd.header.headerLen ∧
    a.fd.header.dataFieldLen = a.packetLen - a.fd.header.headerLen ∧
    (Spec.ack a).length = a.fd.header.headerLen + 1 + 2 + crcLen a.fd.header.conf :=
  pdu_len a.fd 6 _ (Spec.ackParams a) wf.2.2.2.2.2

/-- **CRC clause**: trailer = CRC-16 of everything before it iff the flag is set -/
theorem C06_ack_crc (a : Ack) :
    (a.fd.header.conf.crcFlag = 1 →
      Spec.ack a = (C05.Spec.octets a.fd.header ++ [u8 a.fd.code] ++ Spec.ackParams a)
        ++ Crc.crcTrailer (C05.Spec.octets a.fd.header ++ [u8 a.fd.code] ++ Spec.ackParams a) ∧
      Crc.crc16 (Spec.ack a) = 0) ∧
    (a.fd.header.conf.crcFlag ≠ 1 →
      Spec.ack a = C05.Spec.octets a.fd.header ++ [u8 a.fd.code] ++ Spec.ackParams a) :=
  pdu_crc a.fd (Spec.ackParams a)

private theorem idx_two0 (x y : UInt8) : idx [x, y] 0 = .ok x.toNat := rfl
private theorem idx_two1 (x y : UInt8) : idx [x, y] 1 = .ok y.toNat := rfl
private theorem ack_ar (x s : Nat) (hs : s < 16) (hx : x < 16) :
    (x * 16 + s) % 256 / 16 % 16 = x ∧ (x * 16 + s) % 256 % 16 = s := by omega
private theorem ack_ar2 (x s : Nat) (hs : s < 4) (hx : x < 16) :
    (x * 16 + s) % 256 / 16 % 16 = x ∧ (x * 16 + s) % 256 % 4 = s := by omega

/-- **round trip**: decoding the packed PDU — alone or followed by any further octets — returns
    the identical PDU (same header, same four parameters), for every valid PDU and configuration -/
theorem C06_ack_roundtrip (a : Ack) (wf : WFAck a) (rest : Bytes) :
    Ack.unpack (Spec.ack a ++ rest) = .ok a := by
  obtain ⟨h1, h2, h3, h4, h5, wb⟩ := wf
  obtain ⟨hp, _⟩ := prelude_pdu a.fd 6 _ (Spec.ackParams a) rest wb (by omega)
  have w1 := wb.1
  rw [Ack.unpack_eq, Spec.ack, hp]
  show Ack.parse (a.fd, specOctets a.fd ++ Spec.ackParams a) = _
  unfold Ack.parse
  have hl : ¬ a.fd.headerLen + 2 > (specOctets a.fd ++ Spec.ackParams a).length := by
    simp [specOctets_length a.fd w1, Spec.ackParams]
  have i0 := idx_params a.fd w1 (Spec.ackParams a) 0
  have i1 := idx_params a.fd w1 (Spec.ackParams a) 1
  simp only [Nat.add_zero] at i0
  obtain ⟨n, hn⟩ := Int.eq_ofNat_of_zero_le h3
  have hn16 : n < 16 := by omega
  have hs16 : a.subtype < 16 := by split at h2 <;> omega
  have ha16 : a.ackedCode < 16 := by omega
  simp only [hl, ↓reduceIte, i0, i1, bind, Except.bind, pure, Except.pure]
  simp only [Spec.ackParams, idx_two0, idx_two1, u8_toNat, hn, Int.toNat_natCast,
    (ack_ar a.ackedCode a.subtype hs16 ha16).1, (ack_ar a.ackedCode a.subtype hs16 ha16).2,
    (ack_ar2 n a.status h5 hn16).1, (ack_ar2 n a.status h5 hn16).2]
  cases a
  simp only at hn
  simp only [hn]

/-- **equality and re-pack identity**: the decoded PDU compares equal to the original under `==`
    (both ways) and packs to the same octets -/
theorem C06_ack_eq_repack (a : Ack) (wf : WFAck a) (rest : Bytes) :
    ∃ a', (a.pack >>= fun b => Ack.unpack (b ++ rest)) = .ok a' ∧ a' = a ∧
      a.beq a' = true ∧ a'.beq a = true ∧ a'.pack = a.pack := by
  refine ⟨a, ?_, rfl, ?_, ?_, rfl⟩
  · rw [C06_ack_pack_exact a wf]; exact C06_ack_roundtrip a wf rest
  all_goals simp [Ack.beq, beq_refl]

/-- `ConditionCode.NO_CONDITION_FIELD` (−1), or any negative condition code, cannot be packed:
    `ValueError`, never a wrapped-around octet -/
theorem C06_ack_no_condition_field (a : Ack) (wf : C05.WF a.fd.header) (hc : a.fd.code < 256)
    (h : a.cond < 0) (hs : a.status < 16) : a.pack = .error .value := by
  unfold Ack.pack
  rw [pack_spec a.fd wf hc]
  have g : ¬ (0 ≤ a.cond * 16 + (a.status : Int) ∧ a.cond * 16 + (a.status : Int) < 256) := by omega
  unfold byteOfN
  split <;> simp only [bind, Except.bind, byteOf, g, ↓reduceIte]

/-- the decoder fails, for any octet string whatever, only with `ValueError`,
    `UnsupportedCfdpVersion` or `InvalidCrc` -/
theorem C06_ack_documented (d : Bytes) : Documented (Ack.unpack d) := Ack.unpack_documented d

/-- what acceptance means: the buffer holds the whole declared PDU, the CRC-16 over exactly the
    declared PDU is zero when the flag is set, and the result depends on the declared PDU only
    (trailing octets are neither read nor required) -/
theorem C06_ack_accept_sound (d : Bytes) (a : Ack) (h : Ack.unpack d = .ok a) (rest : Bytes) :
    a.packetLen ≤ d.length ∧ (a.fd.header.conf.crcFlag = 1 → Crc.crc16 (d.take a.packetLen) = 0) ∧
    Ack.unpack (d.take a.packetLen ++ rest) = .ok a := by
  obtain ⟨_, _, _, h4, h5⟩ := Ack.unpack_inv d a h
  exact ⟨h4, h5, Ack.unpack_take d a h rest⟩


/-- **every strict prefix of a packed PDU is refused with `ValueError`** -/
theorem C06_ack_truncated (x : Ack) (wf : WFAck x) (k : Nat) (hk : k < (Spec.ack x).length) :
    Ack.unpack ((Spec.ack x).take k) = .error .value := by
  rw [Ack.unpack_eq]
  exact pdu_truncated _ x.fd _ _ _ wf.2.2.2.2.2 k hk

-- non-vacuity: ACK of a Finished PDU, FILE_CHECKSUM_FAILURE, TERMINATED, CRC, large file, 2-octet IDs
private def exAck : Ack :=
  ⟨⟨⟨0, 0, 5, ⟨⟨2, 0x0102⟩, ⟨2, 0x0304⟩, ⟨1, 0x77⟩, 1, 1, 1, 0, 0⟩⟩, 6⟩, 5, 1, 5, 2⟩
example : WFAck exAck := by decide
example : WFConf ⟨⟨2, 0x0102⟩, ⟨2, 0x0304⟩, ⟨1, 0x77⟩, 1, 1, 1, 1, 0⟩ := by decide
example : Ack.new ⟨⟨2, 0x0102⟩, ⟨2, 0x0304⟩, ⟨1, 0x77⟩, 1, 1, 1, 1, 0⟩ 5 5 2 = .ok exAck := by rfl
example : C05.Spec.octets exAck.fd.header ++ [u8 exAck.fd.code] ++ Spec.ackParams exAck
    = [0x27, 0, 5, 0x10, 1, 2, 0x77, 3, 4, 6, 0x51, 0x52] := by decide
example : Ack.new PduConfig.default 7 0 0 = .error .value := by rfl

/-! ## Prompt (`C06_prompt_*`) -/

/-- valid Prompt PDUs: both members of `ResponseRequired`, towards the receiver, any configuration -/
def WFPrompt (p : Prompt) : Prop := p.respReq < 2 ∧ WFBase p.fd 9 0 1

instance (p : Prompt) : Decidable (WFPrompt p) := by unfold WFPrompt; infer_instance

/-- the parameter octet of 727.0-B-5 §5.2.7: response required in bit 7, spare bits zero -/
def Spec.promptParams (p : Prompt) : Bytes := [u8 (p.respReq * 128)]

def Spec.prompt (p : Prompt) : Bytes := Spec.pdu p.fd (Spec.promptParams p)

theorem C06_prompt_new (c : PduConfig) (wf : WFConf c) (rr : Nat) :
    ∃ p, Prompt.new c rr = .ok p ∧ p.respReq = rr ∧ p.fd.header.conf = { c with direction := 0 } ∧
      (rr < 2 → WFPrompt p) := by
  rw [Prompt.new_eq]
  have g : ¬ c.source.width ≠ c.dest.width := by have := wf.2.2.2.2.2.2.2.2; omega
  rw [if_neg g]
  refine ⟨_, rfl, rfl, rfl, ?_⟩
  intro h
  refine ⟨h, ?_, rfl, rfl, rfl, rfl, ?_⟩
  · apply wf_dirHeader c wf _ _ (by omega)
    split <;> omega
  · simp only [crcLen]; split <;> omega

/-- **pack = standard layout** -/
theorem C06_prompt_pack_exact (p : Prompt) (wf : WFPrompt p) : p.pack = .ok (Spec.prompt p) := by
  obtain ⟨h1, w1, _, _, w4, _, _⟩ := wf
  unfold Prompt.pack
  rw [pack_spec p.fd w1 (by omega), byteOfN_ok (by omega : p.respReq * 128 < 256)]
  simp only [bind, Except.bind, pure, Except.pure, Spec.prompt, Spec.pdu, Spec.promptParams, specOctets]

/-- **length clauses**: one parameter octet (+2 with CRC) -/
theorem C06_prompt_len (p : Prompt) (wf : WFPrompt p) :
    (Spec.prompt p).length = p.packetLen ∧
    p.fd.header.dataFieldLen = (Spec.prompt p).length - p.fd.header.headerLen ∧
    p.fd.header.dataFieldLen = p.packetLen - p.fd.header.headerLen ∧
    (Spec.prompt p).length = p.fd.header.headerLen + 1 + 1 + crcLen p.fd.header.conf :=
  pdu_len p.fd 9 0 (Spec.promptParams p) wf.2

theorem C06_prompt_crc (p : Prompt) :
    (p.fd.header.conf.crcFlag = 1 →
      Spec.prompt p = (C05.Spec.octets p.fd.header ++ [u8 p.fd.code] ++ Spec.promptParams p)
        ++ Crc.crcTrailer (C05.Spec.octets p.fd.header ++ [u8 p.fd.code] ++ Spec.promptParams p) ∧
      Crc.crc16 (Spec.prompt p) = 0) ∧
    (p.fd.header.conf.crcFlag ≠ 1 →
      Spec.prompt p = C05.Spec.octets p.fd.header ++ [u8 p.fd.code] ++ Spec.promptParams p) :=
  pdu_crc p.fd (Spec.promptParams p)

private theorem idx_one0 (x : UInt8) : idx [x] 0 = .ok x.toNat := rfl
private theorem prompt_ar (r : Nat) (h : r < 2) : r * 128 % 256 / 128 % 2 = r := by omega

/-- **round trip**, alone or followed by any further octets -/
theorem C06_prompt_roundtrip (p : Prompt) (wf : WFPrompt p) (rest : Bytes) :
    Prompt.unpack (Spec.prompt p ++ rest) = .ok p := by
  obtain ⟨h1, wb⟩ := wf
  obtain ⟨hp, _⟩ := prelude_pdu p.fd 9 0 (Spec.promptParams p) rest wb (by omega)
  have w1 := wb.1
  rw [Prompt.unpack_eq, Spec.prompt, hp]
  show Prompt.parse (p.fd, specOctets p.fd ++ Spec.promptParams p) = _
  unfold Prompt.parse
  have hl : ¬ p.fd.headerLen ≥ (specOctets p.fd ++ Spec.promptParams p).length := by
    simp [specOctets_length p.fd w1, Spec.promptParams]
  have i0 := idx_params p.fd w1 (Spec.promptParams p) 0
  simp only [Nat.add_zero] at i0
  simp only [hl, ↓reduceIte, i0, bind, Except.bind, pure, Except.pure]
  simp only [Spec.promptParams, idx_one0, u8_toNat, prompt_ar p.respReq h1]
  have : p.respReq = 0 ∨ p.respReq = 1 := by omega
  rcases this with h | h <;> simp [enumOf, h] <;> (cases p; simp_all)

theorem C06_prompt_eq_repack (p : Prompt) (wf : WFPrompt p) (rest : Bytes) :
    ∃ p', (p.pack >>= fun b => Prompt.unpack (b ++ rest)) = .ok p' ∧ p' = p ∧
      p.beq p' = true ∧ p'.beq p = true ∧ p'.pack = p.pack := by
  refine ⟨p, ?_, rfl, ?_, ?_, rfl⟩
  · rw [C06_prompt_pack_exact p wf]; exact C06_prompt_roundtrip p wf rest
  all_goals simp [Prompt.beq, beq_refl]

theorem C06_prompt_documented (d : Bytes) : Documented (Prompt.unpack d) := Prompt.unpack_documented d

theorem C06_prompt_accept_sound (d : Bytes) (p : Prompt) (h : Prompt.unpack d = .ok p) (rest : Bytes) :
    p.packetLen ≤ d.length ∧ (p.fd.header.conf.crcFlag = 1 → Crc.crc16 (d.take p.packetLen) = 0) ∧
    Prompt.unpack (d.take p.packetLen ++ rest) = .ok p := by
  obtain ⟨_, _, _, h4, h5⟩ := Prompt.unpack_inv d p h
  exact ⟨h4, h5, Prompt.unpack_take d p h rest⟩


/-- **every strict prefix of a packed PDU is refused with `ValueError`** -/
theorem C06_prompt_truncated (x : Prompt) (wf : WFPrompt x) (k : Nat) (hk : k < (Spec.prompt x).length) :
    Prompt.unpack ((Spec.prompt x).take k) = .error .value := by
  rw [Prompt.unpack_eq]
  exact pdu_truncated _ x.fd _ _ _ wf.2 k hk

-- non-vacuity: Keep Alive response requested, CRC, 8-octet IDs, 4-octet sequence number
private def exPrompt : Prompt :=
  ⟨⟨⟨0, 0, 4, ⟨⟨8, 0x0102030405060708⟩, ⟨8, 0x1112131415161718⟩, ⟨4, 0xA1A2A3A4⟩, 0, 0, 1, 0, 1⟩⟩, 9⟩, 1⟩
example : WFPrompt exPrompt := by decide
example : Prompt.new ⟨⟨8, 0x0102030405060708⟩, ⟨8, 0x1112131415161718⟩, ⟨4, 0xA1A2A3A4⟩, 0, 0, 1, 1, 1⟩ 1 = .ok exPrompt := by rfl
example : C05.Spec.octets exPrompt.fd.header ++ [u8 exPrompt.fd.code] ++ Spec.promptParams exPrompt
    = [0x22, 0, 4, 0xF3, 1, 2, 3, 4, 5, 6, 7, 8, 0xA1, 0xA2, 0xA3, 0xA4, 0x11, 0x12, 0x13, 0x14, 0x15, 0x16, 0x17, 0x18,
       9, 0x80] := by decide

/-! ## Keep Alive (`C06_keepalive_*`) -/

/-- valid Keep Alive PDUs: every progress value of the selected FSS width (32 bits, 64 with the
    large-file flag), towards the sender, any configuration -/
def WFKeepAlive (k : KeepAlive) : Prop :=
  0 ≤ k.progress ∧ k.progress.toNat < 256 ^ fssWidth k.fd.header.conf.fileFlag ∧
  WFBase k.fd 12 1 (fssWidth k.fd.header.conf.fileFlag)

instance (k : KeepAlive) : Decidable (WFKeepAlive k) := by unfold WFKeepAlive; infer_instance

/-- the progress field of 727.0-B-5 §5.2.8, big-endian in the selected width -/
def Spec.keepAliveParams (k : KeepAlive) : Bytes :=
  beBytes (fssWidth k.fd.header.conf.fileFlag) k.progress.toNat

def Spec.keepAlive (k : KeepAlive) : Bytes := Spec.pdu k.fd (Spec.keepAliveParams k)

private theorem ka_plen (f c : Nat) : paramLenFor f c = fssWidth f + (if c = 1 then 2 else 0) := rfl

theorem C06_keepalive_new (c : PduConfig) (wf : WFConf c) (progress : Int) :
    ∃ k, KeepAlive.new c progress = .ok k ∧ k.progress = progress ∧
      k.fd.header.conf = { c with direction := 1 } ∧
      (0 ≤ progress → progress.toNat < 256 ^ fssWidth c.fileFlag → WFKeepAlive k) := by
  rw [KeepAlive.new_eq]
  have g : ¬ c.source.width ≠ c.dest.width := by have := wf.2.2.2.2.2.2.2.2; omega
  rw [if_neg g]
  refine ⟨_, rfl, rfl, rfl, ?_⟩
  intro h0 h1
  have := KeepAlive.paramLenFor_le c.fileFlag c.crcFlag
  refine ⟨h0, h1, ?_, rfl, rfl, rfl, rfl, ?_⟩
  · exact wf_dirHeader c wf _ _ (by omega) (by omega)
  · simp only [crcLen, ka_plen]; omega

/-- **pack = standard layout**, for every progress value of the full 32- / 64-bit range -/
theorem C06_keepalive_pack_exact (k : KeepAlive) (wf : WFKeepAlive k) : k.pack = .ok (Spec.keepAlive k) := by
  obtain ⟨h0, h1, w1, _, _, w4, _, _⟩ := wf
  unfold KeepAlive.pack
  rw [pack_spec k.fd w1 (by omega)]
  by_cases hf : k.fd.header.conf.fileFlag = 1
  · have hl : k.fd.header.largeFileFlagSet = true := by simp [PduHeader.largeFileFlagSet, hf]
    have hw : fssWidth k.fd.header.conf.fileFlag = 8 := by simp [fssWidth, hf]
    rw [hw] at h1
    simp only [hl, not_true_eq_false, ↓reduceIte, bind, Except.bind, packInt_fits 8 k.progress ⟨h0, h1⟩, pure,
      Except.pure, Spec.keepAlive, Spec.pdu, Spec.keepAliveParams, specOctets, hw]
  · have hl : k.fd.header.largeFileFlagSet = false := by simp [PduHeader.largeFileFlagSet, hf]
    have hw : fssWidth k.fd.header.conf.fileFlag = 4 := by simp [fssWidth, hf]
    rw [hw] at h1
    have g := Nak.fits4_le k.progress ⟨h0, h1⟩
    simp only [hl, Bool.false_eq_true, not_false_eq_true, ↓reduceIte, g, bind, Except.bind,
      packInt_fits 4 k.progress ⟨h0, h1⟩, pure, Except.pure, Spec.keepAlive, Spec.pdu, Spec.keepAliveParams,
      specOctets, hw]

/-- **a progress value that does not fit the selected width makes `pack` fail, never truncate**:
    `ValueError` above 2^32 − 1 without the large-file flag; `struct.error` for negative values and
    above 2^64 − 1 with the flag -/
theorem C06_keepalive_fss_overflow (k : KeepAlive) (wf : C05.WF k.fd.header) (hc : k.fd.code < 256)
    (h : k.progress < 0 ∨ 256 ^ fssWidth k.fd.header.conf.fileFlag ≤ k.progress.toNat) :
    k.pack = .error .value ∨ k.pack = .error .struct := by
  unfold KeepAlive.pack
  rw [pack_spec k.fd wf hc]
  have h256 : (256 : Nat) ^ 4 = 4294967296 := by decide
  by_cases hf : k.fd.header.conf.fileFlag = 1
  · have hl : k.fd.header.largeFileFlagSet = true := by simp [PduHeader.largeFileFlagSet, hf]
    have hw : fssWidth k.fd.header.conf.fileFlag = 8 := by simp [fssWidth, hf]
    rw [hw] at h
    right
    simp only [hl, not_true_eq_false, ↓reduceIte, bind, Except.bind, ((C06_directive_fss_overflow 8 k.progress).1 h)]
  · have hl : k.fd.header.largeFileFlagSet = false := by simp [PduHeader.largeFileFlagSet, hf]
    have hw : fssWidth k.fd.header.conf.fileFlag = 4 := by simp [fssWidth, hf]
    rw [hw] at h
    by_cases g : k.progress > 4294967295
    · left
      simp only [hl, Bool.false_eq_true, not_false_eq_true, ↓reduceIte, g, bind, Except.bind, throw, throwThe,
        MonadExceptOf.throw]
    · right
      have hneg : k.progress < 0 := by omega
      simp only [hl, Bool.false_eq_true, not_false_eq_true, ↓reduceIte, g, bind, Except.bind,
        packInt_neg 4 k.progress hneg]

theorem C06_keepalive_len (k : KeepAlive) (wf : WFKeepAlive k) :
    (Spec.keepAlive k).length = k.packetLen ∧
    k.fd.header.dataFieldLen = (Spec.keepAlive k).length - k.fd.header.headerLen ∧
    k.fd.header.dataFieldLen = k.packetLen - k.fd.header.headerLen ∧
    (Spec.keepAlive k).length
      = k.fd.header.headerLen + 1 + fssWidth k.fd.header.conf.fileFlag + crcLen k.fd.header.conf := by
  have hl : (Spec.keepAliveParams k).length = fssWidth k.fd.header.conf.fileFlag := by
    simp [Spec.keepAliveParams]
  have := pdu_len k.fd 12 1 (Spec.keepAliveParams k) (by rw [hl]; exact wf.2.2)
  rw [hl] at this
  exact this

theorem C06_keepalive_crc (k : KeepAlive) :
    (k.fd.header.conf.crcFlag = 1 →
      Spec.keepAlive k = (C05.Spec.octets k.fd.header ++ [u8 k.fd.code] ++ Spec.keepAliveParams k)
        ++ Crc.crcTrailer (C05.Spec.octets k.fd.header ++ [u8 k.fd.code] ++ Spec.keepAliveParams k) ∧
      Crc.crc16 (Spec.keepAlive k) = 0) ∧
    (k.fd.header.conf.crcFlag ≠ 1 →
      Spec.keepAlive k = C05.Spec.octets k.fd.header ++ [u8 k.fd.code] ++ Spec.keepAliveParams k) :=
  pdu_crc k.fd (Spec.keepAliveParams k)

/-- **round trip**, alone or followed by any further octets, for every progress value -/
theorem C06_keepalive_roundtrip (k : KeepAlive) (wf : WFKeepAlive k) (rest : Bytes) :
    KeepAlive.unpack (Spec.keepAlive k ++ rest) = .ok k := by
  obtain ⟨h0, h1, wb⟩ := wf
  have wb' : WFBase k.fd 12 1 (Spec.keepAliveParams k).length := by simpa [Spec.keepAliveParams] using wb
  obtain ⟨hp, _⟩ := prelude_pdu k.fd 12 1 (Spec.keepAliveParams k) rest wb' (by omega)
  have w1 := wb.1
  rw [KeepAlive.unpack_eq, Spec.keepAlive, hp]
  show KeepAlive.parse (k.fd, specOctets k.fd ++ Spec.keepAliveParams k) = _
  rw [KeepAlive.parse_ok _ _ (by simp [specOctets_length k.fd w1, Spec.keepAliveParams])]
  have := slice_params k.fd w1 (Spec.keepAliveParams k) 0 (fssWidth k.fd.header.conf.fileFlag)
  simp only [Nat.add_zero] at this
  rw [this]
  have e : slice (Spec.keepAliveParams k) 0 (fssWidth k.fd.header.conf.fileFlag) = Spec.keepAliveParams k := by
    unfold slice
    rw [List.drop_zero, List.take_of_length_le]
    simp [Spec.keepAliveParams]
  rw [e, Spec.keepAliveParams, beNat_beBytes _ _ h1, Int.toNat_of_nonneg h0]

theorem C06_keepalive_eq_repack (k : KeepAlive) (wf : WFKeepAlive k) (rest : Bytes) :
    ∃ k', (k.pack >>= fun b => KeepAlive.unpack (b ++ rest)) = .ok k' ∧ k' = k ∧
      k.beq k' = true ∧ k'.beq k = true ∧ k'.pack = k.pack := by
  refine ⟨k, ?_, rfl, ?_, ?_, rfl⟩
  · rw [C06_keepalive_pack_exact k wf]; exact C06_keepalive_roundtrip k wf rest
  all_goals simp [KeepAlive.beq, beq_refl]

/-- **the `file_flag` setter keeps the length consistent** (including the CRC trailer): afterwards
    the PDU is the one a fresh constructor call with the new flag gives -/
theorem C06_keepalive_set_file_flag (c : PduConfig) (progress : Int) (f : Nat) :
    (KeepAlive.new c progress >>= fun k => k.setFileFlag f) = KeepAlive.new { c with fileFlag := f } progress := by
  rw [KeepAlive.new_eq, KeepAlive.new_eq]
  by_cases g : c.source.width ≠ c.dest.width
  · have g' : ({ c with fileFlag := f } : PduConfig).source.width ≠ ({ c with fileFlag := f } : PduConfig).dest.width := g
    rw [if_pos g, if_pos g']
    rfl
  · have g' : ¬ ({ c with fileFlag := f } : PduConfig).source.width ≠ ({ c with fileFlag := f } : PduConfig).dest.width := g
    rw [if_neg g, if_neg g']
    simp only [bind, Except.bind, KeepAlive.setFileFlag_eq]

theorem C06_keepalive_documented (d : Bytes) : Documented (KeepAlive.unpack d) := KeepAlive.unpack_documented d

theorem C06_keepalive_accept_sound (d : Bytes) (k : KeepAlive) (h : KeepAlive.unpack d = .ok k) (rest : Bytes) :
    k.packetLen ≤ d.length ∧ (k.fd.header.conf.crcFlag = 1 → Crc.crc16 (d.take k.packetLen) = 0) ∧
    KeepAlive.unpack (d.take k.packetLen ++ rest) = .ok k := by
  obtain ⟨_, _, _, h4, h5⟩ := KeepAlive.unpack_inv d k h
  exact ⟨h4, h5, KeepAlive.unpack_take d k h rest⟩


/-- **every strict prefix of a packed PDU is refused with `ValueError`** -/
theorem C06_keepalive_truncated (x : KeepAlive) (wf : WFKeepAlive x) (k : Nat) (hk : k < (Spec.keepAlive x).length) :
    KeepAlive.unpack ((Spec.keepAlive x).take k) = .error .value := by
  rw [KeepAlive.unpack_eq]
  exact pdu_truncated _ x.fd _ _ _ (by simpa [Spec.keepAliveParams] using wf.2.2) k hk

-- non-vacuity: 64-bit progress with every octet different (a byte-order error would show), CRC
private def exKa : KeepAlive :=
  ⟨⟨⟨0, 0, 11, ⟨⟨1, 0x21⟩, ⟨1, 0x43⟩, ⟨2, 0x6587⟩, 1, 1, 1, 1, 0⟩⟩, 12⟩, 0x0102030405060708⟩
example : WFKeepAlive exKa := by decide
example : KeepAlive.new ⟨⟨1, 0x21⟩, ⟨1, 0x43⟩, ⟨2, 0x6587⟩, 1, 1, 1, 0, 0⟩ 0x0102030405060708 = .ok exKa := by rfl
example : C05.Spec.octets exKa.fd.header ++ [u8 exKa.fd.code] ++ Spec.keepAliveParams exKa
    = [0x2F, 0, 11, 0x01, 0x21, 0x65, 0x87, 0x43, 12, 1, 2, 3, 4, 5, 6, 7, 8] := by decide
example : WFKeepAlive ⟨⟨⟨0, 0, 5, ⟨⟨1, 0⟩, ⟨1, 0⟩, ⟨1, 0⟩, 0, 0, 0, 1, 0⟩⟩, 12⟩, 4294967295⟩ := by decide

/-! ## NAK (`C06_nak_*`) -/

instance (w : Nat) (l : List Nak.Seg) : Decidable (SegsFit w l) := by unfold SegsFit; infer_instance

/-- valid NAK PDUs: start / end of scope and every offset of every segment request over the full
    range of the selected FSS width, any number of segment requests that fits the 16-bit data-field
    length, towards the sender, any configuration -/
def WFNak (k : Nak) : Prop :=
  fits (fssWidth k.fd.header.conf.fileFlag) k.startOfScope ∧
  fits (fssWidth k.fd.header.conf.fileFlag) k.endOfScope ∧
  SegsFit (fssWidth k.fd.header.conf.fileFlag) k.segs ∧
  WFBase k.fd 8 1 (2 * fssWidth k.fd.header.conf.fileFlag * (k.segs.length + 1))

instance (k : Nak) : Decidable (WFNak k) := by unfold WFNak; infer_instance

/-- the parameters of 727.0-B-5 §5.2.6: start of scope, end of scope, then the segment requests in
    list order, every value big-endian in the selected width -/
def Spec.nakParams (k : Nak) : Bytes :=
  specPair (fssWidth k.fd.header.conf.fileFlag) k.startOfScope k.endOfScope ++
  specSegs (fssWidth k.fd.header.conf.fileFlag) k.segs

def Spec.nak (k : Nak) : Bytes := Spec.pdu k.fd (Spec.nakParams k)

private theorem nakParams_length (k : Nak) :
    (Spec.nakParams k).length = 2 * fssWidth k.fd.header.conf.fileFlag * (k.segs.length + 1) := by
  simp only [Spec.nakParams, List.length_append, specPair_length, specSegs_length]
  rw [Nat.mul_add, Nat.mul_comm k.segs.length]; omega

private theorem nak_plen (f c n : Nat) :
    nakParamLen f c n + 1 = 1 + 2 * fssWidth f * (n + 1) + (if c = 1 then 2 else 0) := by
  unfold nakParamLen; omega

/-- the constructor accepts every configuration, scope and list of segment requests whose
    encoding fits the 16-bit data-field length, and yields a valid PDU -/
theorem C06_nak_new (c : PduConfig) (wf : WFConf c) (s e : Int) (segs : List Nak.Seg)
    (hn : nakParamLen c.fileFlag c.crcFlag segs.length + 1 ≤ 65535) :
    ∃ k, Nak.new c s e segs = .ok k ∧ k.startOfScope = s ∧ k.endOfScope = e ∧ k.segs = segs ∧
      k.fd.header.conf = { c with direction := 1 } ∧
      (fits (fssWidth c.fileFlag) s → fits (fssWidth c.fileFlag) e → SegsFit (fssWidth c.fileFlag) segs → WFNak k) := by
  rw [Nak.new_eq c s e segs wf.2.1]
  have g : ¬ (c.source.width ≠ c.dest.width ∨ 65535 < nakParamLen c.fileFlag c.crcFlag segs.length + 1) := by
    have := wf.2.2.2.2.2.2.2.2; omega
  rw [if_neg g]
  refine ⟨_, rfl, rfl, rfl, rfl, rfl, ?_⟩
  intro h1 h2 h3
  refine ⟨h1, h2, h3, ?_, rfl, rfl, rfl, rfl, ?_⟩
  · exact wf_dirHeader c wf _ _ (by omega) (by omega)
  · simp only [crcLen]; exact nak_plen _ _ _

/-- more segment requests than the 16-bit data-field length can describe are refused (`ValueError`)
    by the constructor -/
theorem C06_nak_too_many (c : PduConfig) (hf : c.fileFlag < 2) (s e : Int) (segs : List Nak.Seg)
    (hn : 65535 < nakParamLen c.fileFlag c.crcFlag segs.length + 1) :
    Nak.new c s e segs = .error .value := by
  rw [Nak.new_eq c s e segs hf, if_pos (Or.inr hn)]

private theorem nak_segW (k : Nak) : segW k.fd.header.largeFileFlagSet = fssWidth k.fd.header.conf.fileFlag :=
  segW_eq k.fd

/-- **pack = standard layout**, for every valid NAK PDU (any number of segment requests, offsets
    over the full 32- / 64-bit range) in every header configuration -/
theorem C06_nak_pack_exact (k : Nak) (wf : WFNak k) : k.pack = .ok (Spec.nak k) := by
  obtain ⟨h1, h2, h3, w1, _, _, w4, _, _⟩ := wf
  unfold Nak.pack
  rw [← nak_segW] at h1 h2 h3
  rw [pack_spec k.fd w1 (by omega), packPair_ok _ _ _ h1 h2, packSegs_spec _ _ h3]
  simp only [bind, Except.bind, pure, Except.pure, Spec.nak, Spec.pdu, Spec.nakParams, specOctets, nak_segW,
    List.append_assoc]

/-- **an offset that does not fit the selected width — start or end of scope, or either offset of
    any segment request — makes `pack` fail, never truncate**: `ValueError` above 2^32 − 1 without
    the large-file flag; `struct.error` for negative values and above 2^64 − 1 with the flag -/
theorem C06_nak_fss_overflow (k : Nak) (wf : C05.WF k.fd.header) (hc : k.fd.code < 256)
    (h : ¬ fits (fssWidth k.fd.header.conf.fileFlag) k.startOfScope ∨
         ¬ fits (fssWidth k.fd.header.conf.fileFlag) k.endOfScope ∨
         ¬ SegsFit (fssWidth k.fd.header.conf.fileFlag) k.segs) :
    k.pack = .error .value ∨ k.pack = .error .struct := by
  unfold Nak.pack
  rw [pack_spec k.fd wf hc]
  rw [← nak_segW] at h
  by_cases hs : fits (segW k.fd.header.largeFileFlagSet) k.startOfScope ∧
      fits (segW k.fd.header.largeFileFlagSet) k.endOfScope
  · have h3 : ¬ SegsFit (segW k.fd.header.largeFileFlagSet) k.segs := by
      rcases h with h | h | h
      · exact absurd hs.1 h
      · exact absurd hs.2 h
      · exact h
    rw [packPair_ok _ _ _ hs.1 hs.2]
    rcases packSegs_overflow _ _ h3 with e | e <;> simp [bind, Except.bind, e]
  · have : ¬ fits (segW k.fd.header.largeFileFlagSet) k.startOfScope ∨
        ¬ fits (segW k.fd.header.largeFileFlagSet) k.endOfScope := by
      by_cases h1 : fits (segW k.fd.header.largeFileFlagSet) k.startOfScope
      · right; intro h2; exact hs ⟨h1, h2⟩
      · left; exact h1
    rcases packPair_overflow _ _ _ this with e | e <;> simp [bind, Except.bind, e]

/-- **length clauses**: two FSS fields for the scope and two per segment request (+2 with CRC) -/
theorem C06_nak_len (k : Nak) (wf : WFNak k) :
    (Spec.nak k).length = k.packetLen ∧
    k.fd.header.dataFieldLen = (Spec.nak k).length - k.fd.header.headerLen ∧
    k.fd.header.dataFieldLen = k.packetLen - k.fd.header.headerLen ∧
    (Spec.nak k).length = k.fd.header.headerLen + 1
      + 2 * fssWidth k.fd.header.conf.fileFlag * (k.segs.length + 1) + crcLen k.fd.header.conf := by
  have hl := nakParams_length k
  have := pdu_len k.fd 8 1 (Spec.nakParams k) (by rw [hl]; exact wf.2.2.2)
  rw [hl] at this
  exact this

theorem C06_nak_crc (k : Nak) :
    (k.fd.header.conf.crcFlag = 1 →
      Spec.nak k = (C05.Spec.octets k.fd.header ++ [u8 k.fd.code] ++ Spec.nakParams k)
        ++ Crc.crcTrailer (C05.Spec.octets k.fd.header ++ [u8 k.fd.code] ++ Spec.nakParams k) ∧
      Crc.crc16 (Spec.nak k) = 0) ∧
    (k.fd.header.conf.crcFlag ≠ 1 →
      Spec.nak k = C05.Spec.octets k.fd.header ++ [u8 k.fd.code] ++ Spec.nakParams k) :=
  pdu_crc k.fd (Spec.nakParams k)

private theorem fd_eta (fd : FileDirective) (n : Nat) (h : fd.header.dataFieldLen = n) :
    ({ fd with header := { fd.header with dataFieldLen := n } } : FileDirective) = fd := by
  cases fd with
  | mk hd c => cases hd; simp_all

/-- **round trip**: decoding the packed PDU returns the identical PDU — same header, scope, and
    the same segment requests in the same order — for any number of requests and every configuration -/
theorem C06_nak_roundtrip (k : Nak) (wf : WFNak k) : Nak.unpack (Spec.nak k) = .ok k := by
  obtain ⟨h1, h2, h3, wb⟩ := wf
  have hpl := nakParams_length k
  have wb' : WFBase k.fd 8 1 (Spec.nakParams k).length := by rw [hpl]; exact wb
  obtain ⟨hp, hlen⟩ := prelude_pdu k.fd 8 1 (Spec.nakParams k) [] wb' (by omega)
  rw [List.append_nil] at hp
  have w1 := wb.1
  have hw := Nak.fssWidth_pos k.fd.header.conf.fileFlag
  generalize hwd : fssWidth k.fd.header.conf.fileFlag = w at *
  rw [Nak.unpack_eq, Spec.nak, hp]
  show Nak.parse _ (k.fd, specOctets k.fd ++ Spec.nakParams k) = _
  rw [Nak.parse_eq, hwd]
  have hsl := specOctets_length k.fd w1
  have hplen : (specOctets k.fd ++ Spec.nakParams k).length = k.fd.headerLen + 2 * w + k.segs.length * (2 * w) := by
    simp only [List.length_append, hsl, hpl, Nat.mul_add, Nat.mul_comm k.segs.length]; omega
  have c1 : ¬ k.fd.code ≠ 8 := by have := wb.2.2.2.1; omega
  have c2 : ¬ (Spec.pdu k.fd (Spec.nakParams k)).length > k.fd.packetLen := by omega
  have c3 : ¬ (specOctets k.fd ++ Spec.nakParams k).length < k.fd.headerLen + 2 * w := by omega
  rw [if_neg c1, if_neg c2, if_neg c3]
  -- the scope
  have hP : Spec.nakParams k = beBytes w k.startOfScope.toNat ++ beBytes w k.endOfScope.toNat ++ specSegs w k.segs := by
    simp only [Spec.nakParams, specPair, hwd]
  have s1 : slice (specOctets k.fd ++ Spec.nakParams k) k.fd.headerLen (k.fd.headerLen + w)
      = beBytes w k.startOfScope.toNat := by
    have := slice_params k.fd w1 (Spec.nakParams k) 0 w
    simp only [Nat.add_zero] at this
    rw [this, hP]
    have := slice_eq_of_append [] (beBytes w k.startOfScope.toNat) (beBytes w k.endOfScope.toNat ++ specSegs w k.segs)
    simpa using this
  have s2 : slice (specOctets k.fd ++ Spec.nakParams k) (k.fd.headerLen + w) (k.fd.headerLen + w + w)
      = beBytes w k.endOfScope.toNat := by
    have := slice_params k.fd w1 (Spec.nakParams k) w (w + w)
    rw [← Nat.add_assoc] at this
    rw [this, hP]
    have := slice_eq_of_append (beBytes w k.startOfScope.toNat) (beBytes w k.endOfScope.toNat) (specSegs w k.segs)
    simpa using this
  have hscope : scopeOf k.fd (specOctets k.fd ++ Spec.nakParams k) = (k.startOfScope, k.endOfScope) := by
    simp only [scopeOf, hwd, s1, s2, beNat_beBytes _ _ h1.2, beNat_beBytes _ _ h2.2,
      toNat_cast_fits _ _ h1, toNat_cast_fits _ _ h2]
  rw [hscope]
  by_cases hs : k.segs = []
  · have c4 : (specOctets k.fd ++ Spec.nakParams k).length = k.fd.headerLen + 2 * w := by
      rw [hplen, hs]; simp
    rw [if_pos c4]
    cases k
    simp_all
  · have hpos : 0 < k.segs.length := List.length_pos_iff.mpr hs
    have c4 : ¬ (specOctets k.fd ++ Spec.nakParams k).length = k.fd.headerLen + 2 * w := by
      rw [hplen]
      have : 0 < k.segs.length * (2 * w) := Nat.mul_pos hpos (by omega)
      omega
    have c5 : ¬ ((specOctets k.fd ++ Spec.nakParams k).length - (k.fd.headerLen + 2 * w)) % (2 * w) ≠ 0 := by
      rw [hplen]
      have : k.fd.headerLen + 2 * w + k.segs.length * (2 * w) - (k.fd.headerLen + 2 * w) = k.segs.length * (2 * w) := by
        omega
      rw [this, Nat.mul_mod_left]
      omega
    rw [if_neg c4, if_neg c5]
    have hd : (specOctets k.fd ++ Spec.nakParams k).drop (k.fd.headerLen + 2 * w) = specSegs w k.segs := by
      rw [drop_params k.fd w1, hP]
      apply List.drop_left'
      simp; omega
    have hsw : segW k.fd.header.largeFileFlagSet = w := by rw [nak_segW, hwd]
    rw [hd, ← hsw, parseSegs_spec _ _ (by rw [hsw]; exact h3)]
    simp only [bind, Except.bind]
    have hff : k.fd.header.conf.fileFlag < 2 := w1.2.2.2.2.1
    rw [calcLen_eq' k.fd _ hff]
    have hdl : k.fd.header.dataFieldLen
        = nakParamLen k.fd.header.conf.fileFlag k.fd.header.conf.crcFlag k.segs.length + 1 := by
      rw [nak_plen, hwd]; have := wb.2.2.2.2.2; simpa [crcLen] using this
    have g : ¬ 65535 < nakParamLen k.fd.header.conf.fileFlag k.fd.header.conf.crcFlag k.segs.length + 1 := by
      have := w1.2.2.2.2.2.2.2.1; omega
    rw [if_neg g, fd_eta k.fd _ hdl]

/-- **trailing octets are refused** (by design, `ValueError`): a NAK PDU followed by anything is not
    decoded — in particular further octets are never folded into segment requests -/
theorem C06_nak_trailing_refused (k : Nak) (wf : WFNak k) (rest : Bytes) (hr : rest ≠ []) :
    Nak.unpack (Spec.nak k ++ rest) = .error .value := by
  obtain ⟨_, _, _, wb⟩ := wf
  have wb' : WFBase k.fd 8 1 (Spec.nakParams k).length := by rw [nakParams_length k]; exact wb
  obtain ⟨hp, hlen⟩ := prelude_pdu k.fd 8 1 (Spec.nakParams k) rest wb' (by omega)
  apply Nak.unpack_longer _ _ _ hp
  have : 0 < rest.length := List.length_pos_iff.mpr hr
  simp only [List.length_append, Spec.nak]; omega

theorem C06_nak_eq_repack (k : Nak) (wf : WFNak k) :
    ∃ k', (k.pack >>= fun b => Nak.unpack b) = .ok k' ∧ k' = k ∧
      k.beq k' = true ∧ k'.beq k = true ∧ k'.pack = k.pack := by
  refine ⟨k, ?_, rfl, ?_, ?_, rfl⟩
  · rw [C06_nak_pack_exact k wf]; exact C06_nak_roundtrip k wf
  all_goals simp [Nak.beq, beq_refl]

/-- **the `segment_requests` setter keeps the length consistent**: afterwards the PDU is the one a
    fresh constructor call with the new list gives (or both are refused as too long) -/
theorem C06_nak_set_segs (c : PduConfig) (hf : c.fileFlag < 2) (s e : Int) (l l' : List Nak.Seg)
    (hn : nakParamLen c.fileFlag c.crcFlag l.length + 1 ≤ 65535) :
    (Nak.new c s e l >>= fun k => k.setSegs l') = Nak.new c s e l' := by
  rw [Nak.new_eq c s e l hf, Nak.new_eq c s e l' hf]
  by_cases g : c.source.width ≠ c.dest.width
  · rw [if_pos (Or.inl g), if_pos (Or.inl g)]; rfl
  · rw [if_neg (by omega)]
    simp only [bind, Except.bind]
    rw [Nak.setSegs_eq _ _ hf]
    by_cases g2 : 65535 < nakParamLen c.fileFlag c.crcFlag l'.length + 1
    · rw [if_pos g2, if_pos (Or.inr g2)]
    · rw [if_neg g2, if_neg (by omega)]

/-- **the `file_flag` setter keeps the length consistent**: afterwards the PDU is the one a fresh
    constructor call with the new flag gives -/
theorem C06_nak_set_file_flag (c : PduConfig) (hf : c.fileFlag < 2) (s e : Int) (l : List Nak.Seg) (f : Nat)
    (hf' : f < 2) (hn : nakParamLen c.fileFlag c.crcFlag l.length + 1 ≤ 65535) :
    (Nak.new c s e l >>= fun k => k.setFileFlag f) = Nak.new { c with fileFlag := f } s e l := by
  rw [Nak.new_eq c s e l hf, Nak.new_eq { c with fileFlag := f } s e l hf']
  by_cases g : c.source.width ≠ c.dest.width
  · rw [if_pos (Or.inl g), if_pos (Or.inl g)]; rfl
  · rw [if_neg (by omega)]
    simp only [bind, Except.bind]
    rw [Nak.setFileFlag_eq _ _ hf']
    by_cases g2 : 65535 < nakParamLen f c.crcFlag l.length + 1
    · rw [if_pos g2, if_pos (Or.inr g2)]
    · have g3 : ¬ (c.source.width ≠ c.dest.width ∨ 65535 < nakParamLen f c.crcFlag l.length + 1) := by omega
      rw [if_neg g2, if_neg g3]

/-- packed length of a NAK PDU with `n` segment requests in configuration `c` -/
def nakPacketLen (c : PduConfig) (n : Nat) : Nat :=
  c.headerLen + 1 + 2 * fssWidth c.fileFlag * (n + 1) + crcLen c

/-- **`get_max_seg_reqs_for_max_packet_size_and_pdu_cfg`**: refused (`ValueError`) when not even
    the PDU without segment requests fits; otherwise the result `n` is the largest number of
    segment requests whose PDU stays within the maximum: `len(n) ≤ max < len(n + 1)` -/
theorem C06_nak_max_seg_reqs (c : PduConfig) (hf : c.fileFlag < 2) (hc : c.crcFlag < 2) (m : Int) :
    (m < (nakPacketLen c 0 : Nat) → maxSegReqs m c = .error .value) ∧
    ((nakPacketLen c 0 : Nat) ≤ m →
      ∃ n, maxSegReqs m c = .ok n ∧ (nakPacketLen c n : Nat) ≤ m ∧ m < (nakPacketLen c (n + 1) : Nat)) := by
  have hbase : c.headerLen + 1 + (if c.crcFlag ≠ 0 then 2 else 0)
      + (if c.fileFlag = 0 then 8 else if c.fileFlag = 1 then 16 else 0) = nakPacketLen c 0 := by
    unfold nakPacketLen crcLen fssWidth
    have : c.fileFlag = 0 ∨ c.fileFlag = 1 := by omega
    have : c.crcFlag = 0 ∨ c.crcFlag = 1 := by omega
    rcases ‹c.fileFlag = 0 ∨ c.fileFlag = 1› with h | h <;> rcases ‹c.crcFlag = 0 ∨ c.crcFlag = 1› with h' | h' <;>
      simp [h, h']
  unfold maxSegReqs
  rw [hbase]
  have hstep : ∀ n, nakPacketLen c n = nakPacketLen c 0 + n * (2 * fssWidth c.fileFlag) := by
    intro n
    unfold nakPacketLen
    rw [Nat.mul_add, Nat.mul_comm n]; omega
  constructor
  · intro h
    simp [h, bind, Except.bind, throw, throwThe, MonadExceptOf.throw]
  · intro h
    have g : ¬ m < (nakPacketLen c 0 : Nat) := by omega
    obtain ⟨r, hr⟩ : ∃ r : Nat, m - (nakPacketLen c 0 : Nat) = r := ⟨(m - (nakPacketLen c 0 : Nat)).toNat, by omega⟩
    have hm : m = (nakPacketLen c 0 : Nat) + (r : Int) := by omega
    have : c.fileFlag = 0 ∨ c.fileFlag = 1 := by omega
    rcases this with h0 | h1
    · have hw : fssWidth c.fileFlag = 4 := by simp [fssWidth, h0]
      refine ⟨r / 8, ?_, ?_, ?_⟩
      · simp [g, h0, hr, bind, Except.bind, pure, Except.pure]
      · rw [hstep, hw, hm]; push_cast; omega
      · rw [hstep, hw, hm]; push_cast; omega
    · have hw : fssWidth c.fileFlag = 8 := by simp [fssWidth, h1]
      refine ⟨r / 16, ?_, ?_, ?_⟩
      · simp [g, h1, hr, bind, Except.bind, pure, Except.pure]
      · rw [hstep, hw, hm]; push_cast; omega
      · rw [hstep, hw, hm]; push_cast; omega

/-- the decoder fails, for any octet string whatever, only with `ValueError`,
    `UnsupportedCfdpVersion` or `InvalidCrc` — never with `struct.error` -/
theorem C06_nak_documented (d : Bytes) : Documented (Nak.unpack d) := Nak.unpack_documented d

/-- what acceptance means: the buffer is *exactly* the declared PDU, the directive code is NAK, the
    CRC-16 over it is zero when the flag is set, the data-field length matches the number of decoded
    segment requests, and every decoded offset fits the selected width -/
theorem C06_nak_accept_sound (d : Bytes) (k : Nak) (h : Nak.unpack d = .ok k) :
    d.length = k.packetLen ∧ k.fd.code = 8 ∧ (k.fd.header.conf.crcFlag = 1 → Crc.crc16 d = 0) ∧
    k.fd.header.dataFieldLen
      = nakParamLen k.fd.header.conf.fileFlag k.fd.header.conf.crcFlag k.segs.length + 1 ∧
    SegsFit (fssWidth k.fd.header.conf.fileFlag) k.segs := by
  obtain ⟨_, _, h3, h4, h5, h6, h7⟩ := Nak.unpack_inv d k h
  exact ⟨h3, h4, h5, h6, h7⟩


/-- **every strict prefix of a packed PDU is refused with `ValueError`** -/
theorem C06_nak_truncated (x : Nak) (wf : WFNak x) (k : Nat) (hk : k < (Spec.nak x).length) :
    Nak.unpack ((Spec.nak x).take k) = .error .value := by
  rw [Nak.unpack_eq]
  exact pdu_truncated _ x.fd _ _ _ (by rw [nakParams_length x]; exact wf.2.2.2) k hk

-- non-vacuity: two segment requests, 64-bit offsets with every octet different, CRC, 2-octet IDs
private def exNak : Nak :=
  ⟨⟨⟨0, 0, 51, ⟨⟨2, 0x0102⟩, ⟨2, 0x0304⟩, ⟨1, 9⟩, 0, 1, 1, 1, 0⟩⟩, 8⟩, 0x0102030405060708, 0xFFFFFFFFFFFFFFFF,
    [(0, 0), (0x1112131415161718, 0x2122232425262728)]⟩
example : WFNak exNak := by decide
example : Nak.new ⟨⟨2, 0x0102⟩, ⟨2, 0x0304⟩, ⟨1, 9⟩, 0, 1, 1, 0, 0⟩ 0x0102030405060708 0xFFFFFFFFFFFFFFFF
    [(0, 0), (0x1112131415161718, 0x2122232425262728)] = .ok exNak := by rfl
example : C05.Spec.octets exNak.fd.header ++ [u8 exNak.fd.code] ++ Spec.nakParams exNak
    = [0x2B, 0, 51, 0x10, 1, 2, 9, 3, 4, 8,
       1, 2, 3, 4, 5, 6, 7, 8, 0xFF, 0xFF, 0xFF, 0xFF, 0xFF, 0xFF, 0xFF, 0xFF,
       0, 0, 0, 0, 0, 0, 0, 0, 0, 0, 0, 0, 0, 0, 0, 0,
       0x11, 0x12, 0x13, 0x14, 0x15, 0x16, 0x17, 0x18, 0x21, 0x22, 0x23, 0x24, 0x25, 0x26, 0x27, 0x28] := by decide
example : WFNak ⟨⟨⟨0, 0, 9, ⟨⟨1, 0⟩, ⟨1, 0⟩, ⟨1, 0⟩, 0, 0, 0, 1, 0⟩⟩, 8⟩, 0, 4294967295, []⟩ := by decide
example : ¬ fits 4 4294967296 := by decide
example : ¬ fits 8 (-1) := by decide

/-! ## Injectivity of the four encodings (`C06_*_pack_injective`) -/

/-- **the Ack encoding is injective on the domain**: two valid PDUs with the same octets are the same
    PDU (corollary of `C06_ack_roundtrip`) -/
theorem C06_ack_pack_injective (a b : Ack) (wa : WFAck a) (wb : WFAck b)
    (h : Spec.ack a = Spec.ack b) : a = b := by
  have r1 := C06_ack_roundtrip a wa []
  have r2 := C06_ack_roundtrip b wb []
  simp only [List.append_nil] at r1 r2
  rw [h, r2] at r1
  exact (Except.ok.inj r1).symm

/-- the same for the library's `pack()`, as an iff: valid Ack PDUs are equal exactly when they pack to
    the same octets -/
theorem C06_ack_pack_eq_iff (a b : Ack) (wa : WFAck a) (wb : WFAck b) : a.pack = b.pack ↔ a = b := by
  constructor
  · intro h
    rw [C06_ack_pack_exact a wa, C06_ack_pack_exact b wb] at h
    exact C06_ack_pack_injective a b wa wb (Except.ok.inj h)
  · rintro rfl; rfl

-- non-vacuity: two distinct valid Ack PDUs (they differ in the transaction status only) with different octets
example : WFAck exAck ∧ WFAck { exAck with status := 3 } ∧ Spec.ack exAck ≠ Spec.ack { exAck with status := 3 } := by
  have w1 : WFAck exAck := by decide
  have w2 : WFAck { exAck with status := 3 } := by decide
  exact ⟨w1, w2, fun h => absurd (C06_ack_pack_injective _ _ w1 w2 h) (by decide)⟩

/-- **the Prompt encoding is injective on the domain**: two valid PDUs with the same octets are the same
    PDU (corollary of `C06_prompt_roundtrip`) -/
theorem C06_prompt_pack_injective (a b : Prompt) (wa : WFPrompt a) (wb : WFPrompt b)
    (h : Spec.prompt a = Spec.prompt b) : a = b := by
  have r1 := C06_prompt_roundtrip a wa []
  have r2 := C06_prompt_roundtrip b wb []
  simp only [List.append_nil] at r1 r2
  rw [h, r2] at r1
  exact (Except.ok.inj r1).symm

/-- the same for the library's `pack()`, as an iff: valid Prompt PDUs are equal exactly when they pack to
    the same octets -/
theorem C06_prompt_pack_eq_iff (a b : Prompt) (wa : WFPrompt a) (wb : WFPrompt b) : a.pack = b.pack ↔ a = b := by
  constructor
  · intro h
    rw [C06_prompt_pack_exact a wa, C06_prompt_pack_exact b wb] at h
    exact C06_prompt_pack_injective a b wa wb (Except.ok.inj h)
  · rintro rfl; rfl

-- non-vacuity: two distinct valid Prompt PDUs (they differ in the response-required bit only) with different octets
example : WFPrompt exPrompt ∧ WFPrompt { exPrompt with respReq := 0 } ∧ Spec.prompt exPrompt ≠ Spec.prompt { exPrompt with respReq := 0 } := by
  have w1 : WFPrompt exPrompt := by decide
  have w2 : WFPrompt { exPrompt with respReq := 0 } := by decide
  exact ⟨w1, w2, fun h => absurd (C06_prompt_pack_injective _ _ w1 w2 h) (by decide)⟩

/-- **the Keep Alive encoding is injective on the domain**: two valid PDUs with the same octets are the same
    PDU (corollary of `C06_keepalive_roundtrip`) -/
theorem C06_keepalive_pack_injective (a b : KeepAlive) (wa : WFKeepAlive a) (wb : WFKeepAlive b)
    (h : Spec.keepAlive a = Spec.keepAlive b) : a = b := by
  have r1 := C06_keepalive_roundtrip a wa []
  have r2 := C06_keepalive_roundtrip b wb []
  simp only [List.append_nil] at r1 r2
  rw [h, r2] at r1
  exact (Except.ok.inj r1).symm

/-- the same for the library's `pack()`, as an iff: valid Keep Alive PDUs are equal exactly when they pack to
    the same octets -/
theorem C06_keepalive_pack_eq_iff (a b : KeepAlive) (wa : WFKeepAlive a) (wb : WFKeepAlive b) : a.pack = b.pack ↔ a = b := by
  constructor
  · intro h
    rw [C06_keepalive_pack_exact a wa, C06_keepalive_pack_exact b wb] at h
    exact C06_keepalive_pack_injective a b wa wb (Except.ok.inj h)
  · rintro rfl; rfl

-- non-vacuity: two distinct valid Keep Alive PDUs (they differ in the last progress octet only) with different octets
example : WFKeepAlive exKa ∧ WFKeepAlive { exKa with progress := 0x0102030405060709 } ∧ Spec.keepAlive exKa ≠ Spec.keepAlive { exKa with progress := 0x0102030405060709 } := by
  have w1 : WFKeepAlive exKa := by decide
  have w2 : WFKeepAlive { exKa with progress := 0x0102030405060709 } := by decide
  exact ⟨w1, w2, fun h => absurd (C06_keepalive_pack_injective _ _ w1 w2 h) (by decide)⟩

/-- **the Nak encoding is injective on the domain**: two valid PDUs with the same octets are the same
    PDU (corollary of `C06_nak_roundtrip`) -/
theorem C06_nak_pack_injective (a b : Nak) (wa : WFNak a) (wb : WFNak b)
    (h : Spec.nak a = Spec.nak b) : a = b := by
  have r1 := C06_nak_roundtrip a wa
  have r2 := C06_nak_roundtrip b wb
  rw [h, r2] at r1
  exact (Except.ok.inj r1).symm

/-- the same for the library's `pack()`, as an iff: valid Nak PDUs are equal exactly when they pack to
    the same octets -/
theorem C06_nak_pack_eq_iff (a b : Nak) (wa : WFNak a) (wb : WFNak b) : a.pack = b.pack ↔ a = b := by
  constructor
  · intro h
    rw [C06_nak_pack_exact a wa, C06_nak_pack_exact b wb] at h
    exact C06_nak_pack_injective a b wa wb (Except.ok.inj h)
  · rintro rfl; rfl

-- non-vacuity: two distinct valid Nak PDUs (they differ in the last octet of the last segment request only) with different octets
example : WFNak exNak ∧ WFNak { exNak with segs := [(0, 0), (0x1112131415161718, 0x2122232425262729)] } ∧ Spec.nak exNak ≠ Spec.nak { exNak with segs := [(0, 0), (0x1112131415161718, 0x2122232425262729)] } := by
  have w1 : WFNak exNak := by decide
  have w2 : WFNak { exNak with segs := [(0, 0), (0x1112131415161718, 0x2122232425262729)] } := by decide
  exact ⟨w1, w2, fun h => absurd (C06_nak_pack_injective _ _ w1 w2 h) (by decide)⟩

end SpVerif.Props.C06Fixed
