import SpVerif.Model.SeqCount
import SpVerif.Model.SpacePacket
import SpVerif.Proofs.SeqCount
/-!
# C19 — Sequence counters count modulo 2^width, stay in range and survive restarts

Property theorems only. The in-memory provider is `Mem`; the file-backed provider is a state machine
over the file (`Option (List Char)`, ASCII) with the steps `call` (`get_and_increment` / `next`),
`current`, `restart` (a new instance on the same file) and `delete` (file removed under a live
instance). `Spec.nth w n = n % 2^w` is what the statement prescribes for the n-th call.

The code rewrites the file from offset 0 **without truncating it**, so after a wrap (`"16383\n"`
overwritten by `"0\n"`) the file is `"0\n383\n"`. The theorems below show that this is harmless:
the text written always ends in `"\n"`, hence the first line is exactly the number written, whatever
stale characters follow (`C19_file_valid_call` holds for every previous ASCII content).

**Domain: ASCII file content.** The model's `isDigit` / `isSpace` / `readline` are CPython's
`str.isdigit()` / `str.rstrip()` / text-mode `readline()` on ASCII text only (CPython accepts every
Unicode decimal digit: a UTF-8 file `"٣\n"` reads as 3; non-ASCII white space is stripped;
undecodable octets raise `UnicodeDecodeError`; and "one character = one octet" fails for the
overwrite). Every theorem below that says what a reader obtains from a file it did not write itself
therefore carries the hypothesis `Ascii s` / `AsciiFile f` (`∀ c ∈ s, c.toNat < 128`), and
`C19_ascii_step` / `C19_ascii_trace` show that the providers never leave that domain. Theorems that
start from a file the provider created (`C19_file_valid_create`, `C19_file_valid_fresh`,
`C19_file_seq`) need no such hypothesis; `C19_restart_step` / `C19_restart` (a new instance does
not touch an existing file) do not depend on what the content is.
-/
namespace SpVerif.Props.C19
open SpVerif SpVerif.SeqCount

/-- what the statement prescribes: the n-th call (counted from 0) returns `n mod 2^w` -/
def Spec.nth (w n : Nat) : Nat := n % 2 ^ w

/-! ## In-memory provider -/

private theorem memRun_from (w k n : Nat) :
    memRun ⟨k % 2 ^ w, w⟩ n = (List.range' k n).map (Spec.nth w) := by
  induction n generalizing k with
  | zero => simp [memRun]
  | succ n ih =>
    have := ih (k + 1)
    simp only [memRun, Mem.next, Mem.getAndIncrement, List.range'_succ, List.map_cons, Nat.mod_add_mod]
    rw [this]; rfl

/-- **the n-th call returns n mod 2^w**: the list of values returned by `n` successive calls on a
    new provider of any width, for every `n` (in particular beyond `2^w`). -/
theorem C19_mem (w n : Nat) : memRun (Mem.new w) n = (List.range n).map (Spec.nth w) := by
  have := memRun_from w 0 n
  rw [Nat.zero_mod] at this
  rw [List.range_eq_range']
  exact this

/-- pointwise form of `C19_mem` -/
theorem C19_mem_nth (w n k : Nat) (h : k < n) : (memRun (Mem.new w) n)[k]? = some (k % 2 ^ w) := by
  rw [C19_mem]; simp [h, Spec.nth]

/-- the first call returns 0 -/
theorem C19_mem_first (w n : Nat) : (memRun (Mem.new w) (n + 1)).head? = some 0 := by
  simp [memRun, Mem.new, Mem.next, Mem.getAndIncrement]

/-- every returned value lies in `[0, 2^w - 1]` -/
theorem C19_mem_range (w n v : Nat) (h : v ∈ memRun (Mem.new w) n) : v < 2 ^ w := by
  rw [C19_mem] at h
  simp [Spec.nth] at h
  obtain ⟨a, _, rfl⟩ := h
  exact Nat.mod_lt _ (Nat.two_pow_pos w)

/-- `__next__` is `get_and_increment` -/
theorem C19_mem_next (m : Mem) : m.next = m.getAndIncrement := rfl

private theorem pow_le_16384 (w : Nat) (h : w ≤ 14) : 2 ^ w ≤ 16384 :=
  Nat.pow_le_pow_right (by decide) h

/-- a value below `2^w`, `w ≤ 14`, is accepted as a packet sequence count (`PacketSeqCtrl`) -/
theorem C19_acceptable (w v flags : Nat) (hw : w ≤ 14) (hv : v < 2 ^ w) :
    SpacePacket.Psc.new flags (v : Int) = .ok ⟨flags, v⟩ := by
  have := pow_le_16384 w hw
  have h : ¬ ((v : Int) > 16383 ∨ (v : Int) < 0) := by omega
  simp [SpacePacket.Psc.new, h]

/-! ## Decimal text -/

/-! ## The ASCII domain of the file-backed provider -/

/-- the content is ASCII text (the domain on which the model's text primitives are CPython's) -/
def Ascii (s : List Char) : Prop := ∀ c ∈ s, c.toNat < 128

instance (s : List Char) : Decidable (Ascii s) := by unfold Ascii; infer_instance

/-- the file is absent or holds ASCII text -/
def AsciiFile (f : File) : Prop := ∀ s, f = some s → Ascii s

instance (f : File) : Decidable (AsciiFile f) := by
  cases f with
  | none => exact isTrue (fun s h => by cases h)
  | some t =>
    exact decidable_of_iff (Ascii t) ⟨fun h s e => by cases e; exact h, fun h => h t rfl⟩

example : Ascii ['1', '6', '3', '8', '3', '\n'] := by decide
example : ¬ Ascii ['٣', '\n'] := by decide

private theorem ascii_render (n : Nat) : Ascii (render n ++ ['\n']) := by
  intro c hc
  rcases List.mem_append.1 hc with h | h
  · have hd := render_all_digit n c h
    simp only [isDigit, Bool.and_eq_true, decide_eq_true_eq] at hd
    omega
  · simp only [List.mem_singleton] at h
    subst h; decide

/-- **the providers never leave the ASCII domain**: whatever step is taken on an ASCII (or absent)
    file, the file afterwards is ASCII (or absent) — what is written is decimal digits and `"\n"`,
    and a stale tail is a suffix of the old content -/
theorem C19_ascii_step (w : Nat) (f : File) (st : Step) (ha : AsciiFile f) : AsciiFile (step w f st).2 := by
  cases st with
  | current => exact ha
  | delete => intro s h; cases h
  | restart =>
    cases f with
    | none => intro s h; cases h; decide
    | some t => exact ha
  | call =>
    cases f with
    | none => intro s h; cases h
    | some t =>
      simp only [step, getAndIncrement]
      split
      · exact ha
      · intro s h
        cases h
        intro c hc
        simp only [overwrite] at hc
        rcases List.mem_append.1 hc with h | h
        · exact ascii_render _ c h
        · exact ha t rfl c (List.mem_of_mem_drop h)

/-- every file in the trace of any history from an ASCII (or absent) file is ASCII (or absent) -/
theorem C19_ascii_trace (w : Nat) (f : File) (steps : List Step) (ha : AsciiFile f) :
    ∀ p ∈ trace w f steps, AsciiFile p.2 := by
  induction steps generalizing f with
  | nil => simp [trace]
  | cons s ss ih =>
    intro p hp
    simp only [trace, List.mem_cons] at hp
    rcases hp with rfl | hp
    · exact C19_ascii_step w f s ha
    · exact ih _ (C19_ascii_step w f s ha) p hp

/-- `int(str(n)) = n`, and `str(n)` is accepted by `isdigit` -/
theorem C19_render_parse (n : Nat) : parseDec (render n) = some n := parseDec_render n

/-- the line a reader examines: the characters before the first LF / CR, without trailing white space -/
def firstLine (s : List Char) : List Char :=
  ((s.takeWhile (fun c => !isNl c)).reverse.dropWhile isSpace).reverse

private theorem first_line (s : List Char) : rstrip (readline s) = firstLine s := by
  rw [rstrip_readline, rstrip_eq_reverse]; rfl

/-- the operational `readline` + `rstrip` of the model compute `firstLine` (stated on ASCII text,
    where the model's `readline` / `rstrip` are CPython's) -/
theorem C19_first_line (s : List Char) (_ha : Ascii s) : rstrip (readline s) = firstLine s := first_line s

/-! ## File-backed provider: validity of the stored state -/

/-- decidable well-formedness of the file: it exists and its first line is a decimal number `< 2^w` -/
def WF (w : Nat) (f : File) : Bool :=
  match f with
  | none => false
  | some s => isDigitStr (firstLine s) && decide (parseNat (firstLine s) < 2 ^ w)

/-- "the file holds a valid count": a reader obtains a value, and it is in range -/
def Valid (w : Nat) (f : File) : Prop := ∃ v, current w f = .ok v ∧ v < 2 ^ w

private theorem checkCount_char (w : Nat) (line : List Char) :
    checkCount w line =
      if isDigitStr (rstrip line) = true ∧ parseNat (rstrip line) < 2 ^ w
      then .ok (parseNat (rstrip line)) else .error .value := by
  have hp : 0 < 2 ^ w := Nat.two_pow_pos w
  unfold checkCount
  cases hd : isDigitStr (rstrip line)
  · simp [hd]
  · by_cases hr : parseNat (rstrip line) < 2 ^ w
    · have : ¬ parseNat (rstrip line) > 2 ^ w - 1 := by omega
      simp [hd, hr, this]
    · have : parseNat (rstrip line) > 2 ^ w - 1 := by omega
      simp [hd, hr, this]

/-- acceptance, exactly (ASCII content): a reader obtains `v` iff the first line is a non-empty
    string of ASCII digits whose decimal value is `v`, and `v < 2^w` -/
theorem C19_accept_iff (w : Nat) (s : List Char) (_ha : Ascii s) (v : Nat) :
    current w (some s) = .ok v ↔
      (firstLine s ≠ [] ∧ (∀ c ∈ firstLine s, isDigit c = true) ∧ parseNat (firstLine s) = v ∧ v < 2 ^ w) := by
  simp only [current, checkCount_char, first_line]
  constructor
  · intro h
    split at h
    · rename_i hc
      cases h
      have hd := hc.1
      simp [isDigitStr, List.all_eq_true] at hd
      exact ⟨hd.1, hd.2, rfl, hc.2⟩
    · cases h
  · rintro ⟨h1, h2, h3, h4⟩
    have hd : isDigitStr (firstLine s) = true := by
      simp [isDigitStr, List.all_eq_true]; exact ⟨h1, h2⟩
    subst h3
    simp [hd, h4]

theorem C19_wf_iff (w : Nat) (f : File) (_ha : AsciiFile f) : WF w f = true ↔ Valid w f := by
  cases f with
  | none => simp [WF, Valid, current]
  | some s =>
    simp only [WF, Valid, current, checkCount_char, first_line, Bool.and_eq_true, decide_eq_true_eq]
    constructor
    · intro h; exact ⟨_, by simp [h], h.2⟩
    · rintro ⟨v, h, _⟩
      split at h
      · assumption
      · cases h

example : WF 14 (some ['1', '6', '3', '8', '3', '\n']) = true := by decide
example : WF 14 (some ['0', '\n', '3', '8', '3', '\n']) = true := by decide   -- stale tail after the wrap
example : WF 14 (some ['0', '0', '7', ' ', '\t', '\r', '\n', 'x']) = true := by decide
example : WF 14 (some ['1', '6', '3', '8', '4', '\n']) = false := by decide
example : WF 3 (some [' ', '7']) = false := by decide

/-- a new provider on a missing file creates `"0\n"`: a reader obtains 0 -/
theorem C19_file_valid_create (w : Nat) : current w (init none) = .ok 0 := by
  have h : init none = some (render 0 ++ '\n' :: []) := by
    rw [render]; simp [init, create, digitChar]
  rw [h]
  exact current_canon w 0 [] (Nat.two_pow_pos w)

/-- **after every successful call the file holds a valid count, whatever it held before** (any
    stale tail, any earlier content): a reader obtains `(v + 1) mod 2^w`. This is where "overwrite
    without truncation" is shown harmless. -/
theorem C19_file_valid_call (w : Nat) (f f' : File) (_ha : AsciiFile f) (v : Nat)
    (h : getAndIncrement w f = (.ok v, f')) :
    current w f' = .ok ((v + 1) % 2 ^ w) ∧ Valid w f' := by
  have hc := call_ok_current w f f' v h
  obtain ⟨s, _, hg⟩ := call_of_current w f v hc
  rw [hg] at h
  have hf : f' = _ := (Prod.mk.inj h).2.symm
  have hlt : (v + 1) % 2 ^ w < 2 ^ w := Nat.mod_lt _ (Nat.two_pow_pos w)
  have := current_canon w ((v + 1) % 2 ^ w) (s.drop ((render ((v + 1) % 2 ^ w)).length + 1)) hlt
  rw [← hf] at this
  exact ⟨this, _, this, hlt⟩

/-- a failing call or a `current()` leaves the file as it is -/
theorem C19_file_error_unchanged (w : Nat) (f : File) (_ha : AsciiFile f) (e : Err) (h : current w f = .error e) :
    getAndIncrement w f = (.error e, f) := call_err w f e h

/-- validity is preserved by every step other than deleting the file -/
theorem C19_file_valid_step (w : Nat) (f : File) (ha : AsciiFile f) (s : Step) (hs : s ≠ .delete) (hv : Valid w f) :
    Valid w (step w f s).2 := by
  obtain ⟨v, hc, hlt⟩ := hv
  cases s with
  | delete => exact absurd rfl hs
  | current => exact ⟨v, hc, hlt⟩
  | restart =>
    cases f with
    | none => simp [current] at hc
    | some t => exact ⟨v, hc, hlt⟩
  | call =>
    obtain ⟨t, _, hg⟩ := call_of_current w f v hc
    have := (C19_file_valid_call w f _ ha v hg).2
    simpa [step, hg] using this

/-- **invariant over any history**: from a valid file, after every step of any sequence of calls,
    `current()`s and restarts, the file holds a valid count -/
theorem C19_file_valid (w : Nat) (f : File) (ha : AsciiFile f) (steps : List Step) (hd : Step.delete ∉ steps)
    (hv : Valid w f) : ∀ p ∈ trace w f steps, Valid w p.2 := by
  induction steps generalizing f with
  | nil => simp [trace]
  | cons s ss ih =>
    have hs : s ≠ .delete := fun h => hd (by simp [h])
    have hss : Step.delete ∉ ss := fun h => hd (by simp [h])
    have h1 := C19_file_valid_step w f ha s hs hv
    intro p hp
    simp only [trace, List.mem_cons] at hp
    rcases hp with rfl | hp
    · exact h1
    · exact ih _ (C19_ascii_step w f s ha) hss h1 p hp

/-- the same from scratch: first instance on a missing file, then any history -/
theorem C19_file_valid_fresh (w : Nat) (steps : List Step) (hd : Step.delete ∉ steps) :
    ∀ p ∈ trace w (init none) steps, Valid w p.2 :=
  C19_file_valid w _ (by decide) steps hd ⟨0, C19_file_valid_create w, Nat.two_pow_pos w⟩

/-! ## File-backed provider: the sequence, with restarts anywhere -/

/-- expected outputs when `k` calls have been made so far: a call returns `k mod 2^w`, `current()`
    shows the same value without consuming it, a restart returns nothing and changes nothing -/
def Spec.outs (w : Nat) : Nat → List Step → List Out
  | _, [] => []
  | k, .call :: ss => .val (Spec.nth w k) :: Spec.outs w (k + 1) ss
  | k, .current :: ss => .val (Spec.nth w k) :: Spec.outs w k ss
  | k, _ :: ss => .none :: Spec.outs w k ss

/-- **the sequence continues exactly, across restarts at any inter-call point**: if a reader of the
    file would obtain `k mod 2^w`, then for every sequence of calls, `current()`s and restarts the
    outputs are those of the modulo counter -/
theorem C19_file_trace (w : Nat) (f : File) (ha : AsciiFile f) (k : Nat) (steps : List Step)
    (hd : Step.delete ∉ steps) (hc : current w f = .ok (k % 2 ^ w)) :
    (trace w f steps).map (·.1) = Spec.outs w k steps := by
  induction steps generalizing f k with
  | nil => simp [trace, Spec.outs]
  | cons s ss ih =>
    have hss : Step.delete ∉ ss := fun h => hd (by simp [h])
    cases s with
    | delete => exact absurd (by simp) hd
    | current =>
      simp only [trace, List.map_cons, Spec.outs, step, hc, Out.ofPy, Spec.nth]
      rw [ih f ha k hss hc]
    | restart =>
      cases f with
      | none => simp [current] at hc
      | some t =>
        simp only [trace, List.map_cons, Spec.outs, step, init]
        rw [ih (some t) ha k hss hc]
    | call =>
      obtain ⟨t, _, hg⟩ := call_of_current w f _ hc
      have hn := (C19_file_valid_call w f _ ha _ hg).1
      rw [Nat.mod_add_mod] at hn
      have ha' : AsciiFile (step w f .call).2 := C19_ascii_step w f .call ha
      simp only [step, hg] at ha'
      simp only [trace, List.map_cons, Spec.outs, step, hg, Out.ofPy, Spec.nth]
      rw [ih _ ha' (k + 1) hss (by simpa [hg] using hn)]

private theorem outs_calls (w k n : Nat) :
    Spec.outs w k (List.replicate n .call) = (List.range' k n).map (fun i => Out.val (i % 2 ^ w)) := by
  induction n generalizing k with
  | zero => simp [Spec.outs]
  | succ n ih => simp [List.replicate_succ, Spec.outs, ih, List.range'_succ, Spec.nth]

/-- **starting from creation, the n-th call returns n mod 2^w** (all `n`, all `w`) -/
theorem C19_file_seq (w n : Nat) :
    (trace w (init none) (List.replicate n .call)).map (·.1)
      = (List.range n).map (fun i => Out.val (i % 2 ^ w)) := by
  have hd : Step.delete ∉ List.replicate n Step.call := by
    intro h; have := List.eq_of_mem_replicate h; cases this
  rw [C19_file_trace w _ (by decide) 0 _ hd (by rw [Nat.zero_mod]; exact C19_file_valid_create w), outs_calls,
    List.range_eq_range']

/-- every value returned by the file-backed provider is in range -/
theorem C19_file_range (w : Nat) (f f' : File) (_ha : AsciiFile f) (v : Nat) (h : getAndIncrement w f = (.ok v, f')) :
    v < 2 ^ w := current_ok_lt w f v (call_ok_current w f f' v h)

/-- **re-instantiating is the identity**: a provider instance holds no state besides the width and
    the file, so a new instance on an existing file changes nothing -/
theorem C19_restart_step (w : Nat) (s : List Char) : step w (some s) .restart = (.none, some s) := rfl

/-- outputs that carry a value or an error (restarts produce none) -/
def observed (t : List (Out × File)) : List Out := (t.map (·.1)).filter (· ≠ .none)

private theorem observed_cons_keep (p : Out × File) (t : List (Out × File)) (h : p.1 ≠ .none) :
    observed (p :: t) = p.1 :: observed t := by
  simp [observed, h]

private theorem observed_cons_drop (p : Out × File) (t : List (Out × File)) (h : p.1 = .none) :
    observed (p :: t) = observed t := by
  simp [observed, h]

private theorem step_isSome (w : Nat) (f : File) (s : Step) (hs : s ≠ .delete) (hf : f.isSome = true) :
    (step w f s).2.isSome = true := by
  cases f with
  | none => simp at hf
  | some t =>
    cases s with
    | delete => exact absurd rfl hs
    | current => rfl
    | restart => rfl
    | call =>
      simp only [step, getAndIncrement]
      split <;> rfl

private theorem step_not_none (w : Nat) (f : File) (s : Step) (hs : s = .call ∨ s = .current) :
    (step w f s).1 ≠ .none := by
  rcases hs with rfl | rfl
  · simp only [step]; cases (getAndIncrement w f).1 <;> simp [Out.ofPy]
  · simp only [step]; cases current w f <;> simp [Out.ofPy]

/-- **restarts are unobservable**: on an existing file, any history with restarts inserted at any
    points yields the same values, the same errors and the same final file as the history without them -/
theorem C19_restart (w : Nat) (f : File) (steps : List Step) (hd : Step.delete ∉ steps)
    (hf : f.isSome = true) :
    observed (trace w f steps) = observed (trace w f (steps.filter (· ≠ .restart)))
    ∧ finalFile w f steps = finalFile w f (steps.filter (· ≠ .restart)) := by
  induction steps generalizing f with
  | nil => simp [trace, finalFile]
  | cons s ss ih =>
    have hs : s ≠ .delete := fun h => hd (by simp [h])
    have hss : Step.delete ∉ ss := fun h => hd (by simp [h])
    cases s with
    | delete => exact absurd rfl hs
    | restart =>
      cases f with
      | none => simp at hf
      | some t =>
        obtain ⟨h1, h2⟩ := ih (some t) hss hf
        have e : (Step.restart :: ss).filter (· ≠ .restart) = ss.filter (· ≠ .restart) := by simp
        rw [e]
        simp only [trace, finalFile]
        rw [observed_cons_drop _ _ (by rfl)]
        exact ⟨h1, h2⟩
    | call =>
      obtain ⟨h1, h2⟩ := ih _ hss (step_isSome w f .call hs hf)
      have hn := step_not_none w f .call (Or.inl rfl)
      have e : (Step.call :: ss).filter (· ≠ .restart) = .call :: ss.filter (· ≠ .restart) := by simp
      rw [e]
      simp only [trace, finalFile]
      rw [observed_cons_keep _ _ hn, observed_cons_keep _ _ hn, h1]
      exact ⟨rfl, h2⟩
    | current =>
      obtain ⟨h1, h2⟩ := ih _ hss (step_isSome w f .current hs hf)
      have hn := step_not_none w f .current (Or.inr rfl)
      have e : (Step.current :: ss).filter (· ≠ .restart) = .current :: ss.filter (· ≠ .restart) := by simp
      rw [e]
      simp only [trace, finalFile]
      rw [observed_cons_keep _ _ hn, observed_cons_keep _ _ hn, h1]
      exact ⟨rfl, h2⟩

/-! ## Rejection -/

/-- a missing file is reported with `FileNotFoundError` by both entry points -/
theorem C19_reject_absent (w : Nat) :
    getAndIncrement w none = (.error .fileNotFound, none) ∧ current w none = .error .fileNotFound :=
  ⟨rfl, rfl⟩

/-- **unreadable or out-of-range ASCII content is reported with `ValueError`**, the file is left
    as it is: first line empty (empty file, blank line), containing a character that is not a digit
    (sign, inner or leading blank, letter, exponent …), or denoting a value `≥ 2^w`. (The ASCII
    hypothesis is essential for the claim about the code: CPython reads the non-ASCII `"٣\n"` as 3.) -/
theorem C19_reject (w : Nat) (s : List Char) (_ha : Ascii s)
    (h : firstLine s = [] ∨ (∃ c ∈ firstLine s, isDigit c = false) ∨ 2 ^ w ≤ parseNat (firstLine s)) :
    current w (some s) = .error .value ∧ getAndIncrement w (some s) = (.error .value, some s) := by
  have hc : current w (some s) = .error .value := by
    simp only [current, checkCount_char, first_line]
    have : ¬ (isDigitStr (firstLine s) = true ∧ parseNat (firstLine s) < 2 ^ w) := by
      rintro ⟨h1, h2⟩
      simp [isDigitStr, List.all_eq_true] at h1
      rcases h with h | ⟨c, hc, hcd⟩ | h
      · exact h1.1 h
      · have := h1.2 c hc; simp [this] at hcd
      · omega
    simp [this]
  exact ⟨hc, call_err w _ _ hc⟩

/-- no other failure exists: an existing ASCII file fails only with `ValueError`, a missing one only
    with `FileNotFoundError` (undecodable octets, `UnicodeDecodeError`, are outside the ASCII domain) -/
theorem C19_errors (w : Nat) (f : File) (_ha : AsciiFile f) (e : Err) (h : current w f = .error e) :
    (f = none ∧ e = .fileNotFound) ∨ (f ≠ none ∧ e = .value) := by
  cases f with
  | none => simp [current] at h; exact Or.inl ⟨rfl, h.symm⟩
  | some s =>
    simp only [current, checkCount_char] at h
    split at h
    · cases h
    · cases h; exact Or.inr ⟨by simp, rfl⟩

/-! ## The concrete history the statement worries about: wrap with a stale tail -/

example : Out.ofPy (current 14 (some ['0', '\n', '3', '8', '3', '\n'])) = .val 0 := by decide
example : Out.ofPy (current 14 (some ['-', '1'])) = .err .value := by decide
example : Out.ofPy (current 14 (some [])) = .err .value := by decide
example : Out.ofPy (current 1 (some ['2', '\n'])) = .err .value := by decide

/-- width 14, file `"16383\n"`: the call returns 16383 and leaves `"0\n383\n"` — the stale digits stay
    in the file, behind the newline -/
example : getAndIncrement 14 (some ['1', '6', '3', '8', '3', '\n'])
    = (.ok 16383, some ['0', '\n', '3', '8', '3', '\n']) := by
  have h : current 14 (some ['1', '6', '3', '8', '3', '\n']) = .ok 16383 :=
    (C19_accept_iff 14 _ (by decide) 16383).2 (by decide)
  obtain ⟨s, hs, hg⟩ := call_of_current 14 _ 16383 h
  cases hs
  have r0 : render 0 = ['0'] := by rw [render]; simp [digitChar]
  rw [hg]
  simp [r0]

end SpVerif.Props.C19
