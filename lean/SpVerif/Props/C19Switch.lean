import SpVerif.Props.C19
/-!
# C19 — histories in which the width is changed (and `count` is assigned)

`Props/C19.lean` proves the statement for a provider whose width never changes. Here the width is part
of the state: the in-memory provider is `MemS` driven by any list of `MemOp` (`call`,
`setWidth w` = the documented `max_bit_width` setter, `setCount c` = assignment to the public `count`
attribute, any integer), with `get_and_increment` as it is at /repo HEAD (reduce, hand out, store the
successor reduced). The file-backed provider is `wstep` over `(width in force, file)` with the
alphabet `WStep` (`op` call / current / restart / delete, `setWidth w`, `createNew`).

All theorems are for every history, every width, every count; nothing is bounded.
-/
namespace SpVerif.Props.C19
open SpVerif SpVerif.SeqCount

/-! ## In-memory provider: one call -/

private theorem mod_pos (w : Nat) : (0 : Int) < ((2 ^ w : Nat) : Int) := by
  have := Nat.two_pow_pos w; omega

private theorem call_val_cast (m : MemS) : ((m.call.1 : Nat) : Int) = m.count % ((2 ^ m.width : Nat) : Int) := by
  have h := Int.emod_nonneg m.count (Int.ne_of_gt (mod_pos m.width))
  simp only [MemS.call, MemS.modulus] at *
  omega

private theorem call_val_lt (m : MemS) : m.call.1 < 2 ^ m.width := by
  have h := Int.emod_lt_of_pos m.count (mod_pos m.width)
  have h2 := call_val_cast m
  omega

private theorem call_nat (c w : Nat) :
    MemS.call ⟨(c : Int), w⟩ = (c % 2 ^ w, ⟨(((c % 2 ^ w + 1) % 2 ^ w : Nat) : Int), w⟩) := by
  simp only [MemS.call, MemS.modulus]
  norm_cast

private theorem call_state (m : MemS) :
    m.call.2 = ⟨(((m.call.1 + 1) % 2 ^ m.width : Nat) : Int), m.width⟩ := by
  have h := call_val_cast m
  have e : m.call.2 = ⟨(((m.call.1 : Nat) : Int) + 1) % ((2 ^ m.width : Nat) : Int), m.width⟩ := by
    rw [h]; rfl
  rw [e]; norm_cast

/-- **one call, any state** (any integer in `count`, any width): the value handed out is
    `count mod 2^width` (the toNat in the model loses nothing), it is `< 2^width`, and the provider
    then stands at `(value + 1) mod 2^width` with the same width -/
theorem C19_mem_switch_call (m : MemS) :
    ((m.call.1 : Nat) : Int) = m.count % ((2 ^ m.width : Nat) : Int)
    ∧ m.call.1 < 2 ^ m.width
    ∧ m.call.2 = ⟨(((m.call.1 + 1) % 2 ^ m.width : Nat) : Int), m.width⟩ :=
  ⟨call_val_cast m, call_val_lt m, call_state m⟩

example : (MemS.call ⟨-1, 3⟩).1 = 7 := by decide            -- Python: (-1) % 8 == 7
example : (MemS.call ⟨5, 2⟩).1 = 1 := by decide
example : (MemS.call ⟨20000, 14⟩) = (3616, ⟨3617, 14⟩) := by decide

/-- a count that fits the width (`0 ≤ count < 2^width`) is handed out as it is -/
private theorem call_fit (m : MemS) (h0 : 0 ≤ m.count) (h1 : m.count < ((2 ^ m.width : Nat) : Int)) :
    m.call.1 = m.count.toNat := by
  have h := call_val_cast m
  rw [Int.emod_eq_of_lt h0 h1] at h
  omega

/-! ## Histories: positions -/

private theorem memFinal_append (m : MemS) (a b : List MemOp) :
    memFinal m (a ++ b) = memFinal (memFinal m a) b := by
  induction a generalizing m with
  | nil => rfl
  | cons x a ih => simp [memFinal, ih]

/-- the output at position `i` is the output of the step taken from the state reached after the first
    `i` operations -/
private theorem memTrace_getElem (m : MemS) (ops : List MemOp) (i : Nat) :
    (memTrace m ops)[i]? = ops[i]?.map (fun op => (memStep (memFinal m (ops.take i)) op).1) := by
  induction ops generalizing m i with
  | nil => simp [memTrace]
  | cons op ops ih =>
    cases i with
    | zero => simp [memTrace, memFinal]
    | succ i => simp [memTrace, memFinal, ih]

private theorem memFinal_take_succ (m : MemS) (ops : List MemOp) (i : Nat) (op : MemOp) (h : ops[i]? = some op) :
    memFinal m (ops.take (i + 1)) = (memStep (memFinal m (ops.take i)) op).2 := by
  rw [List.take_add_one, memFinal_append, h]
  rfl

private theorem widthAfter_step (m : MemS) (op : MemOp) (ops : List MemOp) :
    widthAfter m.width (op :: ops) = widthAfter (memStep m op).2.width ops := by
  cases op <;> simp [widthAfter, memStep, MemS.call]

/-- **the width in force** at any point of a history is the argument of the last `setWidth` before it
    (the initial width if there is none): calls and `count` assignments never change it -/
theorem C19_mem_switch_width (m : MemS) (ops : List MemOp) :
    (memFinal m ops).width = widthAfter m.width ops := by
  induction ops generalizing m with
  | nil => rfl
  | cons op ops ih => rw [widthAfter_step, memFinal, ih]

example : widthAfter 3 [.call, .setWidth 2, .setCount 99, .call] = 2 := by decide

/-! ## (a) range -/

/-- **every value returned by a call, in every history, from every state, is in the range of the width
    in force at that call** — `< 2^w` where `w` is the last width set before the call — and, when that
    width is at most 14, it is accepted as packet sequence count by the `PacketSeqCtrl` model.
    (`ops` is any list of calls, width changes and `count` assignments, with any integers.) -/
theorem C19_mem_switch_range (m : MemS) (ops : List MemOp) (i : Nat) (h : ops[i]? = some .call) :
    ∃ v, (memTrace m ops)[i]? = some (some v)
      ∧ v < 2 ^ widthAfter m.width (ops.take i)
      ∧ (widthAfter m.width (ops.take i) ≤ 14 →
          ∀ flags, SpacePacket.Psc.new flags (v : Int) = .ok ⟨flags, v⟩) := by
  refine ⟨(memFinal m (ops.take i)).call.1, ?_, ?_, ?_⟩
  · rw [memTrace_getElem, h]; rfl
  · rw [← C19_mem_switch_width]; exact call_val_lt _
  · intro hw flags
    rw [← C19_mem_switch_width] at hw
    exact C19_acceptable _ _ flags hw (call_val_lt _)

/-- the same from a new provider -/
theorem C19_mem_switch_range_fresh (w : Nat) (ops : List MemOp) (i : Nat) (h : ops[i]? = some .call) :
    ∃ v, (memTrace (MemS.new w) ops)[i]? = some (some v) ∧ v < 2 ^ widthAfter w (ops.take i) := by
  obtain ⟨v, h1, h2, _⟩ := C19_mem_switch_range (MemS.new w) ops i h
  exact ⟨v, h1, h2⟩

-- width 3, five calls, width 2, a call; `count = 2^64 + 3` assigned, a call; `count = -1`, width 14, a call
example : memTrace (MemS.new 3) [.call, .call, .call, .call, .call, .setWidth 2, .call, .setCount 18446744073709551619,
      .call, .setCount (-1), .setWidth 14, .call]
    = [some 0, some 1, some 2, some 3, some 4, none, some 1, none, some 3, none, none, some 16383] := by decide

/-! ## (b) successor -/

/-- **two consecutive calls (no `setWidth`, no `count` assignment between them) return `v` and
    `(v + 1) mod 2^w`**, `w` the width in force — at any position of any history from any state -/
theorem C19_mem_switch_succ (m : MemS) (ops : List MemOp) (i : Nat)
    (h0 : ops[i]? = some .call) (h1 : ops[i + 1]? = some .call) :
    ∃ v, (memTrace m ops)[i]? = some (some v)
      ∧ (memTrace m ops)[i + 1]? = some (some ((v + 1) % 2 ^ widthAfter m.width (ops.take i))) := by
  refine ⟨(memFinal m (ops.take i)).call.1, ?_, ?_⟩
  · rw [memTrace_getElem, h0]; rfl
  · rw [memTrace_getElem, h1, memFinal_take_succ m ops i _ h0, ← C19_mem_switch_width]
    simp only [memStep, Option.map_some]
    rw [call_state, call_nat, Nat.mod_mod]

/-- `n` calls in a row from any state: `v, v+1, v+2, …` modulo `2^w`, `v = count mod 2^w` -/
theorem C19_mem_switch_calls (m : MemS) (n : Nat) :
    memTrace m (List.replicate n .call) = (List.range n).map (fun i => some ((m.call.1 + i) % 2 ^ m.width)) := by
  induction n generalizing m with
  | zero => rfl
  | succ n ih =>
    have hv := call_val_lt m
    rw [List.replicate_succ, memTrace, ih, List.range_succ_eq_map, List.map_cons, List.map_map]
    simp only [memStep]
    congr 1
    · simp [Nat.mod_eq_of_lt hv]
    · apply List.map_congr_left
      intro i _
      rw [call_state m, call_nat]
      simp only [Function.comp, Nat.mod_mod, Nat.mod_add_mod]
      congr 2; omega

/-- on a new provider whose width is never changed, the model of HEAD and the model of `Props/C19.lean`
    (which hands out the stored count as it is) return the same values -/
theorem C19_mem_switch_agrees (w n : Nat) :
    memTrace (MemS.new w) (List.replicate n .call) = (memRun (Mem.new w) n).map some := by
  rw [C19_mem_switch_calls, C19_mem]
  have h0 : (MemS.call ⟨0, w⟩).1 = 0 := by
    have := call_nat 0 w
    simp only [Nat.zero_mod] at this
    exact congrArg Prod.fst this
  simp only [MemS.new, h0, Nat.zero_add, List.map_map]
  rfl

/-! ## (c) what a width change does to the sequence -/

/-- **the count fits the new width: the counter continues where it stood** — the call after
    `max_bit_width = w'` returns exactly the count -/
theorem C19_mem_switch_fits (m : MemS) (w' : Nat) (h0 : 0 ≤ m.count) (h1 : m.count < ((2 ^ w' : Nat) : Int)) :
    memTrace m [.setWidth w', .call] = [none, some m.count.toNat] := by
  simp only [memTrace, memStep]
  rw [call_fit { m with width := w' } h0 h1]

/-- **the count does not fit (or anything else): the call returns `count mod 2^w'`**, in range -/
theorem C19_mem_switch_nofit (m : MemS) (w' : Nat) :
    ∃ v, memTrace m [.setWidth w', .call] = [none, some v]
      ∧ (v : Int) = m.count % ((2 ^ w' : Nat) : Int) ∧ v < 2 ^ w' := by
  refine ⟨(MemS.call { m with width := w' }).1, rfl, ?_, ?_⟩
  · exact call_val_cast { m with width := w' }
  · exact call_val_lt { m with width := w' }

example : memTrace ⟨5, 3⟩ [.setWidth 4, .call] = [none, some 5] := by decide      -- fits: continues with 5
example : memTrace ⟨5, 3⟩ [.setWidth 2, .call] = [none, some 1] := by decide      -- does not fit: 5 mod 4

/-- inside a history: a call returns `v` under width `w`, the width is set to `w'`, the next call returns
    `((v + 1) mod 2^w) mod 2^w'` — which **is** `(v + 1) mod 2^w`, the value the counter stood at, whenever
    that fits `w'` (always when `w' ≥ w`) -/
theorem C19_mem_switch_continue (m : MemS) (ops : List MemOp) (i w' : Nat)
    (h0 : ops[i]? = some .call) (h1 : ops[i + 1]? = some (.setWidth w')) (h2 : ops[i + 2]? = some .call) :
    ∃ v, (memTrace m ops)[i]? = some (some v)
      ∧ (memTrace m ops)[i + 2]? = some (some ((v + 1) % 2 ^ widthAfter m.width (ops.take i) % 2 ^ w'))
      ∧ ((v + 1) % 2 ^ widthAfter m.width (ops.take i) < 2 ^ w' →
          (memTrace m ops)[i + 2]? = some (some ((v + 1) % 2 ^ widthAfter m.width (ops.take i)))) := by
  have key : (memTrace m ops)[i + 2]?
      = some (some (((memFinal m (ops.take i)).call.1 + 1) % 2 ^ widthAfter m.width (ops.take i) % 2 ^ w')) := by
    rw [memTrace_getElem, h2, memFinal_take_succ m ops (i + 1) _ h1, memFinal_take_succ m ops i _ h0,
      ← C19_mem_switch_width]
    simp only [memStep, Option.map_some]
    rw [call_state, call_nat]
  refine ⟨(memFinal m (ops.take i)).call.1, ?_, key, ?_⟩
  · rw [memTrace_getElem, h0]; rfl
  · intro hlt
    rw [key, Nat.mod_eq_of_lt hlt]

private theorem pow_mono (w w' : Nat) (h : w ≤ w') : 2 ^ w ≤ 2 ^ w' := Nat.pow_le_pow_right (by decide) h

/-- widening never disturbs the sequence: `v`, `max_bit_width = w' ≥ w`, then `(v + 1) mod 2^w` -/
theorem C19_mem_switch_wider (m : MemS) (ops : List MemOp) (i w' : Nat)
    (h0 : ops[i]? = some .call) (h1 : ops[i + 1]? = some (.setWidth w')) (h2 : ops[i + 2]? = some .call)
    (hw : widthAfter m.width (ops.take i) ≤ w') :
    ∃ v, (memTrace m ops)[i]? = some (some v)
      ∧ (memTrace m ops)[i + 2]? = some (some ((v + 1) % 2 ^ widthAfter m.width (ops.take i))) := by
  obtain ⟨v, a, _, c⟩ := C19_mem_switch_continue m ops i w' h0 h1 h2
  refine ⟨v, a, c ?_⟩
  have := Nat.mod_lt (v + 1) (Nat.two_pow_pos (widthAfter m.width (ops.take i)))
  have := pow_mono _ _ hw
  omega

/-! ## (d) refinement of the abstract counter -/

/-- the abstract counter: an integer and a width; **at each call the current value is the value modulo
    `2^w`**, it is the output, and the counter moves to its successor modulo `2^w`; the two assignments
    assign -/
def Spec.switch (c : Int) (w : Nat) : List MemOp → List Int
  | [] => []
  | .call :: ops => c % 2 ^ w :: Spec.switch ((c % 2 ^ w + 1) % 2 ^ w) w ops
  | .setWidth w' :: ops => Spec.switch c w' ops
  | .setCount c' :: ops => Spec.switch c' w ops

/-- the values of the calls of a history, in order -/
def callValues (t : List (Option Nat)) : List Nat := t.filterMap id

/-- **trace refinement**: for every history from every state, the values returned by the calls are those of
    the abstract counter -/
theorem C19_mem_switch_trace (m : MemS) (ops : List MemOp) :
    (callValues (memTrace m ops)).map (fun v : Nat => (v : Int)) = Spec.switch m.count m.width ops := by
  induction ops generalizing m with
  | nil => rfl
  | cons op ops ih =>
    cases op with
    | call =>
      have hc := call_val_cast m
      have e : (2 : Int) ^ m.width = ((2 ^ m.width : Nat) : Int) := by norm_cast
      have h2 : (callValues (memTrace m.call.2 ops)).map (fun v : Nat => (v : Int))
          = Spec.switch ((m.count % ((2 ^ m.width : Nat) : Int) + 1) % ((2 ^ m.width : Nat) : Int)) m.width ops := ih m.call.2
      simp only [memTrace, memStep, callValues, Spec.switch] at h2 ⊢
      rw [List.filterMap_cons_some (by rfl), List.map_cons, h2, hc, e]
    | setWidth w' =>
      simp only [memTrace, memStep, callValues, Spec.switch]
      exact ih _
    | setCount c' =>
      simp only [memTrace, memStep, callValues, Spec.switch]
      exact ih _

example : Spec.switch 0 3 [.call, .call, .call, .call, .call, .setWidth 2, .call, .call, .call, .setWidth 4, .call]
    = [0, 1, 2, 3, 4, 1, 2, 3, 0] := by decide

/-! ## Negative documentation: the code before 3612fda -/

/-- **before the fix** (`get_and_increment` handed out the stored count unreduced, `MemS.callPre`): width 3,
    five calls, `max_bit_width = 2`, one call — the provider returns 5, outside `[0, 2^2 - 1]`. The range
    theorem above is false for that step function. -/
theorem C19_mem_switch_prefix_counterexample :
    memTracePre (MemS.new 3) [.call, .call, .call, .call, .call, .setWidth 2, .call]
      = [some 0, some 1, some 2, some 3, some 4, none, some 5] ∧ ¬ 5 < 2 ^ 2 := by decide

-- the same history at HEAD
example : memTrace (MemS.new 3) [.call, .call, .call, .call, .call, .setWidth 2, .call]
    = [some 0, some 1, some 2, some 3, some 4, none, some 1] := by decide

/-! ## File-backed provider: the width is part of the state -/

/-- **the file holds the count `v`**: a reader of any width `w` obtains `v` when `v < 2^w` and
    `ValueError` otherwise (the first line is the decimal number `v`; the width enters `check_count`
    through the range comparison only) -/
def Holds (f : File) (v : Nat) : Prop := ∀ w, current w f = if v < 2 ^ w then .ok v else .error .value

/-- a file that is valid for one width holds a count: what it is read as under every other width -/
theorem C19_file_switch_holds (w : Nat) (f : File) (_ha : AsciiFile f) (v : Nat) (h : current w f = .ok v) :
    Holds f v := fun w' => current_width w w' f v h

/-- `create_new()` leaves a file that holds 0 -/
theorem C19_file_switch_holds_create : Holds create 0 := by
  intro w
  simp [current_create, Nat.two_pow_pos]

/-- for a file that holds `v`: valid for the width in force iff `v` fits it -/
theorem C19_file_switch_valid_iff (f : File) (v w : Nat) (h : Holds f v) : Valid w f ↔ v < 2 ^ w := by
  constructor
  · rintro ⟨u, hu, hlt⟩
    by_cases hv : v < 2 ^ w
    · exact hv
    · rw [h w] at hu; simp [hv] at hu
  · intro hv
    exact ⟨v, by rw [h w]; simp [hv], hv⟩

example : Holds (some ['5', '\n', '9']) 5 :=
  C19_file_switch_holds 3 _ (by decide) 5 ((C19_accept_iff 3 _ (by decide) 5).2 (by decide))

private theorem holds_some (f : File) (v : Nat) (h : Holds f v) : ∃ s, f = some s := by
  cases f with
  | some s => exact ⟨s, rfl⟩
  | none =>
    have := h 0
    split at this <;> simp [current] at this

/-- every step keeps the file ASCII (or absent) -/
theorem C19_file_switch_ascii (st : WState) (s : WStep) (ha : AsciiFile st.2) : AsciiFile (wstep st s).2.2 := by
  cases s with
  | op o => exact C19_ascii_step st.1 st.2 o ha
  | setWidth w => exact ha
  | createNew => intro t h; cases h; decide

/-- with no width change in it, a history is a history of `Props/C19.lean` for the width in force: every
    single-width theorem applies to every stretch between two width changes -/
theorem C19_file_switch_same_width (w : Nat) (f : File) (steps : List Step) :
    wtrace (w, f) (steps.map .op) = (trace w f steps).map (fun p => (p.1, (w, p.2))) := by
  induction steps generalizing f with
  | nil => rfl
  | cons s ss ih => simp [wtrace, trace, wstep, ih]

/-- the abstract file-backed counter: the width in force and the stored count. A call hands out the stored
    count and stores its successor modulo `2^w` **when the count fits the width in force**; otherwise it
    fails with `ValueError` and nothing changes. `current()` shows the same without consuming; a restart
    is invisible; `max_bit_width = w'` changes the width only; `create_new()` stores 0. -/
def Spec.fileStep (st : Nat × Nat) : WStep → Out × (Nat × Nat)
  | .op .call => if st.2 < 2 ^ st.1 then (.val st.2, (st.1, (st.2 + 1) % 2 ^ st.1)) else (.err .value, st)
  | .op .current => (if st.2 < 2 ^ st.1 then .val st.2 else .err .value, st)
  | .op _ => (.none, st)
  | .setWidth w' => (.none, (w', st.2))
  | .createNew => (.none, (st.1, 0))

def Spec.fileOuts (st : Nat × Nat) : List WStep → List Out
  | [] => []
  | s :: ss => (Spec.fileStep st s).1 :: Spec.fileOuts (Spec.fileStep st s).2 ss

private theorem wstep_refines (w : Nat) (f : File) (v : Nat) (s : WStep) (ha : AsciiFile f) (hh : Holds f v)
    (hs : s ≠ .op .delete) :
    (wstep (w, f) s).1 = (Spec.fileStep (w, v) s).1
    ∧ (wstep (w, f) s).2.1 = (Spec.fileStep (w, v) s).2.1
    ∧ Holds (wstep (w, f) s).2.2 (Spec.fileStep (w, v) s).2.2 := by
  cases s with
  | setWidth w' => exact ⟨rfl, rfl, hh⟩
  | createNew => exact ⟨rfl, rfl, C19_file_switch_holds_create⟩
  | op o =>
    cases o with
    | delete => exact absurd rfl hs
    | restart =>
      obtain ⟨t, rfl⟩ := holds_some f v hh
      exact ⟨rfl, rfl, hh⟩
    | current =>
      refine ⟨?_, rfl, hh⟩
      simp only [wstep, step, Spec.fileStep, hh w]
      split <;> rfl
    | call =>
      by_cases hv : v < 2 ^ w
      · have hc : current w f = .ok v := by rw [hh w]; simp [hv]
        obtain ⟨t, _, hg⟩ := call_of_current w f v hc
        have hn := (C19_file_valid_call w f _ ha v hg).1
        have ha' : AsciiFile (step w f .call).2 := C19_ascii_step w f .call ha
        simp only [step, hg] at ha'
        simp only [wstep, step, hg, Spec.fileStep, hv, if_true, Out.ofPy, true_and]
        exact C19_file_switch_holds w _ ha' _ hn
      · have hc : current w f = .error .value := by rw [hh w]; simp [hv]
        have hg := call_err w f _ hc
        simp only [wstep, step, hg, Spec.fileStep, hv, if_false, Out.ofPy, true_and]
        exact hh

/-- **trace refinement with width changes**: from a file that holds `v`, every history of calls,
    `current()`s, restarts, width changes and `create_new()`s produces the outputs of the abstract
    counter — values where the stored count fits the width in force at that call, `ValueError`
    where it does not -/
theorem C19_file_switch_trace (w : Nat) (f : File) (v : Nat) (steps : List WStep) (ha : AsciiFile f)
    (hh : Holds f v) (hd : WStep.op .delete ∉ steps) :
    (wtrace (w, f) steps).map (·.1) = Spec.fileOuts (w, v) steps := by
  induction steps generalizing w f v with
  | nil => rfl
  | cons s ss ih =>
    have hs : s ≠ .op .delete := fun h => hd (by simp [h])
    have hss : WStep.op .delete ∉ ss := fun h => hd (by simp [h])
    obtain ⟨h1, h2, h3⟩ := wstep_refines w f v s ha hh hs
    have ha' := C19_file_switch_ascii (w, f) s ha
    simp only [wtrace, List.map_cons, Spec.fileOuts]
    rw [h1]
    have e : (wstep (w, f) s).2 = ((Spec.fileStep (w, v) s).2.1, (wstep (w, f) s).2.2) := by
      rw [← h2]
    rw [e, ih _ _ _ ha' h3 hss]

/-- the same from scratch: a new provider on a missing file -/
theorem C19_file_switch_trace_fresh (w : Nat) (steps : List WStep) (hd : WStep.op .delete ∉ steps) :
    (wtrace (w, init none) steps).map (·.1) = Spec.fileOuts (w, 0) steps :=
  C19_file_switch_trace w _ 0 steps (by decide) C19_file_switch_holds_create hd

-- width 3: three calls, then width 1 (the stored 3 does not fit): refused, also after a restart, until
-- create_new(); width back to 3 instead would have continued with 3
example : Spec.fileOuts (3, 0) [.op .call, .op .call, .op .call, .setWidth 1, .op .call, .op .restart, .op .current,
      .op .call, .createNew, .op .call, .op .call, .op .call]
    = [.val 0, .val 1, .val 2, .none, .err .value, .none, .err .value, .err .value, .none, .val 0, .val 1, .val 0] := by
  decide
example : Spec.fileOuts (3, 0) [.op .call, .op .call, .op .call, .setWidth 1, .op .call, .setWidth 3, .op .call]
    = [.val 0, .val 1, .val 2, .none, .err .value, .none, .val 3] := by decide

/-- **validity across histories with width changes, stated truthfully**: after every step of any history
    the file holds a count; it is a valid count *for the width in force* exactly when it fits, and when
    it does not, the next call fails with `ValueError` and leaves the file as it is. (A width change can
    make a valid file invalid: "the file holds a valid count at every point" is true only relative to
    the width that wrote it.) -/
theorem C19_file_switch_valid (w : Nat) (f : File) (v : Nat) (steps : List WStep) (ha : AsciiFile f)
    (hh : Holds f v) (hd : WStep.op .delete ∉ steps) :
    ∀ p ∈ wtrace (w, f) steps, ∃ v', Holds p.2.2 v'
      ∧ (v' < 2 ^ p.2.1 → Valid p.2.1 p.2.2)
      ∧ (2 ^ p.2.1 ≤ v' → getAndIncrement p.2.1 p.2.2 = (.error .value, p.2.2)) := by
  induction steps generalizing w f v with
  | nil => simp [wtrace]
  | cons s ss ih =>
    have hs : s ≠ .op .delete := fun h => hd (by simp [h])
    have hss : WStep.op .delete ∉ ss := fun h => hd (by simp [h])
    obtain ⟨_, _, h3⟩ := wstep_refines w f v s ha hh hs
    have ha' := C19_file_switch_ascii (w, f) s ha
    intro p hp
    simp only [wtrace, List.mem_cons] at hp
    rcases hp with rfl | hp
    · refine ⟨_, h3, fun hlt => (C19_file_switch_valid_iff _ _ _ h3).2 hlt, fun hge => ?_⟩
      apply call_err
      rw [h3 _]
      have : ¬ (Spec.fileStep (w, v) s).2.2 < 2 ^ (wstep (w, f) s).2.1 := by omega
      simp [this]
    · exact ih (wstep (w, f) s).2.1 (wstep (w, f) s).2.2 _ ha' h3 hss p hp

/-- **a successful call always leaves a file that is valid for the width in force** (whatever the widths before) -/
theorem C19_file_switch_valid_after_call (st : WState) (ha : AsciiFile st.2) (v : Nat)
    (h : (wstep st (.op .call)).1 = .val v) :
    v < 2 ^ st.1 ∧ current st.1 (wstep st (.op .call)).2.2 = .ok ((v + 1) % 2 ^ st.1)
      ∧ Valid st.1 (wstep st (.op .call)).2.2 := by
  have hg : getAndIncrement st.1 st.2 = (.ok v, (getAndIncrement st.1 st.2).2) := by
    simp only [wstep, step] at h
    cases hr : (getAndIncrement st.1 st.2).1 with
    | error e => rw [hr] at h; cases h
    | ok u =>
      rw [hr] at h
      cases h
      exact Prod.ext hr rfl
  have := C19_file_valid_call st.1 st.2 _ ha v hg
  exact ⟨C19_file_range st.1 st.2 _ ha v hg, this.1, this.2⟩

/-- **(e) the stored value fits the new width**: the file was valid for the old width with value `v`, the
    width is set to `w'` with `v < 2^w'`: the next call returns `v` and leaves a file that is valid for `w'`
    and reads `(v + 1) mod 2^w'` — what the single-width theorems say for `w'` -/
theorem C19_file_switch_fits (w w' : Nat) (f : File) (ha : AsciiFile f) (v : Nat) (hc : current w f = .ok v)
    (hv : v < 2 ^ w') :
    ∃ f', wtrace (w, f) [.setWidth w', .op .call] = [(.none, (w', f)), (.val v, (w', f'))]
      ∧ current w' f' = .ok ((v + 1) % 2 ^ w') ∧ Valid w' f' := by
  have hc' : current w' f = .ok v := by
    rw [C19_file_switch_holds w f ha v hc w']; simp [hv]
  obtain ⟨t, _, hg⟩ := call_of_current w' f v hc'
  refine ⟨_, ?_, C19_file_valid_call w' f _ ha v hg⟩
  simp [wtrace, wstep, step, hg, Out.ofPy]

/-- **(e) the stored value does not fit the new width**: the call fails with `ValueError`, the file is
    unchanged — and so does every later call, `current()` and call on a new instance, in any number and
    order, until `create_new()` (or another width change): nothing is ever written -/
theorem C19_file_switch_stuck (w' : Nat) (f : File) (v : Nat) (hh : Holds f v) (hv : 2 ^ w' ≤ v)
    (steps : List Step) (hd : Step.delete ∉ steps) :
    ∀ p ∈ wtrace (w', f) (steps.map .op), p.2 = (w', f) ∧ (p.1 = .err .value ∨ p.1 = .none) := by
  obtain ⟨t, rfl⟩ := holds_some f v hh
  have hc : current w' (some t) = .error .value := by
    rw [hh w']; have : ¬ v < 2 ^ w' := by omega
    simp [this]
  have hg := call_err w' _ _ hc
  induction steps with
  | nil => simp [wtrace]
  | cons s ss ih =>
    have hs : s ≠ .delete := fun h => hd (by simp [h])
    have hss : Step.delete ∉ ss := fun h => hd (by simp [h])
    have h1 : wstep (w', some t) (.op s) = ((step w' (some t) s).1, (w', some t))
        ∧ ((step w' (some t) s).1 = .err .value ∨ (step w' (some t) s).1 = .none) := by
      cases s with
      | delete => exact absurd rfl hs
      | restart => exact ⟨rfl, Or.inr rfl⟩
      | current => exact ⟨rfl, Or.inl (by simp [step, hc, Out.ofPy])⟩
      | call => exact ⟨by simp [wstep, step, hg], Or.inl (by simp [step, hg, Out.ofPy])⟩
    intro p hp
    simp only [List.map_cons, wtrace, List.mem_cons] at hp
    rcases hp with rfl | hp
    · rw [h1.1]; exact ⟨rfl, h1.2⟩
    · rw [h1.1] at hp; exact ih hss p hp

/-- the way out: `create_new()` stores 0, which every width reads -/
theorem C19_file_switch_create (st : WState) :
    (wstep st .createNew).2 = (st.1, create) ∧ current st.1 create = .ok 0 ∧ Valid st.1 create :=
  ⟨rfl, current_create st.1, 0, current_create st.1, Nat.two_pow_pos st.1⟩

/-- (e) both cases in one: the file held `v` under the old width; under the new one the call returns `v`
    iff `v` fits, and `ValueError` (file unchanged) otherwise -/
theorem C19_file_switch_nofit (w w' : Nat) (f : File) (ha : AsciiFile f) (v : Nat) (hc : current w f = .ok v)
    (hv : 2 ^ w' ≤ v) :
    wtrace (w, f) [.setWidth w', .op .call] = [(.none, (w', f)), (.err .value, (w', f))] := by
  have hc' : current w' f = .error .value := by
    rw [C19_file_switch_holds w f ha v hc w']
    have : ¬ v < 2 ^ w' := by omega
    simp [this]
  simp [wtrace, wstep, step, call_err w' f _ hc', Out.ofPy]

-- width 3, file "5\n": switched to 2 bits the call is refused and the file stays; switched to 4 bits it returns 5
example : (wtrace (3, some ['5', '\n']) [.setWidth 2, .op .call]).map (·.1) = [.none, .err .value] := by
  have := C19_file_switch_nofit 3 2 (some ['5', '\n']) (by decide) 5
    ((C19_accept_iff 3 _ (by decide) 5).2 (by decide)) (by decide)
  rw [this]; rfl

/-! ## The comparison run of the tie (`memRunOpen`) is the model wherever the property fixes the value -/

private theorem memRebase_nil (m : MemS) (o : Bool) : memRebase m o [] = m := by cases o <;> rfl

private theorem memRebase_false (m : MemS) (rebase : List Int) : memRebase m false rebase = m := rfl

private theorem memRebase_width (m : MemS) (o : Bool) (rebase : List Int) : (memRebase m o rebase).width = m.width := by
  cases o <;> cases rebase <;> simp [memRebase] <;> split <;> rfl

/-- with nothing to re-base on, the run is the model -/
theorem C19_mem_switch_open_exact (m : MemS) (o : Bool) (ops : List MemOp) :
    (memRunOpen m o [] ops).map (·.1) = callValues (memTrace m ops) := by
  induction ops generalizing m o with
  | nil => rfl
  | cons op ops ih =>
    cases op with
    | call =>
      simp only [memRunOpen, memRebase_nil, List.map_cons, memTrace, memStep, callValues]
      rw [List.filterMap_cons_some (by rfl)]
      have := ih m.call.2 false
      simp only [callValues] at this
      cases o <;> simp [this]
    | setWidth w' => simp only [memRunOpen, memTrace, memStep, callValues]; exact ih _ _
    | setCount c' => simp only [memRunOpen, memTrace, memStep, callValues]; exact ih _ _

/-- **whatever values are offered for re-basing: if the run declares no call open, it returns exactly the
    values of the model** (a history without `count` assignments in which the count fits every width it is
    switched to has no open call: the tie then compares the whole trace exactly) -/
theorem C19_mem_switch_open_closed (m : MemS) (o : Bool) (rebase : List Int) (ops : List MemOp)
    (h : ∀ p ∈ memRunOpen m o rebase ops, p.2 = false) :
    (memRunOpen m o rebase ops).map (·.1) = callValues (memTrace m ops) := by
  induction ops generalizing m o rebase with
  | nil => rfl
  | cons op ops ih =>
    cases op with
    | call =>
      have ho : o = false := by
        have := h _ (by simp only [memRunOpen]; exact List.mem_cons_self)
        exact this
      subst ho
      simp only [memRunOpen, memRebase_false, List.map_cons, memTrace, memStep, callValues] at h ⊢
      rw [List.filterMap_cons_some (by rfl)]
      have := ih m.call.2 false rebase (fun p hp => h p (by simp [hp]))
      simp only [callValues] at this
      simp [this]
    | setWidth w' => simp only [memRunOpen, memTrace, memStep, callValues] at h ⊢; exact ih _ _ _ h
    | setCount c' => simp only [memRunOpen, memTrace, memStep, callValues] at h ⊢; exact ih _ _ _ h

/-- every value of the comparison run is in range of the width in force, whatever is offered for re-basing
    (the value of the call at position `i` is the last output of the run of the first `i + 1` operations) -/
theorem C19_mem_switch_open_range (m : MemS) (o : Bool) (rebase : List Int) (ops : List MemOp) (i : Nat)
    (h : ops[i]? = some .call) :
    ∃ p, (memRunOpen m o rebase (ops.take (i + 1))).getLast? = some p ∧ p.1 < 2 ^ widthAfter m.width (ops.take i) := by
  induction ops generalizing m o rebase i with
  | nil => simp at h
  | cons op ops ih =>
    cases i with
    | zero =>
      simp only [List.getElem?_cons_zero, Option.some.injEq] at h
      subst h
      simp only [List.take_succ_cons, List.take_zero, memRunOpen, List.getLast?_singleton, widthAfter]
      refine ⟨_, rfl, ?_⟩
      have := call_val_lt (memRebase m o rebase)
      rw [memRebase_width] at this
      exact this
    | succ i =>
      simp only [List.getElem?_cons_succ] at h
      cases op with
      | call =>
        have hw : (memRebase m o rebase).call.2.width = m.width := by
          rw [call_state]; exact memRebase_width m o rebase
        obtain ⟨p, hp, hlt⟩ := ih (memRebase m o rebase).call.2 false (if o then rebase.tail else rebase) i h
        refine ⟨p, ?_, ?_⟩
        · simp only [List.take_succ_cons, memRunOpen]
          rw [List.getLast?_cons, hp]
          rfl
        · simpa [widthAfter, hw] using hlt
      | setWidth w' =>
        obtain ⟨p, hp, hlt⟩ := ih { m with width := w' } _ rebase i h
        exact ⟨p, by simpa [memRunOpen] using hp, by simpa [widthAfter] using hlt⟩
      | setCount c' =>
        obtain ⟨p, hp, hlt⟩ := ih { m with count := c' } true rebase i h
        exact ⟨p, by simpa [memRunOpen] using hp, by simpa [widthAfter] using hlt⟩

-- width 3, five calls, width 2 (5 does not fit: open), the implementation answered 0 there: re-based
example : memRunOpen (MemS.new 3) false [0] [.call, .call, .call, .call, .call, .setWidth 2, .call, .call]
    = [(0, false), (1, false), (2, false), (3, false), (4, false), (0, true), (1, false)] := by decide
-- an out-of-range offer (5) is not taken: the model's own value (5 mod 4) stands
example : memRunOpen (MemS.new 3) false [5] [.call, .call, .call, .call, .call, .setWidth 2, .call, .call]
    = [(0, false), (1, false), (2, false), (3, false), (4, false), (1, true), (2, false)] := by decide

end SpVerif.Props.C19
