import SpVerif.Py
/-!
# CRC-16/CCITT-FALSE, bit-serial textbook definition

poly 0x1021, init 0xFFFF, message bits MSB first, no reflection, no final xor.
The same definitions are executed by the driver (tie to `crcmod` in the correspondence check)
and are the subject of the theorems in `Proofs/Crc.lean`.
-/
namespace SpVerif.Crc

def P : BitVec 16 := 0x1021#16
def TOP : BitVec 16 := 0x8000#16

/-- zero-input clock of the register -/
def zstep (s : BitVec 16) : BitVec 16 := if s.msb then (s <<< 1) ^^^ P else s <<< 1
/-- feed one message bit (MSB-first algorithm: top = msb(s) xor bit) -/
def feedBit (s : BitVec 16) (x : Bool) : BitVec 16 := zstep (s ^^^ (if x then TOP else 0))
def feedBits (s : BitVec 16) (bits : List Bool) : BitVec 16 := bits.foldl feedBit s

/-- the eight bits of an octet, most significant first -/
def bitsOf (b : UInt8) : List Bool := [7, 6, 5, 4, 3, 2, 1, 0].map b.toNat.testBit
/-- all bits of an octet string, in transmission order -/
def bits (data : Bytes) : List Bool := data.flatMap bitsOf

def crcFrom (s : BitVec 16) (data : Bytes) : BitVec 16 := feedBits s (bits data)
def crc16 (data : Bytes) : BitVec 16 := crcFrom 0xFFFF#16 data

/-- the CRC as the integer `CRC16_CCITT_FUNC` returns -/
def crc16Nat (data : Bytes) : Nat := (crc16 data).toNat

/-- the two trailer octets (big-endian) -/
def be16 (s : BitVec 16) : Bytes := [u8 (s.toNat / 256), u8 (s.toNat % 256)]

def crcTrailer (data : Bytes) : Bytes := be16 (crc16 data)

end SpVerif.Crc
