import SpVerif.Py
/-!
# Big-endian integer codec

`beBytes w v` is `v.to_bytes(w, "big")` / `struct.pack("!B/H/I/Q", v)` for `v < 256^w`;
`beNat b` is `int.from_bytes(b, "big")` / `struct.unpack`.
-/
namespace SpVerif

def beBytes : Nat → Nat → Bytes
  | 0, _ => []
  | w+1, v => beBytes w (v / 256) ++ [u8 (v % 256)]

def beNat (b : Bytes) : Nat := b.foldl (fun acc x => acc * 256 + x.toNat) 0

/-- `struct.pack("!…", v)` for width `n` and `v ≥ 0`: `struct.error` iff `v ≥ 256^n`.
    (Negative values never reach `struct.pack` in the modelled code: constructors reject them.) -/
def packBE (n : Nat) (v : Nat) : Py Bytes :=
  if v < 256 ^ n then .ok (beBytes n v) else .error .struct

/-- `struct.unpack("!…", b)[0]` for width `n`: `struct.error` iff `len(b) ≠ n`. -/
def unpackBE (n : Nat) (b : Bytes) : Py Nat :=
  if b.length = n then .ok (beNat b) else .error .struct

@[simp] theorem beBytes_length (w v : Nat) : (beBytes w v).length = w := by
  induction w generalizing v with
  | zero => rfl
  | succ w ih => simp [beBytes, ih]

theorem beNat_append_single (b : Bytes) (x : UInt8) : beNat (b ++ [x]) = beNat b * 256 + x.toNat := by
  simp [beNat]

@[simp] theorem beNat_nil : beNat [] = 0 := rfl

theorem beNat_foldl (acc : Nat) (b : Bytes) :
    b.foldl (fun acc x => acc * 256 + x.toNat) acc = acc * 256 ^ b.length + beNat b := by
  induction b generalizing acc with
  | nil => simp [beNat]
  | cons x b ih =>
    simp only [List.foldl_cons, List.length_cons, beNat]
    rw [ih, ih (0 * 256 + x.toNat)]
    rw [Nat.pow_succ]
    simp only [Nat.zero_mul, Nat.zero_add]
    rw [Nat.add_mul, Nat.add_assoc]
    congr 1
    rw [Nat.mul_assoc, Nat.mul_comm 256]

theorem beNat_cons (x : UInt8) (b : Bytes) : beNat (x :: b) = x.toNat * 256 ^ b.length + beNat b := by
  have := beNat_foldl (0 * 256 + x.toNat) b
  simp only [Nat.zero_mul, Nat.zero_add] at this
  simpa [beNat] using this

theorem beNat_append (a b : Bytes) : beNat (a ++ b) = beNat a * 256 ^ b.length + beNat b := by
  simp only [beNat, List.foldl_append]
  exact beNat_foldl _ b

theorem list_rev_ind {α : Type} {P : List α → Prop} (hnil : P [])
    (hsnoc : ∀ l x, P l → P (l ++ [x])) : ∀ l, P l := by
  intro l
  have : ∀ r : List α, P r.reverse := by
    intro r
    induction r with
    | nil => simpa using hnil
    | cons x r ih => simpa using hsnoc _ x ih
  simpa using this l.reverse

theorem beNat_lt (b : Bytes) : beNat b < 256 ^ b.length := by
  induction b using list_rev_ind with
  | hnil => simp
  | hsnoc b x ih =>
    rw [beNat_append_single]
    simp only [List.length_append, List.length_cons, List.length_nil, Nat.pow_succ]
    have := toNat_lt x
    omega

theorem beNat_beBytes (w v : Nat) (h : v < 256 ^ w) : beNat (beBytes w v) = v := by
  induction w generalizing v with
  | zero => simp at h; simp [beBytes, h]
  | succ w ih =>
    simp only [beBytes, beNat_append_single, u8_toNat]
    rw [ih (v / 256) (by rw [Nat.pow_succ] at h; omega)]
    omega

theorem beBytes_beNat (b : Bytes) : beBytes b.length (beNat b) = b := by
  induction b using list_rev_ind with
  | hnil => rfl
  | hsnoc b x ih =>
    simp only [List.length_append, List.length_cons, List.length_nil, beBytes, beNat_append_single]
    have hx := toNat_lt x
    have h1 : (beNat b * 256 + x.toNat) / 256 = beNat b := by omega
    have h2 : (beNat b * 256 + x.toNat) % 256 = x.toNat := by omega
    rw [h1, h2, ih]
    simp

theorem beBytes_inj (w a b : Nat) (ha : a < 256 ^ w) (hb : b < 256 ^ w)
    (h : beBytes w a = beBytes w b) : a = b := by
  have := congrArg beNat h
  rwa [beNat_beBytes w a ha, beNat_beBytes w b hb] at this

theorem beBytes_1 (v : Nat) : beBytes 1 v = [u8 (v % 256)] := by simp [beBytes]
theorem beBytes_2 (v : Nat) : beBytes 2 v = [u8 (v / 256 % 256), u8 (v % 256)] := by simp [beBytes]

theorem unpackBE_ok {n : Nat} {b : Bytes} (h : b.length = n) : unpackBE n b = .ok (beNat b) := by
  simp [unpackBE, h]

theorem unpackBE_beBytes (w v : Nat) (h : v < 256 ^ w) : unpackBE w (beBytes w v) = .ok v := by
  simp [unpackBE, beNat_beBytes w v h]

theorem packBE_ok {n v : Nat} (h : v < 256 ^ n) : packBE n v = .ok (beBytes n v) := by
  simp [packBE, h]

theorem packBE2_ok {v : Nat} (h : v < 65536) : packBE 2 v = .ok [u8 (v / 256), u8 (v % 256)] := by
  have h3 : v / 256 % 256 = v / 256 := by omega
  rw [packBE_ok (by omega), beBytes_2, h3]

theorem beNat_two (x y : UInt8) : beNat [x, y] = x.toNat * 256 + y.toNat := by
  simp [beNat]

/-- `struct.unpack("!H", b[s:s+2])` when the two octets are present. -/
theorem unpackBE2_slice (b : Bytes) (s : Nat) (h : s + 2 ≤ b.length) :
    unpackBE 2 (slice b s (s+2)) = .ok (b[s].toNat * 256 + b[s+1].toNat) := by
  have hl : (slice b s (s+2)).length = 2 := by simp; omega
  rw [unpackBE_ok hl]
  match hm : slice b s (s+2), hl with
  | [x, y], _ =>
    have h0 : (slice b s (s+2))[0]? = some x := by simp [hm]
    have h1 : (slice b s (s+2))[1]? = some y := by simp [hm]
    simp [slice, List.getElem?_drop] at h0 h1
    have e0 : b[s] = x := by
      have := List.getElem?_eq_getElem (l := b) (i := s) (by omega); rw [this] at h0; simpa using h0
    have e1 : b[s+1] = y := by
      have := List.getElem?_eq_getElem (l := b) (i := s+1) (by omega); rw [this] at h1; simpa using h1
    simp [beNat_two, e0, e1]

end SpVerif
