import Std.Data.HashMap
import SpVerif.J
import SpVerif.Ops.SpacePacket
import SpVerif.Ops.PusTc
import SpVerif.Ops.PusTm
import SpVerif.Ops.Srv1
import SpVerif.Ops.SeqCount
import SpVerif.Ops.Cds
import SpVerif.Ops.Crc
import SpVerif.Ops.CfdpHeader
import SpVerif.Ops.ByteField
import SpVerif.Ops.Tlv
import SpVerif.Ops.Parser
import SpVerif.Ops.Uslp
import SpVerif.Ops.Verificator
import SpVerif.Ops.Robust
import SpVerif.Ops.Prefix
import SpVerif.Ops.DirectiveFixed
import SpVerif.Ops.DirectiveVar
import SpVerif.Ops.FileData
import SpVerif.Ops.Mutation
import SpVerif.Ops.MsgToUser
import SpVerif.Ops.Factory
import SpVerif.Ops.Heap
/-!
# Line-protocol driver: one JSON object per input line (`{"op": …, …}`), one JSON result per output line.
`{"ok": …}` / `{"err": "<category>"}` are model results; `{"bad": "<msg>"}` is a protocol error.
-/
namespace SpVerif.Driver
open SpVerif.J Lean

-- one line per Ops module (file is merged with merge=union: add lines, do not edit existing ones)
def allOps : List (String × Handler) := []
  ++ Ops.SpacePacket.ops
  ++ Ops.PusTc.ops
  ++ Ops.PusTm.ops
  ++ Ops.Srv1.ops
  ++ Ops.SeqCount.ops
  ++ Ops.Cds.ops
  ++ Ops.Crc.ops
  ++ Ops.CfdpHeader.ops
  ++ Ops.ByteField.ops
  ++ Ops.Tlv.ops
  ++ Ops.Parser.ops
  ++ Ops.Uslp.ops
  ++ Ops.Verificator.ops
  ++ Ops.Robust.ops
  ++ Ops.Prefix.ops
  ++ Ops.DirectiveFixed.ops
  ++ Ops.DirectiveVar.ops
  ++ Ops.FileData.ops
  ++ Ops.Mutation.ops
  ++ Ops.MsgToUser.ops
  ++ Ops.Factory.ops
  ++ Ops.Heap.ops

def table : Std.HashMap String Handler := Std.HashMap.ofList allOps

def handleLine (line : String) : String :=
  match Json.parse line with
  | .error e => (obj [("bad", js s!"parse: {e}")]).compress
  | .ok j =>
    match getStr j "op" with
    | .error e => (obj [("bad", js e)]).compress
    | .ok op =>
      match table[op]? with
      | none => (obj [("bad", js s!"unknown op {op}")]).compress
      | some h =>
        match h j with
        | .ok r => r.compress
        | .error e => (obj [("bad", js e)]).compress

partial def loop (hin hout : IO.FS.Stream) : IO Unit := do
  let line ← hin.getLine
  if line.isEmpty then return ()
  let t := line.trimAscii.toString
  if t.isEmpty then
    hout.putStrLn ""
  else
    hout.putStrLn (handleLine t)
  loop hin hout

end SpVerif.Driver
