import SpVerif.J
import SpVerif.Model.Factory
import SpVerif.Ops.CfdpHeader
import SpVerif.Ops.DirectiveFixed
import SpVerif.Ops.DirectiveVar
import SpVerif.Ops.FileData
/-!
Driver ops for the PDU factory / holder model (`fac_`). PDU objects are rendered with the field
functions of the owning Ops modules (`Ops.DirectiveFixed`, `Ops.DirectiveVar`, `Ops.FileData`), so the payloads are the
ones the owning properties already tie to the real classes. Kinds travel as their index in
`Kind.all` (0 File Data, 1 EOF, 2 Finished, 3 ACK, 4 Metadata, 5 NAK, 6 Prompt, 7 Keep Alive).
-/
namespace SpVerif.Ops.Factory
open SpVerif.J SpVerif.CfdpHeader SpVerif.Factory Lean

def kindOfNat : Nat → R Kind
  | 0 => pure .fileData | 1 => pure .eof | 2 => pure .finished | 3 => pure .ack | 4 => pure .metadata
  | 5 => pure .nak | 6 => pure .prompt | 7 => pure .keepAlive
  | n => .error s!"kind index {n}"

/-- one line per kind: the object's fields as the owning property renders them, plus `raw` -/
def pduFieldsJ : AnyPdu → Json
  | .fileData x => Ops.DirectiveFixed.withRaw (Ops.FileData.pduFields x) x.pack
  | .ack x => Ops.DirectiveFixed.withRaw (Ops.DirectiveFixed.ackFields x) x.pack
  | .nak x => Ops.DirectiveFixed.withRaw (Ops.DirectiveFixed.nakFields x) x.pack
  | .prompt x => Ops.DirectiveFixed.withRaw (Ops.DirectiveFixed.promptFields x) x.pack
  | .keepAlive x => Ops.DirectiveFixed.withRaw (Ops.DirectiveFixed.kaFields x) x.pack
  | .eof x => Ops.DirectiveFixed.withRaw (Ops.DirectiveVar.eofFields x) x.pack
  | .finished x => Ops.DirectiveFixed.withRaw (Ops.DirectiveVar.finFields x) x.pack
  | .metadata x => Ops.DirectiveFixed.withRaw (Ops.DirectiveVar.mdFields x) x.pack

def pduJ (p : AnyPdu) : Json := obj [("kind", jn p.kind.toNat), ("pdu", pduFieldsJ p)]

def optPduJ : Option AnyPdu → Json
  | none => obj [("kind", Json.null), ("pdu", Json.null)]
  | some p => pduJ p

/-- a sub-result inside an ok-payload: the value, or whether the failure is a documented one
    (the class is reported only when it is not) -/
def sub {α} (f : α → Json) : Py α → Json
  | .ok a => obj [("ok", f a)]
  | .error e => obj [("err", js (if e.documented then "documented" else e.name))]

/-- exact error class (the statement names `TypeError` for the accessors) -/
def subExact {α} (f : α → Json) : Py α → Json
  | .ok a => obj [("ok", f a)]
  | .error e => obj [("err", js e.name)]

/-- decode `raw ++ suffix`; a documented refusal of a buffer with trailing octets is one of the two
    behaviours the statement allows, in which case the PDU alone is decoded (same rule on the
    implementation side: both allowed behaviours give the same line; folding does not) -/
def fromRawSfx (raw sfx : Bytes) : Py (Option AnyPdu) :=
  match fromRaw (raw ++ sfx) with
  | .ok p => .ok p
  | .error e => if sfx.isEmpty || !e.documented then .error e else fromRaw raw

def inspectJ (d : Bytes) : Json :=
  obj [("pdu_type", sub jn (pduType d)), ("is_file_directive", sub jb (isFileDirective d)),
       ("directive_type", sub (jopt jn) (pduDirectiveType d))]

/-- what an observer sees of a holder: the eight accessors in the order of `Kind.all`, and — for a
    holder that is not empty — the type views -/
def holderJ (h : Holder) : Json :=
  obj [("held", jopt (fun (p : AnyPdu) => jn p.kind.toNat) h),
       ("acc", jarr (Kind.all.map fun k => subExact pduJ (h.castTo k))),
       ("packet_len", jn h.packetLen),
       ("raw", match h.pack with | .ok b => jh b | .error _ => Json.null),
       ("views", match h with
          | none => Json.null
          | some _ => obj [("pdu_type", subExact jn h.pduType),
                           ("is_file_directive", subExact jb h.isFileDirective),
                           ("directive_type", subExact (jopt jn) h.pduDirectiveType)])]

/-- one line per kind: build the object from the constructor arguments of the owning Ops module -/
def getAny (j : Json) : R (Py AnyPdu) := do
  match ← kindOfNat (← getNat j "kind") with
  | .fileData => do let x ← Ops.FileData.getPdu j; pure (AnyPdu.fileData <$> x)
  | .ack => do let x ← Ops.DirectiveFixed.getAck j; pure (AnyPdu.ack <$> x)
  | .nak => do let x ← Ops.DirectiveFixed.getNak j; pure (AnyPdu.nak <$> x)
  | .prompt => do let x ← Ops.DirectiveFixed.getPrompt j; pure (AnyPdu.prompt <$> x)
  | .keepAlive => do let x ← Ops.DirectiveFixed.getKa j; pure (AnyPdu.keepAlive <$> x)
  | .eof => do let x ← Ops.DirectiveVar.getEof j; pure (AnyPdu.eof <$> x)
  | .finished => do let x ← Ops.DirectiveVar.getFin j; pure (AnyPdu.finished <$> x)
  | .metadata => do let x ← Ops.DirectiveVar.getMd j; pure (AnyPdu.metadata <$> x)

def ops : List (String × Handler) := [
  -- construct, pack, hand `packed ++ suffix` to the factory
  ("fac_roundtrip", fun j => do
      let p ← getAny j
      let sfx ← getHex j "suffix"
      pure (res optPduJ (do let p ← p; let raw ← p.pack; fromRawSfx raw sfx))),
  ("fac_from_raw", fun j => do
      pure (res optPduJ (fromRawSfx (← getHex j "raw") (← getHex j "suffix")))),
  ("fac_inspect", fun j => do
      pure (obj [("ok", inspectJ (← getHex j "raw"))])),
  -- the holder behind `from_raw_to_holder(raw)`
  ("fac_holder_raw", fun j => do
      pure (res holderJ (fromRawToHolder (← getHex j "raw")))),
  -- `PduHolder(<Kind>.unpack(raw))`, or the empty holder for `"kind": null`
  ("fac_holder", fun j => do
      match ← getIntOpt j "kind" with
      | none => pure (res holderJ (pure (none : Holder)))
      | some k =>
        let k ← kindOfNat k.toNat
        pure (res holderJ (decodeAs k (← getHex j "raw"))))
]

end SpVerif.Ops.Factory
