import SpVerif.J
import SpVerif.Ops.CfdpHeader
import SpVerif.Model.FileDirective
import SpVerif.Model.Ack
import SpVerif.Model.Prompt
import SpVerif.Model.KeepAlive
import SpVerif.Model.Nak
/-!
Driver ops for the file-directive base (`fdir_`), ACK (`ack_`), Prompt (`prompt_`),
Keep Alive (`ka_`) and NAK (`nak_`) models. Configuration keys are those of `Ops.CfdpHeader.getConf`.
-/
namespace SpVerif.Ops.DirectiveFixed
open SpVerif.J SpVerif.CfdpHeader SpVerif.FileDirective Lean
open SpVerif.Ack SpVerif.Prompt SpVerif.KeepAlive SpVerif.Nak

def getConf := Ops.CfdpHeader.getConf

def fdFields (d : FileDirective) : List (String × Json) :=
  Ops.CfdpHeader.hdrFields d.header ++
    [("code", jn d.code), ("dir_header_len", jn d.headerLen), ("param_len", ji d.paramLen)]

/-- object fields, then `raw`: the octets `pack()` gives (`null` when it raises) -/
def withRaw (fields : List (String × Json)) (raw : Py Bytes) : Json :=
  obj (fields ++ [("raw", match raw with | .ok b => jh b | .error _ => Json.null)])

/-- constructor + `pack()`; a failure of either is the op's error -/
def packed {α} (fields : α → List (String × Json)) (pack : α → Py Bytes) (x : Py α) : Json :=
  res (fun (p : α × Bytes) => obj (fields p.1 ++ [("raw", jh p.2)]))
    (do let a ← x; let raw ← pack a; pure (a, raw))

/-- "does `pack()` fail?" — constructor errors remain errors -/
def packFails {α} (pack : α → Py Bytes) (x : Py α) : Json :=
  res (fun (a : α) => obj [("failed", jb (match pack a with | .ok _ => false | .error _ => true))]) x

def segJ (s : Nak.Seg) : Json := jarr [ji s.1, ji s.2]

def getSeg (j : Json) : R Nak.Seg :=
  match j.getArr? with
  | .ok a =>
    match a.toList with
    | [x, y] =>
      match x.getInt?, y.getInt? with
      | .ok p, .ok q => .ok (p, q)
      | _, _ => .error "segment request: not integers"
    | _ => .error "segment request: not a pair"
  | .error _ => .error "segment request: not an array"

/-- `null` (Python `None`) or a list of pairs -/
def getSegs (j : Json) (k : String) : R (List Nak.Seg) := do
  let v ← field j k
  if v.isNull then pure [] else (← getArr j k).mapM getSeg

/-! ## base -/
def getFd (j : Json) : R (Py FileDirective) := do
  let c ← getConf j
  let code ← getNat j "code"
  let pl ← getNat j "plen"
  pure (c >>= fun c => FileDirective.new c code pl)

/-! ## ACK -/
def ackFields (a : Ack) : List (String × Json) :=
  fdFields a.fd ++ [("acked", jn a.ackedCode), ("subtype", jn a.subtype), ("cond", ji a.cond),
    ("status", jn a.status)]

def getAck (j : Json) : R (Py Ack) := do
  let c ← getConf j
  let acked ← getNat j "acked"
  let cond ← getInt j "cond"
  let status ← getNat j "status"
  pure (c >>= fun c => Ack.new c acked cond status)

/-! ## Prompt -/
def promptFields (p : Prompt) : List (String × Json) := fdFields p.fd ++ [("resp", jn p.respReq)]

def getPrompt (j : Json) : R (Py Prompt) := do
  let c ← getConf j
  let r ← getNat j "resp"
  pure (c >>= fun c => Prompt.new c r)

/-! ## Keep Alive -/
def kaFields (k : KeepAlive) : List (String × Json) := fdFields k.fd ++ [("progress", ji k.progress)]

def getKa (j : Json) : R (Py KeepAlive) := do
  let c ← getConf j
  let p ← getInt j "progress"
  pure (c >>= fun c => KeepAlive.new c p)

/-! ## NAK -/
def nakFields (k : Nak) : List (String × Json) :=
  fdFields k.fd ++ [("start", ji k.startOfScope), ("end", ji k.endOfScope), ("segs", jarr (k.segs.map segJ))]

def getNak (j : Json) : R (Py Nak) := do
  let c ← getConf j
  let s ← getInt j "start"
  let e ← getInt j "end"
  let segs ← getSegs j "segs"
  pure (c >>= fun c => Nak.new c s e segs)

def eqOp {α} (get : Json → R (Py α)) (beq : α → α → Bool) : Handler := fun j => do
  let a ← get (← field j "a")
  let b ← get (← field j "b")
  pure (res (fun (p : α × α) => obj [("eq", jb (beq p.1 p.2)), ("eq_rev", jb (beq p.2 p.1))])
    (do let a ← a; let b ← b; pure (a, b)))

def ops : List (String × Handler) := [
  ("fdir_new", fun j => do pure (res (fun d => obj (fdFields d)) (← getFd j))),
  ("fdir_pack", fun j => do pure (packed fdFields FileDirective.pack (← getFd j))),
  ("fdir_unpack", fun j => do
      pure (res (fun d => withRaw (fdFields d) d.pack) (FileDirective.unpack (← getHex j "raw")))),
  ("fdir_set", fun j => do
      let d ← getFd j
      let np ← getNat j "n_plen"
      let nl ← getNat j "n_large"
      pure (packed fdFields FileDirective.pack (do let d ← d; (d.setFileFlag nl).setParamLen np))),
  ("fdir_parse_fss", fun j => do
      let d ← getFd j
      let raw ← getHex j "raw"
      let i ← getNat j "idx"
      pure (res (fun (p : Nat × Nat) => obj [("idx", jn p.1), ("val", jn p.2)])
        (do let d ← d; d.parseFss raw i))),
  ("fdir_eq", eqOp getFd FileDirective.beq),

  ("ack_new", fun j => do pure (res (fun a => obj (ackFields a)) (← getAck j))),
  ("ack_pack", fun j => do pure (packed ackFields Ack.pack (← getAck j))),
  ("ack_unpack", fun j => do
      pure (res (fun a => withRaw (ackFields a) a.pack) (Ack.unpack (← getHex j "raw")))),
  ("ack_eq", eqOp getAck Ack.beq),

  ("prompt_pack", fun j => do pure (packed promptFields Prompt.pack (← getPrompt j))),
  ("prompt_unpack", fun j => do
      pure (res (fun a => withRaw (promptFields a) a.pack) (Prompt.unpack (← getHex j "raw")))),
  ("prompt_eq", eqOp getPrompt Prompt.beq),

  ("ka_pack", fun j => do pure (packed kaFields KeepAlive.pack (← getKa j))),
  ("ka_pack_fails", fun j => do pure (packFails KeepAlive.pack (← getKa j))),
  ("ka_unpack", fun j => do
      pure (res (fun a => withRaw (kaFields a) a.pack) (KeepAlive.unpack (← getHex j "raw")))),
  ("ka_set_file_flag", fun j => do
      let k ← getKa j
      let nl ← getNat j "n_large"
      pure (res (fun a => withRaw (kaFields a) a.pack) (do let k ← k; k.setFileFlag nl))),
  ("ka_eq", eqOp getKa KeepAlive.beq),

  ("nak_pack", fun j => do pure (packed nakFields Nak.pack (← getNak j))),
  ("nak_pack_fails", fun j => do pure (packFails Nak.pack (← getNak j))),
  ("nak_unpack", fun j => do
      pure (res (fun a => withRaw (nakFields a) a.pack) (Nak.unpack (← getHex j "raw")))),
  ("nak_set_segs", fun j => do
      let k ← getNak j
      let segs ← getSegs j "n_segs"
      pure (res (fun a => withRaw (nakFields a) a.pack) (do let k ← k; k.setSegs segs))),
  ("nak_set_file_flag", fun j => do
      let k ← getNak j
      let nl ← getNat j "n_large"
      pure (res (fun a => withRaw (nakFields a) a.pack) (do let k ← k; k.setFileFlag nl))),
  ("nak_eq", eqOp getNak Nak.beq),
  ("nak_max_segs", fun j => do
      let c ← getConf j
      let m ← getInt j "max"
      pure (res (fun n => obj [("n", jn n)]) (do let c ← c; maxSegReqs m c)))
]

end SpVerif.Ops.DirectiveFixed
