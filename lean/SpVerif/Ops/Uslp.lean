import SpVerif.J
import SpVerif.Model.UslpFrame
/-!
# Driver ops for the USLP models (prefix `uslp_`)

`…_cls` variants report the outcome as a value (`{"ok": {"outcome": "ok" | "<Uslp class>" |
"<category>"}}`) so that the specific exception class can be compared where the property /
docstrings name it; the plain ops report failures as the shared category (`{"err": "uslp"}`).
-/
namespace SpVerif.Ops.Uslp
open SpVerif.J SpVerif.Uslp Lean

def ures {α} (f : α → Json) : UPy α → Json
  | .ok a => obj [("ok", f a)]
  | .error e => obj [("err", js e.toErr.name)]

def ucls {α} : UPy α → Json
  | .ok _ => obj [("ok", obj [("outcome", js "ok")])]
  | .error (.uslp k) => obj [("ok", obj [("outcome", js k.className)])]
  | .error (.py e) => obj [("ok", obj [("outcome", js e.name)])]

def getFlag (j : Json) (k : String) : R Bool := do
  let v ← field j k
  match v.getBool? with
  | .ok b => pure b
  | .error _ =>
    match v.getInt? with
    | .ok i => pure (i != 0)
    | .error _ => .error s!"field {k}: not a flag"

def getNatOpt (j : Json) (k : String) : R (Option Nat) := do
  match ← getIntOpt j k with
  | none => pure none
  | some i => if i < 0 then .error s!"field {k}: negative" else pure (some i.toNat)

def getFt (j : Json) (k : String) : R (Option FrameType) := do
  match ← getIntOpt j k with
  | none => pure none
  | some 0 => pure (some .fixed)
  | some 1 => pure (some .variable)
  | some _ => .error s!"field {k}: not a frame type"

def getFtReq (j : Json) (k : String) : R FrameType := do
  match ← getFt j k with
  | some f => pure f
  | none => .error s!"field {k}: frame type required"

def getThdr (j : Json) : R TruncatedHeader := do
  pure ⟨← getInt j "scid", ← getFlag j "src_dest", ← getInt j "vcid", ← getInt j "map_id"⟩

def getPhdr (j : Json) : R PrimaryHeader := do
  pure ⟨← getInt j "scid", ← getFlag j "src_dest", ← getInt j "vcid", ← getInt j "map_id",
        ← getNat j "frame_len", ← getFlag j "bypass", ← getFlag j "prot", ← getFlag j "ocf",
        ← getNat j "vcf_len", ← getNatOpt j "vcf_count"⟩

def getHeader (j : Json) : R Header := do
  match ← getStr j "kind" with
  | "truncated" => pure (.truncated (← getThdr j))
  | "primary" => pure (.primary (← getPhdr j))
  | k => .error s!"header kind {k}"

def getTfdf (j : Json) : R Tfdf := do
  pure ⟨← getNat j "rules", ← getNat j "upid", ← getNatOpt j "fhp", ← getHex j "tfdz"⟩

def getFrame (j : Json) : R Frame := do
  pure ⟨← getHeader (← field j "hdr"), ← getTfdf (← field j "tfdf"), ← getHexOpt j "iz",
        ← getHexOpt j "ocf", ← getHexOpt j "fecf"⟩

def getProps (j : Json) : R FrameProps := do
  pure ⟨← getFtReq j "kind", ← getNat j "len", ← getNatOpt j "iz", ← getNatOpt j "fecf"⟩

def jflag (b : Bool) : Json := jn (b2n b)

def thdrJ (h : TruncatedHeader) : Json :=
  obj [("kind", js "truncated"), ("scid", ji h.scid), ("src_dest", jflag h.srcDest), ("vcid", ji h.vcid),
       ("map_id", ji h.mapId), ("len", jn h.len)]

def phdrJ (h : PrimaryHeader) : Json :=
  obj [("kind", js "primary"), ("scid", ji h.scid), ("src_dest", jflag h.srcDest), ("vcid", ji h.vcid),
       ("map_id", ji h.mapId), ("frame_len", jn h.frameLen), ("bypass", jflag h.bypass),
       ("prot", jflag h.protCmd), ("ocf", jflag h.ocf), ("vcf_len", jn h.vcfLen),
       ("vcf_count", jopt jn h.vcfCount), ("len", jn h.len)]

def headerJ : Header → Json
  | .truncated h => thdrJ h
  | .primary h => phdrJ h

def tfdfJ (t : Tfdf) : Json :=
  obj [("rules", jn t.rules), ("upid", jn t.upid), ("fhp", jopt jn t.fhp), ("tfdz", jh t.tfdz),
       ("len", jn t.len), ("header_len", jn t.headerLen)]

def frameJ (f : Frame) : Json :=
  obj [("hdr", headerJ f.header), ("tfdf", tfdfJ f.tfdf), ("iz", jopt jh f.insertZone),
       ("ocf", jopt jh f.ocf), ("fecf", jopt jh f.fecf), ("len", jn f.len)]

def rawLenJ (r : Bytes × Nat) : Json := obj [("raw", jh r.1), ("len", jn r.2)]

def hdrPack (j : Json) : R (UPy (Bytes × Nat)) := do
  let h ← getPhdr j
  pure (do let b ← h.pack; pure (b, h.len))

def thdrPack (j : Json) : R (UPy (Bytes × Nat)) := do
  let h ← getThdr j
  pure (do let b ← h.pack; pure (b, h.len))

def hdrUnpack (j : Json) : R (UPy PrimaryHeader) := do
  pure (PrimaryHeader.unpack (← getHex j "raw") (← getNat j "version"))

def thdrUnpack (j : Json) : R (UPy TruncatedHeader) := do
  pure (TruncatedHeader.unpack (← getHex j "raw") (← getNat j "version"))

def tfdfPack (j : Json) : R (UPy (Bytes × Tfdf × Bool)) := do
  let t ← getTfdf j
  let tr ← getFlag j "truncated"
  let ft ← getFt j "frame_type"
  pure (do let b ← t.pack tr ft; pure (b, t, shouldHaveFhp t.rules tr ft))

def tfdfUnpack (j : Json) : R (UPy Tfdf) := do
  pure (Tfdf.unpack (← getHex j "raw") (← getFlag j "truncated") (← getNat j "exact_len") (← getFt j "frame_type"))

def framePack (j : Json) : R (UPy (Bytes × Frame)) := do
  let f0 ← getFrame j
  let setLen ← getFlag j "set_len"
  let tr ← getFlag j "truncated"
  let ft ← getFt j "frame_type"
  pure (do
    -- `set_frame_len_in_header()` can refuse (`ValueError`, frame too long for the 16-bit field)
    let f ← if setLen then f0.setFrameLenInHeader else pure f0
    let b ← f.pack tr ft
    pure (b, f))

def frameUnpack (j : Json) : R (UPy Frame) := do
  pure (Frame.unpack (← getHex j "raw") (← getFtReq j "frame_type") (← getProps (← field j "props")))

def ops : List (String × Handler) := [
  ("uslp_hdr_pack", fun j => do pure (ures rawLenJ (← hdrPack j))),
  ("uslp_hdr_unpack", fun j => do pure (ures phdrJ (← hdrUnpack j))),
  ("uslp_hdr_unpack_cls", fun j => do pure (ucls (← hdrUnpack j))),
  ("uslp_thdr_pack", fun j => do pure (ures rawLenJ (← thdrPack j))),
  ("uslp_thdr_unpack", fun j => do pure (ures thdrJ (← thdrUnpack j))),
  ("uslp_thdr_unpack_cls", fun j => do pure (ucls (← thdrUnpack j))),
  ("uslp_hdr_type", fun j => do
      pure (ures (fun b => obj [("truncated", jb b)]) (headerIsTruncated (← getHex j "raw")))),
  ("uslp_tfdf_new", fun j => do
      pure (ures tfdfJ (Tfdf.new (← getNat j "rules") (← getNat j "upid") (← getHex j "tfdz") (← getNatOpt j "fhp")))),
  ("uslp_tfdf_pack", fun j => do
      pure (ures (fun (r : Bytes × Tfdf × Bool) =>
          obj [("raw", jh r.1), ("len", jn r.2.1.len), ("should_fhp", jb r.2.2)]) (← tfdfPack j))),
  ("uslp_tfdf_pack_cls", fun j => do pure (ucls (← tfdfPack j))),
  ("uslp_tfdf_unpack", fun j => do pure (ures tfdfJ (← tfdfUnpack j))),
  ("uslp_tfdf_unpack_cls", fun j => do pure (ucls (← tfdfUnpack j))),
  ("uslp_tfdf_query", fun j => do
      let rules ← getNat j "rules"
      let tr ← getFlag j "truncated"
      let ft ← getFt j "frame_type"
      pure (obj [("ok", obj [("should_fhp", jb (shouldHaveFhp rules tr ft)),
        ("fixed_ok", jb (verifyFrameType rules .fixed)), ("variable_ok", jb (verifyFrameType rules .variable))])])),
  ("uslp_props_new", fun j => do
      pure (ures (fun (p : FrameProps) => obj [("iz", jopt jn p.insertZone), ("fecf", jopt jn p.fecf), ("len", jn p.lenParam)])
        (FrameProps.new (← getFtReq j "kind") (← getNat j "len") (← getFlag j "has_iz") (← getFlag j "has_fecf")
          (← getNatOpt j "iz_len") (← getNatOpt j "fecf_len")))),
  ("uslp_frame_pack", fun j => do
      pure (ures (fun (r : Bytes × Frame) =>
          obj [("raw", jh r.1), ("len", jn r.2.len),
               ("frame_len", match r.2.header with
                  | .primary h => jn h.frameLen
                  | .truncated _ => Json.null)]) (← framePack j))),
  ("uslp_frame_pack_cls", fun j => do pure (ucls (← framePack j))),
  ("uslp_frame_unpack", fun j => do pure (ures frameJ (← frameUnpack j))),
  ("uslp_frame_unpack_cls", fun j => do pure (ucls (← frameUnpack j)))
]

end SpVerif.Ops.Uslp
