import SpVerif.J
import SpVerif.Model.Lv
import SpVerif.Model.Tlv
namespace SpVerif.Ops.Tlv
open SpVerif.J SpVerif.Lv SpVerif.Tlv Lean

def lvJ (l : CfdpLv) : Json :=
  obj [("value", jh l.value), ("value_len", jn l.valueLen), ("packet_len", jn l.packetLen)]

def tlvJ (t : CfdpTlv) : Json :=
  obj [("type", jn t.ttype), ("value", jh t.value), ("packet_len", jn t.packetLen)]

def wrapJ (ty : Nat) (t : CfdpTlv) : Json :=
  obj [("type", jn ty), ("value", jh t.value), ("packet_len", jn t.packetLen)]

def fhJ (f : FaultHandlerOverrideTlv) : Json :=
  obj [("type", jn f.tlvType), ("cc", jn f.conditionCode), ("hc", jn f.handlerCode), ("value", jh f.value),
       ("packet_len", jn f.packetLen)]

def fsReqJ (r : FileStoreRequestTlv) : Json :=
  obj [("type", jn r.tlvType), ("action", jn r.action), ("first", jh r.first), ("second", jh r.second),
       ("packet_len", jn r.packetLen)]

def fsRespJ (r : FileStoreResponseTlv) : Json :=
  obj [("type", jn r.tlvType), ("action", jn r.action), ("status", ji r.status), ("first", jh r.first),
       ("second", jh r.second), ("msg", jh r.msg.value), ("packet_len", jn r.packetLen)]

/-- adds the packed octets to a result object (pack may fail) -/
def withRaw {α} (f : α → Json) (pack : α → Py Bytes) (x : Py α) : Json :=
  res (fun (p : α × Bytes) => (f p.1).mergeObj (obj [("raw", jh p.2)]))
    (x >>= fun a => (pack a) >>= fun b => pure (a, b))

def getFsReq (j : Json) : R FileStoreRequestTlv := do
  pure ⟨← getNat j "action", ← getHex j "first", ← getHex j "second"⟩

def getFsResp (j : Json) : R (Py FileStoreResponseTlv) := do
  let a ← getNat j "action"
  let s ← getInt j "status"
  let f ← getHex j "first"
  let sn ← getHex j "second"
  let m ← getHex j "msg"
  pure (CfdpLv.new m >>= fun lv => pure ⟨a, s, f, sn, lv⟩)

/-- a TLV object described by `{"kind": …, …}` (constructed through the model constructors) -/
def getAny (j : Json) : R (Py AnyTlv) := do
  let k ← getStr j "kind"
  if k == "generic" then
    pure (AnyTlv.generic <$> CfdpTlv.new (← getNat j "type") (← getHex j "value"))
  else if k == "entity_id" then pure (AnyTlv.entityId <$> EntityIdTlv.new (← getHex j "value"))
  else if k == "flow_label" then pure (AnyTlv.flowLabel <$> FlowLabelTlv.new (← getHex j "value"))
  else if k == "msg_to_user" then pure (AnyTlv.msgToUser <$> MessageToUserTlv.new (← getHex j "value"))
  else if k == "fault_handler" then
    pure (AnyTlv.faultHandler <$> FaultHandlerOverrideTlv.new (← getInt j "cc") (← getNat j "hc"))
  else if k == "fs_request" then pure (.ok (AnyTlv.fsRequest (← getFsReq j)))
  else if k == "fs_response" then pure (AnyTlv.fsResponse <$> (← getFsResp j))
  else .error s!"unknown kind {k}"

def anyJ (a : AnyTlv) : Json := obj [("type", jn a.tlvType), ("packet_len", jn a.packetLen)]

def ops : List (String × Handler) := [
  ("lv_new", fun j => do pure (res lvJ (CfdpLv.new (← getHex j "value")))),
  ("lv_pack", fun j => do pure (withRaw lvJ CfdpLv.pack (CfdpLv.new (← getHex j "value")))),
  ("lv_unpack", fun j => do pure (res lvJ (CfdpLv.unpack (← getHex j "raw")))),
  ("tlv_new", fun j => do pure (res tlvJ (CfdpTlv.new (← getNat j "type") (← getHex j "value")))),
  ("tlv_pack", fun j => do
      pure (withRaw tlvJ CfdpTlv.pack (CfdpTlv.new (← getNat j "type") (← getHex j "value")))),
  ("tlv_unpack", fun j => do pure (res tlvJ (CfdpTlv.unpack (← getHex j "raw")))),
  ("tlv_w_pack", fun j => do
      let c ← getStr j "cls"
      let v ← getHex j "value"
      if c == "entity_id" then pure (withRaw (fun e => wrapJ e.tlvType e.tlv) EntityIdTlv.pack (EntityIdTlv.new v))
      else if c == "flow_label" then pure (withRaw (fun e => wrapJ e.tlvType e.tlv) FlowLabelTlv.pack (FlowLabelTlv.new v))
      else if c == "msg_to_user" then pure (withRaw (fun e => wrapJ e.tlvType e.tlv) MessageToUserTlv.pack (MessageToUserTlv.new v))
      else .error s!"unknown cls {c}"),
  ("tlv_w_unpack", fun j => do
      let c ← getStr j "cls"
      let d ← getHex j "raw"
      if c == "entity_id" then pure (withRaw (fun e => wrapJ e.tlvType e.tlv) EntityIdTlv.pack (EntityIdTlv.unpack d))
      else if c == "flow_label" then pure (withRaw (fun e => wrapJ e.tlvType e.tlv) FlowLabelTlv.pack (FlowLabelTlv.unpack d))
      else if c == "msg_to_user" then pure (withRaw (fun e => wrapJ e.tlvType e.tlv) MessageToUserTlv.pack (MessageToUserTlv.unpack d))
      else .error s!"unknown cls {c}"),
  ("tlv_w_from_tlv", fun j => do
      let c ← getStr j "cls"
      let t := CfdpTlv.new (← getNat j "type") (← getHex j "value")
      if c == "entity_id" then pure (withRaw (fun e => wrapJ e.tlvType e.tlv) EntityIdTlv.pack (t >>= EntityIdTlv.fromTlv))
      else if c == "flow_label" then pure (withRaw (fun e => wrapJ e.tlvType e.tlv) FlowLabelTlv.pack (t >>= FlowLabelTlv.fromTlv))
      else if c == "msg_to_user" then pure (withRaw (fun e => wrapJ e.tlvType e.tlv) MessageToUserTlv.pack (t >>= MessageToUserTlv.fromTlv))
      else .error s!"unknown cls {c}"),
  ("tlv_msg_reserved", fun j => do
      pure (res (fun m => obj [("reserved", jb m.isReservedCfdpMessage)]) (MessageToUserTlv.new (← getHex j "value")))),
  ("tlv_fh_pack", fun j => do
      pure (withRaw fhJ FaultHandlerOverrideTlv.pack (FaultHandlerOverrideTlv.new (← getInt j "cc") (← getNat j "hc")))),
  ("tlv_fh_unpack", fun j => do
      pure (withRaw fhJ FaultHandlerOverrideTlv.pack (FaultHandlerOverrideTlv.unpack (← getHex j "raw")))),
  ("tlv_fh_from_tlv", fun j => do
      pure (withRaw fhJ FaultHandlerOverrideTlv.pack
        (CfdpTlv.new (← getNat j "type") (← getHex j "value") >>= FaultHandlerOverrideTlv.fromTlv))),
  ("tlv_fsreq_len", fun j => do pure (obj [("ok", obj [("packet_len", jn (← getFsReq j).packetLen)])])),
  ("tlv_fsreq_pack", fun j => do
      let r ← getFsReq j
      pure (res (fun (p : Bytes × Bytes) => (fsReqJ r).mergeObj (obj [("raw", jh p.1), ("value", jh p.2)]))
        (r.pack >>= fun b => r.value >>= fun v => pure (b, v)))),
  ("tlv_fsreq_unpack", fun j => do
      pure (withRaw fsReqJ FileStoreRequestTlv.pack (FileStoreRequestTlv.unpack (← getHex j "raw")))),
  ("tlv_fsreq_from_tlv", fun j => do
      pure (withRaw fsReqJ FileStoreRequestTlv.pack
        (CfdpTlv.new (← getNat j "type") (← getHex j "value") >>= FileStoreRequestTlv.fromTlv))),
  ("tlv_fsresp_len", fun j => do
      pure (res (fun (r : FileStoreResponseTlv) => obj [("packet_len", jn r.packetLen)]) (← getFsResp j))),
  ("tlv_fsresp_pack", fun j => do
      let r ← getFsResp j
      pure (res (fun (p : FileStoreResponseTlv × Bytes × Bytes) =>
          (fsRespJ p.1).mergeObj (obj [("raw", jh p.2.1), ("value", jh p.2.2)]))
        (r >>= fun r => r.pack >>= fun b => r.value >>= fun v => pure (r, b, v)))),
  ("tlv_fsresp_unpack", fun j => do
      pure (withRaw fsRespJ FileStoreResponseTlv.pack (FileStoreResponseTlv.unpack (← getHex j "raw")))),
  ("tlv_fsresp_from_tlv", fun j => do
      pure (withRaw fsRespJ FileStoreResponseTlv.pack
        (CfdpTlv.new (← getNat j "type") (← getHex j "value") >>= FileStoreResponseTlv.fromTlv))),
  ("tlv_holder", fun j => do
      let h ← getAny (← field j "held")
      let to ← getStr j "to"
      let conv : AnyTlv → Py AnyTlv ←
        if to == "entity_id" then pure (fun a => AnyTlv.entityId <$> holderToEntityId a)
        else if to == "flow_label" then pure (fun a => AnyTlv.flowLabel <$> holderToFlowLabel a)
        else if to == "msg_to_user" then pure (fun a => AnyTlv.msgToUser <$> holderToMsgToUser a)
        else if to == "fault_handler" then pure (fun a => AnyTlv.faultHandler <$> holderToFaultHandler a)
        else if to == "fs_request" then pure (fun a => AnyTlv.fsRequest <$> holderToFsRequest a)
        else if to == "fs_response" then pure (fun a => AnyTlv.fsResponse <$> holderToFsResponse a)
        else .error s!"unknown target {to}"
      match h >>= conv with
      | .error .type => pure (obj [("ok", obj [("refused", js "type")])])
      | r => pure (withRaw anyJ AnyTlv.pack r)),
  ("tlv_any", fun j => do
      let h ← getAny (← field j "held")
      pure (res (fun (p : AnyTlv × Bytes × Bytes) =>
          (anyJ p.1).mergeObj (obj [("raw", jh p.2.1), ("value", jh p.2.2)]))
        (h >>= fun a => a.pack >>= fun b => a.value >>= fun v => pure (a, b, v)))),
  ("tlv_eq", fun j => do
      let a ← getAny (← field j "a")
      let b ← getAny (← field j "b")
      pure (res (fun e => obj [("eq", jb e)]) (a >>= fun a => b >>= fun b => a.beq b))),
  ("tlv_entity_eq", fun j => do
      let a := EntityIdTlv.new (← getHex j "a")
      let b := EntityIdTlv.new (← getHex j "b")
      pure (res (fun e => obj [("eq", jb e)]) (a >>= fun a => b >>= fun b => a.beq b))),
  ("tlv_check_type", fun j => do
      let a ← getAny (← field j "held")
      let t ← getNat j "type"
      pure (res (fun _ => obj []) (a >>= fun a => a.checkType t))),
  ("tlv_status_to_int", fun j => do
      pure (obj [("ok", obj [("nibble", jn (statusToInt (← getInt j "status")))])])),
  ("tlv_status_to_action", fun j => do
      pure (res (fun (p : Nat × Nat) => obj [("action", jn p.1), ("nibble", jn p.2)])
        (statusToActionStatus (← getInt j "status")))),
  ("tlv_status_from_int", fun j => do
      pure (obj [("ok", obj [("status", ji (statusFromInt (← getNat j "action") (← getNat j "status")))])])),
  ("tlv_utf8", fun j => do
      pure (obj [("ok", obj [("valid", jb (utf8Valid (← getHex j "raw")))])]))
]

end SpVerif.Ops.Tlv
