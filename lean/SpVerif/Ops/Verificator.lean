import SpVerif.J
import SpVerif.Model.Verificator
/-!
# Driver ops for the verification tracker (prefix `verif_`)

One op line carries a whole history:

`{"op":"verif_run","n":K,"ids":[[version,ptype,shf,apid,flags,count],…],"steps":[step,…]}`

* `ids` is a table of request ids given by their header fields; the model files them under
  `keyOf` (= `RequestId.as_u32()` of the `Srv1` model);
* a step is `[0,i]` (`add_tc` of a telecommand whose header has the fields `ids[i]`),
  `[1,i,sub,stepval|null,…]` (`add_tm` of a report for `ids[i]`; further elements tell the Python
  side how to build the report and are ignored here), `[2,i]` (`remove_entry`), `[3]`
  (`remove_completed_entries`);
* only the first `n` steps are executed (lets the shrinker shorten a history).

Result: `outs[k]` is what call `k` returned, `dicts[k]` the whole dictionary after it, sorted by key,
every record as `[all_recvd, accepted, started, step, completed, [step list]]`.
-/
namespace SpVerif.Ops.Verificator
open SpVerif.J SpVerif.Verificator Lean

def natOf (j : Json) (what : String) : R Nat :=
  match j.getInt? with
  | .ok i => if i < 0 then .error s!"{what}: negative" else .ok i.toNat
  | .error _ => .error s!"{what}: not an integer"

def natOptOf (j : Json) (what : String) : R (Option Nat) :=
  if j.isNull then .ok none else some <$> natOf j what

def idOf (j : Json) : R Nat :=
  match j.getArr? with
  | .ok a =>
    if a.size = 6 then do
      let v ← natOf a[0]! "id.version"
      let t ← natOf a[1]! "id.ptype"
      let s ← natOf a[2]! "id.shf"
      let ap ← natOf a[3]! "id.apid"
      let f ← natOf a[4]! "id.flags"
      let c ← natOf a[5]! "id.count"
      pure (keyOf v t s ap f c)
    else .error "id: six fields expected"
  | .error _ => .error "id: not an array"

def keyAt (ids : Array Nat) (j : Json) : R Nat := do
  let i ← natOf j "step: id index"
  match ids[i]? with
  | some k => .ok k
  | none => .error "step: id index out of range"

def stepOf (ids : Array Nat) (j : Json) : R Op :=
  match j.getArr? with
  | .error _ => .error "step: not an array"
  | .ok a =>
    if a.size = 0 then .error "step: empty" else do
    let kind ← natOf a[0]! "step kind"
    if kind = 0 ∧ a.size ≥ 2 then
      return .addTc (← keyAt ids a[1]!)
    else if kind = 1 ∧ a.size ≥ 4 then
      return .addTm (← keyAt ids a[1]!) (← natOf a[2]! "subservice") (← natOptOf a[3]! "step value")
    else if kind = 2 ∧ a.size ≥ 2 then
      return .removeEntry (← keyAt ids a[1]!)
    else if kind = 3 then
      return .removeCompleted
    else .error "step: unknown kind / too few elements"

def sfJ (f : SF) : Json := ji f.toInt

def statusJ (s : VStatus) : Json :=
  jarr [jb s.allRecvd, sfJ s.accepted, sfJ s.started, sfJ s.step, sfJ s.completed, jarr (s.stepList.map jn)]

/-- insertion sort by key (dictionaries are compared sorted, never in iteration order) -/
def insertByKey (e : Nat × VStatus) : List (Nat × VStatus) → List (Nat × VStatus)
  | [] => [e]
  | x :: xs => if e.1 ≤ x.1 then e :: x :: xs else x :: insertByKey e xs

def sortByKey (t : Tracker) : List (Nat × VStatus) := t.foldr insertByKey []

def dictJ (t : Tracker) : Json := jarr ((sortByKey t).map fun e => jarr [jn e.1, statusJ e.2])

/-- the canonical form of what a call returned. A report whose subservice is outside 1..8 is
    outside the property's domain: "no result" (unknown id) and `ValueError` (known id) are both
    rendered as `"refused"`. -/
def outJ (o : Op) (r : Out) : Json :=
  let badSub : Bool :=
    match o with
    | .addTm _ sub _ => sub = 0 || sub > 8
    | _ => false
  match r with
  | .added b => jb b
  | .removed b => jb b
  | .done => Json.null
  | .noResult => if badSub then js "refused" else Json.null
  | .result st c => obj [("completed", jb c), ("status", statusJ st)]
  | .raised e => if badSub && e == Err.value then js "refused" else obj [("raised", js e.name)]

def ops : List (String × Handler) := [
  ("verif_run", fun j => do
      let n ← getNat j "n"
      let ids ← (← getArr j "ids").mapM idOf
      let steps ← (← getArr j "steps").mapM (stepOf ids.toArray)
      let hist := steps.take n
      let tr := trace Tracker.empty hist
      let outs := (hist.zip tr).map fun p => outJ p.1 p.2.1
      pure (obj [("ok", obj [("outs", jarr outs), ("dicts", jarr (tr.map fun p => dictJ p.2))])])),
  -- the key under which a request id with these header fields is filed
  ("verif_key", fun j => do
      let k ← idOf (← field j "id")
      pure (obj [("ok", obj [("key", jn k)])]))
]

end SpVerif.Ops.Verificator
