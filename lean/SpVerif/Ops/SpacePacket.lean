import SpVerif.J
import SpVerif.Model.SpacePacket
namespace SpVerif.Ops.SpacePacket
open SpVerif.J SpVerif.SpacePacket Lean

def sphJ (h : Sph) : Json :=
  obj [("version", jn h.version), ("ptype", jn h.ptype), ("shf", jn h.shf), ("apid", jn h.apid),
       ("flags", jn h.flags), ("count", jn h.count), ("dlen", jn h.dlen), ("packet_len", jn h.packetLen)]

def getSph (j : Json) : R (Py Sph) := do
  pure (Sph.new (← getNat j "version") (← getNat j "ptype") (← getNat j "shf") (← getInt j "apid")
    (← getNat j "flags") (← getInt j "count") (← getInt j "dlen"))

def ops : List (String × Handler) := [
  ("sph_new", fun j => do pure (res sphJ (← getSph j))),
  ("sph_pack", fun j => do
      let h ← getSph j
      pure (res (fun b => obj [("raw", jh b)]) (h >>= Sph.pack))),
  ("sph_unpack", fun j => do pure (res sphJ (Sph.unpack (← getHex j "raw")))),
  ("pid_raw", fun j => do
      pure (res (fun p => obj [("raw", jn p.raw)])
        (PacketId.new (← getNat j "ptype") (← getNat j "shf") (← getInt j "apid")))),
  ("pid_from_raw", fun j => do
      let p := PacketId.fromRaw (← getNat j "raw")
      pure (obj [("ok", obj [("ptype", jn p.ptype), ("shf", jn p.shf), ("apid", jn p.apid)])])),
  ("psc_raw", fun j => do
      pure (res (fun p => obj [("raw", jn p.raw)]) (Psc.new (← getNat j "flags") (← getInt j "count")))),
  ("psc_from_raw", fun j => do
      pure (res (fun p => obj [("flags", jn p.flags), ("count", jn p.count)]) (Psc.fromRaw (← getNat j "raw")))),
  ("sp_pack", fun j => do
      let h ← getSph j
      let sec ← getHexOpt j "sec"
      let user ← getHexOpt j "user"
      pure (res (fun b => obj [("raw", jh b)]) (h >>= fun h => spPack h sec user))),
  ("apid_from_raw", fun j => do
      pure (res (fun a => obj [("apid", jn a)]) (apidFromRaw (← getHex j "raw")))),
  ("id_bytes", fun j => do
      let r := idBytes (← getNat j "version") (← getNat j "ptype") (← getNat j "shf") (← getNat j "apid")
      pure (obj [("ok", obj [("b0", jn r.1), ("b1", jn r.2)])])),
  ("total_len", fun j => do
      pure (obj [("ok", obj [("len", jn (totalLenFromLenField (← getNat j "len_field")))])]))
]

end SpVerif.Ops.SpacePacket
