import SpVerif.J
import SpVerif.Model.Parser
namespace SpVerif.Ops.Parser
open SpVerif.J SpVerif.Parser SpVerif.SpacePacket Lean

/-- `"ids": [[ptype, shf, apid], …]` → `PacketId(ptype, shf, apid)` objects (ValueError on a bad APID) -/
def getPids (j : Json) (k : String) : R (Py (List PacketId)) := do
  let a ← getArr j k
  let triples ← a.mapM fun x =>
    match x.getArr? with
    | .ok t =>
      match t.toList with
      | [p, s, ap] =>
        match p.getNat?, s.getNat?, ap.getInt? with
        | .ok p, .ok s, .ok ap => (.ok (p, s, ap) : R (Nat × Nat × Int))
        | _, _, _ => .error s!"field {k}: bad id triple"
      | _ => .error s!"field {k}: id is not a triple"
    | .error _ => .error s!"field {k}: id is not an array"
  pure (triples.mapM fun (p, s, ap) => PacketId.new p s ap)

/-- `"steps": ["<hex>", null, …]`: a string appends that chunk to the deque, `null` calls the parser -/
def getSteps (j : Json) (k : String) : R (List Step) := do
  let a ← getArr j k
  a.mapM fun x =>
    if x.isNull then .ok .parse else
    match x.getStr? with
    | .ok s => Step.append <$> bytesOfHex s
    | .error _ => .error s!"field {k}: step is neither a hex string nor null"

/-- cut a stream: bit `k` of `cuts` set (and octet `k+1` exists) = a chunk ends behind octet `k` -/
def cutChunks : Bytes → Nat → Bytes → List Bytes
  | [], _, acc => [acc.reverse]
  | x :: xs, m, acc =>
    if !xs.isEmpty && m % 2 == 1 then (x :: acc).reverse :: cutChunks xs (m / 2) []
    else cutChunks xs (m / 2) (x :: acc)

/-- append every chunk; call the parser behind chunk `i` when bit `i` of `parses` is set, and
    always behind the last chunk -/
def cutSchedule : List Bytes → Nat → List Step
  | [], _ => []
  | [c], _ => [.append c, .parse]
  | c :: cs, m => (if m % 2 == 1 then [.append c, .parse] else [.append c]) ++ cutSchedule cs (m / 2)

/-- number of junk octets in `data`: everything that is neither part of a returned packet nor of the
    canonical residual -/
def junkCount (ids : List Nat) (data : Bytes) : Nat :=
  let r := scan ids data
  data.length - r.1.flatten.length - (canonRest ids r.2).length

/-- the relation the check compares: exactly when the octets in question contain no junk, in
    canonical form otherwise -/
def cmpRest (ids : List Nat) (fedSoFar r : Bytes) : Bytes :=
  if junkCount ids fedSoFar == 0 then r else canonRest ids r

/-- the octets fed before each parser call -/
def fedAt : List Step → Bytes → List Bytes
  | [], _ => []
  | .append c :: s, acc => fedAt s (acc ++ c)
  | .parse :: s, acc => acc :: fedAt s acc

def obsJ (ids : List Nat) (steps : List Step) (obs : List (List Bytes × List Bytes)) (qf : List Bytes) : Json :=
  obj [("packets", jarr (obs.map fun o => jarr (o.1.map jh))),
       ("rest_cmp", jarr ((obs.zip (fedAt steps [])).map fun (o, f) => jh (cmpRest ids f o.2.flatten))),
       ("final_cmp", jh (cmpRest ids (fed steps) qf.flatten)),
       ("rest", jarr (obs.map fun o => jh o.2.flatten)),
       ("rest_canon", jarr (obs.map fun o => jh (canonRest ids o.2.flatten))),
       ("queue", jarr (obs.map fun o => jarr (o.2.map jh))),
       ("final", jh qf.flatten)]

def runOn (pids : Py (List PacketId)) (steps : List Step) :
    Py (List Nat × (List (List Bytes × List Bytes) × List Bytes)) := do
  let ps ← pids
  let ids := ps.map PacketId.raw
  let o ← runPy ids [] steps
  pure (ids, o)

def ops : List (String × Handler) := [
  -- a whole history on a new deque: per parser call the packets returned and the concatenation of the
  -- deque's chunks afterwards (`rest`; `rest_canon` its canonical form; `rest_cmp` = `rest` when the
  -- octets fed so far contain no junk, `rest_canon` otherwise — this is what is compared); `queue`:
  -- the chunks themselves (informative); `final`/`final_cmp`: the deque after the last step
  ("sp_parse_run", fun j => do
      let pids ← getPids j "ids"
      let steps ← getSteps j "steps"
      pure (res (fun (ids, obs, qf) => obsJ ids steps obs qf) (runOn pids steps))),
  -- the same for a stream cut at the positions given by the bit mask `cuts`, parser calls behind the
  -- chunks given by the bit mask `parses` and behind the last chunk
  ("sp_parse_cuts", fun j => do
      let pids ← getPids j "ids"
      let stream ← getHex j "stream"
      let cuts ← getNat j "cuts"
      let parses ← getNat j "parses"
      let steps := cutSchedule (cutChunks stream cuts []) parses
      pure (res (fun (ids, obs, qf) => obsJ ids steps obs qf) (runOn pids steps))),
  -- one buffer, one call
  ("sp_parse_buf", fun j => do
      let pids ← getPids j "ids"
      let raw ← getHex j "raw"
      let r : Py (List Nat × (List Bytes × List Bytes)) := do
        let ps ← pids
        let o ← parseSpacePackets [raw] ps
        pure (ps.map PacketId.raw, o)
      pure (res (fun (ids, o) =>
        obj [("packets", jarr (o.1.map jh)),
             ("rest_cmp", jh (cmpRest ids raw o.2.flatten)),
             ("rest", jh o.2.flatten),
             ("rest_canon", jh (canonRest ids o.2.flatten))]) r)),
  -- constants the model hard-codes
  ("sp_parse_consts", fun _ => do
      pure (obj [("ok", obj [("id_modulus", jn idModulus), ("header_len", jn headerLen),
                             ("min_total", jn (totalLenFromLenField 0))])]))
]

end SpVerif.Ops.Parser
