import SpVerif.J
import SpVerif.Model.Parser
namespace SpVerif.Ops.Parser
open SpVerif.J SpVerif.Parser SpVerif.SpacePacket Lean

/-- `"ids": [[ptype, shf, apid], …]` → `PacketId(ptype, shf, apid)` objects (ValueError on a bad APID) -/
def getPids (j : Json) (k : String) : R (Py (List PacketId)) := do
  let a ← getArr j k
  let triples ← a.mapM fun x =>
    match x.getArr? with
    | .ok t =>
      match t.toList with
      | [p, s, ap] =>
        match p.getNat?, s.getNat?, ap.getInt? with
        | .ok p, .ok s, .ok ap => (.ok (p, s, ap) : R (Nat × Nat × Int))
        | _, _, _ => .error s!"field {k}: bad id triple"
      | _ => .error s!"field {k}: id is not a triple"
    | .error _ => .error s!"field {k}: id is not an array"
  pure (triples.mapM fun (p, s, ap) => PacketId.new p s ap)

/-- `"steps": ["<hex>", null, …]`: a string appends that chunk to the deque, `null` calls the parser -/
def getSteps (j : Json) (k : String) : R (List Step) := do
  let a ← getArr j k
  a.mapM fun x =>
    if x.isNull then .ok .parse else
    match x.getStr? with
    | .ok s => Step.append <$> bytesOfHex s
    | .error _ => .error s!"field {k}: step is neither a hex string nor null"

def ops : List (String × Handler) := [
  -- a whole history on a new deque: per parser call the packets returned, the concatenation of the
  -- deque's chunks afterwards (`rest`), its canonical form (`rest_canon`) and the chunks themselves
  -- (`queue`, informative); `final` is the concatenation of the deque after the last step
  ("sp_parse_run", fun j => do
      let pids ← getPids j "ids"
      let steps ← getSteps j "steps"
      let r : Py (List Nat × (List (List Bytes × List Bytes) × List Bytes)) := do
        let ps ← pids
        let ids := ps.map PacketId.raw
        let o ← runPy ids [] steps
        pure (ids, o)
      pure (res (fun (ids, obs, qf) =>
        obj [("packets", jarr (obs.map fun o => jarr (o.1.map jh))),
             ("rest", jarr (obs.map fun o => jh o.2.flatten)),
             ("rest_canon", jarr (obs.map fun o => jh (canonRest ids o.2.flatten))),
             ("queue", jarr (obs.map fun o => jarr (o.2.map jh))),
             ("final", jh qf.flatten)]) r)),
  -- one buffer, one call
  ("sp_parse_buf", fun j => do
      let pids ← getPids j "ids"
      let raw ← getHex j "raw"
      let r : Py (List Nat × (List Bytes × List Bytes)) := do
        let ps ← pids
        let o ← parseSpacePackets [raw] ps
        pure (ps.map PacketId.raw, o)
      pure (res (fun (ids, o) =>
        obj [("packets", jarr (o.1.map jh)),
             ("rest", jh o.2.flatten),
             ("rest_canon", jh (canonRest ids o.2.flatten))]) r)),
  -- constants the model hard-codes
  ("sp_parse_consts", fun _ => do
      pure (obj [("ok", obj [("id_modulus", jn idModulus), ("header_len", jn headerLen),
                             ("min_total", jn (totalLenFromLenField 0))])]))
]

end SpVerif.Ops.Parser
