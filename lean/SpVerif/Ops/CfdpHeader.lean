import SpVerif.J
import SpVerif.Model.CfdpHeader
namespace SpVerif.Ops.CfdpHeader
open SpVerif.J SpVerif.CfdpHeader Lean

def hdrFields (h : PduHeader) : List (String × Json) :=
  [("ptype", jn h.pduType), ("segmeta", jn h.segMeta), ("dlen", jn h.dataFieldLen),
   ("src_w", jn h.conf.source.width), ("src_v", jn h.conf.source.value),
   ("dst_w", jn h.conf.dest.width), ("dst_v", jn h.conf.dest.value),
   ("seq_w", jn h.conf.seqNum.width), ("seq_v", jn h.conf.seqNum.value),
   ("mode", jn h.conf.transMode), ("large", jn h.conf.fileFlag), ("crc", jn h.conf.crcFlag),
   ("dir", jn h.conf.direction), ("segctrl", jn h.conf.segCtrl),
   ("header_len", jn h.headerLen), ("packet_len", jn h.packetLen),
   ("conf_header_len", jn h.conf.headerLen), ("large_set", jb h.largeFileFlagSet)]

def hdrJ (h : PduHeader) : Json := obj (hdrFields h)

/-- header fields plus the octets `pack()` gives afterwards -/
def hdrPackedJ (p : PduHeader × Bytes) : Json := obj (hdrFields p.1 ++ [("raw", jh p.2)])

def withPack (h : Py PduHeader) : Py (PduHeader × Bytes) := do
  let h ← h
  let raw ← h.pack
  pure (h, raw)

/-- the three byte fields are built first (source, destination, sequence number), then the config -/
def getConf (j : Json) : R (Py PduConfig) := do
  let sw ← getNat j "src_w"
  let sv ← getInt j "src_v"
  let dw ← getNat j "dst_w"
  let dv ← getInt j "dst_v"
  let qw ← getNat j "seq_w"
  let qv ← getInt j "seq_v"
  let mode ← getNat j "mode"
  let large ← getNat j "large"
  let crc ← getNat j "crc"
  let dir ← getNat j "dir"
  let seg ← getNat j "segctrl"
  pure (do
    let s ← BF.new sw sv
    let d ← BF.new dw dv
    let q ← BF.new qw qv
    pure ⟨s, d, q, mode, large, crc, dir, seg⟩)

def getHdr (j : Json) : R (Py PduHeader) := do
  let c ← getConf j
  let t ← getNat j "ptype"
  let m ← getNat j "segmeta"
  let n ← getNat j "dlen"
  pure (c >>= fun c => PduHeader.new t m n c)

def ops : List (String × Handler) := [
  ("hdr_bf", fun j => do
      pure (res (fun f => obj [("w", jn f.width), ("v", jn f.value), ("raw", jh f.bytes)])
        (BF.new (← getNat j "w") (← getInt j "v")))),
  ("hdr_bf_from_bytes", fun j => do
      pure (res (fun f => obj [("w", jn f.width), ("v", jn f.value), ("raw", jh f.bytes)])
        (BF.fromBytes (← getNat j "w") (← getHex j "raw")))),
  ("hdr_conf_len", fun j => do
      pure (res (fun c => obj [("len", jn c.headerLen)]) (← getConf j))),
  ("hdr_new", fun j => do pure (res hdrJ (← getHdr j))),
  ("hdr_pack", fun j => do pure (res hdrPackedJ (withPack (← getHdr j)))),
  ("hdr_unpack", fun j => do pure (res hdrJ (PduHeader.unpack (← getHex j "raw")))),
  ("hdr_len_from_raw", fun j => do
      pure (res (fun n => obj [("len", jn n)]) (headerLenFromRaw (← getHex j "raw")))),
  ("hdr_check_len", fun j => do
      pure (res (fun n => obj [("len", jn n)]) (checkLenInBytes (← getNat j "n")))),
  ("hdr_verify", fun j => do
      let h ← getHdr j
      let d ← getHex j "data"
      pure (res (fun n => obj [("len", jn n)]) (h >>= fun h => h.verifyLengthAndChecksum d))),
  ("hdr_unpack_verify", fun j => do
      let d ← getHex j "raw"
      pure (res (fun (p : PduHeader × Nat) => obj [("len", jn p.2), ("header_len", jn p.1.headerLen), ("crc", jn p.1.conf.crcFlag)])
        (do let h ← PduHeader.unpack d
            let n ← h.verifyLengthAndChecksum d
            pure (h, n)))),
  ("hdr_set_ids", fun j => do
      let h ← getHdr j
      let sw ← getNat j "n_src_w"
      let sv ← getInt j "n_src_v"
      let dw ← getNat j "n_dst_w"
      let dv ← getInt j "n_dst_v"
      pure (res hdrPackedJ (withPack (do
        let h ← h
        let s ← BF.new sw sv
        let d ← BF.new dw dv
        h.setEntityIds s d)))),
  ("hdr_set_len", fun j => do
      let h ← getHdr j
      let n ← getNat j "n_dlen"
      pure (res hdrPackedJ (withPack (h >>= fun h => h.setDataFieldLen n)))),
  ("hdr_set_flags", fun j => do
      let h ← getHdr j
      let t ← getNat j "n_ptype"
      let m ← getNat j "n_segmeta"
      let mode ← getNat j "n_mode"
      let large ← getNat j "n_large"
      let crc ← getNat j "n_crc"
      let dir ← getNat j "n_dir"
      let seg ← getNat j "n_segctrl"
      let qw ← getNat j "n_seq_w"
      let qv ← getInt j "n_seq_v"
      pure (res hdrPackedJ (withPack (do
        let h ← h
        let q ← BF.new qw qv
        pure { h with pduType := t, segMeta := m,
                      conf := { h.conf with seqNum := q, transMode := mode, fileFlag := large, crcFlag := crc,
                                            direction := dir, segCtrl := seg } }))))
]

end SpVerif.Ops.CfdpHeader
