import SpVerif.J
import SpVerif.Model.Cds
namespace SpVerif.Ops.Cds
open SpVerif.J SpVerif.Cds Lean

/-- a stamp with its two views as exact integers: Unix milliseconds and Unix microseconds -/
def stampJ (s : Stamp) : Json :=
  obj [("days", ji s.days), ("ms", ji s.ms), ("unix_ms", ji s.unixMs), ("dt_us", ji (s.unixMs * 1000))]

def getTd (j : Json) : R TimeDelta := do
  pure ⟨← getInt j "td_days", ← getInt j "td_s", ← getInt j "td_us"⟩

def ops : List (String × Handler) := [
  ("cds_new", fun j => do
      pure (obj [("ok", stampJ (Stamp.new (← getInt j "days") (← getInt j "ms")))])),
  ("cds_pack", fun j => do
      let s := Stamp.new (← getInt j "days") (← getInt j "ms")
      pure (res (fun b => obj [("raw", jh b)]) s.pack)),
  ("cds_unpack", fun j => do pure (res stampJ (unpackFromRaw (← getHex j "raw")))),
  ("cds_from_dt", fun j => do
      let s := fromUnixMicros (← getInt j "us")
      pure (obj [("ok", obj [("days", ji s.days), ("ms", ji s.ms), ("unix_ms", ji s.unixMs),
        ("dt_ms", ji s.unixMs)])])),
  ("cds_add", fun j => do
      let s := Stamp.new (← getInt j "days") (← getInt j "ms")
      pure (res stampJ (s.add (← getTd j)))),
  ("cds_day_offsets", fun j => do
      let d ← getInt j "d"
      let s := Stamp.fromUnixDays d (← getInt j "ms")
      pure (obj [("ok", obj [("ccsds", ji (unixDaysToCcsds d)), ("unix", ji (ccsdsDaysToUnix d)),
        ("fud_days", ji s.days), ("fud_ms", ji s.ms)])]))
]

end SpVerif.Ops.Cds
