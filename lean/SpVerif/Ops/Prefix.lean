import SpVerif.J
import SpVerif.Model.Prefix
import SpVerif.Model.PrefixPdu
import SpVerif.Ops.DirectiveFixed
import SpVerif.Ops.DirectiveVar
import SpVerif.Ops.FileData
import SpVerif.Ops.SpacePacket
import SpVerif.Ops.PusTc
import SpVerif.Ops.PusTm
import SpVerif.Ops.Srv1
import SpVerif.Ops.CfdpHeader
import SpVerif.Ops.Tlv
import SpVerif.Ops.Uslp
import SpVerif.Ops.ByteField
/-!
# Driver ops for C09 (prefix `c09_`)

`c09_unit {kind, cfg, unit, suffix, alt}` — decode `raw = unit ‖ suffix` as a unit of `kind` (the two
parts are separate fields so that a minimised failing case can never claim a packed length that is
not the length of its own unit); report the canonical fields (the
JSON of the owning property's ops), the reported length `N`, the declared length, whether `N` lies
inside `raw`, and — evaluated inside the op — whether decoding `raw[:N]` and `raw[:N] ‖ alt` gives
the same object.
`c09_split {kinds:[{kind,cfg}], raws:[hex], tail}` — iterate "decode, drop reported length" over the
concatenation (one kind per expected unit; kinds may differ).
`c09_stream {kind, cfg, raws:[hex]}` — decode units of one kind until the buffer is exhausted.
`c09_pdu {kind, unit, suffix, alt}` — a CFDP PDU kind. The statement allows two behaviours for a PDU
followed by further octets (decoded as the PDU alone, or refused with a documented error), so the op
canonicalises: if `unit ‖ suffix` is refused with a documented error and is longer than the PDU its
own header declares, the result is that of the declared PDU alone (`trailing: "refused"`) — a rule
that does not depend on where the caller split the buffer; both sides apply the same rule, so both
allowed behaviours give the same compared fields and folding does not. `trailing` itself is
informational (excluded from the comparison by the harness).
-/
namespace SpVerif.Ops.Prefix
open SpVerif.J SpVerif.Prefix Lean

def cfgNat (j : Json) (k : String) (dflt : Nat) : R Nat :=
  match j.getObjVal? "cfg" with
  | .error _ => pure dflt
  | .ok c =>
    match c.getObjVal? k with
    | .error _ => pure dflt
    | .ok v =>
      match v.getInt? with
      | .ok i => if i < 0 then .error s!"cfg.{k}: negative" else pure i.toNat
      | .error _ => .error s!"cfg.{k}: not an integer"

/-- the table of kind names -/
def getKind (j : Json) : R Kind := do
  match ← getStr j "kind" with
  | "sph" => pure .sph
  | "tc" => pure .tc
  | "tm" => pure (.tm (← cfgNat j "ts_len" 0))
  | "s17" => pure (.s17 (← cfgNat j "ts_len" 0))
  | "s1" => pure (.s1 (← cfgNat j "ts_len" 0) (← cfgNat j "step_bytes" 0) (← cfgNat j "err_bytes" 0))
  | "cds" => pure .cds
  | "req_id" => pure .reqId
  | "pfe" => pure (.pfe (← cfgNat j "pfc" 8))
  | "cfdp_hdr" => pure .cfdpHdr
  | "lv" => pure .lv
  | "tlv" => pure .tlv
  | "entity_id" => pure .entityId
  | "flow_label" => pure .flowLabel
  | "msg_to_user" => pure .msgToUser
  | "fault_handler" => pure .faultHandler
  | "fs_request" => pure .fsRequest
  | "fs_response" => pure .fsResponse
  | "uslp_primary" => pure (.uslpPrimary (← cfgNat j "version" 12))
  | "uslp_truncated" => pure (.uslpTruncated (← cfgNat j "version" 12))
  | "byte_field" => pure (.byteField (← cfgNat j "width" 1))
  | k => .error s!"unknown kind {k}"

/-- canonical fields of a decoded unit: the JSON the owning property's ops produce -/
def decodedJ : Decoded → Json
  | .sph h => Ops.SpacePacket.sphJ h
  | .tc t => Ops.PusTc.tcJ t
  | .tm t => Ops.PusTm.tmJ t
  | .s1 s => Ops.Srv1.s1J s
  | .cds s => obj [("days", ji s.days), ("ms", ji s.ms)]
  | .reqId r => Ops.Srv1.reqJ r
  | .pfe f => Ops.Srv1.pfeJ f
  | .cfdpHdr h => Ops.CfdpHeader.hdrJ h
  | .lv l => Ops.Tlv.lvJ l
  | .tlv t => Ops.Tlv.tlvJ t
  | .entityId t => Ops.Tlv.wrapJ t.tlvType t.tlv
  | .flowLabel t => Ops.Tlv.wrapJ t.tlvType t.tlv
  | .msgToUser t => Ops.Tlv.wrapJ t.tlvType t.tlv
  | .faultHandler t => Ops.Tlv.fhJ t
  | .fsRequest t => Ops.Tlv.fsReqJ t
  | .fsResponse t => Ops.Tlv.fsRespJ t
  | .uslpPrimary h => Ops.Uslp.phdrJ h
  | .uslpTruncated h => Ops.Uslp.thdrJ h
  | .byteField f => Ops.ByteField.viewsJ f

def verdict (r : Decoded) : Py Decoded → Json
  | .ok r' => if r' = r then js "same" else js "differs"
  | .error e => js ("err:" ++ e.name)

def unitJ (k : Kind) (raw alt : Bytes) (r : Decoded) : Json :=
  let n := r.len
  obj [("fields", decodedJ r), ("len", jn n),
       ("declared", jn ((k.declaredLen raw).getD n)),
       ("inside", jb (decide (n ≤ raw.length))),
       ("prefix", verdict r (k.decode (raw.take n))),
       ("extended", verdict r (k.decode (raw.take n ++ alt)))]

/-- C09's verdict on an accepted unit whose reported length is not the length the buffer declares
    (today only a filestore TLV whose value field holds more than its names): such a unit cannot be
    split off by its reported length, so the ops answer it like a refusal. The implementation op
    reports the same situation as a property failure; a decoder that refuses these inputs agrees
    with this answer. -/
def strict (k : Kind) (raw : Bytes) (x : Py Decoded) : Py Decoded :=
  match x with
  | .ok r =>
    match k.declaredLen raw with
    | some dl => if r.len = dl then .ok r else .error .value
    | none => .ok r
  | .error e => .error e

/-- the strict verdict along "decode, drop reported length" -/
def strictAlong : List Kind → Bytes → Py Unit
  | [], _ => pure ()
  | k :: ks, d => do
    let r ← strict k d (k.decode d)
    strictAlong ks (d.drop r.len)

def strictStream (k : Kind) : Nat → Bytes → Py Unit
  | 0, _ => pure ()
  | f + 1, d =>
    if d.length = 0 then pure () else do
      let r ← strict k d (k.decode d)
      if r.len = 0 then pure () else strictStream k f (d.drop r.len)

def stepJ (r : Decoded) : Json := obj [("fields", decodedJ r), ("len", jn r.len)]

def getKinds (j : Json) : R (List Kind) := do
  let ks ← getArr j "kinds"
  ks.mapM getKind

def getRaws (j : Json) : R (List Bytes) := do
  let rs ← getArr j "raws"
  rs.mapM fun v =>
    match v.getStr? with
    | .ok s => bytesOfHex s
    | .error _ => .error "raws: not a string"

def unitOps : List (String × Handler) := [
  ("c09_unit", fun j => do
      let k ← getKind j
      let raw := (← getHex j "unit") ++ (← getHex j "suffix")
      let alt ← getHex j "alt"
      pure (res (unitJ k raw alt) (strict k raw (k.decode raw)))),
  ("c09_split", fun j => do
      let ks ← getKinds j
      let raws ← getRaws j
      let tail ← getHex j "tail"
      pure (res (fun (p : List Decoded × Bytes) => obj [("units", jarr (p.1.map stepJ)), ("rest", jh p.2)])
        (do strictAlong ks (raws.flatten ++ tail); splitKinds ks (raws.flatten ++ tail)))),
  ("c09_stream", fun j => do
      let k ← getKind j
      let raws ← getRaws j
      pure (res (fun (l : List Decoded) => obj [("units", jarr (l.map stepJ))])
        (do strictStream k (raws.flatten.length + 1) raws.flatten; splitStream k.codec raws.flatten)))
]

/-! ## CFDP PDU kinds -/

def getPduKind (j : Json) : R PduKind := do
  match ← getStr j "kind" with
  | "ack" => pure .ack
  | "prompt" => pure .prompt
  | "keep_alive" => pure .keepAlive
  | "nak" => pure .nak
  | "file_data" => pure .fileData
  | "eof" => pure .eof
  | "finished" => pure .finished
  | "metadata" => pure .metadata
  | k => .error s!"unknown PDU kind {k}"

def pduDecodedJ : PduDecoded → Json
  | .ack a => obj (Ops.DirectiveFixed.ackFields a)
  | .prompt p => obj (Ops.DirectiveFixed.promptFields p)
  | .keepAlive k => obj (Ops.DirectiveFixed.kaFields k)
  | .nak k => obj (Ops.DirectiveFixed.nakFields k)
  | .fileData p => Ops.FileData.pduJ p
  | .eof k => obj (Ops.DirectiveVar.eofFields k)
  | .finished k => obj (Ops.DirectiveVar.finFields k)
  | .metadata k => obj (Ops.DirectiveVar.mdFields k)

/-- "same", or one of the two behaviours the statement allows for trailing octets -/
def allowed (r : PduDecoded) : Py PduDecoded → Bool
  | .ok r' => r' == r
  | .error e => e.documented

/-- `n` is the length the buffer's own header declares (the PDU is delimited by it; the decoded
    object's `packet_len` is reported next to it — EOF and Finished recompute theirs) -/
def pduJ (k : PduKind) (buf alt : Bytes) (n : Nat) (trailing : String) (r : PduDecoded) : Json :=
  obj [("fields", pduDecodedJ r), ("len", jn r.len), ("declared", jn n), ("data_end", jn (n - r.crcLen)),
       ("inside", jb (decide (n ≤ buf.length))),
       ("prefix", verdictPdu r (k.decode (buf.take n))),
       ("extended_ok", jb (allowed r (k.decode (buf.take n ++ alt)))),
       ("trailing", js trailing)]
where
  verdictPdu (r : PduDecoded) : Py PduDecoded → Json
    | .ok r' => if r' = r then js "same" else js "differs"
    | .error e => js ("err:" ++ e.name)

/-- the length the fixed header octets declare for the whole PDU (data-field length + header length
    from the two width codes), when there are four octets to read it from -/
def cfdpDeclared (d : Bytes) : Option Nat :=
  match d with
  | _ :: x1 :: x2 :: x3 :: _ =>
    some (x1.toNat * 256 + x2.toNat + 4 + 2 * (x3.toNat / 16 % 8 + 1) + (x3.toNat % 8 + 1))
  | _ => none

/-- the rule, independent of where the caller split the buffer: a buffer that is refused with a
    documented error and is longer than the PDU its own header declares is evaluated on the
    declared PDU alone (refusing trailing octets is one of the two allowed behaviours) -/
def pduOp (k : PduKind) (unit suffix alt : Bytes) : Json :=
  let buf := unit ++ suffix
  match k.decode buf with
  | .ok r =>
    -- an accepted buffer has at least the four fixed header octets
    let n := (cfdpDeclared buf).getD buf.length
    obj [("ok", pduJ k buf alt n (if n < buf.length then "decoded" else "none") r)]
  | .error e =>
    match cfdpDeclared buf with
    | some n =>
      if e.documented && n < buf.length then res (pduJ k (buf.take n) alt n "refused") (k.decode (buf.take n))
      else obj [("err", js e.name)]
    | none => obj [("err", js e.name)]

def pduOps : List (String × Handler) := [
  ("c09_pdu", fun j => do
      let k ← getPduKind j
      pure (pduOp k (← getHex j "unit") (← getHex j "suffix") (← getHex j "alt")))
]

def ops : List (String × Handler) := unitOps ++ pduOps

end SpVerif.Ops.Prefix
