import SpVerif.J
import SpVerif.Model.PusTc
import SpVerif.Model.PusTm
import SpVerif.Model.Srv1
import SpVerif.Model.CfdpFront
import SpVerif.Proofs.CrcBurstBytes
/-!
# C04 ops: CRC of arbitrary data, verdict of the modelled decoders on burst-corrupted packets

`c04_crc`            {data}                                   → crc, valid
`c04_<kind>_check`   {raw, …}                                 → accepted, crc_check, packet_len (uncorrupted packet)
`c04_<kind>_corrupt` {raw, bit_offset, pattern, …}            → verdict of the decoder on `flipBurst raw bit_offset pattern`
`c04_<kind>_sweep`   {raw, patterns, crc_every, …}            → whole fault enumeration of one packet in one line

kinds: `tc`, `tm` (ts_len), `s17` (ts_len), `s1` (ts_len, step_bytes, err_bytes), `cfdp`, `cfdpdir` (optional cls "lo:hi"), Every kind is an entry
of `kinds`; a further kind only needs a decoder `Bytes → Py Unit`, the excluded bit range and the
bit range in which another documented error than the checksum error may come first.
-/
namespace SpVerif.Ops.Crc
open SpVerif.J SpVerif.Crc Lean

/-- "1011" → [true, false, true, true] -/
def bitsOfString (s : String) : R (List Bool) :=
  s.toList.mapM fun c =>
    if c = '1' then .ok true else if c = '0' then .ok false else .error "pattern: only 0/1 allowed"

def getBits (j : Json) (k : String) : R (List Bool) := do bitsOfString (← getStr j k)

def getBitsList (j : Json) (k : String) : R (List (List Bool)) := do
  (← getArr j k).mapM fun v =>
    match v.getStr? with
    | .ok s => bitsOfString s
    | .error _ => .error s!"field {k}: not an array of strings"

/-- one packet kind of the fault enumeration -/
structure Kind where
  /-- the decoder, result dropped -/
  dec : Bytes → Py Unit
  /-- bits `[exLo, exHi)` are the length-determining octets: windows meeting them are not enumerated -/
  exLo : Nat
  exHi : Nat
  /-- windows meeting bits `[clsLo, clsHi)` may legitimately be refused with another documented class -/
  clsLo : Nat
  clsHi : Nat

def meets (k len lo hi : Nat) : Bool := decide (k < hi ∧ lo < k + len)

def unit {α} (x : Py α) : Py Unit := x.map fun _ => ()

/-- PUS kinds: octets 4–5 excluded; a window meeting the PUS-version nibble (bits 48…51) may be refused
    with ValueError before the CRC is looked at -/
def kTc (_ : Json) : R Kind := pure ⟨fun d => unit (PusTc.Tc.unpack d), 32, 48, 48, 52⟩
def kTm (j : Json) : R Kind := do
  let n ← getNat j "ts_len"; pure ⟨fun d => unit (PusTm.Tm.unpack d n), 32, 48, 48, 52⟩
def kS17 (j : Json) : R Kind := do
  let n ← getNat j "ts_len"; pure ⟨fun d => unit (PusTm.srv17Unpack d n), 32, 48, 48, 52⟩
def kS1 (j : Json) : R Kind := do
  let n ← getNat j "ts_len"; let sb ← getNat j "step_bytes"; let eb ← getNat j "err_bytes"
  pure ⟨fun d => unit (Srv1.S1Tm.unpack d n sb eb), 32, 48, 48, 52⟩
/-- "lo:hi" → (lo, hi); field absent → (0, 0) -/
def getRange (j : Json) (k : String) : R (Nat × Nat) :=
  match j.getObjVal? k with
  | .error _ => pure (0, 0)
  | .ok v =>
    match v.getStr? with
    | .error _ => throw s!"field {k}: not a string"
    | .ok s =>
      match s.splitOn ":" with
      | [a, b] =>
        match a.toNat?, b.toNat? with
        | some lo, some hi => pure (lo, hi)
        | _, _ => throw s!"field {k}: not lo:hi"
      | _ => throw s!"field {k}: not lo:hi"

/-- CFDP: octets 0–3 excluded. `cfdp` = File Data decoder front, `cfdpdir` = file-directive decoder front.
    Optional "cls": bit range (the directive-code octet for the factory, whose dispatch reads it first). -/
def kCfdp (j : Json) : R Kind := do
  let (cl, ch) ← getRange j "cls"
  pure ⟨fun d => unit (CfdpFront.pduFront d), 0, 32, cl, ch⟩
def kCfdpDir (j : Json) : R Kind := do
  let (cl, ch) ← getRange j "cls"
  pure ⟨fun d => unit (CfdpFront.directiveFront d), 0, 32, cl, ch⟩

def isOk {α} : Py α → Bool
  | .ok _ => true
  | .error _ => false

structure Sweep where
  faults : Nat := 0
  rejected : Nat := 0
  undocumented : Nat := 0
  crcClass : Nat := 0
  clean : Nat := 0
  checked : Nat := 0
  checkFalse : Nat := 0

/-- one fault: decode `flipBurst raw k B`; every `every`-th fault also evaluates `check_pus_crc` -/
def sweepStep (kd : Kind) (raw : Bytes) (every : Nat) (B : List Bool) (s : Sweep) (k : Nat) : Sweep :=
  if meets k B.length kd.exLo kd.exHi then s else
  let d' := flipBurst raw k B
  let r := kd.dec d'
  let cleanW := !(meets k B.length kd.clsLo kd.clsHi)
  let doCheck := s.faults % every == 0
  { faults := s.faults + 1
    rejected := s.rejected + (if isOk r then 0 else 1)
    undocumented := s.undocumented + (match r with | .error e => if e.documented then 0 else 1 | .ok _ => 0)
    clean := s.clean + (if cleanW then 1 else 0)
    crcClass := s.crcClass + (match r with | .error .crc => if cleanW then 1 else 0 | _ => 0)
    checked := s.checked + (if doCheck then 1 else 0)
    checkFalse := s.checkFalse + (if doCheck && !(PusTc.checkPusCrc d') then 1 else 0) }

def sweep (kd : Kind) (raw : Bytes) (patterns : List (List Bool)) (every : Nat) : Sweep :=
  patterns.foldl (fun s B =>
    if B.length = 0 ∨ 8 * raw.length < B.length then s else
    (List.range (8 * raw.length - B.length + 1)).foldl (sweepStep kd raw (max every 1) B) s) {}

def kindOps (tag : String) (mk : Json → R Kind) : List (String × Handler) := [
  (s!"c04_{tag}_check", fun j => do
      let raw ← getHex j "raw"
      let kd ← mk j
      pure (obj [("ok", obj [("accepted", jb (isOk (kd.dec raw))), ("crc_check", jb (PusTc.checkPusCrc raw))])])),
  (s!"c04_{tag}_corrupt", fun j => do
      let raw ← getHex j "raw"
      let k ← getNat j "bit_offset"
      let B ← getBits j "pattern"
      let kd ← mk j
      -- outside the property's fault model (only reachable when a failing case is being minimised)
      if 8 * raw.length < k + B.length then throw "window outside the packet"
      if B.length = 0 ∨ 16 < B.length ∨ B = List.replicate B.length false then throw "not a burst pattern"
      if meets k B.length kd.exLo kd.exHi then throw "window meets a length-determining octet"
      if !(isOk (kd.dec raw)) then throw "base packet is not accepted by the model"
      let d' := flipBurst raw k B
      pure (res (fun (_ : Unit) => obj [("accepted", jb true)]) (kd.dec d'))),
  (s!"c04_{tag}_sweep", fun j => do
      let raw ← getHex j "raw"
      let pats ← getBitsList j "patterns"
      let every ← getNat j "crc_every"
      let kd ← mk j
      let s := sweep kd raw pats every
      pure (obj [("ok", obj [("base_ok", jb (isOk (kd.dec raw))), ("base_crc_check", jb (PusTc.checkPusCrc raw)),
        ("faults", jn s.faults), ("rejected", jn s.rejected), ("undocumented", jn s.undocumented),
        ("clean_windows", jn s.clean), ("crc_class_on_clean", jn s.crcClass),
        ("crc_checked", jn s.checked), ("crc_check_false", jn s.checkFalse)])]))
]

def ops : List (String × Handler) := [
  ("c04_crc", fun j => do
      let d ← getHex j "data"
      let c := crc16Nat d
      pure (obj [("ok", obj [("crc", jn c), ("valid", jb (PusTc.checkPusCrc d))])])),
  ("c04_flip", fun j => do
      let raw ← getHex j "raw"
      pure (obj [("ok", obj [("raw", jh (flipBurst raw (← getNat j "bit_offset") (← getBits j "pattern")))])])),
  -- construct, pack once (the cached CRC becomes stale), apply the public setters, pack again
  ("c04_tc_mutated_pack", fun j => do
      let t0 := PusTc.Tc.new (← getNat j "service") (← getNat j "subservice") (← getInt j "apid") (← getHex j "data")
        (← getInt j "count") (← getNat j "source_id") (← getNat j "ack")
      let sa ← getIntOpt j "set_apid"; let sc ← getIntOpt j "set_count"; let ss ← getIntOpt j "set_source_id"
      let sd ← getHexOpt j "set_data"
      pure (res (fun (r : Bytes × Bytes) => obj [("first", jh r.1), ("raw", jh r.2), ("crc_check", jb (PusTc.checkPusCrc r.2))])
        (do let t ← t0
            let first ← t.pack
            let t := match sa with | some a => { t with sph := { t.sph with apid := a.toNat } } | none => t
            let t := match sc with | some c => { t with sph := { t.sph with count := c.toNat } } | none => t
            let t := match ss with | some v => { t with sec := { t.sec with sourceId := v.toNat } } | none => t
            let t := match sd with | some d => t.setAppData d | none => t
            let raw ← t.pack
            pure (first, raw)))),
  ("c04_tm_mutated_pack", fun j => do
      let t0 := PusTm.Tm.new (← getInt j "service") (← getInt j "subservice") (← getHex j "timestamp") (← getHex j "data")
        (← getInt j "apid") (← getInt j "count") (← getInt j "msg_counter") (← getNat j "time_ref")
        (← getNat j "dest_id") (← getNat j "version")
      let sa ← getIntOpt j "set_apid"; let sf ← getIntOpt j "set_seq_flags"; let sd ← getHexOpt j "set_data"
      pure (res (fun (r : Bytes × Bytes) => obj [("first", jh r.1), ("raw", jh r.2), ("crc_check", jb (PusTc.checkPusCrc r.2))])
        (do let t ← t0
            let first ← t.pack
            let t := match sa with | some a => { t with sph := { t.sph with apid := a.toNat } } | none => t
            let t := match sf with | some f => { t with sph := { t.sph with flags := f.toNat } } | none => t
            let t := match sd with | some d => t.setTmData d | none => t
            let raw ← t.pack
            pure (first, raw))))
] ++ kindOps "tc" kTc ++ kindOps "tm" kTm ++ kindOps "s17" kS17 ++ kindOps "s1" kS1 ++ kindOps "cfdp" kCfdp ++ kindOps "cfdpdir" kCfdpDir

end SpVerif.Ops.Crc
