import SpVerif.J
import SpVerif.Model.PusTm
import SpVerif.Ops.SpacePacket
namespace SpVerif.Ops.PusTm
open SpVerif.J SpVerif.SpacePacket SpVerif.PusTm Lean

def tmJ (t : Tm) : Json :=
  obj [("sph", Ops.SpacePacket.sphJ t.sph), ("time_ref", jn t.sec.timeRef), ("service", jn t.sec.service),
       ("subservice", jn t.sec.subservice), ("msg_counter", jn t.sec.msgCounter), ("dest_id", jn t.sec.destId),
       ("timestamp", jh t.sec.timestamp), ("data", jh t.sourceData), ("packet_len", jn t.packetLen)]

def getTm (j : Json) : R (Py Tm) := do
  pure (Tm.new (← getInt j "service") (← getInt j "subservice") (← getHex j "timestamp") (← getHex j "data")
    (← getInt j "apid") (← getInt j "count") (← getInt j "msg_counter") (← getNat j "time_ref")
    (← getNat j "dest_id") (← getNat j "version"))

def getS17 (j : Json) : R (Py Tm) := do
  pure (srv17New (← getInt j "apid") (← getInt j "subservice") (← getHex j "timestamp") (← getInt j "count")
    (← getHex j "data") (← getNat j "version") (← getNat j "time_ref") (← getNat j "dest_id"))

def packJ (t : Py Tm) : Json :=
  res (fun (r : Bytes × Bytes × Nat) =>
      obj [("raw", jh r.1), ("sp_raw", jh r.2.1), ("packet_len", jn r.2.2)])
    (do let t ← t; let raw ← t.pack; let sp ← t.spacePacketPack; pure (raw, sp, t.packetLen))

def ops : List (String × Handler) := [
  ("tm_new", fun j => do pure (res tmJ (← getTm j))),
  ("tm_pack", fun j => do pure (packJ (← getTm j))),
  ("tm_unpack", fun j => do pure (res tmJ (Tm.unpack (← getHex j "raw") (← getNat j "ts_len")))),
  ("s17_pack", fun j => do
      let t ← getS17 j
      pure (res (fun (r : Bytes × Tm) => obj [("raw", jh r.1), ("tm", tmJ r.2)])
        (do let t ← t; let raw ← t.pack; pure (raw, t)))),
  ("s17_unpack", fun j => do pure (res tmJ (srv17Unpack (← getHex j "raw") (← getNat j "ts_len")))),
  ("tm_service_from_bytes", fun j => do
      pure (res (fun s => obj [("service", jn s)]) (serviceFromBytes (← getHex j "raw"))))
]

end SpVerif.Ops.PusTm
