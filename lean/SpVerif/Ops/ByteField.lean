import SpVerif.J
import SpVerif.Model.ByteField
namespace SpVerif.Ops.ByteField
open SpVerif.J SpVerif.ByteField Lean

/-- every view of a field object -/
def viewsJ (f : Field) : Json :=
  obj [("value", jn f.intView), ("len", jn f.lenView), ("raw", jh f.asBytes),
       ("hex", jopt js f.hexStr)]

def getAssign (j : Json) : R Assign :=
  match j.getObjVal? "int" with
  | .ok v =>
    match v.getInt? with
    | .ok i => .ok (.int i)
    | .error _ => .error "step: int is not an integer"
  | .error _ => do
    let raw ← getHex j "hex"
    pure (.octets raw)

def outcomeJ : Py Field → Json
  | .ok _ => js "ok"
  | .error e => js e.name

def subNew (w : Int) (v : Int) : R (Py Field) :=
  if w = 1 then .ok (u8New v) else if w = 2 then .ok (u16New v) else if w = 4 then .ok (u32New v)
  else if w = 8 then .ok (u64New v) else .error "bf_sub: width must be 1, 2, 4 or 8"

def fromUn (w : Int) (s : SpVerif.Bytes) : R (Py Field) :=
  if w = 1 then .ok (fromU8Bytes s) else if w = 2 then .ok (fromU16Bytes s)
  else if w = 4 then .ok (fromU32Bytes s) else if w = 8 then .ok (fromU64Bytes s)
  else .error "bf_from_un: width must be 1, 2, 4 or 8"

def ops : List (String × Handler) := [
  ("bf_new", fun j => do
      pure (res viewsJ (Field.new (← getInt j "value") (← getInt j "width")))),
  ("bf_empty", fun j => do pure (res viewsJ (emptyNew (← getInt j "width")))),
  ("bf_sub", fun j => do
      pure (res viewsJ (← subNew (← getInt j "width") (← getInt j "value")))),
  ("bf_from_bytes", fun j => do pure (res viewsJ (fromBytes (← getHex j "raw")))),
  ("bf_from_un", fun j => do
      pure (res viewsJ (← fromUn (← getInt j "width") (← getHex j "raw")))),
  ("bf_gen_int", fun j => do
      pure (res viewsJ (genFromInt (← getInt j "width") (← getInt j "value")))),
  ("bf_gen_bytes", fun j => do
      pure (res viewsJ (genFromBytes (← getInt j "width") (← getHex j "raw")))),
  -- two fields: `==`, equality of the hashed tuples, `==` against the other's octets
  ("bf_eq", fun j => do
      let f := Field.new (← getInt j "v1") (← getInt j "w1")
      let g := Field.new (← getInt j "v2") (← getInt j "w2")
      let r : Py (Field × Field) := do
        let a ← f
        let b ← g
        pure (a, b)
      pure (res (fun p => obj [("eq", jb (p.1.beq p.2)), ("key_eq", jb (p.1.hashKey == p.2.hashKey)),
                               ("eq_octets", jb (p.1.eqBytes p.2.asBytes))]) r)),
  -- a history of assignments to `value`: outcome of each and every view after each
  ("bf_seq", fun j => do
      let f := Field.new (← getInt j "value") (← getInt j "width")
      let steps ← (← getArr j "steps").mapM getAssign
      pure (res (fun f => obj [("init", viewsJ f),
                               ("results", jarr ((f.trace steps).map fun p => outcomeJ p.1)),
                               ("views", jarr ((f.trace steps).map fun p => viewsJ p.2))]) f)),
  ("bf_to_unsigned", fun j => do
      pure (res (fun b => obj [("raw", jh b)]) (toUnsigned (← getInt j "width") (← getInt j "value")))),
  ("bf_to_signed", fun j => do
      let w ← getInt j "width"
      let r := toSigned w (← getInt j "value")
      let back : Py (SpVerif.Bytes × Option Int) := do
        let b ← r
        if w = 0 then pure (b, none) else
        let v ← unpackS w.toNat b
        pure (b, some v)
      pure (res (fun p => obj [("raw", jh p.1), ("back", jopt ji p.2)]) back)),
  -- negative values handed to `to_unsigned`: only accept / refuse is part of the statement
  ("bf_to_unsigned_refused", fun j => do
      let r := toUnsigned (← getInt j "width") (← getInt j "value")
      pure (obj [("ok", obj [("refused", jb (match r with | .ok _ => false | .error _ => true))])]))
]

end SpVerif.Ops.ByteField
