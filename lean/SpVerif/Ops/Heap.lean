import SpVerif.J
import SpVerif.Model.Heap
/-!
# Driver op `heap_alias`: the ALIAS GRAPH the object-graph model predicts for a scenario

One op line = a scenario name, its parameters `p`, a list of named access paths (dotted public attribute
names starting at a named root object, e.g. `rid.tc_packet_id`, `pdu.pdu_header.pdu_conf.source_entity_id`)
and, optionally, the `claim` the generator derived from an earlier answer of this very op.

A scenario is a *setup* (the objects the caller holds) followed by ONE library call (*act*).
`heap_alias_predict` (asked by the generator) answers the whole predicted graph:

* `objects`   – the paths that denote a mutable library object (not `None`, not a scalar) after the call;
* `classes`   – the partition of those paths into identity classes (paths denoting the SAME object);
* `separated` – every unordered pair of paths in different classes, as `"p|q"`;
* `written`   – the paths that existed before the call and whose view (`Heap.view`: everything readable
                through that object) is different after it.

`heap_alias` (the compared op; the line carries that prediction as `claim`) answers exactly the keys of the
implementation op of the same name (`harness/props/c11.py`):

* `objects`;
* `claim_ok`  – the line's `claim` is exactly this model's prediction (a stale replay file shows up here);
* `separated_broken`, `unexpected_writes` – always empty on the model side: the implementation op lists here
  the claimed-separated pairs it finds to be one object, and the objects it finds modified although the
  model does not predict it.
-/
namespace SpVerif.Ops.Heap
open SpVerif.J SpVerif.Heap Lean

abbrev Roots := List (String × Addr)

/-- parameter `k` of the scenario (absent = 0) -/
def pn (p : Json) (k : String) : Nat :=
  match p.getObjVal? k with
  | .ok v => (match v.getInt? with | .ok i => i.toNat | .error _ => 0)
  | .error _ => 0

def root (r : Roots) (k : String) : H Addr :=
  match r.lookup k with
  | some a => pure a
  | none => fail

structure Scn where
  /-- the objects the caller holds before the call -/
  setup : H Roots
  /-- the call; returns the roots it adds (its result) -/
  act : Roots → H Roots

/-! ## building blocks -/

def mkTc (p : Json) : H Addr :=
  newPusTc (pn p "service") (pn p "subservice") (pn p "apid") (pn p "count") (pn p "source_id") (pn p "ack") (pn p "dlen")

def mkTm (p : Json) : H Addr :=
  newPusTm (pn p "service") (pn p "subservice") (pn p "apid") (pn p "count") (pn p "tslen") (pn p "dlen")

def mkHdr (p : Json) : H Addr :=
  newSpHeader (pn p "ptype") (pn p "apid") (pn p "count") (pn p "hdlen") (pn p "shf") (pn p "flags") (pn p "version")

/-- the caller's configuration: three byte-field objects and the `PduConfig` holding them -/
def mkConf (p : Json) : H Addr := do
  let sf ← newByteField (pn p "idw") (pn p "src_v")
  let df ← newByteField (pn p "idw") (pn p "dst_v")
  let qf ← newByteField (pn p "seqw") (pn p "seq_v")
  newPduConfig sf df qf (pn p "mode") (pn p "large") (pn p "crc") (pn p "dir") (pn p "segctrl")

def kindOf : Nat → Option PduKind
  | 0 => some .ack | 1 => some .prompt | 2 => some .keepAlive | 3 => some .nak | 4 => some .eof
  | 5 => some .finished | 6 => some .metadata | 7 => some .fileData | _ => none

def tlvList (n : Nat) : H Addr := do
  let rec go : Nat → List (Option Addr) → H (List (Option Addr))
    | 0, acc => pure acc.reverse
    | k + 1, acc => do
      let t ← new ⟨.tlv, [], [1, k]⟩
      go k (some t :: acc)
  let es ← go n []
  new ⟨.pyList, es, []⟩

/-- the parameter objects the caller builds for a PDU of the kind (named roots) -/
def callerObjs (k : PduKind) (p : Json) : H Roots :=
  match k with
  | .nak => do
    if pn p "segs_none" = 1 then pure [] else do
    let l ← new ⟨.pyList, [], [pn p "nsegs"]⟩
    pure [("segs", l)]
  | .eof => do
    if pn p "fault" = 1 then do
      let t ← new ⟨.tlv, [], [6, pn p "idw", 7]⟩
      pure [("fl", t)]
    else pure []
  | .finished => do
    let l ← tlvList (pn p "nresp")
    if pn p "fault" = 1 then do
      let t ← new ⟨.tlv, [], [6, pn p "idw", 7]⟩
      let ps ← newFinishedParams (pn p "cond") (pn p "delivery") (pn p "status") (some l) (some t)
      pure [("params", ps)]
    else do
      let ps ← newFinishedParams (pn p "cond") (pn p "delivery") (pn p "status") (some l) none
      pure [("params", ps)]
  | .metadata => do
    let ps ← new ⟨.metadataParams, [], [pn p "closure", pn p "ctype", pn p "size"]⟩
    if pn p "opts" = 1 then do
      let l ← tlvList 1
      pure [("params", ps), ("options", l)]
    else pure [("params", ps)]
  | .fileData => do
    if pn p "meta" = 1 then do
      let m ← newSegMeta (pn p "state") (pn p "metalen")
      let ps ← newFileDataParams (pn p "dlen") (pn p "offset") (some m)
      pure [("params", ps)]
    else do
      let ps ← newFileDataParams (pn p "dlen") (pn p "offset") none
      pure [("params", ps)]
  | _ => pure []

/-- the constructor call of the kind on the caller's objects -/
def buildPdu (k : PduKind) (p : Json) (r : Roots) : H Addr := do
  let conf ← root r "conf"
  match k with
  | .ack => newAckPdu conf (pn p "acked") (pn p "cond") (pn p "tstatus")
  | .prompt => newPromptPdu conf (pn p "resp")
  | .keepAlive => newKeepAlivePdu conf (pn p "progress")
  | .nak => newNakPdu conf 0 (pn p "end") (r.lookup "segs")
  | .eof => newEofPdu conf (pn p "size") (pn p "cond") (r.lookup "fl")
  | .finished => do newFinishedPdu conf (← root r "params")
  | .metadata => do newMetadataPdu conf (← root r "params") (r.lookup "options")
  | .fileData => do newFileDataPdu conf (← root r "params")

/-- caller's configuration, caller's parameter objects, the PDU -/
def confObjsPdu (k : PduKind) (p : Json) : H Roots := do
  let conf ← mkConf p
  let objs ← callerObjs k p
  let r : Roots := ("conf", conf) :: objs
  let pdu ← buildPdu k p r
  pure (r ++ [("pdu", pdu)])

/-- optional octet string `k` of the scenario: present iff `k_some = 1`, then of length `k` -/
def optOf (p : Json) (k : String) : Option Nat := if pn p (k ++ "_some") = 1 then some (pn p k) else none

def mkUslpHdr (p : Json) : H Addr :=
  if pn p "trunc" = 1 then newUslpTruncHeader (pn p "scid") (pn p "vcid") (pn p "mapid") (pn p "srcdest")
  else newUslpHeader (pn p "flen") (pn p "vcflen") (pn p "ocfflag") (pn p "scid") (pn p "vcid") (pn p "mapid") (pn p "srcdest")

def mkTfdf (p : Json) : H Addr := newTfdf (pn p "rules") (pn p "upid") (optOf p "fhp") (pn p "tfdzlen")

def mkFrame (p : Json) (hdr tfdf : Addr) : H Addr := newTransferFrame hdr tfdf (optOf p "iz") (optOf p "ocf") (optOf p "fecf")

/-- caller's header, data field, and the frame built from them -/
def hdrTfdfFrame (p : Json) : H Roots := do
  let hdr ← mkUslpHdr p
  let tfdf ← mkTfdf p
  let fr ← mkFrame p hdr tfdf
  pure [("hdr", hdr), ("tfdf", tfdf), ("fr", fr)]

def decodeFrame (p : Json) : H Addr :=
  unpackFrame (pn p "trunc" = 1) [pn p "flen", pn p "vcflen", pn p "ocfflag", pn p "scid", pn p "vcid", pn p "mapid", pn p "srcdest"]
    [pn p "rules", pn p "upid", 0, pn p "tfdzlen", 1 + pn p "tfdzlen"] [optEnc (optOf p "iz"), optEnc (optOf p "ocf"), optEnc (optOf p "fecf")]

/-- the service-1 telemetry packet a report is decoded from (source data: request ID, and a step octet for subservice 5) -/
def mkS1Tm (p : Json) : H Addr :=
  newPusTm 1 (pn p "sub") (pn p "apid") (pn p "count") (pn p "tslen") (if pn p "sub" = 5 then 5 else 4)

def tcOpOf (p : Json) : TcOp :=
  match pn p "set" with
  | 0 => .seqCount (pn p "v")
  | 1 => .apid (pn p "v")
  | 2 => .sourceId (pn p "v")
  | _ => .appData (pn p "v")

def tmOpOf (p : Json) : TmOp :=
  match pn p "set" with
  | 0 => .apid (pn p "v")
  | 1 => .seqFlags (pn p "v")
  | _ => .tmData (pn p "v")

def scenario (name : String) (p : Json) : Option Scn :=
  let k? := kindOf (pn p "kind")
  match name with
  | "reqid_from_sp_header" => some {
      setup := do pure [("hdr", ← mkHdr p)]
      act := fun r => do pure [("rid", ← reqIdFromSpHeader (← root r "hdr"))] }
  | "reqid_from_pus_tc" => some {
      setup := do pure [("tc", ← mkTc p)]
      act := fun r => do pure [("rid", ← reqIdFromPusTc (← root r "tc"))] }
  | "reqid_twice" => some {
      setup := do
        let tc ← mkTc p
        let rid ← reqIdFromPusTc tc
        pure [("tc", tc), ("rid", rid)]
      act := fun r => do pure [("rid2", ← reqIdFromPusTc (← root r "tc"))] }
  | "reqid_then_tc_set" => some {
      setup := do
        let tc ← mkTc p
        let rid ← reqIdFromPusTc tc
        pure [("tc", tc), ("rid", rid)]
      act := fun r => do
        tcSet (← root r "tc") (tcOpOf p)
        pure [] }
  | "tc_to_space_packet" => some {
      setup := do pure [("tc", ← mkTc p)]
      act := fun r => do pure [("sp", ← tcToSpacePacket (← root r "tc"))] }
  | "sp_then_tc_set" => some {
      setup := do
        let tc ← mkTc p
        let sp ← tcToSpacePacket tc
        pure [("tc", tc), ("sp", sp)]
      act := fun r => do
        tcSet (← root r "tc") (tcOpOf p)
        pure [] }
  | "tm_to_space_packet" => some {
      setup := do pure [("tm", ← mkTm p)]
      act := fun r => do pure [("sp", ← tmToSpacePacket (← root r "tm"))] }
  | "sp_then_tm_set" => some {
      setup := do
        let tm ← mkTm p
        let sp ← tmToSpacePacket tm
        pure [("tm", tm), ("sp", sp)]
      act := fun r => do
        tmSet (← root r "tm") (tmOpOf p)
        pure [] }
  | "tc_from_sp_header" => some {
      setup := do pure [("hdr", ← mkHdr p)]
      act := fun r => do
        pure [("tc", ← tcFromSpHeader (← root r "hdr") (pn p "service") (pn p "subservice") (pn p "source_id") (pn p "ack") (pn p "dlen"))] }
  | "tc_from_composite" => some {
      setup := do
        let hdr ← mkHdr p
        let sec ← newTcSec (pn p "service") (pn p "subservice") (pn p "source_id") (pn p "ack")
        pure [("hdr", hdr), ("sec", sec)]
      act := fun r => do pure [("tc", ← tcFromCompositeFields (← root r "hdr") (← root r "sec") (pn p "dlen"))] }
  | "service1_from_tc" => some {
      setup := do pure [("tc", ← mkTc p)]
      act := fun r => do pure [("tm", ← service1FromTc (← root r "tc") (pn p "apid2") (pn p "sub") (pn p "tslen"))] }
  | "service1_with_params" => some {
      setup := do
        let tc ← mkTc p
        let rid ← reqIdFromPusTc tc
        let vp ← newVerifParams rid
        pure [("tc", tc), ("vp", vp)]
      act := fun r => do pure [("tm", ← newService1Tm (← root r "vp") (pn p "apid2") (pn p "sub") (pn p "tslen"))] }
  | "verificator_add_tc" => some {
      setup := do
        let v ← newVerificator
        let tc ← mkTc p
        pure [("v", v), ("tc", tc)]
      act := fun r => do pure [("key", ← verificatorAddTc (← root r "v") (← root r "tc"))] }
  | "tc_unpack" => some {
      setup := do
        let tc ← mkTc p
        tcPack tc                 -- the octets to decode come from `tc.pack()`, which fills the crc16 cache
        pure [("tc", tc)]
      act := fun _ => do
        pure [("dec", ← unpackTc (pn p "service") (pn p "subservice") (pn p "apid") (pn p "count") (pn p "source_id") (pn p "ack") (pn p "dlen"))] }
  | "pdu_ctor" => k?.map fun k => {
      setup := do
        let conf ← mkConf p
        let objs ← callerObjs k p
        pure (("conf", conf) :: objs)
      act := fun r => do pure [("pdu", ← buildPdu k p r)] }
  | "pdu_then_conf_scalar" => k?.map fun k => {
      setup := confObjsPdu k p
      act := fun r => do
        confSetScalar (← root r "conf") (pn p "attr") (pn p "v")
        pure [] }
  | "pdu_then_conf_field" => k?.map fun k => {
      setup := confObjsPdu k p
      act := fun r => do
        confSetFieldValue (← root r "conf") (pn p "attr") (pn p "v")
        pure [] }
  | "two_pdus_one_conf" => (k?.bind fun k => (kindOf (pn p "kind2")).map fun k2 => (k, k2)).map fun (k, k2) => {
      setup := confObjsPdu k p
      act := fun r => do
        let conf ← root r "conf"
        -- the second PDU gets parameter objects of its own, built by the caller for it
        let objs2 ← callerObjs k2 p
        pure [("pdu2", ← buildPdu k2 p (("conf", conf) :: objs2))] }
  | "finished_success_pdu" => some {
      setup := do pure [("conf", ← mkConf p)]
      act := fun r => do pure [("pdu", ← finishedSuccessPdu (← root r "conf"))] }
  | "factory_twice" =>
      let mk : H Addr := match pn p "which" with
        | 0 => finishedSuccessParams
        | 1 => finishedEmptyParams
        | 2 => fileDataEmptyParams
        | _ => pduConfigDefault
      some {
        setup := do pure [("a", ← mk)]
        act := fun _ => do pure [("b", ← mk)] }
  | "finished_set" => some {
      setup := confObjsPdu .finished p
      act := fun r => do
        let pdu ← root r "pdu"
        match pn p "set" with
        | 0 => do
          finSet pdu (.cond (pn p "v"))
          pure []
        | 1 => do
          if pn p "v" = 0 then do
            finSet pdu (.faultLoc none)
            pure []
          else do
            let t ← new ⟨.tlv, [], [6, pn p "v", 9]⟩
            finSet pdu (.faultLoc (some t))
            pure [("arg", t)]
        | 2 => do
          let l ← tlvList (pn p "v")
          finSet pdu (.responses (some l))
          pure [("arg", l)]
        | _ => do
          -- `pdu.file_store_responses = None`: the setter stores a NEW empty list
          finSet pdu (.responses none)
          pure [] }
  | "filedata_set" => some {
      setup := confObjsPdu .fileData p
      act := fun r => do
        let pdu ← root r "pdu"
        match pn p "set" with
        | 0 => do
          fdSet pdu (.fileData (pn p "v"))
          pure []
        | _ => do
          if pn p "v" = 0 then do
            fdSet pdu (.segMeta none)
            pure []
          else do
            let m ← newSegMeta 0 (pn p "v")
            fdSet pdu (.segMeta (some m))
            pure [("arg", m)] }
  | "holder_assign" => k?.map fun k => {
      setup := do
        let r ← confObjsPdu k p
        let h ← newHolder none
        pure (r ++ [("holder", h)])
      act := fun r => do
        holderSet (← root r "holder") (some (← root r "pdu"))
        pure [] }
  | "pdu_unpack" => k?.map fun k => {
      setup := confObjsPdu k p
      act := fun _ => do
        let withObj := match k with
          | .fileData => pn p "meta" = 1
          | .metadata => pn p "opts" = 1
          | _ => pn p "fault" = 1
        pure [("dec", ← unpackPdu k (pn p "idw") (pn p "seqw") withObj [])] }
  | "uslp_frame_ctor" => some {
      setup := do pure [("hdr", ← mkUslpHdr p), ("tfdf", ← mkTfdf p)]
      act := fun r => do pure [("fr", ← mkFrame p (← root r "hdr") (← root r "tfdf"))] }
  | "uslp_set_frame_len" => some {
      setup := hdrTfdfFrame p
      act := fun r => do
        setFrameLenInHeader (← root r "fr")
        pure [] }
  | "uslp_frame_unpack" => some {
      setup := do
        let r ← hdrTfdfFrame p
        setFrameLenInHeader (← root r "fr")      -- the octets to decode come from the frame with its length set
        let dec ← decodeFrame p
        pure (r ++ [("dec", dec)])
      act := fun _ => do pure [("dec2", ← decodeFrame p)] }
  | "tm_from_composite" => some {
      setup := do
        let hdr ← mkHdr p
        let sec ← new ⟨.tmSec, [], [pn p "service", pn p "subservice", 0, 0, 0, pn p "tslen"]⟩
        pure [("hdr", hdr), ("sec", sec)]
      act := fun r => do pure [("tm", ← tmFromCompositeFields (← root r "hdr") (← root r "sec") (pn p "dlen"))] }
  | "service1_from_tm" => some {
      setup := do pure [("tm", ← mkS1Tm p)]
      act := fun r => do pure [("rep", ← service1FromTm (← root r "tm"))] }
  | "service1_from_tm_twice" => some {
      setup := do
        let tm ← mkS1Tm p
        let rep ← service1FromTm tm
        pure [("tm", tm), ("rep", rep)]
      act := fun r => do pure [("rep2", ← service1FromTm (← root r "tm"))] }
  | "service1_default_twice" => some {
      setup := do pure [("a", ← newService1TmDefault (pn p "apid") (pn p "sub") (pn p "tslen"))]
      act := fun _ => do pure [("b", ← newService1TmDefault (pn p "apid2") (pn p "sub") (pn p "tslen"))] }
  | "pdu_flag_set" => k?.map fun k => {
      setup := confObjsPdu k p
      act := fun r => do
        let pdu ← root r "pdu"
        match pn p "set" with
        | 0 => do
          pduFlagSet k pdu (.fileFlag (pn p "v"))
          pure []
        | 1 => do
          pduFlagSet k pdu (.hdrScalar (pn p "attr") (pn p "v"))
          pure []
        | 2 => do
          let a ← newByteField (pn p "w2") (pn p "v")
          let b ← newByteField (pn p "w2") (pn p "v" + 1)
          pduFlagSet k pdu (.entityIds a b)
          pure [("arg", a), ("arg2", b)]
        | 3 => do
          let q ← newByteField (pn p "w2") (pn p "v")
          pduFlagSet k pdu (.seqNum q)
          pure [("arg", q)]
        | _ => do
          pduFlagSet k pdu (.fieldValue (pn p "attr") (pn p "v"))
          pure [] }
  | _ => none

/-! ## the alias graph -/

def sortStrs (l : List String) : List String := l.mergeSort (fun a b => !(b < a))

def evalPath (s : Store) (r : Roots) (path : String) : Option Addr :=
  match path.splitOn "." with
  | [] => none
  | name :: segs =>
    match r.lookup name with
    | none => none
    | some a => followAttrs s a segs

structure Graph where
  objects : List String
  classes : List (List String)
  separated : List String
  written : List String

def pairsOf : List (String × Addr) → List String
  | [] => []
  | (p, a) :: rest => (rest.filterMap fun (q, b) => if a = b then none else some (if p < q then p ++ "|" ++ q else q ++ "|" ++ p)) ++ pairsOf rest

def graph (scn : Scn) (paths : List String) : Option Graph :=
  match scn.setup.run [] with
  | none => none
  | some (r0, s0) =>
    match (scn.act r0).run s0 with
    | none => none
    | some (rNew, s1) =>
      let r1 := r0 ++ rNew
      let ev : List (String × Addr) := paths.filterMap fun q => (evalPath s1 r1 q).map fun a => (q, a)
      let addrs := (ev.map (·.2)).eraseDups
      let classes := addrs.map fun a => sortStrs ((ev.filter fun x => x.2 = a).map (·.1))
      let classes := classes.mergeSort (fun a b => !(b.headD "" < a.headD ""))
      let written := paths.filter fun q =>
        match evalPath s0 r0 q with
        | none => false
        | some a => decide (view s0 a ≠ view s1 a)
      some { objects := sortStrs (ev.map (·.1)), classes := classes, separated := sortStrs (pairsOf ev),
             written := sortStrs written }

def strList (j : Json) (k : String) : R (List String) := do
  (← getArr j k).mapM fun v => match v.getStr? with
    | .ok s => pure s
    | .error _ => throw s!"field {k}: not a list of strings"

def jstrs (l : List String) : Json := jarr (l.map js)

def claimOk (j : Json) (g : Graph) : Bool :=
  match j.getObjVal? "claim" with
  | .error _ => false
  | .ok c =>
    match strList c "separated", strList c "may_write", strList c "objects" with
    | .ok a, .ok b, .ok o => a == g.separated && b == g.written && o == g.objects
    | _, _, _ => false

/-- `full`: the whole predicted graph (what the generator asks for); otherwise exactly the keys the implementation op answers -/
def handler (full : Bool) : Handler := fun j => do
  let name ← getStr j "scenario"
  let p ← field j "p"
  let paths ← strList j "paths"
  match scenario name p with
  | none => .error s!"heap_alias: unknown scenario {name} / kind"
  | some scn =>
    match graph scn paths with
    | none => pure (obj [("err", js "attribute")])
    | some g =>
      if full then
        pure (obj [("ok", obj [("objects", jstrs g.objects), ("classes", jarr (g.classes.map jstrs)),
          ("separated", jstrs g.separated), ("written", jstrs g.written)])])
      else
        pure (obj [("ok", obj [("objects", jstrs g.objects), ("claim_ok", jb (claimOk j g)),
          ("separated_broken", jarr []), ("unexpected_writes", jarr [])])])

def ops : List (String × Handler) := [
  ("heap_alias", handler false),
  ("heap_alias_predict", handler true)
]

end SpVerif.Ops.Heap
