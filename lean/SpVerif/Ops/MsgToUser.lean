import SpVerif.J
import SpVerif.Model.MsgToUser
namespace SpVerif.Ops.MsgToUser
open SpVerif.J SpVerif.Lv SpVerif.Tlv SpVerif.ByteField SpVerif.MsgToUser Lean

def fieldKV (pfx : String) (f : Field) : List (String × Json) :=
  [(pfx ++ "_w", jn f.lenView), (pfx ++ "_v", jn f.intView), (pfx ++ "_b", jh f.asBytes)]

def tidJ (t : TransactionId) : Json := obj (fieldKV "src" t.sourceId ++ fieldKV "seq" t.seqNum)

def putReqJ (p : ProxyPutRequestParams) : Json :=
  obj (fieldKV "dest" p.destEntityId ++
    [("src", jh p.sourceFileName.value), ("dst", jh p.destFileName.value)])

def putRespJ (p : ProxyPutResponseParams) : Json :=
  obj [("cc", ji p.conditionCode), ("dc", jn p.deliveryCode), ("fs", jn p.fileStatus)]

def dirJ (p : DirectoryParams) : Json := obj [("path", jh p.dirPath.value), ("name", jh p.dirFileName.value)]

def dirRespJ (p : Bool × DirectoryParams) : Json :=
  obj [("success", jb p.1), ("path", jh p.2.dirPath.value), ("name", jh p.2.dirFileName.value)]

def optsJ (o : DirListingOptions) : Json := obj [("recursive", jn o.recursive), ("all", jn o.all)]

/-- classification part of the view of a reserved message -/
def classifyKV (r : ReservedCfdpMessage) : Py (List (String × Json)) := do
  let t ← r.msgType
  let p ← r.isCfdpProxyOperation
  let d ← r.isDirectoryOperation
  let o ← r.isOriginatingTransactionId
  let pt ← r.getCfdpProxyMessageType
  let dt ← r.getDirectoryOperationType
  pure [("msg_type", jn t), ("is_proxy", jb p), ("is_dir", jb d), ("is_orig", jb o),
        ("proxy_type", jopt jn pt), ("dir_type", jopt jn dt), ("value", jh r.value),
        ("packet_len", jn r.packetLen), ("tlv_type", jn r.tlvType)]

/-- one getter by name; `null` stands for `None` -/
def getter (name : String) (r : ReservedCfdpMessage) : R (Py Json) :=
  if name == "orig_id" then pure (jopt tidJ <$> r.getOriginatingTransactionId)
  else if name == "put_req" then pure (jopt putReqJ <$> r.getProxyPutRequestParams)
  else if name == "put_resp" then pure (jopt putRespJ <$> r.getProxyPutResponseParams)
  else if name == "closure" then pure (jopt jn <$> r.getProxyClosureRequested)
  else if name == "tx_mode" then pure (jopt jn <$> r.getProxyTransmissionMode)
  else if name == "dir_req" then pure (jopt dirJ <$> r.getDirListingRequestParams)
  else if name == "dir_resp" then pure (jopt dirRespJ <$> r.getDirListingResponseParams)
  else if name == "dir_opts" then pure (jopt optsJ <$> r.getDirListingOptions)
  else .error s!"unknown getter {name}"

/-- classification and all eight getters -/
def viewJ (r : ReservedCfdpMessage) : Py Json := do
  let c ← classifyKV r
  let a ← r.getOriginatingTransactionId
  let b ← r.getProxyPutRequestParams
  let c2 ← r.getProxyPutResponseParams
  let d ← r.getProxyClosureRequested
  let e ← r.getProxyTransmissionMode
  let f ← r.getDirListingRequestParams
  let g ← r.getDirListingResponseParams
  let h ← r.getDirListingOptions
  pure (obj (c ++ [("orig_id", jopt tidJ a), ("put_req", jopt putReqJ b), ("put_resp", jopt putRespJ c2),
    ("closure", jopt jn d), ("tx_mode", jopt jn e), ("dir_req", jopt dirJ f),
    ("dir_resp", jopt dirRespJ g), ("dir_opts", jopt optsJ h)]))

/-- builder → pack → `MessageToUserTlv.unpack(raw + suffix)` → `to_reserved_msg_tlv` → view -/
def roundtrip (m : Py ReservedCfdpMessage) (suffix : Bytes) : Json :=
  res id (do
    let r ← m
    let raw ← r.pack
    let g ← r.toGenericMsgToUserTlv
    let mu ← MessageToUserTlv.unpack (raw ++ suffix)
    let rr ← toReservedMsgTlv mu
    match rr with
    | none => pure (obj [("raw", jh raw), ("reserved", jb false)])
    | some r2 =>
      let v ← viewJ r2
      pure (obj [("raw", jh raw), ("packet_len", jn r.packetLen), ("reserved", jb mu.isReservedCfdpMessage),
        ("same", jb (decide (r2 = r) && decide (g = mu))), ("view", v)]))

def getField (j : Json) (pfx : String) : R (Py Field) := do
  pure (Field.new (← getInt j (pfx ++ "_v")) (← getInt j (pfx ++ "_w")))

def getTid (j : Json) : R (Py TransactionId) := do
  let a ← getField j "src"
  let b ← getField j "seq"
  pure (a >>= fun a => b >>= fun b => pure ⟨a, b⟩)

/-- the reserved message carried by a packed message-to-user TLV (`none`: not reserved) -/
def fromRaw (raw : Bytes) : Py (Option ReservedCfdpMessage) := do
  let mu ← MessageToUserTlv.unpack raw
  toReservedMsgTlv mu

/-- optional flag `"lenient": true`: the input is a truncated message for which the property allows
    either refusal with `ValueError` or whatever the decoder makes of the octets that are there
    (membership in the allowed set, DESIGN 3.2); only an undocumented error is then a difference -/
def isLenient (j : Json) : Bool :=
  match getBool j "lenient" with
  | .ok b => b
  | .error _ => false

def lenientJ (lenient : Bool) (r : Json) : Json :=
  if !lenient then r
  else match r.getObjVal? "err" with
    | .ok e => if e == js "value" then obj [("ok", obj [("lenient", jb true)])] else r
    | .error _ => obj [("ok", obj [("lenient", jb true)])]

def ops : List (String × Handler) := [
  ("rsv_is_reserved", fun j => do
      pure (res (fun (m : MessageToUserTlv) => obj [("reserved", jb m.isReservedCfdpMessage), ("value", jh m.value)])
        (MessageToUserTlv.unpack (← getHex j "raw")))),
  ("rsv_is_reserved_value", fun j => do
      pure (res (fun (m : MessageToUserTlv) => obj [("reserved", jb m.isReservedCfdpMessage)])
        (MessageToUserTlv.new (← getHex j "value")))),
  ("rsv_to_reserved", fun j => do
      let raw ← getHex j "raw"
      pure (res id (do
        let r ← fromRaw raw
        match r with
        | none => pure (obj [("none", jb true)])
        | some r => do
          let c ← classifyKV r
          pure (obj (("none", jb false) :: c))))),
  ("rsv_get", fun j => do
      let raw ← getHex j "raw"
      let name ← getStr j "getter"
      match fromRaw raw with
      | .error e => pure (obj [("err", js e.name)])
      | .ok none => pure (obj [("ok", obj [("reserved", jb false)])])
      | .ok (some r) => do
        let g ← getter name r
        pure (lenientJ (isLenient j) (res (fun x => obj [("reserved", jb true), ("res", x)]) g))),
  ("rsv_view", fun j => do
      let raw ← getHex j "raw"
      pure (lenientJ (isLenient j) (res id (do
        let r ← fromRaw raw
        match r with
        | none => pure (obj [("reserved", jb false)])
        | some r => do
          let v ← viewJ r
          pure (obj [("reserved", jb true), ("view", v)]))))),
  ("rsv_new", fun j => do
      let r := ReservedCfdpMessage.new (← getInt j "msg_type") (← getHex j "value")
      pure (res id (do
        let r ← r
        let raw ← r.pack
        let c ← classifyKV r
        pure (obj (("raw", jh raw) :: c))))),
  ("rsv_b_put_request", fun j => do
      let f ← getField j "dest"
      let s := CfdpLv.new (← getHex j "src")
      let d := CfdpLv.new (← getHex j "dst")
      pure (roundtrip (f >>= fun f => s >>= fun s => d >>= fun d => ProxyPutRequest.new ⟨f, s, d⟩)
        (← getHex j "suffix"))),
  ("rsv_b_cancel", fun j => do pure (roundtrip ProxyCancelRequest.new (← getHex j "suffix"))),
  ("rsv_b_closure", fun j => do
      pure (roundtrip (ProxyClosureRequest.new (← getNat j "flag")) (← getHex j "suffix"))),
  ("rsv_b_tx_mode", fun j => do
      pure (roundtrip (ProxyTransmissionMode.new (← getNat j "mode")) (← getHex j "suffix"))),
  ("rsv_b_orig_id", fun j => do
      let t ← getTid j
      pure (roundtrip (t >>= OriginatingTransactionId.new) (← getHex j "suffix"))),
  ("rsv_b_dir_request", fun j => do
      let p := CfdpLv.new (← getHex j "path")
      let n := CfdpLv.new (← getHex j "name")
      pure (roundtrip (p >>= fun p => n >>= fun n => DirectoryListingRequest.new ⟨p, n⟩) (← getHex j "suffix"))),
  ("rsv_b_dir_response", fun j => do
      let p := CfdpLv.new (← getHex j "path")
      let n := CfdpLv.new (← getHex j "name")
      let s ← getBool j "success"
      pure (roundtrip (p >>= fun p => n >>= fun n => DirectoryListingResponse.new s ⟨p, n⟩) (← getHex j "suffix"))),
  ("rsv_b_dir_params", fun j => do
      pure (roundtrip (DirectoryListingParameters.new ⟨← getNat j "recursive", ← getNat j "all"⟩)
        (← getHex j "suffix"))),
  ("rsv_b_put_response", fun j => do
      pure (roundtrip (ProxyPutResponse.new
          (ProxyPutResponseParams.fromFinishedParams (← getInt j "cc") (← getNat j "dc") (← getNat j "fs")))
        (← getHex j "suffix"))),
  ("rsv_str", fun j => do
      let a ← getHex j "a"
      let b ← getHex j "b"
      pure (res (fun (p : Bytes × Bytes) => obj [("a", jh p.1), ("b", jh p.2)])
        (do let la ← CfdpLv.new a
            let lb ← CfdpLv.new b
            let x ← decodeUtf8 la.value
            let y ← decodeUtf8 lb.value
            pure (x, y)))),
  ("rsv_dir_from_strs", fun j => do
      pure (res dirJ (DirectoryParams.fromStrs (← getHex j "path") (← getHex j "name")))),
  ("rsv_tid_eq", fun j => do
      let a ← getTid (← field j "a")
      let b ← getTid (← field j "b")
      pure (res (fun (p : TransactionId × TransactionId) =>
          obj [("eq", jb (p.1.beq p.2)), ("hash_eq", jb (decide (p.1.hashKey = p.2.hashKey)))])
        (a >>= fun a => b >>= fun b => pure (a, b))))
]

end SpVerif.Ops.MsgToUser
