import SpVerif.J
import SpVerif.Model.FileData
import SpVerif.Ops.CfdpHeader
namespace SpVerif.Ops.FileData
open SpVerif.J SpVerif.CfdpHeader SpVerif.FileData Lean

/-- `"meta": null` → no segment metadata; otherwise hex octets plus `"state"` -/
def getMeta (j : Json) : R (Option SegMeta) := do
  match ← getHexOpt j "meta" with
  | none => pure none
  | some md => pure (some ⟨← getNat j "state", md⟩)

def getParams (j : Json) : R Params := do
  pure ⟨← getHex j "data", ← getNat j "offset", ← getMeta j⟩

def getPdu (j : Json) : R (Py Pdu) := do
  let c ← Ops.CfdpHeader.getConf j
  let p ← getParams j
  pure (c >>= fun c => Pdu.new c p)

def getSetter (j : Json) : R Setter := do
  let k ← getStr j "set"
  if k == "data" then pure (.fileData (← getHex j "data"))
  else if k == "meta" then pure (.segMeta (← getMeta j))
  else .error s!"unknown setter {k}"

def getSteps (j : Json) : R (List Setter) := do
  (← getArr j "steps").mapM getSetter

def paramFields (p : Params) : List (String × Json) :=
  [("offset", jn p.offset), ("data", jh p.fileData),
   ("meta", jopt (fun m => jh m.metadata) p.segMeta),
   ("state", jopt (fun m => jn m.state) p.segMeta)]

def pduFields (p : Pdu) : List (String × Json) :=
  Ops.CfdpHeader.hdrFields p.header ++ paramFields p.params

def pduJ (p : Pdu) : Json := obj (pduFields p)

def pduPackedJ (x : Pdu × Bytes) : Json := obj (pduFields x.1 ++ [("raw", jh x.2)])

def withPack (p : Py Pdu) : Py (Pdu × Bytes) := do
  let p ← p
  let raw ← p.pack
  pure (p, raw)

/-- what an observer sees of an object state after a setter call: the exception category of the
    call (`null` when accepted), reported lengths, flag, and what `pack()` gives -/
def stateJE (e : Option Err) (p : Pdu) : Json :=
  let pk := p.pack
  obj [("err", match e with | none => Json.null | some e => js e.name),
       ("packet_len", jn p.packetLen), ("dlen", jn p.header.dataFieldLen),
       ("segmeta", jn p.header.segMeta),
       ("raw", match pk with | .ok b => jh b | .error _ => Json.null),
       ("pack_err", match pk with | .ok _ => Json.null | .error e => js e.name)]

def stateJ (p : Pdu) : Json := stateJE none p

/-- the observable trace of a setter sequence: after every call (accepted or refused) the outcome
    and the observable state. A refused call does not end the sequence: the state after it (proved
    to be the state before it, `C07_step_refused`) is reported and the sequence continues. -/
def traceStates (p : Pdu) : List Setter → List Json × Pdu
  | [] => ([], p)
  | s :: rest =>
    let r1 := p.step s
    let r := traceStates r1.1 rest
    (stateJE r1.2 r1.1 :: r.1, r.2)

def traceJ (p : Pdu) (steps : List Setter) : Json :=
  let r := traceStates p steps
  obj [("initial", stateJ p), ("steps", jarr r.1), ("final", pduJ r.2)]

/-- decode `raw ++ suffix`; a documented refusal of a buffer with trailing octets is one of the two
    behaviours the statement allows, in which case the PDU alone is decoded (the implementation op
    applies the same rule, so both allowed behaviours give the same line; folding does not) -/
def unpackSfx (raw sfx : Bytes) : Py Pdu :=
  match Pdu.unpack (raw ++ sfx) with
  | .ok p => .ok p
  | .error e => if sfx.isEmpty || !e.documented then .error e else Pdu.unpack raw

def ops : List (String × Handler) := [
  ("fd_new", fun j => do pure (res pduJ (← getPdu j))),
  ("fd_pack", fun j => do pure (res pduPackedJ (withPack (← getPdu j)))),
  ("fd_unpack", fun j => do
      pure (res pduPackedJ (withPack (unpackSfx (← getHex j "raw") (← getHex j "suffix"))))),
  -- offsets beyond the field: packing must be refused (never a truncated encoding)
  ("fd_pack_offset", fun j => do
      let p ← getPdu j
      pure (res (fun (r : Py Bytes) => match r with
          | .ok b => obj [("refused", jb false), ("raw", jh b)]
          | .error _ => obj [("refused", jb true), ("raw", Json.null)])
        (p >>= fun p => pure p.pack))),
  ("fd_max_seg", fun j => do
      let c ← Ops.CfdpHeader.getConf j
      let m ← getMeta j
      let n ← getInt j "max_len"
      pure (res (fun n => obj [("len", jn n)]) (c >>= fun c => maxFileSegLen c n m))),
  ("fd_max_seg_obj", fun j => do
      let p ← getPdu j
      let n ← getInt j "max_len"
      pure (res (fun n => obj [("len", jn n)]) (p >>= fun p => p.maxFileSegLen n))),
  ("fd_seq", fun j => do
      let p ← getPdu j
      let steps ← getSteps j
      pure (res (fun p => traceJ p steps) p)),
  ("fd_useq", fun j => do
      let steps ← getSteps j
      pure (res (fun p => traceJ p steps) (unpackSfx (← getHex j "raw") (← getHex j "suffix")))),
  ("fd_eq", fun j => do
      let a ← getPdu j
      let c ← Ops.CfdpHeader.getConf j
      let d2 ← getHex j "data2"
      let o2 ← getNat j "offset2"
      let m2 : Option SegMeta ← (do
        match ← getHexOpt j "meta2" with
        | none => pure none
        | some md => pure (some ⟨← getNat j "state2", md⟩))
      pure (res (fun (b : Bool) => obj [("eq", jb b)]) (do
        let a ← a
        let c ← c
        let b ← Pdu.new c ⟨d2, o2, m2⟩
        pure (a.beq b))))
]

end SpVerif.Ops.FileData
