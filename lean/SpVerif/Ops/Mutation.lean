import SpVerif.J
import SpVerif.Model.Mutation
import SpVerif.Ops.PusTc
import SpVerif.Ops.PusTm
import SpVerif.Ops.DirectiveFixed
import SpVerif.Ops.FileData
import SpVerif.Ops.Uslp
import SpVerif.Ops.DirectiveVar
/-!
# Driver ops for the setter state machines (prefix `c11_`)

One op line = one initial object plus a whole sequence of setter calls. The result lists what an
observer sees of the object right after construction and after EVERY call: the outcome of the
call, the reported length, the octets `pack()` gives, the value the format requires in the length
field of those octets, whether a second `pack()` gives the same octets and leaves equality
unchanged, and whether a freshly built object with the same final values packs to the same octets
and compares equal.

Octet strings in the input are hex strings or `{"fill": b, "n": k}` (k copies of octet b);
long octet strings in the output are summarised (`rawJ`).
-/
namespace SpVerif.Ops.Mutation
open SpVerif.J SpVerif.Mutation Lean

/-- hex string or `{"fill": b, "n": k}` -/
def getData (j : Json) (k : String) : R Bytes := do
  let v ← field j k
  match v.getStr? with
  | .ok s => bytesOfHex s
  | .error _ => do
    let b ← getNat v "fill"
    let n ← getNat v "n"
    pure (List.replicate n (u8 b))

/-- Adler-32 (as `zlib.adler32`): a cheap position-sensitive checksum for summarising long octet strings -/
def adler32 (b : Bytes) : Nat :=
  let r := b.foldl (fun (acc : Nat × Nat) x =>
    let a := (acc.1 + x.toNat) % 65521
    (a, (acc.2 + a) % 65521)) (1, 0)
  r.2 * 65536 + r.1

/-- octets as the result line shows them: hex up to 2048 octets, a summary beyond -/
def rawJ (b : Bytes) : Json :=
  if b.length ≤ 2048 then jh b
  else obj [("len", jn b.length), ("adler", jn (adler32 b)), ("head", jh (b.take 64)),
            ("tail", jh (b.drop (b.length - 64)))]

/-- everything the op layer needs to know about one mutable class -/
structure Kind (S O : Type) where
  m : Machine S O
  pack : S → Py (Bytes × S)
  reported : S → Nat
  /-- the value the format requires in the length field of the packed octets -/
  required : Bytes → S → Json
  beq : S → S → Bool
  /-- a freshly constructed object with the same final values -/
  fresh : S → Py S
  /-- further observable attributes (flags, counts) -/
  extra : S → List (String × Json)

variable {S O : Type}

def obs (k : Kind S O) (err : Option Err) (s : S) : Json :=
  let e : Json := match err with | none => Json.null | some e => js e.name
  let common := [("err", e), ("reported", jn (k.reported s))] ++ k.extra s
  match k.pack s with
  | .error pe =>
    obj (common ++ [("raw", Json.null), ("pack_err", js pe.name), ("len_field", Json.null),
      ("again", Json.null), ("eq_after_pack", Json.null), ("fresh", Json.null)])
  | .ok (b, s') =>
    let again : Bool := match k.pack s' with
      | .ok (b2, _) => b2 == b
      | .error _ => false
    let fresh : Bool := match k.fresh s with
      | .ok f => (match k.pack f with
          | .ok (bf, _) => bf == b && k.beq f s && k.beq s f
          | .error _ => false)
      | .error _ => false
    obj (common ++ [("raw", rawJ b), ("pack_err", Json.null), ("len_field", k.required b s),
      ("again", jb again), ("eq_after_pack", jb (k.beq s s' && k.beq s' s)), ("fresh", jb fresh)])

def traceObs (k : Kind S O) (s : S) : List O → List Json
  | [] => []
  | o :: rest => let r := k.m.step s o; obs k r.2 r.1 :: traceObs k r.1 rest

def runJ (k : Kind S O) (s : S) (ops : List O) : Json :=
  obj [("initial", obs k none s), ("steps", jarr (traceObs k s ops))]

def handler (k : Kind S O) (getInit : Json → R (Py S)) (getOp : Json → R O) : Handler := fun j => do
  let s ← getInit j
  let ops ← (← getArr j "steps").mapM getOp
  pure (res (fun s => runJ k s ops) s)

/-! ## the table of kinds -/

section Tc
open SpVerif.PusTc

def tcKind : Kind TcS TcOp where
  m := tcMachine
  pack := TcS.pack
  reported := TcS.reported
  required := fun b _ => jn (b.length - 7)
  beq := TcS.beq
  fresh := fun s => do
    let t ← Tc.new s.obj.sec.service s.obj.sec.subservice (s.obj.sph.apid : Int) s.obj.appData
      (s.obj.sph.count : Int) s.obj.sec.sourceId s.obj.sec.ack
    pure (TcS.ofNew t)
  extra := fun s => [("dlen", jn s.obj.sph.dlen), ("data_len", jn s.obj.appData.length)]

def getTcInit (j : Json) : R (Py TcS) := do
  let t ← Ops.PusTc.getTc j
  let via ← getBool j "via_unpack"
  pure (do
    let t ← t
    if via then
      let raw ← t.pack
      TcS.ofUnpack raw
    else pure (TcS.ofNew t))

def getTcOp (j : Json) : R TcOp := do pure (.appData (← getData j "data"))
end Tc

section Tm
open SpVerif.PusTm

def tmKind : Kind TmS TmOp where
  m := tmMachine
  pack := TmS.pack
  reported := TmS.reported
  required := fun b _ => jn (b.length - 7)
  beq := TmS.beq
  fresh := fun s => do
    let t ← Tm.new (s.obj.sec.service : Int) (s.obj.sec.subservice : Int) s.obj.sec.timestamp s.obj.sourceData
      (s.obj.sph.apid : Int) (s.obj.sph.count : Int) (s.obj.sec.msgCounter : Int) s.obj.sec.timeRef
      s.obj.sec.destId s.obj.sph.version
    pure (TmS.ofNew t)
  extra := fun s => [("dlen", jn s.obj.sph.dlen), ("data_len", jn s.obj.sourceData.length)]

def getTmInit (j : Json) : R (Py TmS) := do
  let t ← Ops.PusTm.getTm j
  let via ← getBool j "via_unpack"
  pure (do
    let t ← t
    if via then
      let raw ← t.pack
      TmS.ofUnpack raw t.sec.timestamp.length
    else pure (TmS.ofNew t))

def getTmOp (j : Json) : R TmOp := do pure (.tmData (← getData j "data"))
end Tm

/-- fields every CFDP kind shows: data-field length, large-file flag, segment-metadata flag -/
def hdrExtra (h : CfdpHeader.PduHeader) : List (String × Json) :=
  [("dlen", jn h.dataFieldLen), ("large", jn h.conf.fileFlag), ("segmeta", jn h.segMeta)]

/-- the data-field length the format requires: everything after the fixed header -/
def cfdpRequired (h : CfdpHeader.PduHeader) (b : Bytes) : Json := jn (b.length - h.headerLen)

section Nak
open SpVerif.Nak

def nakKind : Kind Nak NakOp where
  m := nakMachine
  pack := nakPack
  reported := Nak.packetLen
  required := fun b k => cfdpRequired k.fd.header b
  beq := Nak.beq
  fresh := fun k => Nak.new k.fd.header.conf k.startOfScope k.endOfScope k.segs
  extra := fun k => hdrExtra k.fd.header ++ [("nsegs", jn k.segs.length)]

/-- `{"fill": [a, b], "n": k}` or a list of pairs or `null` -/
def getSegList (j : Json) (k : String) : R (List Seg) := do
  let v ← field j k
  if v.isNull then pure [] else
  match v.getArr? with
  | .ok _ => Ops.DirectiveFixed.getSegs j k
  | .error _ => do
    let p ← Ops.DirectiveFixed.getSeg (← field v "fill")
    let n ← getNat v "n"
    pure (List.replicate n p)

def getNakInit (j : Json) : R (Py Nak) := do
  let c ← Ops.CfdpHeader.getConf j
  let s ← getInt j "start"
  let e ← getInt j "end"
  let segs ← getSegList j "segs"
  let via ← getBool j "via_unpack"
  pure (do
    let c ← c
    let k ← Nak.new c s e segs
    if via then
      let raw ← k.pack
      Nak.unpack raw
    else pure k)

def getNakOp (j : Json) : R NakOp := do
  let k ← getStr j "set"
  if k == "segs" then pure (.segs (← getSegList j "segs"))
  else if k == "large" then pure (.fileFlag (← getNat j "large"))
  else .error s!"unknown NAK setter {k}"
end Nak

section KeepAlive
open SpVerif.KeepAlive

def kaKind : Kind KeepAlive KaOp where
  m := kaMachine
  pack := kaPack
  reported := KeepAlive.packetLen
  required := fun b k => cfdpRequired k.fd.header b
  beq := KeepAlive.beq
  fresh := fun k => KeepAlive.new k.fd.header.conf k.progress
  extra := fun k => hdrExtra k.fd.header

def getKaInit (j : Json) : R (Py KeepAlive) := do
  let c ← Ops.CfdpHeader.getConf j
  let p ← getInt j "progress"
  let via ← getBool j "via_unpack"
  pure (do
    let c ← c
    let k ← KeepAlive.new c p
    if via then
      let raw ← k.pack
      KeepAlive.unpack raw
    else pure k)

def getKaOp (j : Json) : R KaOp := do pure (.fileFlag (← getNat j "large"))
end KeepAlive

section FileData
open SpVerif.FileData

def fdKind : Kind Pdu Setter where
  m := fdMachine
  pack := fdPack
  reported := Pdu.packetLen
  required := fun b p => cfdpRequired p.header b
  beq := Pdu.beq
  fresh := fun p => Pdu.new p.header.conf p.params
  extra := fun p => hdrExtra p.header ++ [("data_len", jn p.params.fileData.length),
    ("meta_len", jopt (fun (m : SegMeta) => jn m.metadata.length) p.params.segMeta)]

/-- `"meta": null` → no segment metadata; otherwise octets plus `"state"` -/
def getMeta (j : Json) : R (Option SegMeta) := do
  let v ← field j "meta"
  if v.isNull then pure none else pure (some ⟨← getNat j "state", ← getData j "meta"⟩)

def getFdInit (j : Json) : R (Py Pdu) := do
  let c ← Ops.CfdpHeader.getConf j
  let d ← getData j "data"
  let off ← getNat j "offset"
  let m ← getMeta j
  let via ← getBool j "via_unpack"
  pure (do
    let c ← c
    let p ← Pdu.new c ⟨d, off, m⟩
    if via then
      let raw ← p.pack
      Pdu.unpack raw
    else pure p)

def getFdOp (j : Json) : R Setter := do
  let k ← getStr j "set"
  if k == "data" then pure (.fileData (← getData j "data"))
  else if k == "meta" then pure (.segMeta (← getMeta j))
  else .error s!"unknown File Data setter {k}"
end FileData

section Uslp
open SpVerif.Uslp

def frameKind : Kind FrameS FrameOp where
  m := frameMachine
  pack := framePack
  reported := FrameS.len
  -- the frame length field holds what the header object holds; `len_set` says whether that is the
  -- total length minus one (it is once `set_frame_len_in_header` ran and the data zone was not replaced since)
  required := fun _ s => match s.frame.header with
    | .primary h => jn (h.frameLen % 65536)
    | .truncated _ => Json.null
  beq := fun a b => decide (a = b)     -- `TransferFrame` defines no `__eq__`: the field values are compared
  fresh := fun s => match Tfdf.new s.frame.tfdf.rules s.frame.tfdf.upid s.frame.tfdf.tfdz s.frame.tfdf.fhp with
    | .ok t => .ok (FrameS.ofNew { s.frame with tfdf := t })
    | .error e => .error e.toErr
  extra := fun s => [("tfdf_len", jn s.size),
    ("frame_len", match s.frame.header with | .primary h => jn h.frameLen | .truncated _ => Json.null),
    ("len_set", match s.frame.header with
      | .primary h => jb (h.frameLen + 1 == s.len)
      | .truncated _ => Json.null)]

def getFrameInit (j : Json) : R (Py FrameS) := do
  let f ← Ops.Uslp.getFrame j
  pure (match Tfdf.new f.tfdf.rules f.tfdf.upid f.tfdf.tfdz f.tfdf.fhp with
    | .ok t => .ok (FrameS.ofNew { f with tfdf := t })
    | .error e => .error e.toErr)

def getFrameOp (j : Json) : R FrameOp := do
  let k ← getStr j "set"
  if k == "tfdz" then pure (.tfdz (← getData j "tfdz"))
  else if k == "frame_len" then pure .setFrameLen
  else .error s!"unknown USLP setter {k}"
end Uslp

/-! ## stage-2 kinds: EOF, Finished, Metadata (argument formats of `Ops.DirectiveVar`) -/

/-- `{"fill": item, "n": k, "then": [...]}` stands for `k` copies of `item` followed by the optional tail -/
def expandFill (v : Json) : R Json :=
  match v.getObjVal? "fill" with
  | .ok item => do
    let n ← getNat v "n"
    let tail : List Json := match v.getObjVal? "then" with
      | .ok t => (match t.getArr? with | .ok a => a.toList | .error _ => [])
      | .error _ => []
    pure (Json.arr (List.replicate n item ++ tail).toArray)
  | .error _ => pure v

def pyTrue (r : Py Bool) : Bool :=
  match r with
  | .ok true => true
  | _ => false

def faultLenJ : Option Tlv.EntityIdTlv → Json
  | some t => jn t.value.length
  | none => Json.null

section Eof
open SpVerif.Eof

def eofKind : Kind Eof EofOp where
  m := eofMachine
  pack := eofPack
  reported := Eof.packetLen
  required := fun b k => cfdpRequired k.fd.header b
  beq := fun a b => pyTrue (a.beq b)
  fresh := fun k => Eof.new k.fd.header.conf k.checksum k.fileSize k.faultLoc k.cond
  extra := fun k => hdrExtra k.fd.header ++ [("fault_len", faultLenJ k.faultLoc)]

def getEofInit (j : Json) : R (Py Eof) := do
  let k ← Ops.DirectiveVar.getEof j
  let via ← getBool j "via_unpack"
  pure (do
    let k ← k
    if via then
      let raw ← k.pack
      Eof.unpack raw
    else pure k)

def getEofOp (j : Json) : R (Py EofOp) := do
  let fl ← Ops.DirectiveVar.faultOf (← field j "v")
  pure (EofOp.faultLoc <$> fl)
end Eof

section Finished
open SpVerif.Finished

def finKind : Kind FinS FinOp where
  m := finMachine
  pack := FinS.pack
  reported := FinS.reported
  required := fun b s => cfdpRequired s.obj.fd.header b
  beq := fun a b => pyTrue (a.beq b)
  fresh := fun s => do
    let k ← Finished.new s.obj.fd.header.conf s.obj.cond s.obj.delivery s.obj.status s.obj.responses s.obj.faultLoc
    pure (FinS.ofNew k)
  extra := fun s => hdrExtra s.obj.fd.header ++ [("fault_len", faultLenJ s.obj.faultLoc),
    ("nresp", jn s.obj.responses.length), ("cond", ji s.obj.cond)]

def getFinInit (j : Json) : R (Py FinS) := do
  let k ← Ops.DirectiveVar.getFin j
  let via ← getBool j "via_unpack"
  pure (do
    let k ← k
    if via then
      let raw ← k.pack
      let u ← Finished.unpack raw
      pure (FinS.ofNew u)
    else pure (FinS.ofNew k))

def getFinOp (j : Json) : R (Py FinOp) := do
  let name ← getStr j "set"
  let v ← field j "v"
  if name == "fault" then
    let fl ← Ops.DirectiveVar.faultOf v
    pure (FinOp.faultLoc <$> fl)
  else if name == "cond" then
    pure (.ok (.cond (← Ops.DirectiveVar.intOf v "cond")))
  else if name == "responses" then
    if v.isNull then pure (.ok (.responses none)) else
    match (← expandFill v).getArr? with
    | .ok a => do
      let rs ← Ops.DirectiveVar.responsesOf a.toList
      pure ((fun l => FinOp.responses (some l)) <$> rs)
    | .error _ => .error "responses: not an array/null/fill"
  else .error s!"unknown Finished setter {name}"
end Finished

section Metadata
open SpVerif.Metadata

def mdKind : Kind Metadata MdOp where
  m := mdMachine
  pack := mdPack
  reported := Metadata.packetLen
  required := fun b k => cfdpRequired k.fd.header b
  beq := fun a b => pyTrue (a.beq b)
  fresh := fun k => Metadata.new k.fd.header.conf k.closure k.checksumType k.fileSize (some k.srcLv.value)
    (some k.dstLv.value) k.options
  extra := fun k => hdrExtra k.fd.header ++ [("src_len", jn k.srcLv.value.length), ("dst_len", jn k.dstLv.value.length),
    ("nopts", match k.options with | some l => jn l.length | none => Json.null)]

def getMdInit (j : Json) : R (Py Metadata) := do
  let k ← Ops.DirectiveVar.getMd j
  let via ← getBool j "via_unpack"
  pure (do
    let k ← k
    if via then
      let raw ← k.pack
      Metadata.unpack raw
    else pure k)

def getMdOp (j : Json) : R (Py MdOp) := do
  let name ← getStr j "set"
  let v ← field j "v"
  if name == "options" then
    let o ← Ops.DirectiveVar.optionsOf (← expandFill v)
    pure (MdOp.options <$> o)
  else if name == "src" then pure (.ok (.srcName (← Ops.DirectiveVar.hexOptOf v "src")))
  else if name == "dst" then pure (.ok (.dstName (← Ops.DirectiveVar.hexOptOf v "dst")))
  else .error s!"unknown Metadata setter {name}"
end Metadata

/-- like `handler`, for kinds whose setter ARGUMENTS are built by constructors that can refuse
    (`EntityIdTlv(...)`, `CfdpTlv(...)`, `CfdpLv(...)`): the generators only produce constructible
    arguments; a refusal is the op's error -/
def handlerPy (k : Kind S O) (getInit : Json → R (Py S)) (getOp : Json → R (Py O)) : Handler := fun j => do
  let s ← getInit j
  let ops ← (← getArr j "steps").mapM getOp
  pure (res (fun (x : S × List O) => runJ k x.1 x.2) (do
    let s ← s
    let ops ← Ops.DirectiveVar.seqPy ops
    pure (s, ops)))

/-- what the caller of a CFDP constructor sees of its own `PduConfig` afterwards -/
def confJ (c : CfdpHeader.PduConfig) : Json :=
  obj [("src_w", jn c.source.width), ("src_v", jn c.source.value), ("dst_w", jn c.dest.width),
       ("dst_v", jn c.dest.value), ("seq_w", jn c.seqNum.width), ("seq_v", jn c.seqNum.value),
       ("mode", jn c.transMode), ("large", jn c.fileFlag), ("crc", jn c.crcFlag), ("dir", jn c.direction),
       ("segctrl", jn c.segCtrl)]

def ops : List (String × Handler) := [
  ("c11_tc", handler tcKind getTcInit getTcOp),
  ("c11_tm", handler tmKind getTmInit getTmOp),
  ("c11_nak", handler nakKind getNakInit getNakOp),
  ("c11_ka", handler kaKind getKaInit getKaOp),
  ("c11_fd", handler fdKind getFdInit getFdOp),
  ("c11_frame", handler frameKind getFrameInit getFrameOp),
  ("c11_eof", handlerPy eofKind getEofInit getEofOp),
  ("c11_fin", handlerPy finKind getFinInit getFinOp),
  ("c11_md", handlerPy mdKind getMdInit getMdOp),
  -- caller's configuration after construction (stage-1 CFDP kinds with a Lean constructor model):
  -- the object's direction, and the caller's configuration as it is afterwards
  ("c11_conf", fun j => do
      let c ← Ops.CfdpHeader.getConf j
      let kind ← getStr j "kind"
      let dirOf (h : Py CfdpHeader.PduHeader) : Py Nat := h >>= fun h => pure h.conf.direction
      pure (res (fun (r : Nat × CfdpHeader.PduConfig) => obj [("obj_dir", jn r.1), ("caller", confJ r.2)]) (do
        let c ← c
        let h : Py CfdpHeader.PduHeader :=
          if kind == "nak" then (Nak.Nak.new c 0 0 []) >>= fun k => pure k.fd.header
          else if kind == "keepalive" then (KeepAlive.KeepAlive.new c 0) >>= fun k => pure k.fd.header
          else if kind == "filedata" then (FileData.Pdu.new c FileData.Params.empty) >>= fun p => pure p.header
          else if kind == "eof" then (Eof.Eof.new c [0, 0, 0, 0] 0 none 0) >>= fun k => pure k.fd.header
          else if kind == "finished" then (Finished.Finished.new c 0 0 0 [] none) >>= fun k => pure k.fd.header
          else if kind == "metadata" then (Metadata.Metadata.new c false 0 0 none none none) >>= fun k => pure k.fd.header
          else .error .type
        withCaller c (dirOf h)))),
  -- caller-supplied objects after construction and `pack()` for the kinds the functional model
  -- cannot say more about than `withCaller` does (values are copied, never shared): the
  -- implementation side deep-compares the real objects, the model's verdict is constant
  ("c11_inputs", fun _ => do pure (obj [("ok", obj [("untouched", jb true)])])),
  -- kept for replay files of the period before the EOF / Finished / Metadata models were merged
  ("c11_selfcheck", fun _ => do pure (obj [("ok", obj [("held", jb true)])]))
]

end SpVerif.Ops.Mutation
