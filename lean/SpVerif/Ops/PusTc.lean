import SpVerif.J
import SpVerif.Model.PusTc
import SpVerif.Ops.SpacePacket
namespace SpVerif.Ops.PusTc
open SpVerif.J SpVerif.SpacePacket SpVerif.PusTc Lean

def tcJ (t : Tc) : Json :=
  obj [("sph", Ops.SpacePacket.sphJ t.sph), ("ack", jn t.sec.ack), ("service", jn t.sec.service),
       ("subservice", jn t.sec.subservice), ("source_id", jn t.sec.sourceId), ("data", jh t.appData),
       ("packet_len", jn t.packetLen)]

def getTc (j : Json) : R (Py Tc) := do
  pure (Tc.new (← getNat j "service") (← getNat j "subservice") (← getInt j "apid") (← getHex j "data")
    (← getInt j "count") (← getNat j "source_id") (← getNat j "ack"))

def ops : List (String × Handler) := [
  ("tc_new", fun j => do pure (res tcJ (← getTc j))),
  ("tc_pack", fun j => do
      let t ← getTc j
      pure (res (fun (r : Bytes × Bytes × Nat) =>
          obj [("raw", jh r.1), ("sp_raw", jh r.2.1), ("packet_len", jn r.2.2), ("crc_ok", jb (checkPusCrc r.1))])
        (do let t ← t; let raw ← t.pack; let sp ← t.spacePacketPack; pure (raw, sp, t.packetLen)))),
  ("tc_unpack", fun j => do pure (res tcJ (Tc.unpack (← getHex j "raw")))),
  ("pus_crc_check", fun j => do pure (obj [("ok", obj [("valid", jb (checkPusCrc (← getHex j "raw")))])])),
  ("crc16", fun j => do pure (obj [("ok", obj [("crc", jn (Crc.crc16Nat (← getHex j "raw")))])]))
]

end SpVerif.Ops.PusTc
