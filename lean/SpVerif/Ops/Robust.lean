import SpVerif.J
import SpVerif.Ops.Parser
import SpVerif.Ops.Uslp
import SpVerif.Model.PusTc
import SpVerif.Model.PusTm
import SpVerif.Model.Srv1
import SpVerif.Model.Verificator
import SpVerif.Model.Cds
import SpVerif.Model.CfdpFront
import SpVerif.Model.Tlv
import SpVerif.Model.ByteField
import SpVerif.Model.Factory
import SpVerif.Model.Eof
import SpVerif.Model.Finished
import SpVerif.Model.Metadata
import SpVerif.Model.MsgToUser
/-!
# Driver ops for C10 (prefix `c10_`): the accept / reject verdict of every public decoder

`c10_decode {"decoder": <name>, "raw": <hex>, …configuration…}` runs the decoder model of the owning
property on `raw` and returns `{"ok": true}` or `{"err": "<category>"}` — nothing else is compared
by C10 (the decoded values are the business of the owning properties). `c10_decoders` lists the
names (table sync with the harness).

The table is one line per kind; configuration keys are those of the owning properties' ops
(`ts_len`, `step_bytes`, `err_bytes`, `pfc`, `n`, `truncated`, `exact_len`, `frame_type`, `props`,
`ids`).
-/
namespace SpVerif.Ops.Robust
open SpVerif SpVerif.J Lean

def verdict {α} : Py α → Json
  | .ok _ => obj [("ok", Json.bool true)]
  | .error e => obj [("err", js e.name)]

def uverdict {α} (x : Uslp.UPy α) : Json := verdict x.toPy

/-- tracker part of `s1_verif`: the telecommand of the decoded report is registered, then the report
    is handed to `add_tm` twice (fresh record, then the record it has just modified) -/
def feedTracker (s : Srv1.S1Tm) : Py Unit :=
  let key := s.tcReqId.asU32
  let op := Verificator.Op.addTm key s.tm.sec.subservice (s.stepId.map Srv1.Pfe.val)
  let t0 := (Verificator.step Verificator.Tracker.empty (.addTc key)).1
  let r1 := Verificator.step t0 op
  let r2 := Verificator.step r1.1 op
  match r1.2, r2.2 with
  | .raised e, _ => .error e
  | _, .raised e => .error e
  | _, _ => .ok ()

/-- `MessageToUserTlv.unpack(raw).to_reserved_msg_tlv()`, then — when a reserved message comes back —
    the classification queries and all eight getters -/
def reservedAll (raw : Bytes) : Py Unit := do
  let m ← Tlv.MessageToUserTlv.unpack raw
  match ← MsgToUser.toReservedMsgTlv m with
  | none => pure ()
  | some r =>
    let _ ← r.isCfdpProxyOperation
    let _ ← r.isDirectoryOperation
    let _ ← r.isOriginatingTransactionId
    let _ ← r.getCfdpProxyMessageType
    let _ ← r.getDirectoryOperationType
    let _ ← r.getOriginatingTransactionId
    let _ ← r.getProxyPutRequestParams
    let _ ← r.getProxyPutResponseParams
    let _ ← r.getProxyClosureRequested
    let _ ← r.getProxyTransmissionMode
    let _ ← r.getDirListingRequestParams
    let _ ← r.getDirListingResponseParams
    let _ ← r.getDirListingOptions
    pure ()

/-- one decoder: reads its configuration from the op line and returns the verdict -/
abbrev Dec := Json → Bytes → R Json

def tlvVia {α} (f : Tlv.CfdpTlv → Py α) : Dec := fun _ raw => pure (verdict (Tlv.CfdpTlv.unpack raw >>= f))

def decoders : List (String × Dec) := [
  -- CCSDS
  ("sph", fun _ raw => pure (verdict (SpacePacket.Sph.unpack raw))),
  ("apid", fun _ raw => pure (verdict (SpacePacket.apidFromRaw raw))),
  ("parser", fun j raw => do
      let pids ← Ops.Parser.getPids j "ids"
      pure (verdict (do let ps ← pids; Parser.parseSpacePackets [raw] ps))),
  -- PUS
  ("tc", fun _ raw => pure (verdict (PusTc.Tc.unpack raw))),
  ("tc_sec", fun _ raw => pure (verdict (PusTc.TcSec.unpack raw))),
  ("tm_sec", fun j raw => do pure (verdict (PusTm.TmSec.unpack raw (← getNat j "ts_len")))),
  ("tm", fun j raw => do pure (verdict (PusTm.Tm.unpack raw (← getNat j "ts_len")))),
  ("s17", fun j raw => do pure (verdict (PusTm.srv17Unpack raw (← getNat j "ts_len")))),
  ("tm_service", fun _ raw => pure (verdict (PusTm.serviceFromBytes raw))),
  ("s1", fun j raw => do
      pure (verdict (Srv1.S1Tm.unpack raw (← getNat j "ts_len") (← getNat j "step_bytes") (← getNat j "err_bytes")))),
  ("s1_from_tm", fun j raw => do
      let n ← getNat j "ts_len"
      let sb ← getNat j "step_bytes"
      let eb ← getNat j "err_bytes"
      pure (verdict (do let tm ← PusTm.Tm.unpack raw n; Srv1.S1Tm.fromTm tm sb eb))),
  ("s1_verif", fun j raw => do
      let n ← getNat j "ts_len"
      let sb ← getNat j "step_bytes"
      let eb ← getNat j "err_bytes"
      pure (verdict (do let s ← Srv1.S1Tm.unpack raw n sb eb; feedTracker s))),
  ("reqid", fun _ raw => pure (verdict (Srv1.ReqId.unpack raw))),
  ("pfe", fun j raw => do pure (verdict (Srv1.Pfe.unpack raw (← getNat j "pfc")))),
  ("cds", fun _ raw => pure (verdict (Cds.unpackFromRaw raw))),
  -- CFDP header
  ("pdu_hdr", fun _ raw => pure (verdict (CfdpHeader.PduHeader.unpack raw))),
  ("hdr_len", fun _ raw => pure (verdict (CfdpHeader.headerLenFromRaw raw))),
  ("pdu_front", fun _ raw => pure (verdict (CfdpFront.pduFront raw))),
  ("dir_front", fun _ raw => pure (verdict (CfdpFront.directiveFront raw))),
  -- CFDP PDUs, factory, reserved messages (stage 2)
  ("directive_base", fun _ raw => pure (verdict (FileDirective.FileDirective.unpack raw))),
  ("ack", fun _ raw => pure (verdict (Ack.Ack.unpack raw))),
  ("prompt", fun _ raw => pure (verdict (Prompt.Prompt.unpack raw))),
  ("keep_alive", fun _ raw => pure (verdict (KeepAlive.KeepAlive.unpack raw))),
  ("nak", fun _ raw => pure (verdict (Nak.Nak.unpack raw))),
  ("eof", fun _ raw => pure (verdict (Eof.Eof.unpack raw))),
  ("finished", fun _ raw => pure (verdict (Finished.Finished.unpack raw))),
  ("metadata", fun _ raw => pure (verdict (Metadata.Metadata.unpack raw))),
  ("file_data", fun _ raw => pure (verdict (FileData.Pdu.unpack raw))),
  ("pdu_type", fun _ raw => pure (verdict (Factory.pduType raw))),
  ("is_file_directive", fun _ raw => pure (verdict (Factory.isFileDirective raw))),
  ("pdu_directive_type", fun _ raw => pure (verdict (Factory.pduDirectiveType raw))),
  ("factory", fun _ raw => pure (verdict (Factory.fromRaw raw))),
  ("factory_holder", fun _ raw => pure (verdict (Factory.fromRawToHolder raw))),
  ("reserved", fun _ raw => pure (verdict (reservedAll raw))),
  -- LV / TLV
  ("lv", fun _ raw => pure (verdict (Lv.CfdpLv.unpack raw))),
  ("tlv", fun _ raw => pure (verdict (Tlv.CfdpTlv.unpack raw))),
  ("entity_id", fun _ raw => pure (verdict (Tlv.EntityIdTlv.unpack raw))),
  ("flow_label", fun _ raw => pure (verdict (Tlv.FlowLabelTlv.unpack raw))),
  ("msg_to_user", fun _ raw => pure (verdict (Tlv.MessageToUserTlv.unpack raw))),
  ("fault_handler", fun _ raw => pure (verdict (Tlv.FaultHandlerOverrideTlv.unpack raw))),
  ("fs_request", fun _ raw => pure (verdict (Tlv.FileStoreRequestTlv.unpack raw))),
  ("fs_response", fun _ raw => pure (verdict (Tlv.FileStoreResponseTlv.unpack raw))),
  ("entity_id.from_tlv", tlvVia Tlv.EntityIdTlv.fromTlv),
  ("flow_label.from_tlv", tlvVia Tlv.FlowLabelTlv.fromTlv),
  ("msg_to_user.from_tlv", tlvVia Tlv.MessageToUserTlv.fromTlv),
  ("fault_handler.from_tlv", tlvVia Tlv.FaultHandlerOverrideTlv.fromTlv),
  ("fs_request.from_tlv", tlvVia Tlv.FileStoreRequestTlv.fromTlv),
  ("fs_response.from_tlv", tlvVia Tlv.FileStoreResponseTlv.fromTlv),
  ("entity_id.holder", tlvVia fun t => Tlv.holderToEntityId (.generic t)),
  ("flow_label.holder", tlvVia fun t => Tlv.holderToFlowLabel (.generic t)),
  ("msg_to_user.holder", tlvVia fun t => Tlv.holderToMsgToUser (.generic t)),
  ("fault_handler.holder", tlvVia fun t => Tlv.holderToFaultHandler (.generic t)),
  ("fs_request.holder", tlvVia fun t => Tlv.holderToFsRequest (.generic t)),
  ("fs_response.holder", tlvVia fun t => Tlv.holderToFsResponse (.generic t)),
  -- byte fields
  ("bf_from_bytes", fun _ raw => pure (verdict (ByteField.fromBytes raw))),
  ("bf_gen", fun j raw => do pure (verdict (ByteField.genFromBytes (← getInt j "n") raw))),
  ("bf_un", fun j raw => do
      match ← getNat j "n" with
      | 1 => pure (verdict (ByteField.fromU8Bytes raw))
      | 2 => pure (verdict (ByteField.fromU16Bytes raw))
      | 4 => pure (verdict (ByteField.fromU32Bytes raw))
      | 8 => pure (verdict (ByteField.fromU64Bytes raw))
      | _ => .error "bf_un: n must be 1, 2, 4 or 8"),
  -- USLP
  ("uslp_hdr", fun _ raw => pure (uverdict (Uslp.PrimaryHeader.unpack raw))),
  ("uslp_thdr", fun _ raw => pure (uverdict (Uslp.TruncatedHeader.unpack raw))),
  ("uslp_hdr_type", fun _ raw => pure (uverdict (Uslp.headerIsTruncated raw))),
  ("tfdf", fun j raw => do
      pure (uverdict (Uslp.Tfdf.unpack raw (← Ops.Uslp.getFlag j "truncated") (← getNat j "exact_len")
        (← Ops.Uslp.getFt j "frame_type")))),
  ("frame", fun j raw => do
      pure (uverdict (Uslp.Frame.unpack raw (← Ops.Uslp.getFtReq j "frame_type")
        (← Ops.Uslp.getProps (← field j "props")))))
]

def lookupDec (name : String) : Option Dec := (decoders.find? (·.1 == name)).map (·.2)

def isOkJ (j : Json) : Bool :=
  match j.getObjVal? "ok" with
  | .ok _ => true
  | .error _ => false

/-- exhaustive sweep: every input `head ‖ x ‖ tail` with `x` ranging over all `256^n` strings of
    length `n` (in numerical order); the accept/reject pattern as run lengths, starting with a
    (possibly empty) run of rejections -/
def sweep (d : Dec) (j : Json) (head tail : Bytes) (n : Nat) : R Json := do
  let mut runs : Array Nat := #[]
  let mut cur := false
  let mut len := 0
  let mut acc := 0
  for i in [0:256 ^ n] do
    let r ← d j (head ++ beBytes n i ++ tail)
    let ok := isOkJ r
    if ok then acc := acc + 1
    if ok == cur then
      len := len + 1
    else
      runs := runs.push len
      cur := ok
      len := 1
  runs := runs.push len
  pure (obj [("ok", obj [("accepted", jn acc), ("accept_rle", jarr (runs.toList.map jn))])])

def ops : List (String × Handler) := [
  ("c10_sweep", fun j => do
      let name ← getStr j "decoder"
      let head ← getHex j "head"
      let tail ← getHex j "tail"
      let n ← getNat j "sweep_len"
      if n > 3 then .error "c10_sweep: sweep_len ≤ 3" else
      match lookupDec name with
      | some d => sweep d j head tail n
      | none => .error s!"c10_sweep: unknown decoder {name}"),
  ("c10_decode", fun j => do
      let name ← getStr j "decoder"
      let raw ← getHex j "raw"
      match lookupDec name with
      | some d => d j raw
      | none => .error s!"c10_decode: unknown decoder {name}"),
  ("c10_decoders", fun _ => pure (obj [("ok", obj [("names", jarr (decoders.map fun d => js d.1))])]))
]

end SpVerif.Ops.Robust
