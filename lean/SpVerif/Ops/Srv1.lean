import SpVerif.J
import SpVerif.Model.Srv1
import SpVerif.Ops.PusTm
namespace SpVerif.Ops.Srv1
open SpVerif.J SpVerif.SpacePacket SpVerif.PusTm SpVerif.Srv1 Lean

def reqJ (r : ReqId) : Json :=
  obj [("version", jn r.version), ("ptype", jn r.pid.ptype), ("shf", jn r.pid.shf), ("apid", jn r.pid.apid),
       ("flags", jn r.psc.flags), ("count", jn r.psc.count), ("u32", jn r.asU32)]

def pfeJ (f : Pfe) : Json := obj [("pfc", jn f.pfc), ("val", jn f.val)]
def fnJ (f : FailureNotice) : Json := obj [("code", pfeJ f.code), ("data", jh f.data)]
def vpJ (p : VParams) : Json :=
  obj [("req_id", reqJ p.reqId), ("step_id", jopt pfeJ p.stepId), ("failure", jopt fnJ p.failure)]
def s1J (s : S1Tm) : Json := obj [("tm", Ops.PusTm.tmJ s.tm), ("params", vpJ s.params)]

def getReq (j : Json) : R ReqId := do
  pure ⟨← getNat j "version", ⟨← getNat j "ptype", ← getNat j "shf", ← getNat j "apid"⟩,
        ⟨← getNat j "flags", ← getNat j "count"⟩⟩

def getPfeOpt (j : Json) (k : String) : R (Option (Py Pfe)) := do
  let v ← field j k
  if v.isNull then pure none else pure (some (Pfe.new (← getNat v "pfc") (← getNat v "val")))

/-- params: {"req_id":{…}, "step_id": null|{pfc,val}, "failure": null|{"code":{pfc,val},"data":hex}} -/
def getVp (j : Json) : R (Py VParams) := do
  let req ← getReq (← field j "req_id")
  let step ← getPfeOpt j "step_id"
  let fv ← field j "failure"
  let fail : Option (Py FailureNotice) ←
    if fv.isNull then pure none else do
      let cj ← field fv "code"
      let code := Pfe.new (← getNat cj "pfc") (← getNat cj "val")
      let data ← getHex fv "data"
      pure (some (do let c ← code; pure ⟨c, data⟩))
  -- Python evaluates the constructor arguments (step id, then failure notice) before Service1Tm(...)
  pure (do
    let s ← match step with
      | none => pure none
      | some s => do let s ← s; pure (some s)
    let f ← match fail with
      | none => pure none
      | some f => do let f ← f; pure (some f)
    pure ⟨req, s, f⟩)

def ops : List (String × Handler) := [
  ("req_pack", fun j => do
      let r ← getReq j
      pure (res (fun b => obj [("raw", jh b), ("u32", jn r.asU32)]) r.pack)),
  ("req_unpack", fun j => do pure (res reqJ (ReqId.unpack (← getHex j "raw")))),
  ("req_eq", fun j => do
      let a ← getReq (← field j "a")
      let b ← getReq (← field j "b")
      pure (obj [("ok", obj [("eq", jb (a.beq b)), ("hash_eq", jb (a.asU32 == b.asU32))])])),
  ("pfe_unpack", fun j => do pure (res pfeJ (Pfe.unpack (← getHex j "raw") (← getNat j "pfc")))),
  ("pfe_pack", fun j => do
      let pfc ← getNat j "pfc"
      let val ← getNat j "val"
      pure (res (fun (r : Bytes × Nat) => obj [("raw", jh r.1), ("len", jn r.2)])
        (do let f ← Pfe.new pfc val; let b ← f.pack; let l ← f.len; pure (b, l)))),
  ("s1_pack", fun j => do
      let vp ← getVp (← field j "params")
      let apid ← getInt j "apid"
      let sub ← getInt j "subservice"
      let ts ← getHex j "timestamp"
      let count ← getInt j "count"
      let ver ← getNat j "version"
      let tref ← getNat j "time_ref"
      let dst ← getNat j "dest_id"
      pure (res (fun (r : Bytes × S1Tm) => obj [("raw", jh r.1), ("s1", s1J r.2), ("src", jh r.2.tm.sourceData)])
        (do let p ← vp
            let s ← S1Tm.new apid sub ts (some p) count ver tref dst
            let raw ← s.pack
            pure (raw, s)))),
  ("s1_unpack", fun j => do
      pure (res s1J (S1Tm.unpack (← getHex j "raw") (← getNat j "ts_len") (← getNat j "step_bytes") (← getNat j "err_bytes"))))
]

end SpVerif.Ops.Srv1
