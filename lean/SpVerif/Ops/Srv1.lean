import SpVerif.J
import SpVerif.Model.Srv1
import SpVerif.Ops.PusTm
import SpVerif.Ops.PusTc
namespace SpVerif.Ops.Srv1
open SpVerif.J SpVerif.SpacePacket SpVerif.PusTm SpVerif.Srv1 Lean

def reqJ (r : ReqId) : Json :=
  obj [("version", jn r.version), ("ptype", jn r.pid.ptype), ("shf", jn r.pid.shf), ("apid", jn r.pid.apid),
       ("flags", jn r.psc.flags), ("count", jn r.psc.count), ("u32", jn r.asU32)]

def pfeJ (f : Pfe) : Json := obj [("pfc", jn f.pfc), ("val", jn f.val)]
def fnJ (f : FailureNotice) : Json := obj [("code", pfeJ f.code), ("data", jh f.data)]
def vpJ (p : VParams) : Json :=
  obj [("req_id", reqJ p.reqId), ("step_id", jopt pfeJ p.stepId), ("failure", jopt fnJ p.failure)]
/-- the report as seen through the public accessors (`tc_req_id`, `step_id`, `failure_notice`,
    `error_code`, `is_step_reply`, `has_failure_notice`) -/
def s1J (s : S1Tm) : Json :=
  obj [("tm", Ops.PusTm.tmJ s.tm),
       ("params", obj [("req_id", reqJ s.tcReqId), ("step_id", jopt pfeJ s.stepId), ("failure", jopt fnJ s.failureNotice)]),
       ("error_code", match s.errorCode with
          | .ok c => jopt pfeJ c
          | .error e => js e.name),
       ("is_step_reply", jb s.isStepReply), ("has_failure_notice", jb s.hasFailureNotice)]

def getReq (j : Json) : R ReqId := do
  pure ⟨← getNat j "version", ⟨← getNat j "ptype", ← getNat j "shf", ← getNat j "apid"⟩,
        ⟨← getNat j "flags", ← getNat j "count"⟩⟩

def getPfeOpt (j : Json) (k : String) : R (Option (Py Pfe)) := do
  let v ← field j k
  if v.isNull then pure none else pure (some (Pfe.new (← getNat v "pfc") (← getNat v "val")))

/-- params: {"req_id":{…}, "step_id": null|{pfc,val}, "failure": null|{"code":{pfc,val},"data":hex}} -/
def getVp (j : Json) : R (Py VParams) := do
  let req ← getReq (← field j "req_id")
  let step ← getPfeOpt j "step_id"
  let fv ← field j "failure"
  let fail : Option (Py FailureNotice) ←
    if fv.isNull then pure none else do
      let cj ← field fv "code"
      let code := Pfe.new (← getNat cj "pfc") (← getNat cj "val")
      let data ← getHex fv "data"
      pure (some (do let c ← code; pure ⟨c, data⟩))
  -- Python evaluates the constructor arguments (step id, then failure notice) before Service1Tm(...)
  pure (do
    let s ← match step with
      | none => pure none
      | some s => do let s ← s; pure (some s)
    let f ← match fail with
      | none => pure none
      | some f => do let f ← f; pure (some f)
    pure ⟨req, s, f⟩)

def getPfe (j : Json) : R (Py Pfe) := do pure (Pfe.new (← getNat j "pfc") (← getNat j "val"))

def getFn (j : Json) : R (Py FailureNotice) := do
  let code ← getPfe (← field j "code")
  let data ← getHex j "data"
  pure (do let c ← code; pure ⟨c, data⟩)

def getNatOpt (j : Json) (k : String) : R (Option Nat) := do
  match ← getIntOpt j k with
  | none => pure none
  | some i => if i < 0 then .error s!"field {k}: negative" else pure (some i.toNat)

/-- constructor arguments of `Service1Tm`; "params" may be null -/
def getS1 (j : Json) : R (Py S1Tm) := do
  let pj ← field j "params"
  let vp : Option (Py VParams) ← if pj.isNull then pure none else do pure (some (← getVp pj))
  let apid ← getInt j "apid"
  let sub ← getInt j "subservice"
  let ts ← getHex j "timestamp"
  let count ← getInt j "count"
  let ver ← getNat j "version"
  let tref ← getNat j "time_ref"
  let dst ← getNat j "dest_id"
  pure (do
    let p ← match vp with
      | none => pure none
      | some p => do let p ← p; pure (some p)
    S1Tm.new apid sub ts p count ver tref dst)

/-- the harness op decodes the packed report back with the widths of its own fields (1 for absent
    ones, as `UnpackParams` defaults): mirror that, so that both sides refuse the same inputs -/
def decodeBack (s : S1Tm) (raw : Bytes) : Py Unit := do
  let sb ← match s.params.stepId with
    | none => pure 1
    | some f => f.len
  let eb ← match s.params.failure with
    | none => pure 1
    | some f => f.code.len
  let _ ← S1Tm.unpack raw s.tm.sec.timestamp.length sb eb
  pure ()

def packedJ (r : Bytes × S1Tm) : Json := obj [("raw", jh r.1), ("s1", s1J r.2), ("src", jh r.2.tm.sourceData)]

def ops : List (String × Handler) := [
  ("pfe_with_size", fun j => do pure (res pfeJ (Pfe.withByteSize (← getNat j "n") (← getNat j "val")))),
  ("pfe_eq", fun j => do
      let a ← getPfe (← field j "a")
      let b ← getPfe (← field j "b")
      pure (res (fun (e : Bool) => obj [("eq", jb e)]) (do let a ← a; let b ← b; pure (a.beq b)))),
  ("s1_fn_pack", fun j => do
      let f ← getFn j
      pure (res (fun (r : Bytes × Nat) => obj [("raw", jh r.1), ("len", jn r.2)])
        (do let f ← f; let b ← f.pack; let l ← f.len; pure (b, l)))),
  ("s1_fn_unpack", fun j => do
      pure (res fnJ (FailureNotice.unpack (← getHex j "raw") (← getNat j "err_bytes") (← getNatOpt j "data_bytes")))),
  ("s1_fn_eq", fun j => do
      let a ← getFn (← field j "a")
      let b ← getFn (← field j "b")
      pure (res (fun (e : Bool) => obj [("eq", jb e)]) (do let a ← a; let b ← b; pure (a.beq b)))),
  ("s1_vp_pack", fun j => do
      let vp ← getVp (← field j "params")
      pure (res (fun (r : Bytes × Nat) => obj [("raw", jh r.1), ("len", jn r.2)])
        (do let p ← vp; let b ← p.pack; let l ← p.len; pure (b, l)))),
  ("s1_vp_verify", fun j => do
      let vp ← getVp (← field j "params")
      let sub ← getNat j "subservice"
      pure (res (fun (_ : Unit) => obj []) (do let p ← vp; p.verify sub))),
  ("s1_new", fun j => do
      let s ← getS1 j
      pure (res packedJ (do let s ← s; let raw ← s.pack; pure (raw, s)))),
  ("s1_eq", fun j => do
      let a ← getS1 (← field j "a")
      let b ← getS1 (← field j "b")
      pure (res (fun (e : Bool) => obj [("eq", jb e)]) (do let a ← a; let b ← b; pure (a.beq b)))),
  ("s1_create", fun j => do
      let tcj ← field j "tc"
      let tc ← Ops.PusTc.getTc tcj
      let tcVer ← getNat tcj "version"
      let sub ← getNat j "subservice"
      let apid ← getInt j "apid"
      let ts ← getHex j "timestamp"
      let step ← getPfeOpt j "step_id"
      let fv ← field j "failure"
      let fail : Option (Py FailureNotice) ← if fv.isNull then pure none else do pure (some (← getFn fv))
      pure (res packedJ (do
        let tc ← tc
        let s ← match step with
          | none => pure none
          | some s => do let s ← s; pure (some s)
        let f ← match fail with
          | none => pure none
          | some f => do let f ← f; pure (some f)
        -- the helper selected by the subservice takes only the arguments of its signature
        let (s, f) ← match sub with
          | 1 | 3 | 7 => pure (none, none)
          | 2 | 4 | 8 => pure (none, f)
          | 5 => pure (s, none)
          | 6 => pure (s, f)
          | _ => throw Err.value
        let r ← create sub apid { tc.sph with version := tcVer } s f ts
        let raw ← r.pack
        decodeBack r raw
        pure (raw, r)))),
  ("s1_from_tm", fun j => do
      let raw ← getHex j "raw"
      let tsLen ← getNat j "ts_len"
      let sb ← getNat j "step_bytes"
      let eb ← getNat j "err_bytes"
      pure (res s1J (do
        let tm ← Tm.unpack raw tsLen
        S1Tm.fromTm tm sb eb))),
  ("req_pack", fun j => do
      let r ← getReq j
      pure (res (fun b => obj [("raw", jh b), ("u32", jn r.asU32)]) r.pack)),
  ("req_unpack", fun j => do pure (res reqJ (ReqId.unpack (← getHex j "raw")))),
  ("req_eq", fun j => do
      let a ← getReq (← field j "a")
      let b ← getReq (← field j "b")
      pure (obj [("ok", obj [("eq", jb (a.beq b)), ("hash_eq", jb (a.asU32 == b.asU32))])])),
  ("pfe_unpack", fun j => do pure (res pfeJ (Pfe.unpack (← getHex j "raw") (← getNat j "pfc")))),
  ("pfe_pack", fun j => do
      let pfc ← getNat j "pfc"
      let val ← getNat j "val"
      pure (res (fun (r : Bytes × Nat) => obj [("raw", jh r.1), ("len", jn r.2)])
        (do let f ← Pfe.new pfc val; let b ← f.pack; let l ← f.len; pure (b, l)))),
  ("s1_pack", fun j => do
      let vp ← getVp (← field j "params")
      let apid ← getInt j "apid"
      let sub ← getInt j "subservice"
      let ts ← getHex j "timestamp"
      let count ← getInt j "count"
      let ver ← getNat j "version"
      let tref ← getNat j "time_ref"
      let dst ← getNat j "dest_id"
      pure (res packedJ
        (do let p ← vp
            let s ← S1Tm.new apid sub ts (some p) count ver tref dst
            let raw ← s.pack
            decodeBack s raw
            pure (raw, s)))),
  -- round trip for ANY accepted PFC (C15_report_roundtrip_any_pfc): build, pack, decode the packed
  -- octets (plus a suffix) with the widths of the report's own fields, compare, re-pack
  ("s1_roundtrip", fun j => do
      let vp ← getVp (← field j "params")
      let apid ← getInt j "apid"
      let sub ← getInt j "subservice"
      let ts ← getHex j "timestamp"
      let count ← getInt j "count"
      let ver ← getNat j "version"
      let tref ← getNat j "time_ref"
      let dst ← getNat j "dest_id"
      let suffix ← getHex j "suffix"
      pure (res (fun (r : Bytes × S1Tm × Bool × Bytes) =>
          obj [("raw", jh r.1), ("back", s1J r.2.1), ("eq", jb r.2.2.1), ("repack", jh r.2.2.2)])
        (do let p ← vp
            let s ← S1Tm.new apid sub ts (some p) count ver tref dst
            let raw ← s.pack
            let sb ← match s.params.stepId with
              | none => pure 1
              | some f => f.len
            let eb ← match s.params.failure with
              | none => pure 1
              | some f => f.code.len
            let s' ← S1Tm.unpack (raw ++ suffix) s.tm.sec.timestamp.length sb eb
            let raw' ← s'.pack
            pure (raw, s', s'.beq s, raw')))),
  ("s1_unpack", fun j => do
      pure (res s1J (S1Tm.unpack (← getHex j "raw") (← getNat j "ts_len") (← getNat j "step_bytes") (← getNat j "err_bytes"))))
]

end SpVerif.Ops.Srv1
