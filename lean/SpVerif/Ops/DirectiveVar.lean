import SpVerif.J
import SpVerif.Ops.CfdpHeader
import SpVerif.Ops.Tlv
import SpVerif.Ops.DirectiveFixed
import SpVerif.Model.Eof
import SpVerif.Model.Finished
import SpVerif.Model.Metadata
/-!
Driver ops for the EOF (`eof_`), Finished (`fin_`) and Metadata (`md_`) models. Configuration keys
are those of `Ops.CfdpHeader.getConf`; a fault location is `null` or the hex entity ID; filestore
responses are `{"action","status","first","second","msg"}` objects; options are the
`{"kind": …}` objects of `Ops.Tlv.getAny`; file names are `null` or hex UTF-8 octets.
Setter ops take `"steps"`: a list of `[setter name, argument]` pairs applied in order.
-/
namespace SpVerif.Ops.DirectiveVar
open SpVerif.J SpVerif.CfdpHeader SpVerif.FileDirective SpVerif.Tlv SpVerif.Lv Lean
open SpVerif.Eof SpVerif.Finished SpVerif.Metadata
open SpVerif.Ops.DirectiveFixed (getConf fdFields withRaw packed packFails)

def hexOptOf (v : Json) (what : String) : R (Option Bytes) :=
  if v.isNull then .ok none else
  match v.getStr? with
  | .ok s => some <$> bytesOfHex s
  | .error _ => .error s!"{what}: not a string/null"

def intOf (v : Json) (what : String) : R Int :=
  match v.getInt? with
  | .ok i => .ok i
  | .error _ => .error s!"{what}: not an integer"

/-- `null` or the hex entity ID, built with the `EntityIdTlv` constructor -/
def faultOf (v : Json) : R (Py (Option EntityIdTlv)) := do
  match ← hexOptOf v "fault" with
  | none => pure (.ok none)
  | some b => pure (some <$> EntityIdTlv.new b)

def seqPy {α} : List (Py α) → Py (List α)
  | [] => .ok []
  | x :: l => do
    let a ← x
    let r ← seqPy l
    pure (a :: r)

def responsesOf (l : List Json) : R (Py (List FileStoreResponseTlv)) := do
  let rs ← l.mapM Ops.Tlv.getFsResp
  pure (seqPy rs)

def optionsOf (v : Json) : R (Py (Option (List AnyTlv))) := do
  if v.isNull then pure (.ok none) else
  match v.getArr? with
  | .ok a => do
    let l ← a.toList.mapM Ops.Tlv.getAny
    pure (some <$> seqPy l)
  | .error _ => .error "options: not an array/null"

def faultJ : Option EntityIdTlv → Json
  | some t => jh t.value
  | none => Json.null

def eqOp {α} (get : Json → R (Py α)) (beq : α → α → Py Bool) : Handler := fun j => do
  let a ← get (← field j "a")
  let b ← get (← field j "b")
  pure (res (fun (p : Bool × Bool) => obj [("eq", jb p.1), ("eq_rev", jb p.2)])
    (do let a ← a; let b ← b; let x ← beq a b; let y ← beq b a; pure (x, y)))

def getSteps (j : Json) : R (List (String × Json)) := do
  let l ← getArr j "steps"
  l.mapM fun s =>
    match s.getArr? with
    | .ok a =>
      match a.toList with
      | [n, v] =>
        match n.getStr? with
        | .ok name => .ok (name, v)
        | .error _ => .error "step: name is not a string"
      | _ => .error "step: not a pair"
    | .error _ => .error "step: not an array"

def foldSteps {α} (step : String → Json → R (α → Py α)) (steps : List (String × Json)) : R (α → Py α) := do
  let fs ← steps.mapM fun s => step s.1 s.2
  pure (fun a => fs.foldlM (fun x f => f x) a)

/-! ## EOF -/
def eofFields (k : Eof) : List (String × Json) :=
  fdFields k.fd ++ [("cond", ji k.cond), ("checksum", jh k.checksum), ("size", ji k.fileSize),
    ("fault", faultJ k.faultLoc)]

def getEof (j : Json) : R (Py Eof) := do
  let c ← getConf j
  let cs ← getHex j "checksum"
  let sz ← getInt j "size"
  let fl ← faultOf (← field j "fault")
  let cond ← getInt j "cond"
  pure (do let c ← c; let fl ← fl; Eof.new c cs sz fl cond)

def eofStep (name : String) (v : Json) : R (Eof → Py Eof) := do
  if name == "fault" then
    let fl ← faultOf v
    pure (fun k => do let fl ← fl; k.setFaultLoc fl)
  else if name == "cond" then
    let c ← intOf v "cond"
    pure (fun k => pure (k.setCond c))
  else if name == "size" then
    let c ← intOf v "size"
    pure (fun k => pure (k.setFileSize c))
  else if name == "checksum" then
    match ← hexOptOf v "checksum" with
    | some b => pure (fun k => pure (k.setChecksum b))
    | none => .error "checksum: null"
  else .error s!"unknown EOF setter {name}"

/-! ## Finished -/
def finFields (k : Finished) : List (String × Json) :=
  fdFields k.fd ++ [("cond", ji k.cond), ("delivery", jn k.delivery), ("status", jn k.status),
    ("responses", jarr (k.responses.map Ops.Tlv.fsRespJ)), ("fault", faultJ k.faultLoc),
    ("might", jb (mightHaveFaultLoc k.cond)), ("resp_len", jn (responsesLen k.responses))]

def getFin (j : Json) : R (Py Finished) := do
  let c ← getConf j
  let cond ← getInt j "cond"
  let dc ← getNat j "delivery"
  let fs ← getNat j "status"
  let rs ← responsesOf (← getArr j "responses")
  let fl ← faultOf (← field j "fault")
  pure (do let c ← c; let rs ← rs; let fl ← fl; Finished.new c cond dc fs rs fl)

def finStep (name : String) (v : Json) : R (Finished → Py Finished) := do
  if name == "fault" then
    let fl ← faultOf v
    pure (fun k => do let fl ← fl; k.setFaultLoc fl)
  else if name == "cond" then
    let c ← intOf v "cond"
    pure (fun k => k.setCond c)
  else if name == "responses" then
    if v.isNull then pure (fun k => k.setResponses none) else
    match v.getArr? with
    | .ok a => do
      let rs ← responsesOf a.toList
      pure (fun k => do let rs ← rs; k.setResponses (some rs))
    | .error _ => .error "responses: not an array/null"
  else .error s!"unknown Finished setter {name}"

/-! ## Metadata -/
def nameJ : Py (Option Bytes) → Json
  | .ok none => Json.null
  | .ok (some b) => jh b
  | .error e => js ("!" ++ e.name)

def anyTlvJ (a : AnyTlv) : Json :=
  obj [("type", jn a.tlvType), ("packet_len", jn a.packetLen),
       ("value", match a.value with | .ok b => jh b | .error _ => Json.null)]

def mdFields (k : Metadata) : List (String × Json) :=
  fdFields k.fd ++ [("closure", jb k.closure), ("ctype", jn k.checksumType), ("size", ji k.fileSize),
    ("src_name", nameJ k.srcName),
    ("dst_name", nameJ k.dstName),
    ("options", match k.options with | none => Json.null | some l => jarr (l.map anyTlvJ))]

def getMd (j : Json) : R (Py Metadata) := do
  let c ← getConf j
  let cl ← getBool j "closure"
  let ct ← getNat j "ctype"
  let sz ← getInt j "size"
  let src ← getHexOpt j "src"
  let dst ← getHexOpt j "dst"
  let opts ← optionsOf (← field j "options")
  pure (do let c ← c; let opts ← opts; Metadata.new c cl ct sz src dst opts)

def mdStep (name : String) (v : Json) : R (Metadata → Py Metadata) := do
  if name == "options" then
    let o ← optionsOf v
    pure (fun k => do let o ← o; k.setOptions o)
  else if name == "src" then
    let n ← hexOptOf v "src"
    pure (fun k => k.setSrcName n)
  else if name == "dst" then
    let n ← hexOptOf v "dst"
    pure (fun k => k.setDstName n)
  else .error s!"unknown Metadata setter {name}"

def setOp {α} (get : Json → R (Py α)) (step : String → Json → R (α → Py α))
    (fields : α → List (String × Json)) (pack : α → Py Bytes) : Handler := fun j => do
  let k ← get j
  let f ← foldSteps step (← getSteps j)
  pure (res (fun a => withRaw (fields a) (pack a)) (do let k ← k; f k))

def ops : List (String × Handler) := [
  ("eof_new", fun j => do pure (res (fun a => obj (eofFields a)) (← getEof j))),
  ("eof_pack", fun j => do pure (packed eofFields Eof.pack (← getEof j))),
  ("eof_pack_fails", fun j => do pure (packFails Eof.pack (← getEof j))),
  ("eof_unpack", fun j => do
      pure (res (fun a => withRaw (eofFields a) a.pack) (Eof.unpack (← getHex j "raw")))),
  ("eof_set", setOp getEof eofStep eofFields Eof.pack),
  ("eof_eq", eqOp getEof Eof.beq),

  ("fin_new", fun j => do pure (res (fun a => obj (finFields a)) (← getFin j))),
  ("fin_pack", fun j => do pure (packed finFields Finished.pack (← getFin j))),
  ("fin_len", fun j => do pure (packed finFields Finished.pack (← getFin j))),
  ("fin_unpack", fun j => do
      pure (res (fun a => withRaw (finFields a) a.pack) (Finished.unpack (← getHex j "raw")))),
  ("fin_set", setOp getFin finStep finFields Finished.pack),
  ("fin_eq", eqOp getFin Finished.beq),

  ("md_new", fun j => do pure (res (fun a => obj (mdFields a)) (← getMd j))),
  ("md_pack", fun j => do pure (packed mdFields Metadata.pack (← getMd j))),
  ("md_pack_fails", fun j => do pure (packFails Metadata.pack (← getMd j))),
  ("md_unpack", fun j => do
      pure (res (fun a => withRaw (mdFields a) a.pack) (Metadata.unpack (← getHex j "raw")))),
  ("md_set", setOp getMd mdStep mdFields Metadata.pack),
  ("md_eq", eqOp getMd Metadata.beq)
]

end SpVerif.Ops.DirectiveVar
