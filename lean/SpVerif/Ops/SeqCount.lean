import SpVerif.J
import SpVerif.Model.SeqCount
namespace SpVerif.Ops.SeqCount
open SpVerif.J SpVerif.SeqCount Lean

/-- `null` → absent file, string → content (ASCII) -/
def getFile (j : Json) (k : String) : R File := do
  let v ← field j k
  if v.isNull then .ok none else
  match v.getStr? with
  | .ok s => .ok (some s.toList)
  | .error _ => .error s!"field {k}: not a string/null"

def stepOf (s : String) : R Step :=
  if s == "call" then .ok .call
  else if s == "current" then .ok .current
  else if s == "restart" then .ok .restart
  else if s == "delete" then .ok .delete
  else .error s!"unknown step {s}"

def getSteps (j : Json) (k : String) : R (List Step) := do
  let a ← getArr j k
  a.mapM fun x =>
    match x.getStr? with
    | .ok s => stepOf s
    | .error _ => .error s!"field {k}: step is not a string"

/-- value → number, error → category name, nothing → null -/
def outJ : Out → Json
  | .val v => jn v
  | .err e => js e.name
  | .none => Json.null

/-- what a fresh reader of the file obtains -/
def peekJ (w : Nat) (f : File) : Json :=
  match f with
  | none => js "absent"
  | some _ => outJ (Out.ofPy (current w f))

def fileJ : File → Json
  | none => Json.null
  | some s => js (String.ofList s)

def ops : List (String × Handler) := [
  ("seq_mem_run", fun j => do
      let w ← getNat j "width"
      let n ← getNat j "n_calls"
      pure (obj [("ok", obj [("values", jarr ((memRun (Mem.new w) n).map jn))])])),
  -- the first instance is created on `initial` (creating the file when it is absent), then the steps run
  ("seq_file_run", fun j => do
      let w ← getNat j "width"
      let f ← getFile j "initial"
      let steps ← getSteps j "steps"
      let t := trace w (init f) steps
      pure (obj [("ok", obj [("results", jarr (t.map fun p => outJ p.1)),
                             ("peeks", jarr (t.map fun p => peekJ w p.2)),
                             ("files", jarr (t.map fun p => fileJ p.2))])])),
  -- one method call on an instance whose file holds `initial`, or has been removed (`null`)
  ("seq_file_once", fun j => do
      let w ← getNat j "width"
      let f ← getFile j "initial"
      let m ← getStr j "method"
      if m == "call" then
        let r := getAndIncrement w f
        pure (res (fun v => obj [("value", jn v), ("next", peekJ w r.2)]) r.1)
      else if m == "current" then
        pure (res (fun v => obj [("value", jn v), ("next", peekJ w f)]) (current w f))
      else .error s!"unknown method {m}")
]

end SpVerif.Ops.SeqCount
