import SpVerif.J
import SpVerif.Model.SeqCount
namespace SpVerif.Ops.SeqCount
open SpVerif.J SpVerif.SeqCount Lean

/-- `null` → absent file, string → content (ASCII) -/
def getFile (j : Json) (k : String) : R File := do
  let v ← field j k
  if v.isNull then .ok none else
  match v.getStr? with
  | .ok s => .ok (some s.toList)
  | .error _ => .error s!"field {k}: not a string/null"

def stepOf (s : String) : R Step :=
  if s == "call" then .ok .call
  else if s == "current" then .ok .current
  else if s == "restart" then .ok .restart
  else if s == "delete" then .ok .delete
  else .error s!"unknown step {s}"

def getSteps (j : Json) (k : String) : R (List Step) := do
  let a ← getArr j k
  a.mapM fun x =>
    match x.getStr? with
    | .ok s => stepOf s
    | .error _ => .error s!"field {k}: step is not a string"

/-- steps of a history with width changes: the four strings above, `"create"` (`create_new()`), or
    `["set_width", w]` (the `max_bit_width` setter) -/
def wstepOf (x : Json) : R WStep :=
  match x.getStr? with
  | .ok s => if s == "create" then .ok .createNew else WStep.op <$> stepOf s
  | .error _ =>
    match x.getArr? with
    | .ok a =>
      match a.toList with
      | [t, v] =>
        match t.getStr?, v.getNat? with
        | .ok "set_width", .ok w => .ok (.setWidth w)
        | _, _ => .error "step: expected [\"set_width\", w]"
      | _ => .error "step: expected [\"set_width\", w]"
    | .error _ => .error "step: neither a string nor an array"

def getWSteps (j : Json) (k : String) : R (List WStep) := do
  let a ← getArr j k
  a.mapM wstepOf

/-- operations of an in-memory history: `["call"]`, `["calls", n, …]` (n calls; further elements name the
    entry point used by the harness and are ignored), `["set_width", w]`, `["set_count", c]` -/
def memOpsOf (x : Json) : R (List MemOp) :=
  match x.getArr? with
  | .error _ => .error "ops: entry is not an array"
  | .ok a =>
    match a.toList with
    | [] => .error "ops: empty entry"
    | t :: rest =>
      match t.getStr?, rest with
      | .ok "call", _ => .ok [.call]
      | .ok "calls", n :: _ =>
        match n.getNat? with
        | .ok k => .ok (List.replicate k .call)
        | .error _ => .error "ops: calls needs a count"
      | .ok "set_width", w :: _ =>
        match w.getNat? with
        | .ok k => .ok [.setWidth k]
        | .error _ => .error "ops: set_width needs a width"
      | .ok "set_count", c :: _ =>
        match c.getInt? with
        | .ok k => .ok [.setCount k]
        | .error _ => .error "ops: set_count needs an integer"
      | _, _ => .error "ops: unknown entry"

def getIntList (j : Json) (k : String) : R (List Int) := do
  let a ← getArr j k
  a.mapM fun x =>
    match x.getInt? with
    | .ok n => .ok n
    | .error _ => .error s!"field {k}: not an integer"

/-- positions (in call order) at which the comparison run left the value open -/
def openIdx (l : List (Nat × Bool)) : List Nat :=
  ((l.zipIdx).filter (fun p => p.1.2)).map (·.2)

/-- value → number, error → category name, nothing → null -/
def outJ : Out → Json
  | .val v => jn v
  | .err e => js e.name
  | .none => Json.null

/-- what a fresh reader of the file obtains -/
def peekJ (w : Nat) (f : File) : Json :=
  match f with
  | none => js "absent"
  | some _ => outJ (Out.ofPy (current w f))

def fileJ : File → Json
  | none => Json.null
  | some s => js (String.ofList s)

def ops : List (String × Handler) := [
  -- without "ops": n_calls calls on a new provider of the width. With "ops": a new provider of the width, the
  -- history `ops` (calls, width changes, `count` assignments), then n_calls calls - run by `memRunOpen`: the model
  -- step for step, except that at a call whose value the property leaves open (first call after a width the count does
  -- not fit / after a `count` assignment) the next value of "rebase" (what the implementation returned there) is taken as
  -- the count when it is in range. "free" lists those calls.
  ("seq_mem_run", fun j => do
      let w ← getNat j "width"
      let n ← getNat j "n_calls"
      match j.getObjVal? "ops" with
      | .error _ => pure (obj [("ok", obj [("values", jarr ((memRun (Mem.new w) n).map jn))])])
      | .ok _ =>
        let parts ← (← getArr j "ops").mapM memOpsOf
        let rebase ← match j.getObjVal? "rebase" with
          | .error _ => pure []
          | .ok _ => getIntList j "rebase"
        let r := memRunOpen (MemS.new w) false rebase (parts.flatten ++ List.replicate n .call)
        pure (obj [("ok", obj [("values", jarr (r.map fun p => jn p.1)),
                               ("free", jarr ((openIdx r).map jn))])])),
  -- the first instance is created on `initial` (creating the file when it is absent), then the steps run; the width in
  -- force (changed by ["set_width", w] steps) is part of the state: a restart is a new instance of that width, the peek
  -- after a step is what a new instance of that width reads
  ("seq_file_run", fun j => do
      let w ← getNat j "width"
      let f ← getFile j "initial"
      let steps ← getWSteps j "steps"
      let t := wtrace (w, init f) steps
      pure (obj [("ok", obj [("results", jarr (t.map fun p => outJ p.1)),
                             ("peeks", jarr (t.map fun p => peekJ p.2.1 p.2.2)),
                             ("files", jarr (t.map fun p => fileJ p.2.2))])])),
  -- one method call on an instance whose file holds `initial`, or has been removed (`null`)
  ("seq_file_once", fun j => do
      let w ← getNat j "width"
      let f ← getFile j "initial"
      let m ← getStr j "method"
      if m == "call" then
        let r := getAndIncrement w f
        pure (res (fun v => obj [("value", jn v), ("next", peekJ w r.2)]) r.1)
      else if m == "current" then
        pure (res (fun v => obj [("value", jn v), ("next", peekJ w f)]) (current w f))
      else .error s!"unknown method {m}")
]

end SpVerif.Ops.SeqCount
