import SpVerif.Py
import SpVerif.BE
import SpVerif.Crc
import SpVerif.Proofs.Crc
import SpVerif.Proofs.CrcResidue
import SpVerif.Model.SpacePacket
import SpVerif.Props.C01
import SpVerif.Props.C14
