#!/venv/bin/python
"""check.py <Cxx> [--tier quick|thorough] [--replay file]
check.py <Cxx> --cold-case -     (used by core.cold_start_sample: one op line on stdin is run as the first and only
                                  implementation operation of this interpreter; the canonical result is printed)"""
import importlib
import os
import sys

sys.path.insert(0, os.path.dirname(os.path.abspath(__file__)))
import core  # noqa: E402  (puts /repo first on sys.path)


def main():
    if len(sys.argv) < 2:
        print(__doc__)
        return 2
    pid = sys.argv[1].upper()
    try:
        mod = importlib.import_module(f"props.{pid.lower()}")
    except ModuleNotFoundError as e:
        print(f"INFRA-ERROR property={pid}: no check module ({e})")
        return 2
    except core.InfraError as e:
        print(f"INFRA-ERROR property={pid}: {e}")
        return 2
    if "--cold-case" in sys.argv[2:]:
        # nothing of the package has been called yet (the property module imported it); the op comes first, which tree the
        # package was imported from is looked at afterwards
        return core.cold_case_child(mod.PROP, sys.stdin.read())
    try:
        import spacepackets
        if not os.path.abspath(spacepackets.__file__).startswith(os.path.abspath(core.REPO)):
            print(f"INFRA-ERROR property={pid}: spacepackets imported from {spacepackets.__file__}, not {core.REPO}")
            return 2
    except Exception as e:  # package does not import: every property is unobservable
        print(f"INFRA-ERROR property={pid}: cannot import spacepackets from {core.REPO}: {e!r}")
        return 2
    return core.main_check(mod.PROP, sys.argv[2:])


if __name__ == "__main__":
    sys.exit(main())
