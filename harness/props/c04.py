"""C04 — a corrupted CRC-protected packet is never accepted as valid

Fault enumeration on the real code. A *kind* (entry of KINDS) is one decoder of CRC-protected packets:
how valid packets of that kind are made, how the real decoder is called, which bit range holds the
length-determining octets (windows meeting it are outside the property), in which bit range another
documented error than the checksum error may legitimately come first, and which Lean op family gives
the model verdict (`c04_<model>_check|corrupt|sweep`). For every packet: every single-bit flip and
bursts of every length 2..16 at every bit offset; the decoder must not return, must fail with a
documented class (the property allows the checksum error or another documented decode error, so the
class itself is not compared), the standalone CRC check must say False, and all of it must agree
with the model run on the same corrupted octets.

Random bursts make a given window read as one particular value once in 65 535 draws. So, for every kind, two further
families are chosen by VALUE: (1) bursts after which the received trailer / an aligned word / an octet reads as a
distinguished value (0000, ffff, 0001, 8000 ...), or after which the checksum COMPUTED over the corrupted octets is
0000 / ffff (`directed_faults`); (2) valid packets SOLVED (two free octets; the CRC is affine over GF(2)) to carry a
distinguished valid trailer (0000, ffff, 0001, 8000, 0100), then corrupted by every single-bit flip, a family of
bursts and family (1) (`solved_packet`). A decoder that tests a received or computed checksum by truthiness, or
compares it with a "not set" marker, accepts exactly these.
"""
import random
import re
import struct
from typing import Any, Callable, Dict, Iterator, List, Optional, Tuple

import core
from core import Case, Prop, SelfCheckFailure
from gen import hx, unhx, pool, rbytes

from crcmod.predefined import PredefinedCrc
from spacepackets.crc import CRC16_CCITT_FUNC
from spacepackets.ecss import check_pus_crc
from spacepackets.ecss.tc import PusTc
from spacepackets.ecss.tm import PusTm
from spacepackets.ecss.pus_17_test import Service17Tm
from spacepackets.ecss.pus_1_verification import Service1Tm, UnpackParams
from spacepackets.ccsds.spacepacket import SequenceFlags
import spacepackets.cfdp.pdu as pdu
from spacepackets.cfdp.conf import PduConfig
from spacepackets.cfdp import defs as cd
from spacepackets.cfdp import tlv as ct
from spacepackets.cfdp.pdu.file_data import SegmentMetadata, RecordContinuationState
from spacepackets.cfdp.pdu.prompt import ResponseRequired
from spacepackets.util import ByteFieldU8, ByteFieldU16, ByteFieldU32, ByteFieldU64

from props.c02 import _tc, rand_args as tc_args, crc_ccitt, fit_bits
from props.c03 import _tm, _s17, rand_args as tm_args, TS_LENS
from props.c15 import s1_args, _params as s1_params, Subservice, WIDTHS
from props.c05 import mutate_cfdp, MUT_ALL

# --------------------------------------------------------------------------------------------
# faults
# --------------------------------------------------------------------------------------------


def flip(raw: bytes, k: int, pattern: str) -> bytes:
    """xor the bits of `pattern` into `raw` from bit offset k (bit 0 = msb of octet 0)"""
    n = len(raw) * 8
    if k + len(pattern) > n:
        raise ValueError("window outside the packet")
    v = int.from_bytes(raw, "big") if raw else 0
    m = int(pattern, 2) << (n - k - len(pattern)) if pattern else 0
    return (v ^ m).to_bytes(len(raw), "big")


def meets(k: int, ln: int, lo: int, hi: int) -> bool:
    return k < hi and lo < k + ln


ONES = ["1" * n for n in range(2, 17)]
ENDS = ["1" + "0" * (n - 2) + "1" for n in range(3, 17)]


def rand_pattern(rng: random.Random, ln: Optional[int] = None) -> str:
    """a burst of exactly `ln` bits: first and last bit set, anything between"""
    ln = ln or rng.randint(2, 16)
    if ln == 1:
        return "1"
    return "1" + "".join(rng.choice("01") for _ in range(ln - 2)) + "1"


def full_family(rng: random.Random) -> List[str]:
    return ["1"] + ONES + ENDS + [rand_pattern(rng) for _ in range(8)]


def light_family(rng: random.Random) -> List[str]:
    return ["1", rng.choice(ONES), rng.choice(ENDS), rand_pattern(rng)]


# --------------------------------------------------------------------------------------------
# kinds
# --------------------------------------------------------------------------------------------
class Kind:
    def __init__(self, name: str, model, make: Callable[[random.Random, int], Tuple[bytes, Dict[str, Any]]],
                 decode: Callable[[bytes, Dict[str, Any]], Any], ex: Tuple[int, int], cls, pus: bool, variants: int):
        self.name = name          # key in KINDS, travels in the op line as "kind"
        self._model = model       # Lean op family c04_<model>_* (a string, or a function of the packed octets)
        self.make = make          # (rng, i) -> (packed valid packet from the real encoder, extra op fields); i = variant index
        self.decode = decode      # real decoder
        self.ex = ex              # excluded bit range (length-determining octets)
        self._cls = cls           # bit range where another documented class may pre-empt the checksum error (or function of raw)
        self.pus = pus            # standalone check = check_pus_crc (else the plain CRC function)
        self.variants = variants  # number of structurally different variants `make` knows (i cycles through them)

    def model(self, raw: bytes) -> str:
        return self._model(raw) if callable(self._model) else self._model

    def cls(self, raw: bytes) -> Tuple[int, int]:
        return self._cls(raw) if callable(self._cls) else self._cls

    def crc_check(self, d: bytes) -> bool:
        return bool(check_pus_crc(d)) if self.pus else CRC16_CCITT_FUNC(d) == 0

    def extra(self, raw: bytes, ex: Dict[str, Any]) -> Dict[str, Any]:
        e = {"kind": self.name, **ex}
        lo, hi = self.cls(raw)
        if not self.pus and hi > lo:
            e["cls"] = f"{lo}:{hi}"   # a string, so that case minimisation leaves it alone
        return e


def _cls_of(kind: "Kind", a: Dict[str, Any], raw: bytes) -> Tuple[int, int]:
    if "cls" in a:
        lo, hi = a["cls"].split(":")
        return int(lo), int(hi)
    return kind.cls(raw)


PUS_EX, PUS_CLS = (32, 48), (48, 52)
CFDP_EX, CFDP_CLS = (0, 32), (0, 0)

DATA_LENS = [0, 1, 2, 3, 5, 8, 13, 21, 40]


def mk_tc(rng, i):
    a = tc_args(rng, DATA_LENS[i % len(DATA_LENS)])
    if i % 4 == 1:
        a.update(apid=rng.choice([0, 2047]), count=rng.choice([0, 16383]), source_id=rng.choice([0, 65535]),
                 ack=rng.choice([0, 15]), service=rng.choice([0, 255]), subservice=rng.choice([0, 255]))
    return bytes(_tc(a).pack()), {}


def mk_tm(rng, i):
    ts = (TS_LENS + [5, 6, 9, 11])[i % (len(TS_LENS) + 4)]
    a = tm_args(rng, ts, DATA_LENS[(i // 3) % len(DATA_LENS)])
    if i % 4 == 1:
        a.update(apid=rng.choice([0, 2047]), count=rng.choice([0, 16383]), msg_counter=rng.choice([0, 65535]),
                 dest_id=rng.choice([0, 65535]), time_ref=rng.choice([0, 15]), version=rng.choice([0, 7]))
    return bytes(_tm(a).pack()), {"ts_len": ts}


def mk_s17(rng, i):
    ts = TS_LENS[i % len(TS_LENS)]
    a = tm_args(rng, ts, DATA_LENS[(i // 2) % 5])
    return bytes(_s17(a).pack()), {"ts_len": ts}


def mk_s1(rng, i):
    sub = 1 + i % 8
    sw, ew = WIDTHS[(i // 8) % 4], WIDTHS[(i // 32 + i) % 4]
    a = s1_args(rng, sub, sw, ew)
    s = Service1Tm(apid=a["apid"], subservice=Subservice(sub), timestamp=unhx(a["timestamp"]),
                   verif_params=s1_params(a["params"]), seq_count=a["count"], packet_version=a["version"],
                   space_time_ref=a["time_ref"], destination_id=a["dest_id"])
    return bytes(s.pack()), {"ts_len": len(a["timestamp"]) // 2, "step_bytes": sw, "err_bytes": ew}


def dec_s1(d, e):
    return Service1Tm.unpack(d, UnpackParams(e["ts_len"], e["step_bytes"], e["err_bytes"]))


_BF = {1: ByteFieldU8, 2: ByteFieldU16, 4: ByteFieldU32, 8: ByteFieldU64}


def cfdp_conf(rng, i) -> PduConfig:
    """all 16 (entity width x sequence-number width) pairs, both file-size flags, both modes"""
    we, ws = WIDTHS[i % 4], WIDTHS[(i // 4) % 4]
    val = lambda w: rng.choice([0, 1, (1 << (8 * w)) - 1, rng.getrandbits(8 * w)])  # noqa: E731
    # TYPE-COERCION dimension: "built with the CRC flag" is a statement about the VALUE of the flag; one configuration in seven
    # carries its five flags as plain ints, one in seven as bools (PduConfig is an unvalidated dataclass)
    f = (lambda cls, v: int(v)) if i % 7 == 3 else (lambda cls, v: bool(v)) if i % 7 == 5 else (lambda cls, v: cls(v))
    return PduConfig(source_entity_id=_BF[we](val(we)), dest_entity_id=_BF[we](val(we)),
                     transaction_seq_num=_BF[ws](val(ws)), trans_mode=f(cd.TransmissionMode, (i // 2) % 2),
                     file_flag=f(cd.LargeFileFlag, (i // 3) % 2), crc_flag=f(cd.CrcFlag, 1),
                     direction=f(cd.Direction, i % 2), seg_ctrl=f(cd.SegmentationControl, (i // 5) % 2))


def _fsize(rng, conf):
    return rng.choice([0, 1, 0xFFFFFFFF, rng.getrandbits(32)] + ([1 << 32, (1 << 64) - 1] if conf.file_flag == cd.LargeFileFlag.LARGE else []))


ERR_CODES = [c for c in cd.ConditionCode if int(c) > 0]


def mk_eof(rng, i):
    conf = cfdp_conf(rng, i)
    if i % 2:
        p = pdu.EofPdu(conf, file_checksum=rbytes(rng, 4), file_size=_fsize(rng, conf),
                       fault_location=ct.EntityIdTlv(rbytes(rng, rng.choice(WIDTHS))), condition_code=rng.choice(ERR_CODES))
    else:
        p = pdu.EofPdu(conf, file_checksum=rbytes(rng, 4), file_size=_fsize(rng, conf))
    return bytes(p.pack()), {}


def _fs_resp(rng):
    return ct.FileStoreResponseTlv(action_code=ct.FilestoreActionCode.DELETE_FILE_SNN,
                                   status_code=ct.FilestoreResponseStatusCode.DELETE_SUCCESS,
                                   first_file_name=rng.choice(["a", "/tmp/x.bin", ""]) or "f")


def mk_finished(rng, i):
    conf = cfdp_conf(rng, i)
    v = i % 4
    if v == 0:
        params = pdu.FinishedParams.success_params()
    elif v == 1:
        params = pdu.FinishedParams(condition_code=rng.choice(ERR_CODES), delivery_code=pdu.DeliveryCode(rng.randint(0, 1)),
                                    file_status=pdu.FileStatus(rng.randint(0, 3)),
                                    fault_location=ct.EntityIdTlv(rbytes(rng, rng.choice(WIDTHS))))
    elif v == 2:
        params = pdu.FinishedParams(condition_code=cd.ConditionCode.NO_ERROR, delivery_code=pdu.DeliveryCode.DATA_COMPLETE,
                                    file_status=pdu.FileStatus.FILE_RETAINED, file_store_responses=[_fs_resp(rng)])
    else:
        params = pdu.FinishedParams(condition_code=rng.choice(ERR_CODES), delivery_code=pdu.DeliveryCode.DATA_INCOMPLETE,
                                    file_status=pdu.FileStatus(rng.randint(0, 3)),
                                    file_store_responses=[_fs_resp(rng), _fs_resp(rng)],
                                    fault_location=ct.EntityIdTlv(rbytes(rng, rng.choice(WIDTHS))))
    return bytes(pdu.FinishedPdu(conf, params).pack()), {}


def mk_ack(rng, i):
    conf = cfdp_conf(rng, i)
    p = pdu.AckPdu(conf, directive_code_of_acked_pdu=[pdu.DirectiveType.EOF_PDU, pdu.DirectiveType.FINISHED_PDU][i % 2],
                   condition_code_of_acked_pdu=rng.choice([cd.ConditionCode.NO_ERROR] + ERR_CODES),
                   transaction_status=pdu.TransactionStatus(rng.randint(0, 3)))
    return bytes(p.pack()), {}


def _gtlv(x):
    return ct.CfdpTlv.unpack(bytes(x.pack()))


def mk_metadata(rng, i):
    conf = cfdp_conf(rng, i)
    names = [(None, None), ("a", "b"), ("/data/source-file.bin", "/data/dest.bin"), ("x" * 30, None)][i % 4]
    params = pdu.MetadataParams(closure_requested=bool(i % 2), checksum_type=rng.choice(list(cd.ChecksumType)),
                                file_size=_fsize(rng, conf), source_file_name=names[0], dest_file_name=names[1])
    opts = None
    if i % 3 == 1:
        opts = [_gtlv(ct.MessageToUserTlv(rbytes(rng, rng.randint(0, 6))))]
    elif i % 3 == 2:
        opts = [_gtlv(ct.FlowLabelTlv(rbytes(rng, 2))),
                _gtlv(ct.FileStoreRequestTlv(ct.FilestoreActionCode.CREATE_DIR_SNN, first_file_name="/d")),
                _gtlv(ct.FaultHandlerOverrideTlv(cd.ConditionCode.FILE_SIZE_ERROR, cd.FaultHandlerCode.IGNORE_ERROR))]
    return bytes(pdu.MetadataPdu(conf, params, opts).pack()), {}


def mk_nak(rng, i):
    conf = cfdp_conf(rng, i)
    top = (1 << 64) - 1 if conf.file_flag == cd.LargeFileFlag.LARGE else (1 << 32) - 1
    v = lambda: rng.choice([0, 1, top, rng.randint(0, top)])  # noqa: E731
    segs = [None, [], [(v(), v())], [(v(), v()) for _ in range(3)]][i % 4]
    return bytes(pdu.NakPdu(conf, start_of_scope=v(), end_of_scope=v(), segment_requests=segs).pack()), {}


def mk_prompt(rng, i):
    return bytes(pdu.PromptPdu(cfdp_conf(rng, i), ResponseRequired(i % 2)).pack()), {}


def mk_keep_alive(rng, i):
    conf = cfdp_conf(rng, i)
    return bytes(pdu.KeepAlivePdu(conf, progress=_fsize(rng, conf)).pack()), {}


def mk_file_data(rng, i):
    conf = cfdp_conf(rng, i)
    sm = None
    if i % 3 == 2:
        sm = SegmentMetadata(RecordContinuationState(rng.randint(0, 3)), rbytes(rng, rng.choice([0, 1, 5])))
    params = pdu.FileDataParams(file_data=rbytes(rng, DATA_LENS[i % len(DATA_LENS)]), offset=_fsize(rng, conf), segment_metadata=sm)
    return bytes(pdu.FileDataPdu(conf, params).pack()), {}


KINDS: Dict[str, Kind] = {}


def add_kind(k: Kind):
    KINDS[k.name] = k


add_kind(Kind("tc", "tc", mk_tc, lambda d, e: PusTc.unpack(d), PUS_EX, PUS_CLS, True, 36))
add_kind(Kind("tm", "tm", mk_tm, lambda d, e: PusTm.unpack(d, e["ts_len"]), PUS_EX, PUS_CLS, True, 39))
add_kind(Kind("s17", "s17", mk_s17, lambda d, e: Service17Tm.unpack(d, e["ts_len"]), PUS_EX, PUS_CLS, True, 9))
add_kind(Kind("s1", "s1", mk_s1, dec_s1, PUS_EX, PUS_CLS, True, 32))
# CFDP: the real classes do all the decoding; the model side is what every PDU decoder runs first
# (fixed header decode + verify_length_and_checksum): `cfdpdir` for the seven file-directive classes
# (through FileDirectivePduBase.unpack), `cfdp` for File Data. All built with CrcFlag.WITH_CRC.
for _n, _mk, _cls, _m in (("cfdp_eof", mk_eof, pdu.EofPdu, "cfdpdir"), ("cfdp_finished", mk_finished, pdu.FinishedPdu, "cfdpdir"),
                          ("cfdp_ack", mk_ack, pdu.AckPdu, "cfdpdir"), ("cfdp_metadata", mk_metadata, pdu.MetadataPdu, "cfdpdir"),
                          ("cfdp_nak", mk_nak, pdu.NakPdu, "cfdpdir"), ("cfdp_prompt", mk_prompt, pdu.PromptPdu, "cfdpdir"),
                          ("cfdp_keep_alive", mk_keep_alive, pdu.KeepAlivePdu, "cfdpdir"),
                          ("cfdp_file_data", mk_file_data, pdu.FileDataPdu, "cfdp")):
    add_kind(Kind(_n, _m, _mk, (lambda c: lambda d, e: c.unpack(d))(_cls), CFDP_EX, CFDP_CLS, False, 16))


def _is_directive(raw: bytes) -> bool:
    return (raw[0] >> 4) & 1 == 0


def _directive_octet(raw: bytes) -> Tuple[int, int]:
    """bit range of the directive-code octet: the factory dispatches on it before any decoder runs, so a
    burst that turns it into a non-member (ValueError) or an unhandled member (None) is refused there"""
    if not _is_directive(raw):
        return (0, 0)
    hl = 4 + 2 * (((raw[3] >> 4) & 7) + 1) + ((raw[3] & 7) + 1)
    return (8 * hl, 8 * hl + 8)


_ALL_MK = [mk_eof, mk_finished, mk_ack, mk_metadata, mk_nak, mk_prompt, mk_keep_alive, mk_file_data]
# every CFDP class also through the factory entry point, which has its own dispatch in front of the decoders
add_kind(Kind("cfdp_factory", lambda raw: "cfdpdir" if _is_directive(raw) else "cfdp",
              lambda rng, i: _ALL_MK[i % 8](rng, i // 8 + i), lambda d, e: _factory(d), CFDP_EX, _directive_octet, False, 32))


def _factory(d: bytes):
    r = pdu.PduFactory.from_raw(d)
    if r is None:
        raise ValueError("PduFactory.from_raw returned None")
    return r


# --------------------------------------------------------------------------------------------
# faults chosen by value (see the module text)
# --------------------------------------------------------------------------------------------
SPECIAL_TRAILERS = [0x0000, 0xFFFF, 0x0001, 0x8000, 0x0100]


def _cfdp_header_len(raw: bytes) -> int:
    return 4 + 2 * (((raw[3] >> 4) & 7) + 1) + ((raw[3] & 7) + 1)


def free16(kind: "Kind", raw: bytes, ex: Dict[str, Any]) -> List[int]:
    """octet positions p such that ANY value of raw[p:p+2] (trailer refreshed) is again a valid packet of the same kind,
    configuration and lengths: PUS TC source ID (or the last two octets of the application data), PUS TM destination ID
    (for plain PusTm also the message counter and the last two octets of the source data), CFDP: the last two octets of
    the entity-ID / sequence-number area"""
    n = len(raw)
    if kind.name == "tc":
        return [9] + ([n - 4] if n - 13 >= 2 else [])
    if kind.pus:
        pos = [11]
        if kind.name == "tm":
            pos.append(9)
            if n - 15 - ex["ts_len"] >= 2:
                pos.append(n - 4)
        return pos
    return [_cfdp_header_len(raw) - 2]


def refit(raw: bytes, pos: int, target: int) -> bytes:
    """`raw` (complete, trailer included) with the octets pos, pos+1 solved - not searched: exactly one value does it - so
    that the CRC-16 of everything before the trailer is `target`, and with `target` as its trailer"""
    body = bytearray(raw[:-2])

    def f(v):
        body[pos], body[pos + 1] = v >> 8, v & 0xFF
        return crc_ccitt(body)
    v = fit_bits(f, 16, target)
    if v is None:  # (cannot happen: 16 adjacent input bits map onto the 16 CRC bits one-to-one)
        raise ValueError("no solution")
    f(v)
    return bytes(body) + target.to_bytes(2, "big")


def solved_packet(kind: "Kind", rng: random.Random, i: int, target: int, shortest_of: int = 1) -> Tuple[bytes, Dict[str, Any]]:
    """a valid packet of `kind` (variant i, made by the real encoder, then two free octets solved) whose valid trailer is
    `target`"""
    raw, ex = min((kind.make(rng, i + j) for j in range(shortest_of)), key=lambda r: len(r[0]))
    return refit(raw, rng.choice(free16(kind, raw, ex)), target), ex


def computed_crc_bursts(kind: "Kind", raw: bytes, rng: random.Random) -> List[Tuple[int, str, str]]:
    """bursts in the octets BEFORE the trailer after which the checksum computed over them is 0000 / ffff (the received
    trailer is left as it is): the last two octets before the trailer and one further aligned word"""
    n = len(raw)
    lo = kind.ex[1] // 8
    places = {n - 4, rng.randint(lo, max(lo, n - 4))}
    out = []
    for p in sorted(places):
        if p < 0 or p + 2 > n - 2:
            continue
        for target in (0x0000, 0xFFFF):
            body = bytearray(raw[:-2])

            def f(v):
                body[p], body[p + 1] = v >> 8, v & 0xFF
                return crc_ccitt(body)
            v = fit_bits(f, 16, target)
            b = None if v is None else core.directed_burst(raw, p, 2, v)
            if b is not None:
                out.append((b[0], b[1], f"computed={target:04x}"))
    return out


def directed_faults(kind: "Kind", raw: bytes, rng: random.Random, n_words: Optional[int],
                    octets: bool = True) -> List[Tuple[int, str, str]]:
    """the value-directed bursts of one packet that lie in the property's domain: every trailer-directed one, those which
    set the computed checksum, and aligned words (`octets`: and single octets) set to 0000 / ffff at `n_words` octet
    indices (None: all)"""
    n = len(raw)
    words = None if n_words is None or n_words >= n - 1 else sorted(rng.sample(range(n - 1), n_words))
    fs = (core.value_directed_bursts(raw, windows=words, octet_values=(0x00, 0xFF) if octets else ())
          + computed_crc_bursts(kind, raw, rng))
    return [(k, pat, what) for k, pat, what in fs if not meets(k, len(pat), *kind.ex)]


# --------------------------------------------------------------------------------------------
# implementation ops
# --------------------------------------------------------------------------------------------
FAULTS_RUN = {"n": 0}


def _snippet(kind: Kind, d: bytes, e: Dict[str, Any]) -> str:
    return f"kind={kind.name} extra={e} corrupted={d.hex()}"


def _repacked(obj) -> Optional[str]:
    """view of a decoded packet for the isolation probe: the octets it packs to (all of its state is in there)"""
    try:
        return hx(obj.pack())
    except (ValueError, OverflowError, struct.error):
        return None


# ---- what the application did before: key "mut" = it modifies, through the public setters, packets it decoded earlier
#      (a received PDU switched to NO_CRC for forwarding, a received TC header re-used for the reply); key "poison" = calls
#      that failed and were caught (an unencodable field, a cut buffer). Implementation side only: neither can make a
#      corrupted packet acceptable or a packed trailer wrong. ----
def _mutate_pus(mask: int):
    def mutate(obj):
        ts = core.tolerant_set
        h = obj.sp_header
        names = ("apid", "packet_type", "sec_header_flag", "seq_count", "seq_flags", "data_len")
        old = {n: getattr(h, n) for n in names}
        top = {n: getattr(obj, n) for n in ("source_id",) if hasattr(obj, n)}
        if mask & 1:
            ts(obj, "apid", int(old["apid"]) ^ 0x2A5)
            ts(h, "apid", int(old["apid"]) ^ 0x2A5)
        if mask & 2:
            ts(h, "packet_type", type(old["packet_type"])(1 - int(old["packet_type"])))
            ts(h, "sec_header_flag", not bool(old["sec_header_flag"]))
        if mask & 4:
            ts(obj, "seq_count", int(old["seq_count"]) ^ 0x1555)
            ts(h, "seq_count", int(old["seq_count"]) ^ 0x1555)
            ts(h, "seq_flags", SequenceFlags((int(old["seq_flags"]) + 1) % 4))
        if mask & 8:
            ts(h, "data_len", int(old["data_len"]) ^ 0x0101)
        if mask & 16 and "source_id" in top:
            ts(obj, "source_id", int(top["source_id"]) ^ 0x5555)

        def undo():
            for n, v in top.items():
                ts(obj, n, v)
            for n, v in old.items():
                ts(h, n, v)
        return undo
    return mutate


def _mutate(kind: "Kind", mask: int):
    return _mutate_pus(mask) if kind.pus else mutate_cfdp(mask)


def _unencodable(kind: "Kind", obj):
    """makes a (throw-away) decoded packet unencodable through public attributes, so that its pack() fails part-way"""
    ts = core.tolerant_set
    if kind.pus:
        for route in ("pus_tc_sec_header", "pus_tm_sec_header"):
            for holder in (obj, getattr(obj, "pus_tm", None)):
                sec = getattr(holder, route, None)
                if sec is not None:
                    ts(sec, "subservice", 256)
        ts(obj, "source_id", 0x12345)
    else:
        ts(obj.pdu_header, "transaction_seq_num", None)


def _poison_decoded(kind: "Kind", raw: bytes, a):
    """failed calls, caught: packing a second object decoded from `raw` after it was made unencodable (pack, calc_crc,
    to_space_packet), decoding cut / corrupted buffers"""
    def bad_pack(method):
        def f():
            o = kind.decode(raw, a)
            _unencodable(kind, o)
            for holder in (o, getattr(o, "pus_tm", None)):
                if hasattr(holder, method):
                    getattr(holder, method)()
                    return
        return f
    core.attempt_all([bad_pack("pack"), bad_pack("calc_crc"), bad_pack("to_space_packet"),
                      lambda: kind.decode(raw[:-1], a), lambda: kind.decode(raw[: len(raw) // 2], a),
                      lambda: kind.decode(flip(raw, 8 * len(raw) - 3, "1"), a)])


def op_check(a):
    kind = KINDS[a["kind"]]
    raw = unhx(a["raw"])
    if a.get("remake"):
        # (cold-start entry path "the ENCODER comes first") the packet is built and packed again from the generator seed and
        # variant the case carries, before anything is decoded: the same parameters pack to the same octets
        again, _ = kind.make(random.Random(a["remake"]["seed"]), a["remake"]["i"])
        if bytes(again) != raw:
            raise SelfCheckFailure(f"{kind.name}: the same parameters (generator seed {a['remake']['seed']}, variant {a['remake']['i']}) "
                                   f"packed again give {bytes(again).hex()}, the first time they gave {raw.hex()}")
    if a.get("mut"):
        # decode, modify what was decoded, decode again: the packet itself and corrupted variants of it (last bit of the
        # trailer, a bit of the last data octet, the first bit behind the length-determining octets, one in the middle)
        nbits = 8 * len(raw)
        ks = sorted({nbits - 1, nbits - 17, kind.ex[1], (kind.ex[1] + nbits) // 2})
        others = [flip(raw, k, "1") for k in ks if 0 <= k < nbits and not meets(k, 1, *kind.ex)]
        core.redecode_after_mutation(lambda b: kind.decode(b, a), raw, _repacked, _mutate(kind, a["mut"]),
                                     f"{kind.name} decoder", others)
    obj = kind.decode(raw, a)
    if a.get("poison"):
        _poison_decoded(kind, raw, a)
        again = bytes(obj.pack())
        if not kind.crc_check(again):
            raise SelfCheckFailure("a decoded valid packet, packed again after failed (caught) pack / decode calls on OTHER objects, "
                                   "carries a trailer that is not the CRC of the preceding octets: " + again.hex())
        kind.decode(again, a)
    # decoded packets do not share state: the packets decoded by the previous calls of this op are looked at again
    # (in between, the sweeps have run thousands of corrupted packets through the same decoders)
    core.ISOLATION.check("C04:pus" if kind.pus else "C04:cfdp", obj, _repacked)
    return {"accepted": True, "crc_check": kind.crc_check(raw)}


def op_corrupt(a):
    kind = KINDS[a["kind"]]
    d = flip(unhx(a["raw"]), a["bit_offset"], a["pattern"])
    FAULTS_RUN["n"] += 1
    if kind.crc_check(d):
        raise SelfCheckFailure("standalone CRC check accepts a corrupted packet: " + _snippet(kind, d, {}))
    kind.decode(d, a)
    return {"accepted": True}


def op_sweep(a):
    kind = KINDS[a["kind"]]
    raw = unhx(a["raw"])
    every = max(a["crc_every"], 1)
    try:
        kind.decode(raw, a)
        base_ok = True
    except Exception as exc:  # noqa
        if core.exc_category(exc) not in core.DOCUMENTED:
            raise
        base_ok = False
    out = {"base_ok": base_ok, "base_crc_check": kind.crc_check(raw), "faults": 0, "rejected": 0, "undocumented": 0,
           "clean_windows": 0, "crc_class_on_clean": 0, "crc_checked": 0, "crc_check_false": 0}
    mut = a.get("mut") if base_ok else None
    undos: List[Callable] = []
    try:
        twin = twin_view = None
        if mut:
            twin = kind.decode(raw, a)
            twin_view = _repacked(twin)
        _sweep(kind, a, raw, out, base_ok, every, mut, undos)
        if mut:
            if _repacked(twin) != twin_view or _repacked(kind.decode(raw, a)) != twin_view:
                raise SelfCheckFailure("the uncorrupted packet is decoded differently (or an object decoded from it changed) after "
                                       "other objects decoded from it were modified through their public setters: " + raw.hex())
    finally:
        for u in reversed(undos):
            try:
                u()
            except Exception:  # noqa
                pass
    FAULTS_RUN["n"] += out["faults"]
    return out


REMUT_EVERY = 48


def _sweep(kind: "Kind", a, raw: bytes, out, base_ok: bool, every: int, mut, undos):
    nbits = 8 * len(raw)
    cls = _cls_of(kind, a, raw)
    mutate = _mutate(kind, mut) if mut else None
    for pat in a["patterns"]:
        ln = len(pat)
        if ln == 0 or ln > nbits:
            continue
        for k in range(nbits - ln + 1):
            if meets(k, ln, *kind.ex):
                continue
            if mutate is not None and out["faults"] % REMUT_EVERY == 0:
                # intact packets keep arriving between the corrupted ones and the application keeps modifying what it
                # decoded from them
                try:
                    u = mutate(kind.decode(raw, a))
                    if callable(u):
                        undos.append(u)      # all of them are undone at the end, the first one last
                except SelfCheckFailure:
                    raise
                except Exception:  # noqa
                    pass
            d = flip(raw, k, pat)
            clean = not meets(k, ln, *cls)
            do_check = out["faults"] % every == 0
            out["faults"] += 1
            out["clean_windows"] += clean
            if do_check:
                out["crc_checked"] += 1
                if not kind.crc_check(d):
                    out["crc_check_false"] += 1
                elif base_ok:
                    raise SelfCheckFailure(f"standalone CRC check accepts a corrupted packet (bit_offset={k} pattern={pat}): "
                                           + _snippet(kind, d, {}))
            try:
                kind.decode(d, a)
            except Exception as exc:  # noqa
                cat = core.exc_category(exc)
                if cat not in core.DOCUMENTED:
                    raise SelfCheckFailure(f"undocumented {type(exc).__name__} ({exc}) from the decoder on a corrupted packet "
                                           f"(bit_offset={k} pattern={pat}): " + _snippet(kind, d, {}))
                out["rejected"] += 1
                if cat == "crc" and clean:
                    out["crc_class_on_clean"] += 1   # informative only (see SWEEP_KEYS)
            else:
                if base_ok:
                    raise SelfCheckFailure(f"corrupted packet ACCEPTED by the decoder (bit_offset={k} pattern={pat}"
                                           + (f", after packets decoded earlier were modified through their setters, mut={mut}" if mut else "")
                                           + "): " + _snippet(kind, d, {}))


def op_crc(a):
    data = unhx(a["data"])
    c = CRC16_CCITT_FUNC(data)
    p = PredefinedCrc(crc_name="crc-ccitt-false")
    cut = a.get("cut", len(data) // 2)
    p.update(data[:cut])
    p.update(data[cut:])
    if p.crcValue != c:
        raise SelfCheckFailure("PredefinedCrc (incremental, as calc_crc uses it) differs from CRC16_CCITT_FUNC")
    v = bool(check_pus_crc(data))
    if v != (c == 0):
        raise SelfCheckFailure("check_pus_crc disagrees with CRC16_CCITT_FUNC(data) == 0")
    return {"crc": int(c), "valid": v}


def op_flip(a):
    return {"raw": hx(flip(unhx(a["raw"]), a["bit_offset"], a["pattern"]))}


def _after_pack_checks(raw: bytes, decode):
    if not check_pus_crc(raw):
        raise SelfCheckFailure("pack() after setters leaves a trailer that check_pus_crc rejects: " + raw.hex())
    c = CRC16_CCITT_FUNC(raw[:-2])
    if raw[-2:] != bytes([c >> 8, c & 0xFF]):
        raise SelfCheckFailure("trailer is not the CRC of all preceding octets: " + raw.hex())
    decode(raw)


def _poison_tc(a, t: PusTc, mask: int):
    """key "poison" of c04_tc_mutated_pack: pack / CRC calls that fail and are caught, on the telecommand itself (1: a source
    ID that does not fit, corrected afterwards) and on other telecommands (2: service 256 - pack, calc_crc, to_space_packet;
    4: subservice / acknowledge flags out of range, constructor given service 256; 8: application data of a wrong type;
    16: decoding cut buffers). The next pack must not know."""
    att = []
    if mask & 1:
        old = t.source_id

        def same():
            t.source_id = 0x12345
            t.pack()
        core.attempt_all([same, t.calc_crc])
        t.source_id = old
    if mask & 2:
        o = _tc(a)
        core.tolerant_set(getattr(o, "pus_tc_sec_header", None), "service", 256)
        att += [o.pack, o.calc_crc, o.to_space_packet]
    if mask & 4:
        o2, o3 = _tc(a), _tc(a)
        core.tolerant_set(getattr(o2, "pus_tc_sec_header", None), "subservice", -1)
        core.tolerant_set(getattr(o3, "pus_tc_sec_header", None), "ack_flags", 0x1FF)
        att += [o2.pack, o3.pack, lambda: PusTc(service=256, subservice=a["subservice"], apid=a["apid"]).pack(),
                lambda: PusTc(service=a["service"], subservice=a["subservice"], source_id=1 << 16).pack()]
    if mask & 8:
        o4 = _tc(a)

        def wrong_type():
            o4.app_data = "text"
            o4.pack()
        att += [wrong_type, o4.calc_crc]
    if mask & 16:
        good = bytes(_tc(a).pack())
        att += [lambda: PusTc.unpack(good[:-1]), lambda: PusTc.unpack(good[:7]), lambda: PusTc.unpack(flip(good, 50, "1"))]
    core.attempt_all(att)


def _poison_tm(a, mask: int):
    """key "poison" of c04_tm_mutated_pack: the same on OTHER telemetry packets (2: message counter / destination ID that do
    not fit; 4: service / subservice / time reference out of range; 8: source data of a wrong type; 16: cut buffers)"""
    att = []
    sec = lambda o: getattr(o, "pus_tm_sec_header", None)  # noqa: E731
    if mask & 2:
        o, o1 = _tm(a), _tm(a)
        core.tolerant_set(sec(o), "message_counter", 0x12345)
        core.tolerant_set(sec(o1), "dest_id", 0x12345)
        att += [o.pack, o.calc_crc, o.to_space_packet, o1.pack]
    if mask & 4:
        o2, o3 = _tm(a), _tm(a)
        core.tolerant_set(sec(o2), "service", 256)
        core.tolerant_set(sec(o3), "spacecraft_time_ref", 0x1FF)
        att += [o2.pack, o2.calc_crc, o3.pack, lambda: _tm(dict(a, service=256)).pack(), lambda: _tm(dict(a, msg_counter=1 << 16)).pack()]
    if mask & 8:
        o4 = _tm(a)

        def wrong_type():
            o4.tm_data = "text"
            o4.pack()
        att += [wrong_type, o4.calc_crc]
    if mask & 16:
        good, ts = bytes(_tm(a).pack()), len(unhx(a["timestamp"]))
        att += [lambda: PusTm.unpack(good[:-1], ts), lambda: PusTm.unpack(good[:7], ts), lambda: PusTm.unpack(flip(good, 50, "1"), ts)]
    core.attempt_all(att)


def _next_pack_clean(t, what: str):
    """the first pack() after failed (caught) calls: its trailer is the CRC of the octets before it"""
    raw = bytes(t.pack())
    c = CRC16_CCITT_FUNC(raw[:-2])
    if raw[-2:] != bytes([c >> 8, c & 0xFF]):
        raise SelfCheckFailure(f"{what}: the first pack() after pack / CRC calls that FAILED (and were caught) carries a trailer that is "
                               f"not the CRC of the preceding octets ({c:#06x}): {raw.hex()}")


def _entry_pack(t, entry: Optional[str]) -> bytes:
    """the raw packet by one of the three documented ways (case key "entry"; Lean ignores it: all three give the octets of
    pack()): pack() itself, calc_crc() followed by pack(recalc_crc=False) (no field changed in between), to_space_packet().pack()"""
    if entry == "calc_crc":
        t.calc_crc()
        return bytes(t.pack(recalc_crc=False))
    if entry == "to_space_packet":
        return bytes(t.to_space_packet().pack())
    return bytes(t.pack())


def op_tc_mutated_pack(a):
    t = _tc(a)
    if a.get("poison") and a.get("poison_at", 0) == 0:
        _poison_tc(a, t, a["poison"])
        _next_pack_clean(t, "PusTc")
    first = _entry_pack(t, a.get("entry"))
    if a.get("poison") and a.get("poison_at", 0) == 1:
        _poison_tc(a, t, a["poison"])
        _next_pack_clean(t, "PusTc")
    if a["set_apid"] is not None:
        t.apid = a["set_apid"]
    if a["set_count"] is not None:
        t.seq_count = a["set_count"]
    if a["set_source_id"] is not None:
        t.source_id = a["set_source_id"]
    if a["set_data"] is not None:
        t.app_data = unhx(a["set_data"])
    if a.get("poison") and a.get("poison_at", 0) == 2:
        _poison_tc(a, t, a["poison"])
        _next_pack_clean(t, "PusTc")
    raw = core.pack_stable(t, "PusTc.pack()")
    _after_pack_checks(raw, PusTc.unpack)
    return {"first": hx(first), "raw": hx(raw), "crc_check": bool(check_pus_crc(raw))}


def op_tm_mutated_pack(a):
    t = _tm(a)
    if a.get("poison") and a.get("poison_at", 0) == 0:
        _poison_tm(a, a["poison"])
        _next_pack_clean(t, "PusTm")
    first = _entry_pack(t, a.get("entry"))
    if a.get("poison") and a.get("poison_at", 0) == 1:
        _poison_tm(a, a["poison"])
        _next_pack_clean(t, "PusTm")
    if a["set_apid"] is not None:
        t.apid = a["set_apid"]
    if a["set_seq_flags"] is not None:
        t.seq_flags = SequenceFlags(a["set_seq_flags"])
    if a["set_data"] is not None:
        t.tm_data = unhx(a["set_data"])
    if a.get("poison") and a.get("poison_at", 0) == 2:
        _poison_tm(a, a["poison"])
        _next_pack_clean(t, "PusTm")
    raw = core.pack_stable(t, "PusTm.pack()")
    _after_pack_checks(raw, lambda d: PusTm.unpack(d, len(unhx(a["timestamp"]))))
    return {"first": hx(first), "raw": hx(raw), "crc_check": bool(check_pus_crc(raw))}


# keys of a sweep result that are compared with the model. The property allows "its documented checksum
# error (or another documented decode error)", so which documented class refuses a corrupted packet is NOT
# compared (reordering two guards is harmless); `clean_windows` / `crc_class_on_clean` are reported only.
SWEEP_KEYS = ["base_ok", "base_crc_check", "faults", "rejected", "undocumented", "crc_checked", "crc_check_false"]

OPS: Dict[str, Callable] = {"c04_crc": op_crc, "c04_flip": op_flip, "c04_tc_mutated_pack": op_tc_mutated_pack,
                            "c04_tm_mutated_pack": op_tm_mutated_pack}
for _m in ("tc", "tm", "s17", "s1", "cfdp", "cfdpdir"):
    OPS[f"c04_{_m}_check"] = op_check
    OPS[f"c04_{_m}_corrupt"] = op_corrupt
    OPS[f"c04_{_m}_sweep"] = op_sweep


# --------------------------------------------------------------------------------------------
# the check
# --------------------------------------------------------------------------------------------
class C04(Prop):
    id = "C04"
    title = "A corrupted CRC-protected packet is never accepted as valid"
    lean_modules = ["SpVerif.Props.C04", "SpVerif.Props.C04Pdu"]
    trusted_base = [
        "crcmod (CRC16_CCITT_FUNC, PredefinedCrc, mkPredefinedCrcFun) tied to the Lean bit-serial CRC by the c04_crc op on structured and random data up to 70 000 octets in this run",
        "CFDP PDU kinds: the model side of the fault enumeration is the common decoder front (PduHeader.unpack + verify_length_and_checksum, with FileDirectivePduBase.unpack in between for directives); that each of the eight PDU decoder models and the factory model fail whenever that front fails is a theorem (Props/C04Pdu.lean: C04_directive_decoders_run_front, C04_filedata_decoder_runs_front, C04_factory_decoders_run_front), the faithfulness of those per-PDU models to the real classes is what C06 / C07 / C12 check differentially",
    ]
    assumptions = [
        "length-determining octets: PUS octets 4-5; CFDP octets 0-3 (CRC flag, data-field length, width nibbles) - DESIGN.md section 8",
        "bursts are enumerated inside the packed packet; the decoder is given the corrupted packet alone",
    ]

    @property
    def exhaustive_note(self):
        return ("per packet: EVERY single-bit flip outside the excluded octets, and at EVERY bit offset bursts from the family "
                "(all-ones of length 2..16, end-bits-only of length 3..16, random patterns with both end bits set); the full family "
                "(38 patterns x every offset) on at least one packet of every kind; per packet the value-directed bursts (received "
                "trailer := 0000 / ffff / 0001 / 8000 / 0100 / 0080, its octets := 00 / ff, computed checksum := 0000 / ffff, "
                "aligned words := 0000 / ffff); for every kind packets solved to carry the valid trailers 0000 / ffff / 0001 / "
                "8000 / 0100 with every single-bit flip; faults run against the real decoders in this "
                f"process so far: {FAULTS_RUN['n']}")

    def impl_ops(self):
        return OPS

    def table_sync(self):
        d = []
        from spacepackets.ccsds.spacepacket import CCSDS_HEADER_LEN
        if CCSDS_HEADER_LEN != 6:
            d.append("CCSDS_HEADER_LEN != 6 (the excluded octets 4-5 are the last two header octets)")
        if pdu.PduHeader.FIXED_LENGTH != 4:
            d.append("PduHeader.FIXED_LENGTH != 4 (the excluded CFDP octets are the fixed header)")
        if int(cd.CrcFlag.WITH_CRC) != 1:
            d.append("CrcFlag.WITH_CRC != 1")
        if CRC16_CCITT_FUNC(b"123456789") != 0x29B1:
            d.append("CRC16_CCITT_FUNC check value != 0x29B1")
        return d

    def nontrivial(self, c):
        return any(v not in (0, None, False, "", []) for k, v in c.op.items() if k not in ("op", "kind"))

    # individual faults of one packet as separately compared lines (also the neighbourhood of a differing sweep)
    def _single(self, kind: Kind, raw: bytes, ex: Dict[str, Any], k: int, pat: str, tag: str) -> Case:
        return Case({"op": f"c04_{kind.model(raw)}_corrupt", **kind.extra(raw, ex), "raw": hx(raw), "bit_offset": k, "pattern": pat},
                    "invalid", errclass=False, tag=tag)

    def _directed(self, kind: Kind, raw: bytes, ex: Dict[str, Any], rng: random.Random, n_words: Optional[int],
                  prefix: str = "", octets: bool = True) -> Iterator[Case]:
        for k, pat, what in directed_faults(kind, raw, rng, n_words, octets):
            yield self._single(kind, raw, ex, k, pat, f"{kind.name}:{prefix}directed-{re.sub(r'@[0-9]+', '', what)}")

    def neighbours(self, case: Case, rng: random.Random) -> Iterator[Case]:
        op = case.op
        if not op["op"].endswith("_sweep"):
            return
        kind = KINDS[op["kind"]]
        raw = unhx(op["raw"])
        ex = {k: v for k, v in op.items() if k in ("ts_len", "step_bytes", "err_bytes")}
        n = 0
        for pat in op["patterns"]:
            for k in range(8 * len(raw) - len(pat) + 1):
                if not meets(k, len(pat), *kind.ex):
                    yield self._single(kind, raw, ex, k, pat, "neighbour")
                    n += 1
                    if n > 20000:
                        return

    def cases(self, rng: random.Random, tier: str) -> Iterator[Case]:
        thorough = tier == "thorough"
        # ---- CRC function tie -------------------------------------------------------------
        structured = [b"", b"\x00", b"\xff", b"123456789", bytes(2), b"\xff\xff", b"\x1d\x0f", bytes(64), b"\xff" * 64,
                      bytes(range(256)), bytes(65535), b"\xff" * 65536, rbytes(rng, 65537), rbytes(rng, 70000)]
        if thorough:
            structured += [rbytes(rng, 70000) for _ in range(4)] + [bytes(70000), b"\xff" * 70000]
        for dta in structured:
            yield Case({"op": "c04_crc", "data": hx(dta), "cut": rng.randint(0, len(dta))}, "valid", tag="crc-structured")
            c = CRC16_CCITT_FUNC(dta)
            yield Case({"op": "c04_crc", "data": hx(dta + bytes([c >> 8, c & 0xFF])), "cut": rng.randint(0, len(dta))}, "valid", tag="crc-residue")
        for _ in range(4000 if thorough else 600):
            dta = rbytes(rng, rng.choice([1, 2, 3, 4, 7, 16, 33, rng.randint(0, 400)]))
            yield Case({"op": "c04_crc", "data": hx(dta), "cut": rng.randint(0, len(dta))}, "valid", tag="crc-random")
        # ---- the fault function itself: Python `flip` == Lean `flipBurst` ----------------------
        for _ in range(3000 if thorough else 500):
            raw = rbytes(rng, rng.randint(1, 24))
            pat = rng.choice(["1", rand_pattern(rng), "".join(rng.choice("01") for _ in range(rng.randint(1, 16)))])
            if len(pat) > 8 * len(raw):
                continue
            yield Case({"op": "c04_flip", "raw": hx(raw), "bit_offset": rng.randint(0, 8 * len(raw) - len(pat)), "pattern": pat},
                       "valid", tag="flip")
        # ---- pack recomputes the trailer whatever was set before ------------------------------
        for i in range(1500 if thorough else 250):
            a = tc_args(rng, rng.choice(DATA_LENS))
            pick = lambda v: v if rng.random() < 0.6 else None  # noqa: E731
            a.update(set_apid=pick(rng.choice(pool(2047, rng))), set_count=pick(rng.choice(pool(16383, rng))),
                     set_source_id=pick(rng.choice(pool(65535, rng))), set_data=pick(hx(rbytes(rng, rng.choice(DATA_LENS)))))
            # two of three: pack / CRC calls that failed and were caught come first (before the first pack, between the first
            # pack and the setters, or right before the final pack)
            po = {"poison": rng.choice([1, 2, 4, 8, 16, 31, rng.randint(1, 31)]), "poison_at": rng.randint(0, 2)} if i % 3 else {}
            yield Case({"op": "c04_tc_mutated_pack", **a, **po}, "valid", tag="setters-then-pack" + ("+failed-calls" if po else ""))
            b = tm_args(rng, rng.choice(TS_LENS), rng.choice(DATA_LENS))
            b.update(set_apid=pick(rng.choice(pool(2047, rng))), set_seq_flags=pick(rng.randint(0, 3)),
                     set_data=pick(hx(rbytes(rng, rng.choice(DATA_LENS)))))
            po = {"poison": rng.choice([2, 4, 8, 16, 30, rng.randint(1, 15) * 2]), "poison_at": rng.randint(0, 2)} if i % 3 else {}
            yield Case({"op": "c04_tm_mutated_pack", **b, **po}, "valid", tag="setters-then-pack" + ("+failed-calls" if po else ""))
        # ---- fault enumeration ------------------------------------------------------------------
        for kind in KINDS.values():
            if thorough:
                n_light, n_full = kind.variants * 3, max(4, kind.variants // 4)
            else:
                n_light, n_full = ((kind.variants + 1) // 2 if kind.pus else 5), 1
            off = rng.randint(0, 1000)
            for i in range(n_light + n_full):
                raw, ex = kind.make(rng, off + i)
                full = i >= n_light
                m = kind.model(raw)
                # (what the application did with packets it decoded earlier - see op_check: keys "mut", "poison")
                mut = rng.choice([1, 1, 129, MUT_ALL, rng.randint(1, MUT_ALL) | 1]) if not kind.pus else rng.randint(1, 31)
                yield Case({"op": f"c04_{m}_check", **kind.extra(raw, ex), "raw": hx(raw), "mut": mut, "poison": i % 2}, "valid",
                           tag=f"{kind.name}:valid")
                try:
                    kind.decode(raw, ex)
                    base_ok = kind.crc_check(raw)
                except Exception:  # noqa  (reported through the check case above)
                    base_ok = False
                if not base_ok:
                    continue
                pats = full_family(rng) if full else light_family(rng)
                if full and not thorough:
                    pats = pats[:1] + rng.sample(pats[1:], 10)
                if kind.pus:
                    every = (8 if full else 2) if thorough else (6 if full else 3)
                else:
                    every = (8 if full else 2) if thorough else 4
                yield Case({"op": f"c04_{m}_sweep", **kind.extra(raw, ex), "raw": hx(raw), "patterns": pats, "crc_every": every,
                            "mut": mut}, "valid", tag=f"{kind.name}:{'full' if full else 'light'}-sweep", keys=SWEEP_KEYS)
                # a sample of the same faults as individually compared lines
                nbits = 8 * len(raw)
                for _ in range(40 if thorough else 10):
                    pat = rng.choice(["1", "1", rand_pattern(rng)])
                    k = rng.randint(0, nbits - len(pat))
                    if meets(k, len(pat), *kind.ex):
                        continue
                    yield self._single(kind, raw, ex, k, pat, f"{kind.name}:single")
                # the positions a CRC over the wrong slice would miss: first/last covered bit, each side of the excluded octets
                for k in (0, kind.ex[0] - 1, kind.ex[1], nbits - 17, nbits - 16, nbits - 1):
                    if 0 <= k < nbits and not meets(k, 1, *kind.ex):
                        yield self._single(kind, raw, ex, k, "1", f"{kind.name}:edge")
                # bursts chosen by the value the corrupted window reads as (trailer := 0000 / ffff / 0001 ..., computed
                # checksum := 0000 / ffff, aligned words and octets := 0000 / ffff: every word of the full-family packet,
                # a few places on the others)
                # (their few random choices come from a generator of their own, seeded by the packet)
                yield from self._directed(kind, raw, ex, random.Random(raw), None if (full or thorough) else 2, octets=thorough or not full)
        # ---- state leaking between decoded objects: valid packets of one kind in differing configurations (CFDP: ID /
        #      sequence-number widths, flags and values all change with the variant index) decoded back to back; the
        #      check op looks again at the packets it decoded before ----
        for kind in KINDS.values():
            off = rng.randint(0, 1000)
            for i in range(12 if thorough else 5):
                raw, ex = kind.make(rng, off + 7 * i)
                yield Case({"op": f"c04_{kind.model(raw)}_check", **kind.extra(raw, ex), "raw": hx(raw),
                            **({"mut": rng.randint(1, MUT_ALL if not kind.pus else 31), "poison": 1} if i % 2 else {})}, "valid",
                           tag=f"{kind.name}:back-to-back")
        # ---- packets whose VALID trailer is a distinguished value (solved, not searched): 0000 for every kind and, in
        #      turn, ffff / 0001 / 8000 / 0100 (thorough: all of them, twice). Every single-bit flip and a family of bursts
        #      at every offset (one sweep line), the value-directed bursts as individually compared lines ----
        for n_kind, kind in enumerate(KINDS.values()):
            off = rng.randint(0, 1000)
            if thorough:
                targets = SPECIAL_TRAILERS * 2
            else:
                targets = [0x0000, SPECIAL_TRAILERS[1 + (n_kind + off) % 4]]
            for i, target in enumerate(targets):
                raw, ex = solved_packet(kind, rng, off + i, target, 1 if thorough else 3)
                m = kind.model(raw)
                yield Case({"op": f"c04_{m}_check", **kind.extra(raw, ex), "raw": hx(raw), "poison": 1}, "valid",
                           tag=f"{kind.name}:solved-valid")
                try:
                    kind.decode(raw, ex)
                    base_ok = kind.crc_check(raw)
                except Exception:  # noqa  (reported through the check case above)
                    base_ok = False
                if not base_ok:
                    continue
                pats = (["1"] + ONES + ENDS if thorough else ["1", rng.choice(ONES + ENDS)]) + [rand_pattern(rng, 16)]
                yield Case({"op": f"c04_{m}_sweep", **kind.extra(raw, ex), "raw": hx(raw), "patterns": pats,
                            "crc_every": 4 if thorough else 8}, "valid", tag=f"{kind.name}:solved-sweep", keys=SWEEP_KEYS)
                yield from self._directed(kind, raw, ex, rng, None if thorough else 2, "solved-")
        # ---- cold start (core.cold_start_sample runs the cases named by cold_start_cases() as the first and only operation
        #      of a fresh interpreter): one case per ENTRY PATH of the checksum, so that each of them is, once, the first
        #      thing a process does with the package. Encoders: pack(); calc_crc() + pack(recalc_crc=False);
        #      to_space_packet().pack() (TC and TM; key "entry"); a CFDP PDU with CRC packed from its parameters (key
        #      "remake"). Decoders / checks: unpack() of TC / TM, check_pus_crc(), the decoder front of a CFDP PDU with CRC,
        #      the CRC function. Emitted last: the stream of the cases above is what it was. ----
        none = {"set_apid": None, "set_count": None, "set_source_id": None, "set_data": None}
        for entry in ("pack", "calc_crc", "to_space_packet"):
            yield Case({"op": "c04_tc_mutated_pack", **tc_args(rng, 3), **none, "set_count": rng.randint(0, 16383), "entry": entry},
                       "valid", tag=f"cold-start:tc-{entry}-first")
            b = tm_args(rng, 7, 3)
            yield Case({"op": "c04_tm_mutated_pack", **b, "set_apid": rng.randint(0, 2047), "set_seq_flags": None, "set_data": None,
                        "entry": entry}, "valid", tag=f"cold-start:tm-{entry}-first")
        for name in ("tc", "tm", "cfdp_eof", "cfdp_file_data"):
            kind = KINDS[name]
            sd, i = rng.getrandbits(32), rng.randint(0, 1000)
            raw, ex = kind.make(random.Random(sd), i)
            m = kind.model(raw)
            yield Case({"op": f"c04_{m}_check", **kind.extra(raw, ex), "raw": hx(raw)}, "valid", tag=f"cold-start:{name}-unpack-first")
            if not kind.pus:
                yield Case({"op": f"c04_{m}_check", **kind.extra(raw, ex), "raw": hx(raw), "remake": {"seed": sd, "i": i}}, "valid",
                           tag=f"cold-start:{name}-pack-first")
            else:
                # (op_corrupt asks the standalone check first)
                yield self._single(kind, raw, ex, 8 * len(raw) - 1, "1", f"cold-start:{name}-check_pus_crc-first")
        dta = rbytes(rng, 40)
        yield Case({"op": "c04_crc", "data": hx(dta), "cut": 17}, "valid", tag="cold-start:crc-function-first")

    def cold_start_cases(self):
        """always in the cold-start sample: one case per entry path of the checksum (see the end of `cases`)"""
        return ([f"cold-start:{k}-{e}-first" for e in ("calc_crc", "to_space_packet", "pack") for k in ("tc", "tm")]
                + ["cold-start:tc-unpack-first", "cold-start:tm-unpack-first", "cold-start:tc-check_pus_crc-first",
                   "cold-start:cfdp_eof-unpack-first", "cold-start:cfdp_eof-pack-first", "cold-start:cfdp_file_data-pack-first",
                   "cold-start:crc-function-first"])


PROP = C04()
