"""C06 — every CFDP file-directive PDU is encoded exactly per 727.0-B-5 and round-trips.

Aggregator: the seven directive kinds are handled by two part modules
  props/c06_fixed.py  ACK, Prompt, Keep Alive, NAK (+ the file-directive base)
  props/c06_var.py    EOF, Finished, Metadata (PDUs that carry TLVs / LVs)
Each part exposes `PART`, an object with the `core.Prop` interface (lean_modules, impl_ops, cases,
table_sync, nontrivial, neighbours, trusted_base, assumptions, exhaustive_note). A missing part is an
infrastructure error (the property would silently lose kinds otherwise).
"""
import importlib
import random
from typing import Iterator

from core import Case, InfraError, Prop

PART_NAMES = ["c06_fixed", "c06_var"]


def _load():
    parts = []
    for name in PART_NAMES:
        try:
            parts.append(importlib.import_module("props." + name).PART)
        except ModuleNotFoundError as e:
            if e.name == "props." + name:
                raise InfraError(f"C06 part module props/{name}.py is missing")
            raise
    return parts


class C06(Prop):
    id = "C06"
    title = "Every CFDP file-directive PDU is encoded exactly per 727.0-B-5 and round-trips"

    def __init__(self):
        self.parts = _load()
        self.lean_modules = [m for p in self.parts for m in p.lean_modules]
        self.trusted_base = [t for p in self.parts for t in p.trusted_base]
        self.assumptions = [t for p in self.parts for t in p.assumptions]
        self.exhaustive_note = " | ".join(p.exhaustive_note for p in self.parts if p.exhaustive_note)
        self._owner = {}

    def impl_ops(self):
        ops = {}
        for p in self.parts:
            for k, v in p.impl_ops().items():
                if k in ops:
                    raise InfraError(f"C06: op {k} defined by two parts")
                ops[k] = v
                self._owner[k] = p
        return ops

    def _part_of(self, c: Case):
        if not self._owner:
            self.impl_ops()
        return self._owner.get(c.op["op"])

    def cases(self, rng: random.Random, tier: str) -> Iterator[Case]:
        # each part's stream, then a share of its valid configuration-carrying cases once more with the five PduConfig flags
        # as plain ints / bools (props.c05.conf_form_variants; case key forms.conf)
        from props.c05 import conf_form_variants
        for p in self.parts:
            yield from conf_form_variants(p.cases(rng, tier), rng, share=0.04)

    def table_sync(self):
        return [d for p in self.parts for d in p.table_sync()]

    def nontrivial(self, c: Case) -> bool:
        p = self._part_of(c)
        return p.nontrivial(c) if p else True

    def neighbours(self, c: Case, rng: random.Random) -> Iterator[Case]:
        p = self._part_of(c)
        return p.neighbours(c, rng) if p else iter(())


PROP = C06()
