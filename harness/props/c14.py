"""C14 — CDS short timestamps encode exactly and agree with calendar arithmetic

Datetimes go to the model as integer microseconds since 1970-01-01T00:00:00Z, timedeltas as
CPython's normalised (days, seconds, microseconds). The two non-integer views of the class are
converted to exact integers here (never compared as floats):
  * as_unix_seconds() (a float): exact rational value of the double, rounded to the nearest
    millisecond (stamps built from (days, ms)) or to the nearest microsecond and then floored to
    the millisecond (stamps built from a datetime, whose view may keep the sub-millisecond part);
  * as_datetime(): exact integer microseconds since the Unix epoch, and — for stamps built from
    (days, ms) — compared exactly with datetime(1958,1,1,tzinfo=utc)+timedelta(days, milliseconds).

Which truncation `stamp + timedelta` uses (model `Stamp.add`, theorems `C14_add` / `C14_td_floor_ms`, and the code at hand):
the timedelta is CPython's normalised (days, seconds, microseconds) with days >= 0, and its millisecond count is
days*86 400 000 + seconds*1000 + microseconds // 1000 = floor(total microseconds / 1000). Only the timedelta is floored, and
every addition floors its own timedelta: a stamp IS its (days, ms) pair, it has no sub-millisecond part, so two additions of
999 us leave the stamp where it was, and from_datetime(12:00:00.000700) + 1400 us is 12:00:00.001 (not .002). The reference
for every `cds_add` line is the model's answer on (days, ms, timedelta) - however the stamp holding (days, ms) was obtained
(key "src" below).
"""
import random
import warnings
import zlib
from datetime import datetime, timedelta, timezone
from typing import Any, Dict, Iterator, List, Optional, Tuple

import core
from core import Case, Prop, SelfCheckFailure, InfraError
from gen import hx, unhx, rbytes

import spacepackets.ccsds.time.common as tcommon
import spacepackets.ccsds.time.cds as tcds
from spacepackets.ccsds.time import CdsShortTimestamp

warnings.filterwarnings("ignore", category=DeprecationWarning)

UTC = timezone.utc
E1958 = datetime(1958, 1, 1, tzinfo=UTC)
E1970 = datetime(1970, 1, 1, tzinfo=UTC)
ONE_US = timedelta(microseconds=1)
MS = 86_400_000
DAY_US = 86_400_000_000
OFFSET = 4383
MAX_DAYS = 65535
# representable range of datetimes, in microseconds relative to the Unix epoch
US_LO = -OFFSET * DAY_US
US_HI = (MAX_DAYS + 1 - OFFSET) * DAY_US - 1


def _nearest(x, scale: int) -> int:
    """exact value of the float (or int) x, times scale, rounded to the nearest integer"""
    n, d = float(x).as_integer_ratio()
    return (2 * n * scale + d) // (2 * d)


def _dt_view(stamp) -> datetime:
    f = getattr(stamp, "as_datetime", None)
    if f is None:
        f = stamp.as_date_time
    return f()


def _dt_us(dt: datetime) -> int:
    # aware - aware; a naive datetime raises TypeError here (the view must be a UTC datetime)
    return (dt - E1970) // ONE_US


def _stamp_payload(s) -> Dict[str, Any]:
    """payload of a stamp defined by its (days, ms): both views must be exactly 1958-01-01 + days + ms"""
    d, ms = int(s.ccsds_days), int(s.ms_of_day)
    dt = _dt_view(s)
    if dt.utcoffset() != timedelta(0):
        raise SelfCheckFailure("datetime view is not a UTC datetime")
    want = E1958 + timedelta(days=d, milliseconds=ms)
    if dt != want:
        raise SelfCheckFailure(f"datetime view {dt.isoformat()} != 1958-01-01Z + {d} d + {ms} ms = {want.isoformat()}")
    return {"days": d, "ms": ms, "unix_ms": _nearest(s.as_unix_seconds(), 1000), "dt_us": _dt_us(dt)}


def _stamp_view(s) -> Dict[str, Any]:
    """cheap pure view of a stamp (no pack()) for the isolation probe: fields and both time views"""
    return {"days": int(s.ccsds_days), "ms": int(s.ms_of_day), "unix": float(s.as_unix_seconds()),
            "dt": _dt_view(s).isoformat()}


def _pfield_octet(s) -> Optional[int]:
    """the `pfield` view as an octet value (bytes-like of length 1 in the tree at hand; an int would do as well);
    None where the class has no such attribute; -1 for anything that is not one octet"""
    p = getattr(s, "pfield", None)
    if p is None:
        return None
    if isinstance(p, int):
        return int(p)
    b = bytes(p)
    return b[0] if len(b) == 1 else -1


def _packed_form(s, what: str) -> bytes:
    """pack() (twice, the caller modifying the first returned buffer in between) is P-field 0x40, day, millisecond of
    the stamp's own fields - for every stamp OBJECT, however it was obtained (constructor, decoder, from_datetime, an
    addition) - and the `pfield` view of the object says 0x40 as well"""
    raw = core.pack_stable(s, what)
    d, ms = int(s.ccsds_days), int(s.ms_of_day)
    if 0 <= d <= MAX_DAYS and 0 <= ms < (1 << 32) and raw != _raw(0x40, d, ms):
        raise SelfCheckFailure(f"{what} = {raw.hex()} is not 0x40 | day {d} | ms {ms}")
    p = _pfield_octet(s)
    if p is not None and p != 0x40:
        raise SelfCheckFailure(f"{what}: the stamp (day {d}, ms {ms}) shows pfield {p:#04x}, a CDS short stamp has P-field 0x40")
    return raw


# --------------------------------------------------------------------------------------------
# Case key "hist" (not read by the model ops): the stamp of the line is not new. It was built with OTHER field values
# ({"days", "ms"}, usually both non-zero), every view of it was read (fields, both time views, pack()), and it was then brought
# to the values of the line IN PLACE - by read_from_raw() of the line's octets (cds_unpack; for cds_add "how": "read"), or by
# an earlier addition ("how": "add") - before the line's own operation runs on it. A stamp is its two fields: what it shows
# afterwards is what a stamp built directly with the final values shows (core.read_mutate_read) and what the model answers
# for the line - also when a new field value is 0 (a midnight, day 0 of the epoch) and the old one was not.
# Case key "factory" of cds_new (days = ms = 0): the stamp comes from CdsShortTimestamp.empty(); stamps the same factory handed
# out before are re-used in place by the application (core.factory_independent).
# Case key "src" (cds_add, cds_pack, cds_new; not read by the model ops): HOW the stamp holding the line's (days, ms) was
# obtained - the property quantifies over timestamps, i.e. over values, so it must not matter:
#   {"how": "new"}                       CdsShortTimestamp(days, ms)
#   {"how": "unpack"[, "buf": "bytearray"]}   CdsShortTimestamp.unpack(0x40 | days | ms)
#   {"how": "read", "old": {days, ms}}   read_from_raw(0x40 | days | ms) into a stamp that held `old` and had been read
#   {"how": "from_unix_days"}            CdsShortTimestamp.from_unix_days(days - 4383, ms)
#   {"how": "from_dt", "rem_us": r}      from_datetime(1958-01-01Z + days + ms + r us), 0 <= r <= 999: EVERY datetime of that
#                                        millisecond is the same stamp (floor to the millisecond)
#   {"how": "now"}                       CdsShortTimestamp.now() - the one source whose value the line cannot fix: the op compares
#                                        now() + timedelta with CdsShortTimestamp(days', ms') + timedelta for the (days', ms')
#                                        that now() shows, and answers the line itself with a directly built stamp
#   optional "start": {days, ms} and "pre": [[td_days, td_s, td_us], ...]: the source yields `start`, then the timedeltas of
#   "pre" are added one after the other (each floored on its own) and must arrive at the line's (days, ms) - the stamp is
#   the RESULT of earlier additions. Every intermediate stamp is compared with a stamp built directly from its (days, ms).
# Views of a stamp that came out of from_datetime()/now() may keep the sub-millisecond part of the caller's datetime (module
# docstring); for those sources the two time views are floored to the millisecond before they are compared.
# Case key "refused" (cds_add): additions that leave the 16-bit day range were tried on the stamp BEFORE the line's own
# addition (see _refused_first). "... or OverflowError when the day count would exceed 16 bits": a refused addition is a
# refusal - on EVERY cds_add line that is answered with OverflowError the operand is looked at afterwards (_add_or_intact): it
# shows its old (days, ms) in every view, packs to 0x40 | days | ms, is == a directly built stamp; it is not left outside the
# property's domain (day count > 65535, pack() raising).
# Case keys "alt_p" / "alt_old" of cds_unpack (the line's own octets are canonical): the same day / millisecond octets are
# also decoded behind first octet alt_p (0..255), through unpack and through read_from_raw into a stamp that held alt_old.
# Whether one of the 15 preambles that differ from 0x40 only in bits the decoder does not document is accepted is NOT claimed
# either way (DESIGN.md section 8); the 240 wrong P-fields must be refused by both paths, 0x40 accepted, and IF a decoder hands
# back an object, that object is a CDS short stamp: pack() = 0x40 | its own days | its own ms, pfield 0x40.
# --------------------------------------------------------------------------------------------
STAMP_VIEWS = [
    ("days", lambda s: int(s.ccsds_days)), ("ms", lambda s: int(s.ms_of_day)),
    ("unix_ms", lambda s: _nearest(s.as_unix_seconds(), 1000)), ("dt", lambda s: _dt_view(s).isoformat()),
    ("raw", lambda s: hx(s.pack())), ("pfield", lambda s: hx(s.pfield)), ("len", lambda s: int(s.len_packed)),
]


def _old_stamp(h):
    """the stamp as it was before: built with the history's values, every view read once"""
    s = CdsShortTimestamp(h["days"], h["ms"])
    core.read_views(s, STAMP_VIEWS)
    return s


def _as_fresh(s, fresh, what: str, views=None):
    views = STAMP_VIEWS if views is None else views
    now, want = core.read_views(s, views), core.read_views(fresh, views)
    for n in now:
        if now[n] != want[n]:
            raise SelfCheckFailure(f"{what}: `{n}` shows {now[n]}, a stamp built directly with the final values shows {want[n]}")
    if not (s == fresh) or not (fresh == s):
        raise SelfCheckFailure(f"{what}: the stamp is not == to a stamp built directly with the final values")


# the same views with the two time views floored to the millisecond (stamps out of from_datetime / now, see above)
FLOOR_VIEWS = [(n, f) for n, f in STAMP_VIEWS if n not in ("unix_ms", "dt")] + [
    ("unix_ms", lambda s: _nearest(s.as_unix_seconds(), 1_000_000) // 1000),
    ("dt_ms", lambda s: _dt_us(_dt_view(s)) // 1000),
]


def _start_stamp(d: int, ms: int, src: Dict[str, Any]):
    """(stamp, description): the stamp (d, ms) obtained the way `src` says"""
    how = src.get("how", "new")
    if how == "new":
        return CdsShortTimestamp(d, ms), f"CdsShortTimestamp({d}, {ms})"
    if how == "unpack":
        raw = _raw(0x40, d, ms)
        return CdsShortTimestamp.unpack(bytearray(raw) if src.get("buf") == "bytearray" else raw), f"unpack({raw.hex()})"
    if how == "read":
        old = src["old"]
        s = _old_stamp(old)
        s.read_from_raw(_raw(0x40, d, ms))
        return s, f"read_from_raw({_raw(0x40, d, ms).hex()}) into a stamp that was ({old['days']}, {old['ms']}) and had been read"
    if how == "from_unix_days":
        return CdsShortTimestamp.from_unix_days(d - OFFSET, ms), f"from_unix_days({d - OFFSET}, {ms})"
    if how == "from_dt":
        r = src.get("rem_us", 0)
        if not 0 <= r <= 999:
            raise InfraError(f"malformed line: rem_us={r}")
        dt = E1958 + timedelta(days=d, milliseconds=ms, microseconds=r)
        return CdsShortTimestamp.from_datetime(dt), f"from_datetime({dt.isoformat()})"
    raise InfraError(f"malformed line: src how={how!r}")


def _src_views(src: Optional[Dict[str, Any]]):
    return FLOOR_VIEWS if src and src.get("how") in ("from_dt", "now") else STAMP_VIEWS


def _sourced_stamp(a):
    """(stamp, description) for a line with key "src": the stamp holding the line's (days, ms), obtained as "src" says; every
    stamp on the way is what a stamp built directly from its (days, ms) is"""
    src = a["src"]
    views = _src_views(src)
    st = src.get("start") or {"days": a["days"], "ms": a["ms"]}
    d, ms = st["days"], st["ms"]
    # the line is checked before anything is run: integer arithmetic from `start` over "pre" arrives at the line's stamp
    steps = []
    for tdf in src.get("pre", ()):
        td = timedelta(days=tdf[0], seconds=tdf[1], microseconds=tdf[2])
        if td < timedelta(0) or (td.days, td.seconds, td.microseconds) != tuple(tdf):
            raise InfraError(f"malformed line: pre={tdf}")
        d, ms = divmod(d * MS + ms + tdf[0] * MS + tdf[1] * 1000 + tdf[2] // 1000, MS)
        steps.append((td, d, ms))
    if (d, ms) != (a["days"], a["ms"]) or not (0 <= st["days"] <= d <= MAX_DAYS and 0 <= st["ms"] < MS):
        raise InfraError(f"malformed line: the source arrives at ({d}, {ms}), not at the stamp of the line")
    s, what = _start_stamp(st["days"], st["ms"], src)
    _as_fresh(s, CdsShortTimestamp(st["days"], st["ms"]), what, views)
    for td, d, ms in steps:
        what += f" + {td!r}"
        try:
            s = s + td
        except Exception as e:  # noqa
            raise SelfCheckFailure(f"{what} raises {type(e).__name__}: it is ({d}, {ms})")
        _as_fresh(s, CdsShortTimestamp(d, ms), what, views)
    return s, what


def _floored_payload(s) -> Dict[str, Any]:
    """payload of a stamp whose time views may keep a sub-millisecond part (from_datetime / now and what follows from them)"""
    us = _dt_us(_dt_view(s))
    return {"days": int(s.ccsds_days), "ms": int(s.ms_of_day),
            "unix_ms": _nearest(s.as_unix_seconds(), 1_000_000) // 1000, "dt_us": us // 1000 * 1000}


def _still_is(s, d: int, ms: int, what: str, views=None):
    """after a refused addition: the operand shows its old (d, ms) in every view, packs (0x40 | d | ms, no exception) and is ==
    a stamp built directly - a refusal does not leave a stamp outside the property's domain (day count > 65535, pack() failing)"""
    _as_fresh(s, CdsShortTimestamp(d, ms), what, views)
    _packed_form(s, "pack() " + what)


def _add_or_intact(s, td, d: int, ms: int, what: str, views=None):
    """s + td where s holds (d, ms). "...or OverflowError when the day count would exceed 16 bits": a refused addition is a
    refusal - the OverflowError is passed on as the answer of the line, after the operand has been looked at"""
    try:
        return s + td
    except OverflowError:
        _still_is(s, d, ms, f"after {what} + {td!r} was refused with OverflowError, the operand", views)
        raise


def _refused_first(a, s, what: str, views=None):
    """Case key "refused" (cds_add; not read by the model ops): [[td_days, td_s, td_us], ...] - additions that leave the 16-bit
    day range were tried on the stamp of the line, one after the other, BEFORE the line's own addition. Each must be refused
    with OverflowError and leave the operand as it was; the line's own addition on the same object is then answered by the
    model for the line's (days, ms) - the refusals are no part of the value."""
    d, ms = a["days"], a["ms"]
    for tdf in a.get("refused", ()):
        tdr = timedelta(days=tdf[0], seconds=tdf[1], microseconds=tdf[2])
        if tdr < timedelta(0) or (tdr.days, tdr.seconds, tdr.microseconds) != tuple(tdf) or \
                (d * MS + ms + tdf[0] * MS + tdf[1] * 1000 + tdf[2] // 1000) // MS <= MAX_DAYS:
            raise InfraError(f"malformed line: refused={tdf} does not leave the day range")
        try:
            _add_or_intact(s, tdr, d, ms, what, views)
        except OverflowError:
            continue
        raise SelfCheckFailure(f"{what} + {tdr!r} is accepted: the day count exceeds 16 bits")


def _add_from_source(a, td):
    src = a["src"]
    views = _src_views(src)
    if src.get("how") == "now":
        s = CdsShortTimestamp.now()
        d, ms = int(s.ccsds_days), int(s.ms_of_day)
        what = f"CdsShortTimestamp.now() = ({d}, {ms})"
        _as_fresh(s, CdsShortTimestamp(d, ms), what, views)
        twin = CdsShortTimestamp(d, ms)
        try:
            r = _add_or_intact(s, td, d, ms, what, views)
        except OverflowError:
            r = None
        try:
            want = twin + td
        except OverflowError:
            want = None
        if (r is None) != (want is None):
            raise SelfCheckFailure(f"{what} + {td!r} is {'refused' if r is None else 'accepted'}, CdsShortTimestamp({d}, {ms}) + the same is not")
        if r is not None:
            _as_fresh(r, want, what + f" + {td!r}", views)
            _packed_form(r, f"pack() of {what} + {td!r}")
        return _stamp_payload(_add_or_intact(CdsShortTimestamp(a["days"], a["ms"]), td, a["days"], a["ms"], "CdsShortTimestamp(days, ms)"))
    s, what = _sourced_stamp(a)
    _refused_first(a, s, what, views)
    # the line's own addition: a refusal is the answer of the line, and the model's answer on (days, ms, timedelta) is the
    # reference for the sum (the payload), whatever the source was
    r = _add_or_intact(s, td, a["days"], a["ms"], what, views)
    _packed_form(r, f"pack() of {what} + {td!r}")
    return _floored_payload(r) if views is FLOOR_VIEWS else _stamp_payload(r)


def _decode_any_preamble(p: int, rest: bytes, old: Dict[str, int]):
    """first octet p in front of day / millisecond octets, through both decoders (see "alt_p" above)"""
    raw = bytes([p]) + rest

    def via_read(b):
        s = _old_stamp(old)
        s.read_from_raw(b)
        return s
    for name, dec in (("CdsShortTimestamp.unpack", CdsShortTimestamp.unpack),
                      (f"read_from_raw into a stamp that was ({old['days']}, {old['ms']}) and had been read:", via_read)):
        try:
            s = dec(raw)
        except Exception as e:  # noqa
            if core.exc_category(e) not in core.DOCUMENTED:
                raise SelfCheckFailure(f"{name}({raw.hex()}) raises {type(e).__name__}, not a documented refusal")
            if p == 0x40:
                raise SelfCheckFailure(f"{name}({raw.hex()}) refuses a canonical stamp ({type(e).__name__})")
            continue
        if _pfield_refused(p):
            raise SelfCheckFailure(f"{name}({raw.hex()}) accepts P-field {p:#04x} (time code id != 100 or 24-bit day flag)")
        packed = _packed_form(s, f"pack() of the stamp returned by {name}({raw.hex()})")
        if int(s.len_packed) != 7 or len(packed) != 7:
            raise SelfCheckFailure(f"{name}({raw.hex()}): len_packed {s.len_packed}, {len(packed)} octets packed")
        if not (CdsShortTimestamp.unpack(packed) == s):
            raise SelfCheckFailure(f"{name}({raw.hex()}): unpack(pack(s)) != s")


def op_cds_new(a):
    if a.get("factory") == "empty":
        if a["days"] != 0 or a["ms"] != 0:
            raise InfraError("malformed line: empty() is documented as day 0, millisecond 0")
        other = _raw(0x40, 30000, 1000)

        def reuse(s):
            s.read_from_raw(other)
            s + timedelta(days=1, seconds=1)
        err = core.factory_independent(CdsShortTimestamp.empty, _detached_view, reuse, "CdsShortTimestamp.empty()")
        if err is not None:
            raise SelfCheckFailure(err)
        return _stamp_payload(CdsShortTimestamp.empty())
    if a.get("src"):
        s, what = _sourced_stamp(a)
        _packed_form(s, f"pack() of {what}")
        return _floored_payload(s) if _src_views(a["src"]) is FLOOR_VIEWS else _stamp_payload(s)
    s = CdsShortTimestamp(a["days"], a["ms"])
    if int(s.len_packed) != 7:
        raise SelfCheckFailure("len_packed != 7")
    if not (s == CdsShortTimestamp(a["days"], a["ms"])):
        raise SelfCheckFailure("two stamps with the same fields are not ==")
    return _stamp_payload(s)


def op_cds_pack(a):
    if a.get("src"):
        s, what = _sourced_stamp(a)
        raw = _packed_form(s, f"pack() of {what}")
    else:
        s = CdsShortTimestamp(a["days"], a["ms"])
        raw = core.pack_stable(s, "CdsShortTimestamp.pack()")
    if len(raw) != int(s.len_packed):
        raise SelfCheckFailure("len(pack()) != len_packed")
    if bytes(s.pfield) != raw[:1]:
        raise SelfCheckFailure("pfield property differs from the packed P-field")
    s2 = CdsShortTimestamp.unpack(raw)
    _ISO.check("CdsShortTimestamp", s2, _stamp_view)
    if not (s2 == s) or (int(s2.ccsds_days), int(s2.ms_of_day)) != (a["days"], a["ms"]):
        raise SelfCheckFailure("unpack(pack(s)) != s")
    return {"raw": hx(raw)}


def op_cds_unpack(a):
    raw = unhx(a["raw"])
    s = CdsShortTimestamp.unpack(raw)
    # stamps decoded by earlier calls must still show what they showed then
    _ISO.check("CdsShortTimestamp", s, _stamp_view)
    if "alt_p" in a:
        _decode_any_preamble(a["alt_p"], raw[1:], a["alt_old"])
    if a.get("hist"):
        h = a["hist"]
        old = _old_stamp(h)
        old.read_from_raw(bytearray(raw) if h["ms"] & 1 else raw)
        _as_fresh(old, s, f"read_from_raw({raw.hex()}) into a stamp that was ({h['days']}, {h['ms']}) and had been read")
        return _stamp_payload(old)
    d, ms = CdsShortTimestamp.unpack_from_raw(raw)
    if (int(d), int(ms)) != (int(s.ccsds_days), int(s.ms_of_day)):
        raise SelfCheckFailure("unpack_from_raw and unpack disagree")
    e = CdsShortTimestamp.empty()
    e.pack()    # a stamp that was packed before it is re-read must not keep its old packed form
    e.read_from_raw(raw)
    if not (e == s):
        raise SelfCheckFailure("read_from_raw and unpack disagree")
    packed = _packed_form(s, "pack() of a decoded stamp")
    if raw[0] == 0x40 and packed != raw[:7]:
        raise SelfCheckFailure("pack(unpack(b)) != b[:7]")
    if bytes(e.pack()) != packed:
        raise SelfCheckFailure("pack() after read_from_raw differs from pack() of the stamp unpack returns")
    if zlib.crc32(raw) & 7 == 0:
        # (one decoded stamp in eight, chosen by the octets: the sweeps decode ~150 000 stamps)
        # decoded out of a receive buffer (a bytearray) that the receiver reuses afterwards: the stamp is still the one
        # that was on the wire - through unpack and through read_from_raw
        core.check_detached(CdsShortTimestamp.unpack, raw, _detached_view, "CdsShortTimestamp.unpack", expect=_detached_view(s),
                            memview=core.accepts_memoryview(CdsShortTimestamp.unpack))
        core.check_detached(_read_from_raw, raw, _detached_view, "CdsShortTimestamp.read_from_raw", expect=_detached_view(s),
                            memview=core.accepts_memoryview(CdsShortTimestamp.read_from_raw))
    return _stamp_payload(s)


def _read_from_raw(buf):
    e = CdsShortTimestamp.empty()
    e.read_from_raw(buf)
    return e


def _detached_view(s) -> Dict[str, Any]:
    v = _stamp_view(s)
    v["raw"] = hx(s.pack())
    return v


def op_cds_from_dt(a):
    us = a["us"]
    dt = E1970 + timedelta(microseconds=us)
    s = CdsShortTimestamp.from_datetime(dt)
    view = _dt_view(s)
    return {"days": int(s.ccsds_days), "ms": int(s.ms_of_day),
            "unix_ms": _nearest(s.as_unix_seconds(), 1_000_000) // 1000,
            "dt_ms": _dt_us(view) // 1000}


def op_cds_add(a):
    td = timedelta(days=a["td_days"], seconds=a["td_s"], microseconds=a["td_us"])
    if (td.days, td.seconds, td.microseconds) != (a["td_days"], a["td_s"], a["td_us"]):
        raise InfraError(f"generator produced a non-normalised timedelta: {a}")
    if a.get("src"):
        return _add_from_source(a, td)
    if a.get("hist"):
        h = a["hist"]
        s = _old_stamp(h)
        if h["how"] == "read":
            s.read_from_raw(_raw(0x40, a["days"], a["ms"]))
        elif h["how"] == "add":
            gap = (a["days"] - h["days"]) * MS + a["ms"] - h["ms"]
            if gap < 0:
                raise InfraError("malformed line: the history lies after the stamp of the line")
            s + timedelta(milliseconds=gap)
        else:
            raise InfraError(f"malformed line: how={h['how']!r}")
        what = f"a stamp that was ({h['days']}, {h['ms']}), had been read and was brought to ({a['days']}, {a['ms']}) in place ({h['how']})"
        _as_fresh(s, CdsShortTimestamp(a["days"], a["ms"]), what)
        _refused_first(a, s, what)
        r = _add_or_intact(s, td, a["days"], a["ms"], what)
        _as_fresh(r, CdsShortTimestamp(a["days"], a["ms"]) + td, what + f" + {td!r}")
        return _stamp_payload(r)
    s = CdsShortTimestamp(a["days"], a["ms"])
    s.pack()    # a stamp that was packed before the addition: the sum must not keep the old packed form
    what = f"CdsShortTimestamp({a['days']}, {a['ms']})"
    _refused_first(a, s, what)
    r = _add_or_intact(s, td, a["days"], a["ms"], what)
    _packed_form(r, "pack() of stamp + timedelta")
    return _stamp_payload(r)


def op_cds_day_offsets(a):
    d = a["d"]
    s = CdsShortTimestamp.from_unix_days(d, a["ms"])
    return {"ccsds": int(tcommon.convert_unix_days_to_ccsds_days(d)),
            "unix": int(tcommon.convert_ccsds_days_to_unix_days(d)),
            "fud_days": int(s.ccsds_days), "fud_ms": int(s.ms_of_day)}


# the day / millisecond sweeps decode ~150 000 stamps: they look back one object only (run time)
_ISO = core.Isolation(keep=1)

OPS = {
    "cds_new": op_cds_new, "cds_pack": op_cds_pack, "cds_unpack": op_cds_unpack,
    "cds_from_dt": op_cds_from_dt, "cds_add": op_cds_add, "cds_day_offsets": op_cds_day_offsets,
}

DAY_POOL = [0, 1, 2, 255, 256, 4382, 4383, 4384, 32767, 32768, 65534, 65535]
MS_POOL = [0, 1, 2, 999, 1000, 1001, 255, 256, 65535, 65536, 16777215, 16777216, 43_199_999, 43_200_000,
           86_398_999, 86_399_000, 86_399_001, 86_399_998, 86_399_999]


def _raw(p: int, d: int, ms: int) -> bytes:
    return bytes([p]) + d.to_bytes(2, "big") + ms.to_bytes(4, "big")


def _pfield_refused(p: int) -> bool:
    """what the decoder documents as refused: time code id != 100 or the 24-bit day flag"""
    return (p >> 4) & 0b111 != 0b100 or (p >> 2) & 1 == 1


def _classify_raw(raw: bytes) -> Optional[str]:
    """'valid' / 'invalid' / None (not claimed either way: DESIGN.md section 8)"""
    if len(raw) < 7:
        return "invalid"
    if _pfield_refused(raw[0]):
        return "invalid"
    if raw[0] != 0x40:
        return None
    if int.from_bytes(raw[3:7], "big") >= MS:
        return None
    return "valid"


def _suffix(rng: random.Random) -> bytes:
    return rbytes(rng, rng.choice([0, 0, 0, 1, 2, 7, 30]))


def _td_fields(total_us: int) -> Tuple[int, int, int]:
    td = timedelta(microseconds=total_us)
    return td.days, td.seconds, td.microseconds


def _add_case(days: int, ms: int, td: Tuple[int, int, int], tag: str, hist: Optional[Dict[str, Any]] = None,
              src: Optional[Dict[str, Any]] = None, refused: Optional[List[List[int]]] = None) -> Case:
    tdays, ts, tus = td
    t = days * MS + ms + tdays * MS + ts * 1000 + tus // 1000
    op = {"op": "cds_add", "days": days, "ms": ms, "td_days": tdays, "td_s": ts, "td_us": tus}
    if hist is not None:
        op["hist"] = hist
    if src is not None:
        op["src"] = src
    if refused:
        op["refused"] = [list(x) for x in refused]
    if t // MS > MAX_DAYS:
        return Case(op, "invalid", errclass=True, tag=tag + "-overflow")
    return Case(op, "valid", tag=tag)


class C14(Prop):
    id = "C14"
    title = "CDS short timestamps encode exactly and agree with calendar arithmetic"
    lean_modules = ["SpVerif.Props.C14"]
    exhaustive_note = ("all 65 536 day counts through pack and through unpack (millisecond values cycling through a "
                       "boundary pool and random values); all 256 values of each of the four millisecond octets "
                       "(restricted to ms < 86 400 000); all 256 P-field octets except the 15 that differ from 0x40 "
                       "only in bits the decoder does not document (not claimed either way); all 256 first octets "
                       "through unpack and through read_from_raw into a used stamp: the 240 wrong ones refused, and whatever "
                       "object a decoder hands back packs to 0x40 | its days | its ms with pfield 0x40; every truncation "
                       "0..6 of sampled stamps")
    trusted_base = [
        "IEEE-754 double evaluation inside as_unix_seconds() and CPython datetime/timedelta arithmetic: the views "
        "are converted to exact integers by harness/props/c14.py and compared with the model's integer unixMs",
        "CPython timedelta normalisation (days floored, 0 <= seconds < 86400, 0 <= microseconds < 10^6): modelled "
        "by TimeDelta.ofMicros, tied by the from_datetime / add cases",
        "arithmetic normal form of the P-field tests vs shifts/masks of the code: tied by the P-field sweep",
    ]
    assumptions = [
        "P-fields 0x41-0x43, 0x48-0x4B, 0xC0-0xC3, 0xC8-0xCB and decoded millisecond values >= 86 400 000 are "
        "accepted by the code and the model; the statement does not claim them either way (acceptance or refusal of the "
        "15 preambles is not compared; only: an object that a decoder returns for them is a CDS short stamp, P-field "
        "0x40 when packed)",
        "stamp + timedelta floors the timedelta (microseconds // 1000 of CPython's normalised fields = floor of the "
        "total microseconds / 1000, days >= 0) and nothing else: the stamp is its (days, ms) pair for every source "
        "(constructor, unpack, read_from_raw, from_unix_days, from_datetime of any datetime of that millisecond, now(), "
        "an earlier addition); time views of stamps out of from_datetime()/now() are compared floored to the millisecond",
        "naive datetimes, non-UTC time zones, negative timedeltas and stamps constructed outside 0..65535 / "
        "0..86399999 are outside the statement; ms_of_today is a float helper outside the statement",
    ]

    def impl_ops(self):
        return OPS

    def table_sync(self) -> List[str]:
        d = []
        exp = [(tcommon, "DAYS_CCSDS_TO_UNIX", -4383), (tcommon, "SECONDS_PER_DAY", 86400),
               (tcommon, "MS_PER_DAY", 86400000), (CdsShortTimestamp, "TIMESTAMP_SIZE", 7),
               (CdsShortTimestamp, "CDS_SHORT_ID", 4)]
        for obj, k, v in exp:
            if getattr(obj, k, None) != v:
                d.append(f"{getattr(obj, '__name__', obj)}.{k}={getattr(obj, k, None)!r} model={v}")
        try:
            if int(tcommon.CcsdsTimeCodeId.CDS) != 4:
                d.append("CcsdsTimeCodeId.CDS != 4")
            if sorted(int(x) for x in tcds.LenOfDaysSegment) != [0, 1]:
                d.append("LenOfDaysSegment members")
            if int(tcds.LenOfDaysSegment.DAYS_16_BITS) != 0:
                d.append("LenOfDaysSegment.DAYS_16_BITS != 0")
        except AttributeError as e:
            d.append(f"enum missing: {e}")
        # the calendar facts the theorems decide, against CPython's calendar
        if (E1970 - E1958).days != 4383:
            d.append("1958-01-01..1970-01-01 is not 4383 days")
        if E1958 + timedelta(days=65535) != datetime(2137, 6, 6, tzinfo=UTC):
            d.append("day 65535 is not 2137-06-06")
        return d

    def nontrivial(self, c: Case) -> bool:
        o = c.op
        if "raw" in o:
            return o["raw"][2:].strip("0") != ""
        return any(v not in (0, None, False, "") for k, v in o.items() if k != "op")

    def neighbours(self, c: Case, rng: random.Random) -> Iterator[Case]:
        o = c.op
        if o["op"] == "cds_unpack":
            raw = unhx(o["raw"])
            for n in range(len(raw)):
                cl = _classify_raw(raw[:n])
                if cl:
                    yield Case({"op": "cds_unpack", "raw": hx(raw[:n])}, cl, tag="nb-trunc")
        elif o["op"] in ("cds_new", "cds_pack", "cds_add"):
            for dd in (-1, 0, 1):
                for dm in (-1, 0, 1):
                    d, m = o["days"] + dd, o["ms"] + dm
                    if 0 <= d <= MAX_DAYS and 0 <= m < MS:
                        yield Case({"op": "cds_new", "days": d, "ms": m}, "valid", tag="nb")
                        yield Case({"op": "cds_pack", "days": d, "ms": m}, "valid", tag="nb")
        elif o["op"] == "cds_from_dt":
            for k in (-1000, -1, 1, 1000):
                if US_LO <= o["us"] + k <= US_HI:
                    yield Case({"op": "cds_from_dt", "us": o["us"] + k}, "valid", tag="nb")

    def cases(self, rng: random.Random, tier: str) -> Iterator[Case]:
        thorough = tier == "thorough"
        mult = 10 if thorough else 1

        def rms() -> int:
            return rng.choice(MS_POOL) if rng.random() < 0.3 else rng.randrange(MS)

        def rdays() -> int:
            return rng.choice(DAY_POOL) if rng.random() < 0.3 else rng.randint(0, MAX_DAYS)

        def old_fields():
            return {"days": rng.choice([1, 30000, 65535, rng.randint(1, MAX_DAYS)]), "ms": rng.choice([1, 1000, MS - 1, rng.randrange(1, MS)])}

        # --- exhaustive: every day count through pack and unpack (+ suffix) -------------------
        for d in range(MAX_DAYS + 1):
            ms = MS_POOL[d % len(MS_POOL)] if d % 2 else rng.randrange(MS)
            yield Case({"op": "cds_pack", "days": d, "ms": ms}, "valid", tag="day-sweep")
            ms2 = rms()
            yield Case({"op": "cds_unpack", "raw": hx(_raw(0x40, d, ms2) + rbytes(rng, d % 3))}, "valid", tag="day-sweep")
            if thorough or d % 8 == 0:
                yield Case({"op": "cds_new", "days": d, "ms": rms()}, "valid", tag="day-sweep")
        # --- every value of each millisecond octet (within the millisecond-of-day range) -------
        for pos in range(4):
            for v in range(6 if pos == 0 else 256):   # 86 399 999 = 0x05265BFF
                for _ in range((40 if pos == 0 else 2) * mult):
                    b = bytearray(rng.randrange(MS).to_bytes(4, "big"))
                    b[pos] = v
                    ms = int.from_bytes(b, "big")
                    if ms >= MS:
                        continue
                    d = rdays()
                    yield Case({"op": "cds_unpack", "raw": hx(_raw(0x40, d, ms) + _suffix(rng))}, "valid", tag=f"ms-octet{pos}-sweep")
                    yield Case({"op": "cds_pack", "days": d, "ms": ms}, "valid", tag=f"ms-octet{pos}-sweep")
        # --- every P-field octet ------------------------------------------------------------------
        for rep in range(4 * mult):
            for p in range(256):
                raw = _raw(p, rdays(), rms()) + (_suffix(rng) if rep else b"")
                cl = _classify_raw(raw)
                if cl is None:
                    continue
                yield Case({"op": "cds_unpack", "raw": hx(raw)}, cl, tag="pfield-sweep-" + cl)
        # every first octet again, in front of the day / millisecond octets of a canonical stamp (key "alt_p"): what either
        # decoder hands back for ANY first octet is a CDS short stamp (P-field 0x40 when packed); the 240 wrong ones are
        # refused by read_from_raw as well
        for rep in range(2 * mult):
            for p in range(256):
                d, ms = (rdays(), rms()) if rep else rng.choice([(0, 0), (0x0102, 0x03040506), (MAX_DAYS, MS - 1), (4382, MS - 1)])
                yield Case({"op": "cds_unpack", "raw": hx(_raw(0x40, d, ms) + (_suffix(rng) if rep else b"")), "alt_p": p,
                            "alt_old": old_fields()}, "valid", tag="pfield-any-object")
        # --- boundary pools -----------------------------------------------------------------------
        for d in DAY_POOL:
            for ms in MS_POOL:
                yield Case({"op": "cds_new", "days": d, "ms": ms}, "valid", tag="boundary")
                yield Case({"op": "cds_pack", "days": d, "ms": ms}, "valid", tag="boundary")
                yield Case({"op": "cds_unpack", "raw": hx(_raw(0x40, d, ms) + _suffix(rng))}, "valid", tag="boundary")
        # --- short input: every truncation; random octet strings ------------------------------------
        for _ in range(60 * mult):
            raw = _raw(0x40, rdays(), rms())
            for n in range(7):
                yield Case({"op": "cds_unpack", "raw": hx(raw[:n])}, "invalid", tag="short")
        for _ in range(3000 * mult):
            raw = rbytes(rng, rng.randint(0, 12))
            if len(raw) >= 1 and rng.random() < 0.5:
                raw = bytes([rng.choice([0x40, 0x40, 0x44, 0x00, 0x50, 0x30, 0x60, 0xC4, 0x4C])]) + raw[1:]
            cl = _classify_raw(raw)
            if cl is None:
                continue
            yield Case({"op": "cds_unpack", "raw": hx(raw)}, cl, tag="random-octets-" + cl)
        # --- random pairs ---------------------------------------------------------------------------
        for i in range(15000 * mult):
            d, ms = rdays(), rms()
            yield Case({"op": "cds_new", "days": d, "ms": ms}, "valid", tag="random")
            if i % 3 == 0:
                yield Case({"op": "cds_pack", "days": d, "ms": ms}, "valid", tag="random")
        # --- back-to-back decodes of stamps that differ in every field bit (a stamp decoded earlier must not follow a
        #     later decode), interleaved with encodes ------------------------------------------------------------
        for _ in range(300 * mult):
            d, ms = rdays(), rms()
            d2, ms2 = d ^ 0xFFFF, (ms ^ 0x7FFFFFF) % MS
            yield Case({"op": "cds_unpack", "raw": hx(_raw(0x40, d, ms))}, "valid", tag="complement-pair")
            yield Case({"op": "cds_unpack", "raw": hx(_raw(0x40, d2, ms2) + _suffix(rng))}, "valid", tag="complement-pair")
            yield Case({"op": "cds_pack", "days": d, "ms": ms}, "valid", tag="complement-pair")
            yield Case({"op": "cds_pack", "days": d2, "ms": ms2}, "valid", tag="complement-pair")
        # --- stamps re-used in place (key "hist"): read_from_raw into a stamp that held other values, additions on a stamp
        #     that got its values in place; new field values 0 / boundary values over old non-zero ones and vice versa ---------
        for d in [0, 0, 1, 4383, 65535] + [rdays() for _ in range(12 * mult)]:
            for ms in [0, 0, 1, 1000, MS - 1] + [rms() for _ in range(3)]:
                yield Case({"op": "cds_unpack", "raw": hx(_raw(0x40, d, ms) + _suffix(rng)), "hist": old_fields()}, "valid", tag="reused-read")
        for h in ({"days": 0, "ms": 0}, {"days": 0, "ms": 5}, {"days": 7, "ms": 0}):
            for d, ms in ((0, 0), (30000, 1000), (0, 777), (30001, 0), (65535, MS - 1)):
                yield Case({"op": "cds_unpack", "raw": hx(_raw(0x40, d, ms)), "hist": dict(h)}, "valid", tag="reused-read")
        for i in range(150 * mult):
            d = rng.choice([0, 0, 1, 4383, 65534, 65535]) if rng.random() < 0.4 else rng.randint(0, MAX_DAYS)
            ms = rng.choice([0, 0, 1, MS - 1000, MS - 1]) if rng.random() < 0.5 else rms()
            if i % 2:
                h = {**old_fields(), "how": "read"}
            else:
                d0 = rng.randint(max(d - 3, 0), d)
                h = {"days": d0, "ms": rng.randrange(0, ms + 1) if d0 == d else rng.randrange(MS), "how": "add"}
            rem = MS - ms
            for delta in (0, -1, 1):
                k = rng.choice([0, 0, 1, rng.randint(0, 400)])
                tot_ms = k * MS + rem + delta
                yield _add_case(d, ms, _td_fields(tot_ms * 1000 + rng.choice([0, 0, 1, 500, 999])), "reused-add-midnight", hist=dict(h))
            yield _add_case(d, ms, (rng.choice([0, 1, MAX_DAYS - d, MAX_DAYS - d + 1]), rng.randint(0, 86399), rng.randint(0, 999_999)),
                            "reused-add-random", hist=dict(h))
            yield _add_case(d, ms, (0, 0, rng.choice([0, 999])), "reused-add-zero", hist=dict(h))
        # the factory of the all-zero stamp
        yield Case({"op": "cds_new", "days": 0, "ms": 0, "factory": "empty"}, "valid", tag="factory-empty")
        # --- day offsets ----------------------------------------------------------------------------
        for d in [-4383, -4382, -1, 0, 1, 4382, 4383, 4384, 61151, 61152] + [rng.randint(-4383, 61152) for _ in range(200 * mult)]:
            yield Case({"op": "cds_day_offsets", "d": d, "ms": rms()}, "valid", tag="day-offsets")
        # --- from_datetime ----------------------------------------------------------------------------
        specials = set()
        for base in (US_LO, 0, US_HI + 1, -DAY_US, DAY_US, -1000 * DAY_US, 365 * DAY_US, US_LO + DAY_US, US_HI + 1 - DAY_US):
            for k in (-1_000_001, -1_000_000, -999_999, -1001, -1000, -999, -501, -500, -499, -2, -1, 0,
                      1, 2, 499, 500, 501, 999, 1000, 1001, 999_999, 1_000_000, 1_000_001):
                specials.add(base + k)
        for us in sorted(specials):
            if US_LO <= us <= US_HI:
                yield Case({"op": "cds_from_dt", "us": us}, "valid", tag="dt-special")
        for i in range(12000 * mult):
            kind = i % 6
            if kind == 0:      # before 1970, uniform
                us = rng.randint(US_LO, -1)
            elif kind == 1:    # after 1970, uniform
                us = rng.randint(0, US_HI)
            elif kind == 2:    # whole millisecond +- {0, 1, 999, 500} microseconds, mostly before 1970
                lo, hi = (US_LO, -1) if rng.random() < 0.6 else (0, US_HI)
                us = rng.randint(lo, hi) // 1000 * 1000 + rng.choice([0, 0, 1, 999, 500, 499, 501, 998, 2])
            elif kind == 3:    # 23:59:59.999xxx
                day = rng.randint(-OFFSET, MAX_DAYS - OFFSET)
                us = day * DAY_US + 86_399_999_000 + rng.choice([0, 1, 500, 998, 999, rng.randint(0, 999)])
            elif kind == 4:    # 00:00:00.000xxx and the last second of a day
                day = rng.randint(-OFFSET, MAX_DAYS - OFFSET)
                us = day * DAY_US + rng.choice([0, 1, 999, 1000, 1001, 86_399_000_000 + rng.randint(0, 999_999)])
            else:              # x.xx1 / x.xx9 ms
                day = rng.randint(-OFFSET, MAX_DAYS - OFFSET) if rng.random() < 0.5 else rng.randint(-OFFSET, -1)
                us = day * DAY_US + (rng.randrange(86_400_00) * 10 + rng.choice([1, 9])) * 1000 + rng.choice([0, 0, 1, 999, rng.randint(0, 999)])
            us = min(max(us, US_LO), US_HI)
            yield Case({"op": "cds_from_dt", "us": us}, "valid", tag=f"dt-kind{kind}")
        # --- stamp + timedelta -------------------------------------------------------------------------
        sub_ms = [0, 0, 1, 500, 999]
        for i in range(5000 * mult):
            d = rng.choice([0, 4382, 4383, 65533, 65534, 65535]) if rng.random() < 0.4 else rng.randint(0, MAX_DAYS)
            ms = rms()
            rem = MS - ms   # milliseconds to the next midnight
            room = MAX_DAYS - d
            # landing exactly on / just before / just after midnight, with and without whole days
            for delta, nm in ((0, "on"), (-1, "before"), (1, "after")):
                k = rng.choice([0, 0, 1, rng.randint(0, 400)])
                tot_ms = k * MS + rem + delta
                if tot_ms < 0:
                    continue
                yield _add_case(d, ms, _td_fields(tot_ms * 1000 + rng.choice(sub_ms)), f"add-midnight-{nm}")
            # landing on day 65534 / 65535 / 65536 at, before, after midnight
            for kd in (room - 1, room, room + 1):
                for delta in rng.sample([-1, 0, 1], 1 if i % 4 else 3):
                    tot_ms = kd * MS - ms + delta + rng.choice([0, 0, MS - 1, rng.randrange(MS)])
                    if tot_ms < 0:
                        continue
                    yield _add_case(d, ms, _td_fields(tot_ms * 1000 + rng.choice(sub_ms)), "add-last-day")
            # arbitrary non-negative timedeltas
            tdays = rng.choice([0, 0, 1, room, room + 1, rng.randint(0, 70000), rng.randint(0, max(room, 0))])
            yield _add_case(d, ms, (max(tdays, 0), rng.randint(0, 86399), rng.randint(0, 999_999)), "add-random")
            if i % 10 == 0:
                yield _add_case(d, ms, (0, 0, 0), "add-zero")
                yield _add_case(d, ms, (0, 0, rng.randint(0, 999)), "add-sub-ms")
                yield _add_case(d, ms, (0, 86399, 999_999), "add-max-subday")
                yield _add_case(d, ms, (rng.choice([65536, 10 ** 6, 999_999_999]), rng.randint(0, 86399), rng.randint(0, 999_999)), "add-huge")
        # --- the SOURCE of the stamp (key "src"): the same (days, ms) out of the constructor, a decoder, from_unix_days,
        #     from_datetime of every datetime of that millisecond, an earlier addition; timedeltas whose sub-millisecond part
        #     would carry if the stamp had a hidden sub-millisecond part of its own --------------------------------------------
        rem_pool = [0, 1, 500, 999, 700]

        def a_source(rem=None):
            k = rng.randrange(7)
            if k == 0:
                return {"how": "unpack", "buf": rng.choice(["bytes", "bytearray"])}
            if k == 1:
                return {"how": "read", "old": old_fields()}
            if k == 2:
                return {"how": "from_unix_days"}
            if k == 3:
                return {"how": "new"}
            return {"how": "from_dt", "rem_us": rng.choice(rem_pool + [rng.randint(0, 999)]) if rem is None else rem}

        def with_pre(src, d, ms, n):
            """`src` extended so that it starts n additions before (d, ms); None if there is no room before (d, ms)"""
            pre, t = [], d * MS + ms
            for _ in range(n):
                g = rng.choice([0, 1, 2, 1000, rng.randrange(MS), MS, rng.randrange(3 * MS)])
                g = min(g, t)
                t -= g
                pre.insert(0, list(_td_fields(g * 1000 + rng.choice([0, 1, 400, 999, 999, 600]))))
            d0, ms0 = divmod(t, MS)
            return {**src, "start": {"days": d0, "ms": ms0}, "pre": pre}

        positions = [(24170, 43_200_000), (24170, MS - 2), (24170, MS - 1), (24171, 0), (4382, MS - 2), (4382, MS - 1), (0, 0),
                     (MAX_DAYS, 0), (MAX_DAYS, MS - 2), (MAX_DAYS, MS - 1), (MAX_DAYS - 1, MS - 1), (rdays(), rms()), (rdays(), rms())]
        td_us_pool = [0, 1, 400, 500, 999, 1000, 1001, 1400, 1999, 999_999]
        for d, ms in positions:
            for tus in td_us_pool:
                # from_datetime of every datetime of the millisecond
                for rem in rem_pool:
                    yield _add_case(d, ms, (0, 0, tus), "src-from-dt", src={"how": "from_dt", "rem_us": rem})
                # the other sources; the result of an earlier addition (with a sub-millisecond timedelta of its own)
                if tus in (1, 999, 1000, 1400, 999_999):
                    for src in ({"how": "unpack"}, {"how": "unpack", "buf": "bytearray"}, {"how": "read", "old": old_fields()},
                                {"how": "from_unix_days"}, with_pre({"how": "new"}, d, ms, 1),
                                with_pre({"how": "from_dt", "rem_us": rng.choice([1, 500, 999])}, d, ms, 1)):
                        yield _add_case(d, ms, (0, 0, tus), "src-" + src["how"] + ("-then-add" if "pre" in src else ""), src=src)
            # whole days and seconds on top: the same millisecond arithmetic, landing on the last day
            room = MAX_DAYS - d
            for rem in (0, 1, 999):
                for tdf in ((room, 0, 1400), (room, 0, 999), (room + 1, 0, 0), (max(room - 1, 0), 86399, 999_999), (1, 1, 1001)):
                    yield _add_case(d, ms, tdf, "src-from-dt-days", src={"how": "from_dt", "rem_us": rem})
            # the stamp seen through pack() and through its views
            for src in [{"how": "from_dt", "rem_us": r} for r in rem_pool] + [
                    {"how": "unpack"}, {"how": "read", "old": old_fields()}, {"how": "from_unix_days"},
                    with_pre({"how": "new"}, d, ms, 1), with_pre({"how": "from_dt", "rem_us": 999}, d, ms, 2)]:
                yield Case({"op": "cds_pack", "days": d, "ms": ms, "src": src}, "valid", tag="src-pack")
                yield Case({"op": "cds_new", "days": d, "ms": ms, "src": src}, "valid", tag="src-views")
        # chains of two additions from a datetime-built stamp: hidden remainder r1, first timedelta r2, second timedelta r3
        for d0, ms0 in ((24170, 43_200_000), (24170, MS - 3), (MAX_DAYS, MS - 3), (4382, MS - 3)):
            for rem in rem_pool:
                for us1 in (1, 400, 999, 1400):
                    for us2 in (1, 600, 999, 1400):
                        d, ms = divmod(d0 * MS + ms0 + us1 // 1000, MS)
                        yield _add_case(d, ms, (0, 0, us2), "src-chain",
                                        src={"how": "from_dt", "rem_us": rem, "start": {"days": d0, "ms": ms0}, "pre": [[0, 0, us1]]})
        for i in range(500 * mult):
            d = rng.choice([0, 4382, 4383, 65534, 65535]) if rng.random() < 0.3 else rng.randint(0, MAX_DAYS)
            ms = rng.choice([MS - 1, MS - 2, MS - 1000, 0]) if rng.random() < 0.3 else rms()
            src = a_source()
            if i % 3 == 0:
                src = with_pre(src, d, ms, rng.choice([1, 2]))
            kind = i % 4
            if kind == 0:       # around the next midnight
                tot_us = (rng.choice([0, 0, 1, rng.randint(0, 400)]) * MS + MS - ms + rng.choice([-2, -1, 0, 1])) * 1000
            elif kind == 1:     # around the end of day 65535
                tot_us = ((MAX_DAYS - d) * MS + MS - ms + rng.choice([-2, -1, 0])) * 1000
            elif kind == 2:     # below two milliseconds
                tot_us = 0
            else:
                tot_us = rng.randrange(0, 3 * DAY_US)
            tot_us = max(tot_us, 0) + rng.choice([0, 1, 400, 500, 999, 1400, 1999, rng.randint(0, 1999)])
            yield _add_case(d, ms, _td_fields(tot_us), "src-random-" + src["how"] + ("-then-add" if "pre" in src else ""), src=src)
        for tus in (1, 999, 1400, 999_999):
            yield _add_case(24170, 1, (0, 0, tus), "src-now", src={"how": "now"})
        yield _add_case(24170, 1, (70000, 0, 999), "src-now", src={"how": "now"})
        yield _add_case(24170, 1, (65536, 86399, 999_999), "src-now", src={"how": "now"})
        # --- refused additions (every line above whose answer is OverflowError looks at the operand afterwards); here: the
        #     refusal by the carry alone, by the days alone, by both, from every source, and (key "refused") followed by a
        #     valid addition on the same object ---------------------------------------------------------------------------
        def refusals(d, ms):
            """timedeltas that take (d, ms) out of the range: by the carry only (last day), by the days only, by both"""
            room = MAX_DAYS - d
            out = [(room + 1, 0, 0), (room + 1, 0, 999), (room, 0, (MS - ms) * 1000), (room, 0, (MS - ms) * 1000 + 999),
                   (room, 86399, 999_999) if ms > 0 else (room + 1, 0, 1), (room + 1000, 1, 1000), (10 ** 6, 0, 0)]
            return [_td_fields(x[0] * DAY_US + x[1] * 1_000_000 + x[2]) for x in out]

        def sources(d, ms):
            return [None, {"how": "new"}, {"how": "unpack"}, {"how": "unpack", "buf": "bytearray"}, {"how": "read", "old": old_fields()},
                    {"how": "from_unix_days"}, {"how": "from_dt", "rem_us": 0}, {"how": "from_dt", "rem_us": 999},
                    {"how": "from_dt", "rem_us": rng.choice([1, 500, 700])}, with_pre({"how": "new"}, d, ms, 1),
                    with_pre({"how": "from_dt", "rem_us": 999}, d, ms, 2)]

        def histories(d, ms):
            d0 = max(d - 2, 0)
            return [{**old_fields(), "how": "read"},
                    {"days": d0, "ms": rng.randrange(0, ms + 1) if d0 == d else rng.randrange(MS), "how": "add"}]

        spots = [(MAX_DAYS, MS - 1), (65000, 5), (MAX_DAYS, MS - 5), (MAX_DAYS, 0), (100, 0), (MAX_DAYS - 1, MS - 1), (0, 0),
                 (4382, MS - 1), (24170, 43_200_000)] + [(rdays(), rms()) for _ in range(4 * mult)]
        for d, ms in spots:
            rf = refusals(d, ms)
            if (d, ms) == (MAX_DAYS, MS - 1):
                rf.insert(0, (0, 0, 1000))            # day 65535, 23:59:59.999 + 1 ms
            if (d, ms) == (65000, 5):
                rf.insert(0, (1000, 0, 1000))         # (65000, 5) + 1000 d 1 ms
            room_ms = (MAX_DAYS - d) * MS + MS - 1 - ms     # what still fits
            valid_after = [(0, 0, 0), (0, 0, 999), _td_fields(room_ms * 1000 + 999), _td_fields(rng.randint(0, room_ms) * 1000 + rng.choice([0, 1, 999]))]
            for j, tdf in enumerate(rf):
                for src in sources(d, ms):
                    yield _add_case(d, ms, tdf, "refused-" + (src["how"] if src else "plain"), src=src)
                for h in histories(d, ms):
                    yield _add_case(d, ms, tdf, "refused-hist-" + h["how"], hist=h)
            for va in valid_after:
                for src in sources(d, ms):
                    yield _add_case(d, ms, va, "refused-then-valid", src=src, refused=rng.sample(rf, rng.choice([1, 1, 2])))
                for h in histories(d, ms):
                    yield _add_case(d, ms, va, "refused-then-valid", hist=h, refused=[rng.choice(rf)])
            # a refusal, then an addition that is refused as well
            yield _add_case(d, ms, rf[0], "refused-twice", refused=[rf[-1], rf[1]])
        for d in DAY_POOL:
            for ms in MS_POOL:
                for tdf in ((0, 0, (MS - ms) * 1000 % DAY_US), (0, 0, max((MS - ms) * 1000 - 1, 0) % DAY_US), (1, 0, 0), (0, 0, 999), (0, 0, 1000)):
                    if tdf[2] >= 1_000_000:
                        tdf = _td_fields(tdf[0] * DAY_US + tdf[1] * 1_000_000 + tdf[2])
                    yield _add_case(d, ms, tdf, "add-boundary")


PROP = C14()
