"""C06, part 'fixed' — file-directive base class, ACK, Prompt, Keep Alive and NAK PDUs (CCSDS 727.0-B-5 §5.2).

Exposes `PART` (loaded by props/c06.py). The other part (EOF, Finished, Metadata) is props/c06_var.py.
"""
import random
import struct
import zlib
from typing import Any, Dict, Iterator, List, Optional

import core
from core import Case, Prop, SelfCheckFailure, pack_stable, ISOLATION
from gen import hx, unhx, pool, rbytes
from props.c05 import shared_conf, conf_untouched, contrast_conf, decoded_alone

from spacepackets.cfdp.conf import PduConfig
from spacepackets.cfdp.defs import (
    PduType, Direction, TransmissionMode, CrcFlag, LargeFileFlag, SegmentationControl, ConditionCode,
    SegmentMetadataFlag,
)
from spacepackets.cfdp.pdu.file_directive import FileDirectivePduBase, DirectiveType
from spacepackets.cfdp.pdu.ack import AckPdu, TransactionStatus
from spacepackets.cfdp.pdu.prompt import PromptPdu, ResponseRequired
from spacepackets.cfdp.pdu.keep_alive import KeepAlivePdu
from spacepackets.cfdp.pdu.nak import NakPdu, get_max_seg_reqs_for_max_packet_size_and_pdu_cfg
from spacepackets.util import UnsignedByteField
from spacepackets.crc import CRC16_CCITT_FUNC

WIDTHS = [1, 2, 4, 8]
CONF_KEYS = ["src_w", "src_v", "dst_w", "dst_v", "seq_w", "seq_v", "mode", "large", "crc", "dir", "segctrl"]
DIR_CODES = {"eof": 4, "finished": 5, "ack": 6, "metadata": 7, "nak": 8, "prompt": 9, "keep_alive": 12, "none": 10}
COND_MEMBERS = [0, 1, 2, 3, 4, 5, 6, 7, 8, 10, 11, 14, 15]      # ConditionCode without NO_CONDITION_FIELD (-1)
U32 = (1 << 32) - 1
U64 = (1 << 64) - 1


# --------------------------------------------------------------------------------------------
# implementation ops (public API only)
# --------------------------------------------------------------------------------------------
def _conf(a) -> PduConfig:
    # forms.conf = "int" / "bool": the five flags as plain ints / bools of the same value (see props/c05.py `_conf`)
    cf = (a.get("forms") or {}).get("conf")
    _f = (lambda cls, v: int(v)) if cf == "int" else (lambda cls, v: bool(v)) if cf == "bool" else _m
    return PduConfig(source_entity_id=UnsignedByteField(a["src_v"], a["src_w"]),
                     dest_entity_id=UnsignedByteField(a["dst_v"], a["dst_w"]),
                     transaction_seq_num=UnsignedByteField(a["seq_v"], a["seq_w"]),
                     trans_mode=_f(TransmissionMode, a["mode"]), file_flag=_f(LargeFileFlag, a["large"]),
                     crc_flag=_f(CrcFlag, a["crc"]), direction=_f(Direction, a["dir"]),
                     seg_ctrl=_f(SegmentationControl, a["segctrl"]))


def _hdr_fields(h) -> Dict[str, Any]:
    s, d, q = h.source_entity_id, h.dest_entity_id, h.transaction_seq_num
    return {"ptype": _code(PduType, h.pdu_type), "segmeta": _code(SegmentMetadataFlag, h.segment_metadata_flag),
            "dlen": int(h.pdu_data_field_len),
            "src_w": int(s.byte_len), "src_v": int(s.value), "dst_w": int(d.byte_len), "dst_v": int(d.value),
            "seq_w": int(q.byte_len), "seq_v": int(q.value),
            "mode": _code(TransmissionMode, h.transmission_mode), "large": _code(LargeFileFlag, h.file_flag),
            "crc": _code(CrcFlag, h.crc_flag), "dir": _code(Direction, h.direction),
            "segctrl": _code(SegmentationControl, h.seg_ctrl),
            "header_len": int(h.header_len), "packet_len": int(h.packet_len),
            "conf_header_len": int(h.pdu_conf.header_len()), "large_set": bool(h.large_file_flag_set)}


def _fd_fields(fd) -> Dict[str, Any]:
    f = _hdr_fields(fd.pdu_header)
    f.update(code=_code(DirectiveType, fd.directive_type), dir_header_len=int(fd.header_len),
             param_len=int(fd.directive_param_field_len))
    if int(fd.packet_len) != f["packet_len"] or int(fd.pdu_data_field_len) != f["dlen"]:
        raise SelfCheckFailure("file directive base and its header disagree on packet_len / pdu_data_field_len")
    if int(fd.pdu_type) != int(PduType.FILE_DIRECTIVE):
        raise SelfCheckFailure("pdu_type of a file directive is not FILE_DIRECTIVE")
    return f


def _pdu_common(p, code: Optional[int]) -> Dict[str, Any]:
    """fields of the base object of a concrete PDU + consistency of the views the PDU itself offers"""
    f = _fd_fields(p.pdu_file_directive)
    if _hdr_fields(p.pdu_header) != _hdr_fields(p.pdu_file_directive.pdu_header):
        raise SelfCheckFailure("pdu_header differs from pdu_file_directive.pdu_header")
    if int(p.packet_len) != f["packet_len"] or int(p.header_len) != f["dir_header_len"]:
        raise SelfCheckFailure("packet_len / header_len of the PDU differ from those of its base")
    if int(p.pdu_data_field_len) != f["dlen"] or int(p.file_flag) != f["large"] or int(p.crc_flag) != f["crc"]:
        raise SelfCheckFailure("pdu_data_field_len / file_flag / crc_flag views differ from the header")
    if code is not None and _code(DirectiveType, p.directive_type) != code:
        raise SelfCheckFailure(f"directive_type {int(p.directive_type)} != {code}")
    return f


def _ack_fields(p: AckPdu):
    f = _pdu_common(p, DIR_CODES["ack"])
    f.update(acked=_code(DirectiveType, p.directive_code_of_acked_pdu), subtype=int(p.directive_subtype_code),
             cond=_code(ConditionCode, p.condition_code_of_acked_pdu), status=_code(TransactionStatus, p.transaction_status))
    return f


def _prompt_fields(p: PromptPdu):
    f = _pdu_common(p, None)
    f.update(resp=_code(ResponseRequired, p.response_required))
    return f


def _ka_fields(p: KeepAlivePdu):
    f = _pdu_common(p, DIR_CODES["keep_alive"])
    f.update(progress=int(p.progress))
    return f


def _nak_fields(p: NakPdu):
    f = _pdu_common(p, DIR_CODES["nak"])
    f.update(start=int(p.start_of_scope), end=int(p.end_of_scope),
             segs=[[int(s[0]), int(s[1])] for s in p.segment_requests])
    return f


def _check_packed(p, cls, fields, raw: Optional[bytes] = None):
    """the clauses of C06 that are visible on the real code alone (the octets come from pack_stable: packed twice,
    the buffer returned by the first call scribbled over in between)"""
    f = fields(p)
    stable = pack_stable(p, f"{cls.__name__}.pack()")
    if raw is not None and stable != raw:
        raise SelfCheckFailure("pack() twice gives different octets")
    raw = stable
    if len(raw) != f["packet_len"]:
        raise SelfCheckFailure(f"len(pack())={len(raw)} != packet_len={f['packet_len']}")
    hl = f["header_len"]
    if (raw[1] << 8 | raw[2]) != len(raw) - hl:
        raise SelfCheckFailure(f"data-field length in the octets {raw[1] << 8 | raw[2]} != octets after the header {len(raw) - hl}")
    if f["crc"] == 1 and CRC16_CCITT_FUNC(raw) != 0:
        raise SelfCheckFailure("CRC flag set but the trailer is not the CRC-16 of the preceding octets")
    q = cls.unpack(raw)
    if fields(q) != f:
        raise SelfCheckFailure("unpack(pack(x)) has different parameter / header values")
    if not (q == p) or not (p == q):
        raise SelfCheckFailure("unpack(pack(x)) != x under ==")
    if bytes(q.pack()) != raw:
        raise SelfCheckFailure("re-packing the decoded PDU does not reproduce the octets")
    f["raw"] = hx(raw)
    return f


def _repack(p) -> Optional[str]:
    try:
        return hx(p.pack())
    except (ValueError, struct.error, OverflowError):
        return None


_DIGESTS: Dict[Any, Any] = {}


def _digest(fields):
    """a cheap but complete view of a decoded PDU for the isolation probes: the octets it re-packs to (every parameter
    and every configuration field is in there) and its lengths; the full field view when it cannot be packed"""
    if fields not in _DIGESTS:
        def view(p):
            r = _repack(p)
            return fields(p) if r is None else {"raw": r, "packet_len": int(p.packet_len), "header_len": int(p.header_len)}
        _DIGESTS[fields] = view
    return _DIGESTS[fields]


def _isolated(p, fields, f):
    """the objects decoded by the previous calls are looked at again (decoding this input must not have changed
    them), and this one is looked at again after another header was decoded"""
    name = type(p).__name__
    d = ISOLATION.check("C06:" + name, p, _digest(fields))
    decoded_alone(p, _digest(fields), f, name + ".unpack", before=d)


def unpack_tolerant(cls, raw: bytes, refuses: bool = False):
    """see core.cfdp_tolerant (C09 clause: trailing octets are ignored OR refused with a documented error)"""
    return core.cfdp_tolerant(cls.unpack, raw, refuses=refuses)


def detached(cls, raw: bytes, fields, p, refuses: bool = False, sample: bool = False):
    """the receiver decodes out of its receive buffer (a bytearray) and then reuses that buffer: the decoded PDU keeps
    the values that were on the wire (core.decode_detached; the view is what the PDU re-packs to and its lengths).
    sample: one decoded PDU in four, chosen by the octets themselves (run time; used for the kinds of this part, whose
    parameters are integers; the kinds of part 'var', which keep octet strings, are always looked at)"""
    if sample and zlib.crc32(raw) & 3:
        return
    view = _digest(fields)
    core.check_detached(lambda b: core.cfdp_tolerant(cls.unpack, b, refuses=refuses), raw, view, cls.__name__ + ".unpack",
                        expect=view(p), memview=core.accepts_memoryview(cls.unpack))


def _decoded(p, fields, raw: bytes, cls=None, refuses: bool = False):
    f = fields(p)
    _isolated(p, fields, f)
    if f["packet_len"] > len(raw):
        raise SelfCheckFailure("decoded PDU is longer than the buffer it was decoded from")
    if cls is not None:
        detached(cls, raw, fields, p, refuses, sample=True)
    f["raw"] = _repack(p)
    return f


def _built(build, a, what: str, use):
    """`use(build(a, conf))` with the PduConfig instance a program would hold for these configuration parameters
    (shared between cases, see props/c05.py); constructing and packing must leave it as it was (C11 clause)"""
    conf = shared_conf(a)
    out = use(build(a, conf))
    conf_untouched(conf, a, what)
    return out


def _pack_fails(p) -> Dict[str, Any]:
    """C06 'fss_overflow' clause: a value that does not fit makes pack() fail, whatever the class"""
    try:
        raw = bytes(p.pack())
    except (ValueError, struct.error, OverflowError):
        return {"failed": True}
    return {"failed": False, "_raw": hx(raw)}


def _enum(en, v: int):
    """the member with the STANDARD NAME of the code (what an application writes; core.std_member); for a code without one
    the IntEnum member of that value when there is one, the plain int otherwise (the library takes both; the shrinker of
    the framework may lower a value to a non-member)"""
    return core.std_member(en, v)


def _m(en, v: int):
    """the member an application writes for the code `v`: the member of `en` with the STANDARD NAME of the code
    (core.std_member; `en(v)` for a code without a standard name, ValueError for a non-member as before)"""
    return core.std_member(en, v, strict=True)


_code = core.std_code    # int(code read back), after `code == en.NAME  <=>  it is the standard's code for NAME`


# ---- base ----
def _fd(a, conf: Optional[PduConfig] = None) -> FileDirectivePduBase:
    return FileDirectivePduBase(pdu_conf=_conf(a) if conf is None else conf, directive_code=_enum(DirectiveType, a["code"]),
                                directive_param_field_len=a["plen"])


def op_fdir_new(a):
    return _built(_fd, a, "FileDirectivePduBase(...)", _fd_fields)


def op_fdir_pack(a):
    return _built(_fd, a, "FileDirectivePduBase(...).pack()", _fdir_packed)


def _fdir_packed(fd):
    f = _fd_fields(fd)
    raw = pack_stable(fd, "FileDirectivePduBase.pack()")
    if len(raw) != f["dir_header_len"]:
        raise SelfCheckFailure("len(FileDirectivePduBase.pack()) != header_len")
    q = FileDirectivePduBase.unpack(raw)
    if _fd_fields(q) != f or not (q == fd) or not (fd == q) or bytes(q.pack()) != raw:
        raise SelfCheckFailure("FileDirectivePduBase: unpack(pack(x)) differs from x")
    f["raw"] = hx(raw)
    return f


def op_fdir_unpack(a):
    raw = unhx(a["raw"])
    fd = FileDirectivePduBase.unpack(raw)
    f = _fd_fields(fd)
    _isolated(fd, _fd_fields, f)
    if f["dir_header_len"] > len(raw):
        raise SelfCheckFailure("decoded directive header is longer than the buffer")
    if zlib.crc32(raw) & 3 == 0:
        core.check_detached(FileDirectivePduBase.unpack, raw, _digest(_fd_fields), "FileDirectivePduBase.unpack",
                            expect=_digest(_fd_fields)(fd), memview=core.accepts_memoryview(FileDirectivePduBase.unpack))
    f["raw"] = _repack(fd)
    return f


def op_fdir_set(a):
    fd = _fd(a)
    fd.file_flag = _m(LargeFileFlag, a["n_large"])
    fd.directive_param_field_len = a["n_plen"]
    f = _fd_fields(fd)
    f["raw"] = hx(fd.pack())
    return f


def op_fdir_parse_fss(a):
    def use(fd):
        i, v = fd.parse_fss_field(raw_packet=unhx(a["raw"]), current_idx=a["idx"])
        return {"idx": int(i), "val": int(v)}
    return _built(_fd, a, "FileDirectivePduBase.parse_fss_field", use)


def _eq_op(build):
    def op(a):
        # equal configuration parameters on both sides = the same PduConfig instance, as in a real program
        ca, cb = shared_conf(a["a"]), shared_conf(a["b"])
        x, y = build(a["a"], ca), build(a["b"], cb)
        r = {"eq": bool(x == y), "eq_rev": bool(y == x)}
        conf_untouched(ca, a["a"], "constructor / ==")
        conf_untouched(cb, a["b"], "constructor / ==")
        return r
    return op


# ---- ACK ----
def _ack(a, conf: Optional[PduConfig] = None) -> AckPdu:
    return AckPdu(pdu_conf=_conf(a) if conf is None else conf, directive_code_of_acked_pdu=_enum(DirectiveType, a["acked"]),
                  condition_code_of_acked_pdu=_enum(ConditionCode, a["cond"]),
                  transaction_status=_enum(TransactionStatus, a["status"]))


def op_ack_new(a):
    return _built(_ack, a, "AckPdu(...)", _ack_fields)


def op_ack_pack(a):
    return _built(_ack, a, "AckPdu(...).pack()", lambda p: _check_packed(p, AckPdu, _ack_fields))


def op_ack_unpack(a):
    raw = unhx(a["raw"])
    return _decoded(unpack_tolerant(AckPdu, raw), _ack_fields, raw, AckPdu)


# ---- Prompt ----
def _prompt(a, conf: Optional[PduConfig] = None) -> PromptPdu:
    return PromptPdu(pdu_conf=_conf(a) if conf is None else conf, response_required=_enum(ResponseRequired, a["resp"]))


def op_prompt_pack(a):
    def use(p):
        if int(p.directive_type) != DIR_CODES["prompt"]:
            raise SelfCheckFailure("Prompt PDU constructed with another directive code")
        return _check_packed(p, PromptPdu, _prompt_fields)
    return _built(_prompt, a, "PromptPdu(...).pack()", use)


def op_prompt_unpack(a):
    raw = unhx(a["raw"])
    return _decoded(unpack_tolerant(PromptPdu, raw), _prompt_fields, raw, PromptPdu)


# ---- Keep Alive ----
def _ka(a, conf: Optional[PduConfig] = None) -> KeepAlivePdu:
    return KeepAlivePdu(pdu_conf=_conf(a) if conf is None else conf, progress=a["progress"])


def op_ka_pack(a):
    return _built(_ka, a, "KeepAlivePdu(...).pack()", lambda p: _check_packed(p, KeepAlivePdu, _ka_fields))


def op_ka_pack_fails(a):
    r = _built(_ka, a, "KeepAlivePdu(...).pack()", _pack_fails)
    r.pop("_raw", None)
    return r


def op_ka_unpack(a):
    raw = unhx(a["raw"])
    return _decoded(unpack_tolerant(KeepAlivePdu, raw), _ka_fields, raw, KeepAlivePdu)


def _after_setter(p, cls, fields):
    """C06 length clause after a documented setter: when the PDU packs, the octets are consistent"""
    f = fields(p)
    r = _repack(p)
    if r is not None:
        _check_packed(p, cls, fields, unhx(r))
    f["raw"] = r
    return f


def op_ka_set_file_flag(a):
    p = _ka(a)
    p.file_flag = _m(LargeFileFlag, a["n_large"])
    return _after_setter(p, KeepAlivePdu, _ka_fields)


# ---- NAK ----
def _segs(v):
    return None if v is None else [(int(s[0]), int(s[1])) for s in v]


def _nak(a, conf: Optional[PduConfig] = None) -> NakPdu:
    return NakPdu(pdu_conf=_conf(a) if conf is None else conf, start_of_scope=a["start"], end_of_scope=a["end"],
                  segment_requests=_segs(a["segs"]))


def op_nak_pack(a):
    return _built(_nak, a, "NakPdu(...).pack()", lambda p: _check_packed(p, NakPdu, _nak_fields))


def op_nak_pack_fails(a):
    r = _built(_nak, a, "NakPdu(...).pack()", _pack_fails)
    r.pop("_raw", None)
    return r


def op_nak_unpack(a):
    raw = unhx(a["raw"])
    return _decoded(unpack_tolerant(NakPdu, raw, refuses=True), _nak_fields, raw, NakPdu, refuses=True)


def op_nak_set_segs(a):
    p = _nak(a)
    p.segment_requests = _segs(a["n_segs"])
    return _after_setter(p, NakPdu, _nak_fields)


def op_nak_set_file_flag(a):
    p = _nak(a)
    p.file_flag = _m(LargeFileFlag, a["n_large"])
    return _after_setter(p, NakPdu, _nak_fields)


def op_nak_max_segs(a):
    conf = _conf(a)
    n = get_max_seg_reqs_for_max_packet_size_and_pdu_cfg(a["max"], conf)
    try:
        p = NakPdu(pdu_conf=conf, start_of_scope=0, end_of_scope=0)
    except ValueError:
        return {"n": int(n)}        # configuration no PDU can be built from (ID widths differ): nothing more to check
    if p.get_max_seg_reqs_for_max_packet_size(a["max"]) != n:
        raise SelfCheckFailure("member and free function disagree on the maximum number of segment requests")
    # meaning of the number: n requests fit into max, n + 1 do not
    p.segment_requests = [(0, 0)] * n
    if p.packet_len > a["max"]:
        raise SelfCheckFailure(f"{n} segment requests give packet_len {p.packet_len} > max {a['max']}")
    try:
        p.segment_requests = [(0, 0)] * (n + 1)
    except ValueError:
        pass        # n + 1 requests exceed the 16-bit data-field length: they do not fit either
    else:
        if p.packet_len <= a["max"]:
            raise SelfCheckFailure(f"{n + 1} segment requests still fit into max {a['max']}")
    return {"n": int(n)}


OPS = {
    "fdir_new": op_fdir_new, "fdir_pack": op_fdir_pack, "fdir_unpack": op_fdir_unpack, "fdir_set": op_fdir_set,
    "fdir_parse_fss": op_fdir_parse_fss, "fdir_eq": _eq_op(_fd),
    "ack_new": op_ack_new, "ack_pack": op_ack_pack, "ack_unpack": op_ack_unpack, "ack_eq": _eq_op(_ack),
    "prompt_pack": op_prompt_pack, "prompt_unpack": op_prompt_unpack, "prompt_eq": _eq_op(_prompt),
    "ka_pack": op_ka_pack, "ka_pack_fails": op_ka_pack_fails, "ka_unpack": op_ka_unpack,
    "ka_set_file_flag": op_ka_set_file_flag, "ka_eq": _eq_op(_ka),
    "nak_pack": op_nak_pack, "nak_pack_fails": op_nak_pack_fails, "nak_unpack": op_nak_unpack,
    "nak_set_segs": op_nak_set_segs, "nak_set_file_flag": op_nak_set_file_flag, "nak_eq": _eq_op(_nak),
    "nak_max_segs": op_nak_max_segs,
}


def _encoder_failure_is_refusal(fn):
    """C06 asks of an encoder only that an unencodable parameter set makes pack() FAIL rather than truncate; which
    class it fails with is not stated (C10 is about decoders). struct.error / OverflowError from an encoder op are
    therefore reported like the ValueError the model shows."""
    def wrapped(a):
        try:
            return fn(a)
        except (struct.error, OverflowError) as e:
            raise ValueError(f"(canonicalised encoder failure) {type(e).__name__}: {e}") from e
    return wrapped


for _k in [k for k in OPS if k.endswith(("_pack", "_new", "_set", "_set_segs", "_set_file_flag"))]:
    OPS[_k] = _encoder_failure_is_refusal(OPS[_k])


# --------------------------------------------------------------------------------------------
# independent encoders (CCSDS 727.0-B-5 tables 5-1, 5-8, 5-10, 5-12, 5-13), used to build decoder inputs
# --------------------------------------------------------------------------------------------
def with_crc(body: bytes) -> bytes:
    c = CRC16_CCITT_FUNC(body)
    return body + bytes([c >> 8, c & 0xFF])


def spec_hdr(a, dlen: int, direction: int) -> bytes:
    o0 = 0x20 | 0 << 4 | direction << 3 | a["mode"] << 2 | a["crc"] << 1 | a["large"]
    o3 = a["segctrl"] << 7 | (a["src_w"] - 1) << 4 | 0 << 3 | (a["seq_w"] - 1)
    return (bytes([o0, dlen >> 8, dlen & 0xFF, o3]) + a["src_v"].to_bytes(a["src_w"], "big")
            + a["seq_v"].to_bytes(a["seq_w"], "big") + a["dst_v"].to_bytes(a["dst_w"], "big"))


def spec_pdu(a, direction: int, code: int, params: bytes) -> bytes:
    dlen = 1 + len(params) + (2 if a["crc"] else 0)
    body = spec_hdr(a, dlen, direction) + bytes([code]) + params
    return with_crc(body) if a["crc"] else body


def fss(a, v: int) -> bytes:
    return v.to_bytes(8 if a["large"] else 4, "big")


def spec_ack(a, acked, cond, status) -> bytes:
    sub = 1 if acked == 5 else 0
    return spec_pdu(a, 0 if acked == 5 else 1, 6, bytes([acked << 4 | sub, cond << 4 | status]))


def spec_prompt(a, resp) -> bytes:
    return spec_pdu(a, 0, 9, bytes([resp << 7]))


def spec_ka(a, progress) -> bytes:
    return spec_pdu(a, 1, 12, fss(a, progress))


def spec_nak(a, start, end, segs) -> bytes:
    return spec_pdu(a, 1, 8, fss(a, start) + fss(a, end) + b"".join(fss(a, s) + fss(a, e) for s, e in segs))


# --------------------------------------------------------------------------------------------
# generators
# --------------------------------------------------------------------------------------------
def vmax(w: int) -> int:
    return (1 << (8 * w)) - 1


def rand_val(rng: random.Random, w: int) -> int:
    r = rng.random()
    if r < 0.2:
        return rng.choice([0, 1, vmax(w), vmax(w) - 1, 1 << (8 * w - 1), (1 << (8 * w - 1)) - 1])
    if r < 0.5:
        # every octet different: a swapped / reversed octet order is visible
        return int.from_bytes(bytes(rng.sample(range(1, 256), w)), "big")
    return rng.randint(0, vmax(w))


def rand_conf(rng: random.Random, **fix) -> Dict[str, Any]:
    idw = fix.get("idw", rng.choice(WIDTHS))
    sw = fix.get("sw", rng.choice(WIDTHS))
    a = {"src_w": idw, "src_v": rand_val(rng, idw), "dst_w": idw, "dst_v": rand_val(rng, idw),
         "seq_w": sw, "seq_v": rand_val(rng, sw)}
    for k in ("mode", "large", "crc", "dir", "segctrl"):
        a[k] = fix.get(k, rng.randint(0, 1))
    return a


def all_confs(rng: random.Random) -> Iterator[Dict[str, Any]]:
    """every header configuration: CRC x large file x 16 width combinations x mode x (caller's) direction x
    segmentation control = 512"""
    for bits in range(32):
        for idw in WIDTHS:
            for sw in WIDTHS:
                yield rand_conf(rng, idw=idw, sw=sw, crc=bits & 1, large=(bits >> 1) & 1, mode=(bits >> 2) & 1,
                                dir=(bits >> 3) & 1, segctrl=(bits >> 4) & 1)


def fss_pool(rng: random.Random, large: int) -> List[int]:
    p = set(pool(U32, rng, extra=1))
    p.update({0x01020304, 0xFFFEFDFC, 255, 256, 65535, 65536})
    if large:
        p.update(pool(U64, rng, extra=1))
        p.update({U32 + 1, U32 + 2, 0x0102030405060708, 0xF1F2F3F4F5F6F7F8, 1 << 63})
    return sorted(p)


def fss_val(rng: random.Random, large: int) -> int:
    r = rng.random()
    top = U64 if large else U32
    if r < 0.3:
        return rng.choice([0, 1, top, top - 1, U32, U32 - 1, 1 << 31, 255, 256, 65536]) & top
    if r < 0.6:
        return int.from_bytes(bytes(rng.sample(range(1, 256), 8 if large else 4)), "big")
    return rng.randint(0, top)


def fss_bad(rng: random.Random, large: int) -> List[int]:
    top = U64 if large else U32
    return [top + 1, top + 2, 2 * top + 1, (top + 1) * 256, 1 << 70, top + rng.randint(1, 1 << 20), -1, -2,
            -(1 << 40), -rng.randint(1, 1 << 20)]


def rand_segs(rng: random.Random, large: int, n: int) -> List[List[int]]:
    return [[fss_val(rng, large), fss_val(rng, large)] for _ in range(n)]


def suffixes(rng: random.Random, a) -> List[bytes]:
    w = 16 if a["large"] else 8
    return [rbytes(rng, 1), rbytes(rng, 2), rbytes(rng, w), rbytes(rng, 2 * w), rbytes(rng, rng.randint(3, 40))]


def dec_cases(op: str, raw: bytes, rng: random.Random, a, tag: str, refuse_suffix: bool, full: bool) -> Iterator[Case]:
    """a valid PDU built by the independent encoder: alone, with suffixes, and (full) every truncation /
    substitutions in length and type octets / bit flips"""
    yield Case({"op": op, "raw": hx(raw)}, "valid", tag=tag)
    sfx = suffixes(rng, a)
    for s in (sfx if full else [rng.choice(sfx)]):
        if refuse_suffix:
            yield Case({"op": op, "raw": hx(raw + s)}, "invalid", errclass=True, tag=tag + "+suffix")
        else:
            yield Case({"op": op, "raw": hx(raw + s)}, "valid", tag=tag + "+suffix")
    if not full:
        return
    for cut in range(len(raw)):
        yield Case({"op": op, "raw": hx(raw[:cut])}, "invalid", tag=tag + "-truncation")
    hl = 4 + 2 * a["src_w"] + a["seq_w"]
    # length octets and directive code: boundary substitutions
    for pos in (1, 2, hl):
        for v in {0, 1, 0x7F, 0x80, 0xFF, (raw[pos] + 1) & 0xFF, (raw[pos] - 1) & 0xFF, (raw[pos] + 2) & 0xFF,
                  (raw[pos] - 2) & 0xFF, 4, 5, 6, 7, 8, 9, 10, 12}:
            if v == raw[pos]:
                continue
            b = bytearray(raw)
            b[pos] = v
            yield Case({"op": op, "raw": hx(bytes(b) + rng.choice([b"", b"", rbytes(rng, 8)]))}, "any",
                       tag=tag + "-substitution")
    for pos in range(len(raw)):
        b = bytearray(raw)
        b[pos] ^= 1 << rng.randint(0, 7)
        if a["crc"] and pos >= 4:
            yield Case({"op": op, "raw": hx(bytes(b))}, "invalid", tag=tag + "-bitflip-crc")
        else:
            yield Case({"op": op, "raw": hx(bytes(b))}, "any", tag=tag + "-bitflip")
    if a["crc"]:
        # trailer right for the whole buffer but not for the declared PDU; declared PDU without trailer
        yield Case({"op": op, "raw": hx(with_crc(raw[:-2] + rbytes(rng, 3)))}, "any", tag=tag + "-crc-over-buffer")
        b = bytearray(raw[:-2])
        yield Case({"op": op, "raw": hx(bytes(b))}, "invalid", tag=tag + "-no-trailer")


def bad_conf_cases(op: str, params: Dict[str, Any], rng: random.Random) -> Iterator[Case]:
    """source / destination IDs of different widths: every constructor refuses (ValueError)"""
    for w1, w2 in ((1, 2), (2, 1), (4, 8), (8, 1)):
        a = rand_conf(rng)
        a.update(src_w=w1, src_v=rand_val(rng, w1), dst_w=w2, dst_v=rand_val(rng, w2))
        yield Case({"op": op, **a, **params}, "invalid", errclass=True, tag="id-width-mismatch")


class C06Fixed(Prop):
    id = "C06"
    title = "file-directive base, ACK, Prompt, Keep Alive, NAK"
    lean_modules = ["SpVerif.Props.C06Fixed"]
    exhaustive_note = ("part fixed: for each of ACK / Prompt / Keep Alive / NAK all 512 header configurations "
                       "(CRC x large file x 16 width combinations x mode x caller's direction x segmentation control) "
                       "through pack and through unpack (inputs built by an independent encoder); all "
                       "(acknowledged directive code x ConditionCode member x TransactionStatus) triples; both "
                       "ResponseRequired members; all 256 values of each ACK parameter octet and of the Prompt "
                       "parameter octet through the decoders; all 256 directive-code octets through the NAK decoder "
                       "and the base decoder")
    trusted_base = [
        "arithmetic normal form of the parameter octets (a*16+b, r*128) vs shifts/masks of the code: tied by the exhaustive 256-value sweeps of every parameter octet through the decoders and by the exhaustive enum-member sweeps through pack",
        "crcmod (CRC16_CCITT_FUNC) is tied to the Lean bit-serial crc16 by every CRC-flagged pack/unpack case of this run",
        "the finished CFDP header model (C05) is reused unchanged",
    ]
    assumptions = [
        "enum-typed constructor arguments are members of their IntEnums (DirectiveType, ConditionCode incl. NO_CONDITION_FIELD=-1, TransactionStatus, ResponseRequired, the header flags); attributes are not reassigned after construction except through the documented setters (NAK segment_requests / file_flag, Keep Alive file_flag)",
        "segment requests are pairs of Python ints (model: Int x Int); negative offsets / progress are modelled (struct.error from struct.pack)",
        "_verify_file_len is private: modelled (FileDirective.verifyFileLen) but only tied through MetadataPdu.pack in part 'var'",
    ]

    def impl_ops(self):
        return OPS

    def table_sync(self):
        d = []
        live = {m.name.lower().replace("_pdu", ""): int(m) for m in DirectiveType}
        if live != DIR_CODES:
            d.append(f"DirectiveType {live} model={DIR_CODES}")
        if sorted(int(x) for x in TransactionStatus) != [0, 1, 2, 3]:
            d.append("TransactionStatus members")
        if sorted(int(x) for x in ResponseRequired) != [0, 1] or int(ResponseRequired.KEEP_ALIVE) != 1:
            d.append("ResponseRequired members")
        if sorted(int(x) for x in ConditionCode) != [-1] + COND_MEMBERS:
            d.append(f"ConditionCode members {sorted(int(x) for x in ConditionCode)}")
        if (int(Direction.TOWARDS_RECEIVER), int(Direction.TOWARDS_SENDER)) != (0, 1):
            d.append("Direction values")
        if int(PduType.FILE_DIRECTIVE) != 0 or int(LargeFileFlag.LARGE) != 1 or int(LargeFileFlag.NORMAL) != 0 \
                or int(CrcFlag.WITH_CRC) != 1:
            d.append("FILE_DIRECTIVE / LARGE / NORMAL / WITH_CRC values")
        # every member the ops use BY NAME against the tables of the standard (a swap leaves the set of values intact)
        d += core.std_table_diffs((DirectiveType, TransactionStatus, ResponseRequired, ConditionCode, PduType, Direction,
                                   TransmissionMode, CrcFlag, LargeFileFlag, SegmentationControl))
        return d

    def nontrivial(self, c: Case) -> bool:
        o = c.op
        if isinstance(o.get("raw"), str):
            return o["raw"].strip("0") != ""
        return any(v not in (0, None, False, "", []) for k, v in o.items() if k != "op")

    def neighbours(self, c: Case, rng: random.Random) -> Iterator[Case]:
        o = c.op
        if isinstance(o.get("raw"), str) and "src_w" not in o:
            raw = unhx(o["raw"])
            for k in range(len(raw)):
                yield Case({"op": o["op"], "raw": hx(raw[:k])}, "any", tag="nb-truncation")
            for pos in range(len(raw)):
                b = bytearray(raw)
                b[pos] ^= 1 << rng.randint(0, 7)
                yield Case({"op": o["op"], "raw": hx(bytes(b))}, "any", tag="nb-bitflip")
        elif all(k in o for k in CONF_KEYS) and o["op"] in ("ack_pack", "prompt_pack", "ka_pack", "nak_pack"):
            params = {k: v for k, v in o.items() if k not in CONF_KEYS and k != "op"}
            for a in all_confs(rng):
                if o["op"] in ("ka_pack", "nak_pack") and a["large"] != o["large"]:
                    continue
                yield Case({"op": o["op"], **a, **params}, "valid", tag="nb-config")

    # ----------------------------------------------------------------------------------------
    def cases(self, rng: random.Random, tier: str) -> Iterator[Case]:
        thorough = tier == "thorough"
        yield from self.base_cases(rng, thorough)
        yield from self.ack_cases(rng, thorough)
        yield from self.prompt_cases(rng, thorough)
        yield from self.ka_cases(rng, thorough)
        yield from self.nak_cases(rng, thorough)
        yield from self.random_octets(rng, thorough)
        yield from self.leak_cases(rng, thorough)

    # ---- base class ----
    def base_cases(self, rng, thorough):
        codes = sorted(DIR_CODES.values())
        plens = [0, 1, 2, 3, 255, 256, 65533, 65534]
        k = 0
        for rep in range(20 if thorough else 2):
            for a in all_confs(rng):
                k += 1
                p = {"code": codes[k % len(codes)], "plen": plens[k % len(plens)] if k % 3 else rng.randint(0, 65534)}
                yield Case({"op": "fdir_pack", **a, **p}, "valid", tag="config-all")
                raw = spec_hdr(a, p["plen"] + 1, a["dir"]) + bytes([p["code"]])
                yield Case({"op": "fdir_unpack", "raw": hx(raw + rbytes(rng, rng.choice([0, 0, 1, 7])))}, "valid",
                           tag="config-all+suffix")
                if k % 16 == 0:
                    for cut in range(len(raw)):
                        yield Case({"op": "fdir_unpack", "raw": hx(raw[:cut])}, "invalid", errclass=True, tag="truncation")
                if k % 4 == 0:
                    yield Case({"op": "fdir_set", **a, **p, "n_large": rng.randint(0, 1),
                                "n_plen": rng.choice(plens + [rng.randint(0, 65534)])}, "valid", tag="setters")
                if k % 64 == 0:
                    yield Case({"op": "fdir_set", **a, **p, "n_large": 1, "n_plen": rng.choice([65535, 65536, 1 << 20])},
                               "invalid", errclass=True, tag="param-len-too-large")
                    yield Case({"op": "fdir_new", **a, "code": p["code"], "plen": rng.choice([65535, 65536, 1 << 33])},
                               "invalid", errclass=True, tag="param-len-too-large")
        # every directive-code octet through the decoder (stored raw)
        for v in range(256):
            a = rand_conf(rng)
            raw = spec_hdr(a, rng.randint(0, 65535), a["dir"]) + bytes([v])
            yield Case({"op": "fdir_unpack", "raw": hx(raw + rbytes(rng, v % 3))},
                       "valid" if v in codes else "any", tag="code-sweep")
        yield from bad_conf_cases("fdir_new", {"code": 7, "plen": 0}, rng)
        # parse_fss_field: every (large, index, length) relation around the guard
        for large in (0, 1):
            w = 8 if large else 4
            for i in [0, 1, 2, 7, 13]:
                for ln in sorted({0, i, i + 1, i + w - 1, i + w, i + w + 1, i + 2 * w}):
                    a = rand_conf(rng, large=large)
                    raw = rbytes(rng, ln)
                    ok = i + w <= ln
                    yield Case({"op": "fdir_parse_fss", **a, "code": 4, "plen": 0, "raw": hx(raw), "idx": i},
                               "valid" if ok else "invalid", errclass=True, tag="parse-fss")
            for v in fss_pool(rng, large):
                a = rand_conf(rng, large=large)
                i = rng.randint(0, 5)
                raw = rbytes(rng, i) + v.to_bytes(w, "big") + rbytes(rng, rng.randint(0, 3))
                yield Case({"op": "fdir_parse_fss", **a, "code": 4, "plen": 0, "raw": hx(raw), "idx": i}, "valid",
                           tag="parse-fss-boundary")
        # __eq__: same / one compared attribute changed / only uncompared attributes changed
        for _ in range(200 if thorough else 40):
            a = rand_conf(rng)
            x = {**a, "code": rng.choice(codes), "plen": rng.randint(0, 300)}
            yield Case({"op": "fdir_eq", "a": x, "b": dict(x)}, "valid", tag="eq-same")
            for key in ("large", "crc", "src_v", "dst_v", "plen", "code", "mode", "dir", "segctrl", "seq_v"):
                y = dict(x)
                if key in ("large", "crc", "mode", "dir", "segctrl"):
                    y[key] ^= 1
                elif key == "code":
                    y[key] = rng.choice([c for c in codes if c != x["code"]])
                elif key == "plen":
                    y[key] += 1
                else:
                    w = y[key[:3] + "_w"]
                    y[key] = (y[key] + 1) % (vmax(w) + 1)
                yield Case({"op": "fdir_eq", "a": x, "b": y}, "valid", tag="eq-" + key)

    # ---- ACK ----
    def ack_cases(self, rng, thorough):
        triples = [(ac, c, s) for ac in (4, 5) for c in COND_MEMBERS for s in range(4)]
        k = 0
        for rep in range(20 if thorough else 2):
            for a in all_confs(rng):
                ac, c, s = triples[k % len(triples)]
                k += 1
                p = {"acked": ac, "cond": c, "status": s}
                yield Case({"op": "ack_pack", **a, **p}, "valid", tag="config-all")
                yield from dec_cases("ack_unpack", spec_ack(a, ac, c, s), rng, a, "config-all", False, k % 32 == 0)
        for rep in range(20 if thorough else 2):
            for ac, c, s in triples:
                a = rand_conf(rng)
                yield Case({"op": "ack_pack", **a, "acked": ac, "cond": c, "status": s}, "valid", tag="enum-all")
                yield Case({"op": "ack_unpack", "raw": hx(spec_ack(a, ac, c, s) + rbytes(rng, rep % 2))}, "valid",
                           tag="enum-all")
        # NO_CONDITION_FIELD (-1) is a member of ConditionCode: constructible, not packable
        for ac in (4, 5):
            for s in range(4):
                a = rand_conf(rng)
                yield Case({"op": "ack_new", **a, "acked": ac, "cond": -1, "status": s}, "valid", tag="no-condition-field")
                yield Case({"op": "ack_pack", **a, "acked": ac, "cond": -1, "status": s}, "invalid", errclass=True,
                           tag="no-condition-field")
        # only EOF and Finished can be acknowledged
        for code in sorted(DIR_CODES.values()):
            if code in (4, 5):
                continue
            a = rand_conf(rng)
            p = {"acked": code, "cond": rng.choice(COND_MEMBERS), "status": rng.randint(0, 3)}
            yield Case({"op": "ack_new", **a, **p}, "invalid", errclass=True, tag="acked-code-refused")
            yield Case({"op": "ack_pack", **a, **p}, "invalid", errclass=True, tag="acked-code-refused")
        yield from bad_conf_cases("ack_pack", {"acked": 5, "cond": 0, "status": 1}, rng)
        # every value of both parameter octets through the decoder (raw nibbles are stored)
        for pos in (0, 1):
            for v in range(256):
                a = rand_conf(rng)
                params = bytearray(rbytes(rng, 2))
                params[pos] = v
                raw = spec_pdu(a, rng.randint(0, 1), 6, bytes(params))
                # spec-conformant parameter octets are 'valid'; the decoder stores any nibble raw ('any')
                conformant = (params[0] in (0x40, 0x51) and (params[1] >> 4) in COND_MEMBERS and not params[1] & 0x0C
                              and raw[0] & 8 == (0 if params[0] == 0x51 else 8))
                yield Case({"op": "ack_unpack", "raw": hx(raw + rbytes(rng, v % 2))}, "valid" if conformant else "any",
                           tag=f"octet{pos}-sweep")
        # declared parameter field shorter than two octets / longer than needed
        for plen in (0, 1, 3, 4, 9):
            for crc in (0, 1):
                a = rand_conf(rng, crc=crc)
                raw = spec_pdu(a, 1, 6, rbytes(rng, plen))
                yield Case({"op": "ack_unpack", "raw": hx(raw + rbytes(rng, 4))},
                           "invalid" if plen < 2 else "any", errclass=plen < 2, tag="param-field-length")
        for _ in range(400 if thorough else 60):
            a = rand_conf(rng)
            x = {**a, "acked": rng.choice([4, 5]), "cond": rng.choice(COND_MEMBERS + [-1]), "status": rng.randint(0, 3)}
            yield Case({"op": "ack_eq", "a": x, "b": dict(x)}, "valid", tag="eq-same")
            for key in ("acked", "cond", "status", "crc", "large", "src_v", "dst_v", "seq_v", "mode"):
                y = dict(x)
                if key == "acked":
                    y[key] = 9 - y[key]
                elif key == "cond":
                    y[key] = rng.choice([c for c in COND_MEMBERS if c != x["cond"]])
                elif key == "status":
                    y[key] = (y[key] + rng.randint(1, 3)) % 4
                elif key in ("crc", "large", "mode"):
                    y[key] ^= 1
                else:
                    y[key] = (y[key] + 1) % (vmax(y[key[:3] + "_w"]) + 1)
                yield Case({"op": "ack_eq", "a": x, "b": y}, "valid", tag="eq-" + key)

    # ---- Prompt ----
    def prompt_cases(self, rng, thorough):
        k = 0
        for rep in range(20 if thorough else 2):
            for a in all_confs(rng):
                for resp in (0, 1):
                    k += 1
                    yield Case({"op": "prompt_pack", **a, "resp": resp}, "valid", tag="config-all")
                    yield from dec_cases("prompt_unpack", spec_prompt(a, resp), rng, a, "config-all", False, k % 64 == 0)
        for v in range(256):
            a = rand_conf(rng)
            raw = spec_pdu(a, rng.randint(0, 1), 9, bytes([v]))
            yield Case({"op": "prompt_unpack", "raw": hx(raw + rbytes(rng, v % 2))},
                       "valid" if v in (0, 0x80) else "any", tag="octet-sweep")
        for plen in (0, 2, 5):
            for crc in (0, 1):
                a = rand_conf(rng, crc=crc)
                raw = spec_pdu(a, 0, 9, rbytes(rng, plen))
                yield Case({"op": "prompt_unpack", "raw": hx(raw + rbytes(rng, 3))},
                           "invalid" if plen < 1 else "any", errclass=plen < 1, tag="param-field-length")
        yield from bad_conf_cases("prompt_pack", {"resp": 1}, rng)
        for _ in range(200 if thorough else 40):
            a = rand_conf(rng)
            x = {**a, "resp": rng.randint(0, 1)}
            yield Case({"op": "prompt_eq", "a": x, "b": dict(x)}, "valid", tag="eq-same")
            for key in ("resp", "crc", "large", "src_v", "dst_v", "dir", "seq_v"):
                y = dict(x)
                if key in ("resp", "crc", "large", "dir"):
                    y[key] ^= 1
                else:
                    y[key] = (y[key] + 1) % (vmax(y[key[:3] + "_w"]) + 1)
                yield Case({"op": "prompt_eq", "a": x, "b": y}, "valid", tag="eq-" + key)

    # ---- Keep Alive ----
    def ka_cases(self, rng, thorough):
        k = 0
        for rep in range(20 if thorough else 2):
            for a in all_confs(rng):
                k += 1
                v = fss_val(rng, a["large"])
                yield Case({"op": "ka_pack", **a, "progress": v}, "valid", tag="config-all")
                yield from dec_cases("ka_unpack", spec_ka(a, v), rng, a, "config-all", False, k % 32 == 0)
                yield Case({"op": "ka_set_file_flag", **a, "progress": fss_val(rng, 0), "n_large": k % 2}, "valid",
                           tag="set-file-flag")
        for large in (0, 1):
            for v in fss_pool(rng, large):
                for crc in (0, 1):
                    a = rand_conf(rng, large=large, crc=crc)
                    yield Case({"op": "ka_pack", **a, "progress": v}, "valid", tag="progress-boundary")
                    yield Case({"op": "ka_unpack", "raw": hx(spec_ka(a, v) + rbytes(rng, crc))}, "valid",
                               tag="progress-boundary")
            for v in fss_bad(rng, large):
                for crc in (0, 1):
                    a = rand_conf(rng, large=large, crc=crc)
                    yield Case({"op": "ka_pack_fails", **a, "progress": v}, "valid", tag="fss-overflow")
                    if large == 0 and v > U32:
                        yield Case({"op": "ka_pack", **a, "progress": v}, "invalid", errclass=True, tag="fss-overflow")
            # a 64-bit progress, flag switched to NORMAL afterwards: pack must fail, not truncate
            a = rand_conf(rng, large=1)
            yield Case({"op": "ka_set_file_flag", **a, "progress": U32 + 1 + rng.randint(0, 1 << 40), "n_large": 0},
                       "valid", tag="set-file-flag-overflow")
            yield Case({"op": "ka_pack_fails", **a, "progress": rng.randint(0, U32)}, "valid", tag="fss-fits")
        for plen in (0, 3, 4, 5, 7, 8, 9, 12):
            for large in (0, 1):
                for crc in (0, 1):
                    a = rand_conf(rng, large=large, crc=crc)
                    raw = spec_pdu(a, 1, 12, rbytes(rng, plen))
                    w = 8 if large else 4
                    yield Case({"op": "ka_unpack", "raw": hx(raw + rbytes(rng, 9))},
                               "invalid" if plen < w else ("valid" if plen == w else "any"), errclass=plen < w,
                               tag="param-field-length")
        yield from bad_conf_cases("ka_pack", {"progress": 5}, rng)
        for _ in range(200 if thorough else 40):
            a = rand_conf(rng)
            x = {**a, "progress": fss_val(rng, a["large"])}
            yield Case({"op": "ka_eq", "a": x, "b": dict(x)}, "valid", tag="eq-same")
            for key in ("progress", "crc", "large", "src_v", "dst_v", "mode", "seq_v"):
                y = dict(x)
                if key == "progress":
                    y[key] = y[key] ^ (1 << rng.randint(0, 31))
                elif key in ("crc", "large", "mode"):
                    y[key] ^= 1
                else:
                    y[key] = (y[key] + 1) % (vmax(y[key[:3] + "_w"]) + 1)
                yield Case({"op": "ka_eq", "a": x, "b": y}, "valid", tag="eq-" + key)

    # ---- NAK ----
    def nak_cases(self, rng, thorough):
        counts = [0, 1, 2, 3, 5, 17]
        k = 0
        for rep in range(20 if thorough else 2):
            for a in all_confs(rng):
                k += 1
                n = counts[k % len(counts)]
                s, e, segs = fss_val(rng, a["large"]), fss_val(rng, a["large"]), rand_segs(rng, a["large"], n)
                p = {"start": s, "end": e, "segs": segs if (segs or k % 2) else None}
                yield Case({"op": "nak_pack", **a, **p}, "valid", tag="config-all")
                yield from dec_cases("nak_unpack", spec_nak(a, s, e, segs), rng, a, "config-all", True, k % 32 == 0)
                if k % 2 == 0:
                    n2 = rng.choice(counts)
                    yield Case({"op": "nak_set_segs", **a, **p,
                                "n_segs": rand_segs(rng, a["large"], n2) if (n2 or k % 4) else None}, "valid",
                               tag="set-segs")
                else:
                    q = dict(p, start=fss_val(rng, 0), end=fss_val(rng, 0), segs=rand_segs(rng, 0, n))
                    yield Case({"op": "nak_set_file_flag", **a, **q, "n_large": (k // 2) % 2}, "valid", tag="set-file-flag")
        for large in (0, 1):
            w = 8 if large else 4
            pl = fss_pool(rng, large)
            for i, v in enumerate(pl):
                for pos in range(4):
                    a = rand_conf(rng, large=large, crc=(i + pos) % 2)
                    vals = [fss_val(rng, large) for _ in range(4)]
                    vals[pos] = v
                    p = {"start": vals[0], "end": vals[1], "segs": [[fss_val(rng, large), fss_val(rng, large)], vals[2:]]}
                    yield Case({"op": "nak_pack", **a, **p}, "valid", tag="offset-boundary")
                    if pos == 0:
                        yield Case({"op": "nak_unpack", "raw": hx(spec_nak(a, p["start"], p["end"], p["segs"]))},
                                   "valid", tag="offset-boundary")
            # a value that does not fit, in each position (scope or n-th segment request)
            for v in fss_bad(rng, large):
                for pos in range(6):
                    a = rand_conf(rng, large=large, crc=pos % 2)
                    vals = [fss_val(rng, large) for _ in range(6)]
                    vals[pos] = v
                    p = {"start": vals[0], "end": vals[1], "segs": [vals[2:4], vals[4:6]]}
                    yield Case({"op": "nak_pack_fails", **a, **p}, "valid", tag="fss-overflow")
                    if large == 0 and v > U32:
                        yield Case({"op": "nak_pack", **a, **p}, "invalid", errclass=True, tag="fss-overflow")
            a = rand_conf(rng, large=large)
            yield Case({"op": "nak_pack_fails", **a, "start": 0, "end": fss_val(rng, large),
                        "segs": rand_segs(rng, large, 3)}, "valid", tag="fss-fits")
            # 64-bit offsets, flag switched to NORMAL afterwards: pack must fail, not truncate
            a = rand_conf(rng, large=1)
            yield Case({"op": "nak_set_file_flag", **a, "start": 0, "end": U32 + 1, "segs": [[0, U32 + 7]], "n_large": 0},
                       "valid", tag="set-file-flag-overflow")
            # as many segment requests as the 16-bit data-field length allows, and one more
            for crc in (0, 1):
                nmax = (65534 - 2 * w - 2 * crc) // (2 * w)
                a = rand_conf(rng, large=large, crc=crc)
                segs = rand_segs(rng, large, nmax)
                yield Case({"op": "nak_pack", **a, "start": 1, "end": 2, "segs": segs}, "valid", tag="max-segments")
                yield Case({"op": "nak_unpack", "raw": hx(spec_nak(a, 1, 2, segs))}, "valid", tag="max-segments")
                yield Case({"op": "nak_pack", **a, "start": 1, "end": 2, "segs": segs + [[0, 0]]}, "invalid",
                           errclass=True, tag="too-many-segments")
                yield Case({"op": "nak_set_segs", **a, "start": 1, "end": 2, "segs": None, "n_segs": segs + [[0, 0]]},
                           "invalid", errclass=True, tag="too-many-segments")
        # parameter field that is not scope + whole segment requests; directive code other than NAK
        for large in (0, 1):
            w = 8 if large else 4
            for plen in sorted({0, 1, w, 2 * w - 1, 2 * w, 2 * w + 1, 3 * w, 4 * w - 1, 4 * w, 4 * w + 1, 4 * w + 2, 6 * w,
                                7 * w}):
                for crc in (0, 1):
                    a = rand_conf(rng, large=large, crc=crc)
                    raw = spec_pdu(a, 1, 8, rbytes(rng, plen))
                    ok = plen >= 2 * w and (plen - 2 * w) % (2 * w) == 0
                    yield Case({"op": "nak_unpack", "raw": hx(raw)}, "valid" if ok else "invalid", errclass=True,
                               tag="param-field-length")
        for v in range(256):
            a = rand_conf(rng)
            raw = spec_pdu(a, 1, v, fss(a, 1) + fss(a, 2) + (fss(a, 3) + fss(a, 4)) * (v % 3))
            yield Case({"op": "nak_unpack", "raw": hx(raw)}, "valid" if v == 8 else "invalid", errclass=True,
                       tag="directive-code-sweep")
        yield from bad_conf_cases("nak_pack", {"start": 0, "end": 1, "segs": None}, rng)
        # get_max_seg_reqs_for_max_packet_size_and_pdu_cfg
        for a in all_confs(rng):
            if a["mode"] or a["segctrl"]:
                continue
            base = 4 + 2 * a["src_w"] + a["seq_w"] + 1 + 2 * a["crc"] + (16 if a["large"] else 8)
            w2 = 16 if a["large"] else 8
            for m in sorted({base, base + 1, base + w2 - 1, base + w2, base + w2 + 1, base + 5 * w2 - 1, 64, 1024, 65535,
                             base + rng.randint(0, 5000)}):
                if m >= base:
                    yield Case({"op": "nak_max_segs", **a, "max": m}, "valid", tag="max-segs")
            for m in (base - 1, 0, -1, rng.randint(0, base - 1)):
                yield Case({"op": "nak_max_segs", **a, "max": m}, "invalid", errclass=True, tag="max-segs-too-small")
        for _ in range(200 if thorough else 40):
            a = rand_conf(rng)
            n = rng.choice([0, 1, 2, 4])
            x = {**a, "start": fss_val(rng, a["large"]), "end": fss_val(rng, a["large"]),
                 "segs": rand_segs(rng, a["large"], n)}
            yield Case({"op": "nak_eq", "a": x, "b": dict(x)}, "valid", tag="eq-same")
            yield Case({"op": "nak_eq", "a": dict(x, segs=[]), "b": dict(x, segs=None)}, "valid", tag="eq-none-empty")
            for key in ("start", "end", "segs", "segs-len", "segs-order", "crc", "large", "src_v", "dst_v", "seq_v"):
                y = dict(x)
                if key in ("start", "end"):
                    y[key] = y[key] ^ (1 << rng.randint(0, 31))
                elif key == "segs":
                    if not n:
                        continue
                    y["segs"] = [list(s) for s in x["segs"]]
                    y["segs"][rng.randrange(n)][rng.randint(0, 1)] ^= 1 << rng.randint(0, 31)
                elif key == "segs-len":
                    y["segs"] = x["segs"] + [[0, 0]]
                elif key == "segs-order":
                    if n < 2 or x["segs"][0] == x["segs"][1]:
                        continue
                    y["segs"] = [x["segs"][1], x["segs"][0]] + x["segs"][2:]
                elif key in ("crc", "large"):
                    y[key] ^= 1
                else:
                    y[key] = (y[key] + 1) % (vmax(y[key[:3] + "_w"]) + 1)
                yield Case({"op": "nak_eq", "a": x, "b": y}, "valid", tag="eq-" + key)

    # ---- state leaking between calls / objects ----
    def leak_cases(self, rng, thorough):
        """the ops keep the objects decoded by the previous calls and hand the same PduConfig instance to cases with
        equal configuration parameters: one configuration through every constructor back to back, then the one that
        differs in every field, then the first again; the same for the decoders (inputs from the independent encoder)"""
        codes = sorted(DIR_CODES.values())
        for i in range(600 if thorough else 30):
            a = rand_conf(rng)
            b = contrast_conf(a)
            for c in (a, b, a):
                ac, cond, st = rng.choice([4, 5]), rng.choice(COND_MEMBERS), rng.randint(0, 3)
                yield Case({"op": "ack_pack", **c, "acked": ac, "cond": cond, "status": st}, "valid", tag="shared-config")
                yield Case({"op": "prompt_pack", **c, "resp": rng.randint(0, 1)}, "valid", tag="shared-config")
                yield Case({"op": "ka_pack", **c, "progress": fss_val(rng, c["large"])}, "valid", tag="shared-config")
                yield Case({"op": "nak_pack", **c, "start": fss_val(rng, c["large"]), "end": fss_val(rng, c["large"]),
                            "segs": rand_segs(rng, c["large"], i % 3)}, "valid", tag="shared-config")
                yield Case({"op": "fdir_pack", **c, "code": rng.choice(codes), "plen": rng.randint(0, 300)}, "valid",
                           tag="shared-config")
                yield Case({"op": "ack_new", **c, "acked": 9 - ac, "cond": cond, "status": st}, "valid", tag="shared-config")
            for c in (a, b, a):
                ac = rng.choice([4, 5])
                yield from dec_cases("ack_unpack", spec_ack(c, ac, rng.choice(COND_MEMBERS), rng.randint(0, 3)), rng, c,
                                     "isolation-pair", False, False)
                yield from dec_cases("prompt_unpack", spec_prompt(c, rng.randint(0, 1)), rng, c, "isolation-pair", False, False)
                yield from dec_cases("ka_unpack", spec_ka(c, fss_val(rng, c["large"])), rng, c, "isolation-pair", False, False)
                segs = rand_segs(rng, c["large"], 1 + i % 3)
                yield from dec_cases("nak_unpack", spec_nak(c, fss_val(rng, c["large"]), fss_val(rng, c["large"]), segs),
                                     rng, c, "isolation-pair", True, False)
                raw = spec_hdr(c, rng.randint(1, 300), c["dir"]) + bytes([rng.choice(codes)])
                yield Case({"op": "fdir_unpack", "raw": hx(raw + rbytes(rng, rng.choice([0, 2])))}, "valid", tag="isolation-pair")

    # ---- malformed stream shared by the four decoders ----
    def random_octets(self, rng, thorough):
        ops = ["fdir_unpack", "ack_unpack", "prompt_unpack", "ka_unpack", "nak_unpack"]
        for _ in range(300000 if thorough else 5000):
            ln = rng.choice([0, 1, 3, 4, 6, 7, 8, 9, 10, 11, 12, 15, 16, 24, rng.randint(0, 60)])
            b = bytearray(rbytes(rng, ln))
            if ln > 0 and rng.random() < 0.9:
                b[0] = 0x20 | (b[0] & 0x0F)
            idw = sw = 1
            if ln > 3 and rng.random() < 0.9:
                idw, sw = rng.choice([1, 1, 2, 4]), rng.choice([1, 1, 2])
                b[3] = (b[3] & 0x80) | (idw - 1) << 4 | (sw - 1)
            hl = 4 + 2 * idw + sw
            if ln > 3 and rng.random() < 0.8:
                # declared length near the actual one
                d = max(0, ln - hl + rng.choice([0, 0, 0, -1, 1, -2, 2, -8, 8]))
                b[1], b[2] = (d >> 8) & 0xFF, d & 0xFF
            if ln > hl and rng.random() < 0.7:
                b[hl] = rng.choice([6, 8, 9, 12, 8, 8])
            raw = bytes(b)
            if ln > 0 and (b[0] & 2) and rng.random() < 0.7 and ln >= 2:
                raw = with_crc(raw[:-2])
            for op in (ops if rng.random() < 0.2 else [rng.choice(ops)]):
                yield Case({"op": op, "raw": hx(raw)}, "any", tag="random-octets")


PART = C06Fixed()
