"""C02 — PUS-C telecommand"""
import binascii
import random
import struct
from typing import Callable, Dict, Iterator, List, Optional, Tuple

import core
from core import Case, Prop, SelfCheckFailure
from gen import hx, unhx, pool, out_pool, rbytes

from spacepackets.ecss.tc import PusTc
from spacepackets.ecss import check_pus_crc
from spacepackets.crc import CRC16_CCITT_FUNC
from spacepackets.ccsds.spacepacket import SpacePacketHeader
from props.c01 import _fields as sph_fields


def _tc(a):
    return PusTc(service=a["service"], subservice=a["subservice"], apid=a["apid"], app_data=unhx(a["data"]),
                 seq_count=a["count"], source_id=a["source_id"], ack_flags=a["ack"])


def _tc_fields(t: PusTc):
    return {"sph": sph_fields(t.sp_header), "ack": int(t.pus_tc_sec_header.ack_flags), "service": int(t.service),
            "subservice": int(t.subservice), "source_id": int(t.source_id), "data": hx(t.app_data),
            "packet_len": int(t.packet_len)}


def op_tc_new(a):
    return _tc_fields(_tc(a))


# ---- derived values the telecommand remembers (case key "hist" of tc_pack): read, change through the setters, read ----
TC_VIEW_NAMES = ["packet_len", "fields", "to_space_packet", "calc_crc", "pack", "eq"]
TC_SETTABLE = ["apid", "count", "source_id", "data", "service", "subservice", "ack"]


def _tc_views(final):
    """every derived view of a telecommand as plain values. `pack` and `calc_crc` refresh the stored checksum,
    `to_space_packet` is documented to calculate it too; `crc16` is looked at right after each of them (the documented
    moment at which it is the packet's checksum - between a setter and the next calculation it is, as documented, the
    stored result of the LAST calculation and not a view of the fields)."""
    def crc_of(t):
        return None if t.crc16 is None else hx(t.crc16)

    def v_sp(t):
        sp = t.to_space_packet()
        return {"raw": hx(core.pack_stable(sp, "PusTc.to_space_packet().pack()")), "crc16": crc_of(t),
                "apid": int(sp.apid), "count": int(sp.seq_count), "shf": bool(sp.sec_header_flag)}

    def v_calc(t):
        t.calc_crc()
        return crc_of(t)

    def v_pack(t):
        raw = core.pack_stable(t, "PusTc.pack()")
        return {"raw": hx(raw), "crc16": crc_of(t), "again": hx(t.pack(recalc_crc=False))}

    def v_eq(t):
        ref = _tc(final)
        return [bool(t == ref), bool(ref == t)]
    return [("packet_len", lambda t: int(t.packet_len)), ("fields", _tc_fields), ("to_space_packet", v_sp),
            ("calc_crc", v_calc), ("pack", v_pack), ("eq", v_eq)]


def _tc_mutate(t: PusTc, old, new, path: str):
    """old -> new through the documented ways of changing a telecommand: "tc" the setters of PusTc (seq_count, apid,
    source_id, app_data; service / subservice / ack flags have none and are attributes of pus_tc_sec_header), "hdr" the
    attributes / setters of the two header objects it exposes, "replace" new header objects stored in sp_header /
    pus_tc_sec_header"""
    data = unhx(new["data"])
    if path == "replace":
        t.app_data = data
        t.sp_header = SpacePacketHeader(packet_type=t.sp_header.packet_type, apid=new["apid"], seq_count=new["count"],
                                        data_len=len(data) + 6, sec_header_flag=True)
        t.pus_tc_sec_header = type(t.pus_tc_sec_header)(service=new["service"], subservice=new["subservice"],
                                                        source_id=new["source_id"], ack_flags=new["ack"])
        return
    hdr = path == "hdr"
    if new["apid"] != old["apid"]:
        setattr(t.sp_header if hdr else t, "apid", new["apid"])
    if new["count"] != old["count"]:
        setattr(t.sp_header if hdr else t, "seq_count", new["count"])
    if new["source_id"] != old["source_id"]:
        setattr(t.pus_tc_sec_header if hdr else t, "source_id", new["source_id"])
    if new["data"] != old["data"]:
        t.app_data = data
    for key, attr in (("service", "service"), ("subservice", "subservice"), ("ack", "ack_flags")):
        if new[key] != old[key]:
            setattr(t.pus_tc_sec_header, attr, new[key])


def _pus_packet_problem(raw_hex: str) -> Optional[str]:
    """None when the octets are one complete PUS packet: declared length = number of octets, checksum matches"""
    raw = unhx(raw_hex)
    if len(raw) < 8 or len(raw) != ((raw[4] << 8) | raw[5]) + 7:
        return f"the octets {raw_hex[:120]} are not one space packet (length field vs. number of octets)"
    if not check_pus_crc(raw):
        return f"the octets {raw_hex[:120]} do not end in the CRC-16 of the octets before (check_pus_crc is False)"
    return None


def _sp_view_observe(sp):
    return {"raw": hx(bytes(sp.pack())), "apid": int(sp.apid), "count": int(sp.seq_count), "shf": bool(sp.sec_header_flag)}


# things taken from a telecommand BEFORE it is changed and looked at AFTER (core.held_across_change): the generic space
# packet is a packet of its own - the octets it packs to are the telecommand as it was when the view was taken
TC_HOLDERS = [("PusTc.to_space_packet()", lambda t: t.to_space_packet(), _sp_view_observe, lambda v: _pus_packet_problem(v["raw"]))]

TC_TOP = {"apid": 2047, "count": 16383, "source_id": 65535, "service": 255, "subservice": 255, "ack": 15}


def _other_octets(h: str, how: str) -> str:
    """octets that differ from the hex string h: 'bit' the lowest bit of the last octet (one octet 00 for the empty string),
    'longer' one octet more, 'far' other content of another length"""
    b = unhx(h)
    if how == "bit":
        return hx(b[:-1] + bytes([b[-1] ^ 1])) if b else "00"
    if how == "longer":
        return hx(b + b"\x00")
    return hx(bytes(x ^ 0xFF for x in reversed(b)) + b"\x55")


def _tc_equality(a, full: bool, raw: Optional[bytes] = None) -> None:
    """`==` between telecommands holding the values of `a`, in every state an application can hold them (see
    core.equal_in_every_state); full=False: only the decoded / never-packed pair in both orders"""
    def make():
        return _tc(a)
    raw = bytes(make().pack()) if raw is None else bytes(raw)

    def prepared(*steps):
        def build():
            t = make()
            for st in steps:
                st(t)
            return t
        return build

    def reached(old, path, how="new"):
        def build():
            t = _tc(old)
            t = PusTc.unpack(bytes(t.pack()) + b"\x00") if how == "unpack" else t
            t.pack()                       # whatever the object remembers is now about the OLD values
            _tc_mutate(t, old, a, path)
            return t
        return build

    same = [("PusTc(<the same arguments>), nothing called on it", make)]
    different = []
    if full:
        same += [("PusTc(<the same arguments>); o.pack()", prepared(lambda t: t.pack())),
                 ("PusTc(<the same arguments>); o.calc_crc()", prepared(lambda t: t.calc_crc())),
                 ("PusTc(<the same arguments>); o.to_space_packet()", prepared(lambda t: t.to_space_packet())),
                 ("PusTc(<the same arguments>); o.pack(recalc_crc=False)", prepared(lambda t: t.pack(recalc_crc=False))),
                 ("PusTc.unpack(<the same octets>)", lambda: PusTc.unpack(raw)),
                 ("PusTc.unpack(<the same octets>); o.pack()", lambda: _packed(PusTc.unpack(raw))),
                 ("PusTc.unpack(bytearray(<the same octets>))", lambda: PusTc.unpack(bytearray(raw)))]
        far = dict(a)
        for key in TC_SETTABLE:
            far[key] = _other_octets(a[key], "far") if key == "data" else a[key] ^ TC_TOP[key]
            old = dict(a)
            old[key] = far[key]
            for path in ("tc", "hdr"):
                same.append((f"PusTc(<{key} = {str(old[key])[:40]}, else the same>); o.pack(); {key} set to the final value through "
                             f"{'the setters of PusTc' if path == 'tc' else 'the attributes of o.sp_header / o.pus_tc_sec_header'}",
                             reached(old, path)))
            for how, name in (("bit", key + " (one bit)"), ("longer", "data (one octet longer)")):
                if how == "longer" and key != "data":
                    continue
                diff = dict(a)
                diff[key] = _other_octets(a[key], how) if key == "data" else a[key] ^ 1
                different.append((f"PusTc(<{name} differs: {str(diff[key])[:40]}, else the same>), nothing called on it",
                                  lambda d=diff: _tc(d)))
                different.append((f"PusTc(<{name} differs: {str(diff[key])[:40]}, else the same>); o.pack()",
                                  lambda d=diff: _packed(_tc(d))))
        same += [("PusTc(<every field different>); o.pack(); every field set to the final value through the setters of PusTc",
                  reached(far, "tc")),
                 ("PusTc.unpack(<octets of a telecommand with every field different>); o.pack(); every field set to the final "
                  "value through the header attributes", reached(far, "hdr", "unpack")),
                 ("PusTc(<every field different>); o.pack(); o.app_data = final data; o.sp_header, o.pus_tc_sec_header = new "
                  "header objects with the final values", reached(far, "replace"))]
    err = core.equal_in_every_state(lambda: PusTc.unpack(raw), make, same, different,
                                    what="PusTc(" + ", ".join(f"{k}={str(a[k])[:60]}" for k in TC_SETTABLE) + ")",
                                    decoded="PusTc.unpack(" + hx(raw)[:120] + ")", both_sides=full)
    if err:
        raise SelfCheckFailure(err)


def _packed(t):
    t.pack()
    return t


def _tc_after_history(a):
    """the telecommand of the case's parameters, reached the long way: built (or decoded) with other values, looked at,
    changed to the case's values through the setters; what it shows then is what a telecommand built directly with the
    case's values shows"""
    h = a["hist"]
    old = h["from"]

    def make():
        t = _tc(old)
        return PusTc.unpack(bytes(t.pack()) + b"\x00") if h.get("how") == "unpack" else t
    got = {}

    def change(t):
        _tc_mutate(t, old, a, h.get("path", "tc"))

    def mutate(t):
        # "hold": views / conversions taken BEFORE the change are looked at again AFTER it
        if h.get("hold"):
            bad = core.held_across_change(t, TC_HOLDERS, change, "PusTc")
            if bad:
                raise SelfCheckFailure(bad)
        else:
            change(t)
    err = core.read_mutate_read(make, _tc_views(a), mutate, lambda: _tc(a),
                                "PusTc", first=h.get("read"), after=h.get("after"), out=got)
    if err:
        raise SelfCheckFailure(err)
    return got["obj"], got["after"]


def op_tc_pack(a):
    if a.get("hist"):
        # the octets the changed telecommand showed (in the order of the case) are what the model is asked about
        t, seen = _tc_after_history(a)
        if not all("ok" in seen.get(v, {}) for v in ("pack", "to_space_packet", "packet_len")):
            return _tc_pack_checks(t, a)
        raw, sp = seen["pack"]["ok"]["raw"], seen["to_space_packet"]["ok"]["raw"]
        return {"raw": raw, "sp_raw": sp, "packet_len": seen["packet_len"]["ok"],
                "crc_ok": bool(check_pus_crc(unhx(raw))) and bool(check_pus_crc(unhx(sp)))}
    return _tc_pack_checks(_tc(a), a)


def _tc_pack_checks(t: PusTc, a):
    # (packs twice, the caller modifying the first returned buffer in between)
    raw = core.pack_stable(t, "PusTc.pack()")
    if len(raw) != t.packet_len:
        raise SelfCheckFailure(f"len(pack())={len(raw)} != packet_len={t.packet_len}")
    t2 = PusTc.unpack(raw)
    if not (t2 == t) or not (t == t2):
        raise SelfCheckFailure("unpack(pack(tc)) != tc under ==")
    if core.ISOLATION.check("PusTc", t2, _tc_fields) != _tc_fields(t):
        raise SelfCheckFailure("unpack(pack(tc)) has different field values")
    _tc_undisturbed(t2, a, raw)
    if core.pack_stable(t2, "PusTc.pack() of a decoded telecommand") != raw:
        raise SelfCheckFailure("re-packing the decoded telecommand does not reproduce the octets")
    sp = core.pack_stable(t.to_space_packet(), "PusTc.to_space_packet().pack()")
    # "equal to the original": also to an original that was never packed itself, in both orders (case key "eq": in every
    # state an application can hold the original in, and unequal to telecommands that differ in one field)
    _tc_equality(a, bool(a.get("eq")), raw)
    return {"raw": hx(raw), "sp_raw": hx(sp), "packet_len": int(t.packet_len), "crc_ok": bool(check_pus_crc(raw))}


def op_tc_unpack(a):
    raw = unhx(a["raw"])
    t = PusTc.unpack(raw)
    n = t.packet_len
    # (before pack(), which recomputes the stored checksum)
    if t.crc16 is not None and bytes(t.crc16) != raw[n - 2:n]:
        raise SelfCheckFailure("crc16 of the decoded packet is not the packet's own trailer")
    # telecommands decoded by earlier calls must still show what they showed then
    f = core.ISOLATION.check("PusTc", t, _tc_fields)
    _tc_equals_rebuilt(t, f, raw[:n])
    if core.pack_stable(t, "PusTc.pack() of a decoded telecommand") != raw[:n]:
        raise SelfCheckFailure("pack(unpack(b)) != b[:packet_len]")
    return f


def _tc_undisturbed(t2: PusTc, a, raw: bytes) -> None:
    """(the isolation clause in a form that needs no earlier case) the telecommand decoded from `raw` shows the same fields
    after the octets of ANOTHER telecommand - every field different - have been decoded as well"""
    f = _tc_fields(t2)
    b = {"service": a["service"] ^ 0xFF, "subservice": a["subservice"] ^ 0xFF, "apid": a["apid"] ^ 0x7FF, "count": a["count"] ^ 0x3FFF,
         "source_id": a["source_id"] ^ 0xFFFF, "ack": a["ack"] ^ 0xF, "data": hx(bytes(x ^ 0xFF for x in unhx(a["data"])[:40]) + b"\x5a")}
    other = with_crc(spec_tc(b))
    PusTc.unpack(other)
    now = _tc_fields(t2)
    if now != f:
        raise SelfCheckFailure(f"d = PusTc.unpack({hx(raw)[:120]}) showed {core._short(f)}; after PusTc.unpack({hx(other)[:120]}) - the "
                               f"octets of another telecommand - d shows {core._short(now)}: an object decoded earlier changed when "
                               f"another input was decoded")


def _tc_equals_rebuilt(t: PusTc, f, raw: bytes) -> None:
    """the decoded telecommand (nothing called on it yet) and a telecommand built from the decoded field values on which
    nothing was ever computed are equal, in both orders - whenever the constructor can express the decoded packet at all
    (it always builds type TC / secondary header present / unsegmented / version 0)"""
    try:
        o = PusTc(service=f["service"], subservice=f["subservice"], apid=f["sph"]["apid"], app_data=unhx(f["data"]),
                  seq_count=f["sph"]["count"], source_id=f["source_id"], ack_flags=f["ack"])
    except ValueError:
        return
    if _tc_fields(o) != f:
        return
    got = core._eq_outcomes(t, o)
    if got != [True, True, False, False]:
        raise SelfCheckFailure(f"d = PusTc.unpack({hx(raw)[:120]}); o = PusTc(<the field values d shows: {core._short(f)}>), nothing "
                               f"called on o: [d == o, o == d, d != o, o != d] is {got} - the decoded telecommand is not equal to "
                               f"a telecommand with identical fields that was never packed itself")


def op_pus_crc_check(a):
    return {"valid": bool(check_pus_crc(unhx(a["raw"])))}


def op_crc16(a):
    return {"crc": int(CRC16_CCITT_FUNC(unhx(a["raw"])))}


OPS = {"tc_new": op_tc_new, "tc_pack": op_tc_pack, "tc_unpack": op_tc_unpack, "pus_crc_check": op_pus_crc_check,
       "crc16": op_crc16}


def rand_args(rng, dlen=None):
    if dlen is None:
        dlen = rng.choice([0, 0, 1, 2, 3, 7, 16, 40, rng.randint(0, 300)])
    return {"service": rng.randint(0, 255), "subservice": rng.randint(0, 255), "apid": rng.randint(0, 2047),
            "count": rng.randint(0, 16383), "source_id": rng.randint(0, 65535), "ack": rng.randint(0, 15),
            "data": hx(rbytes(rng, dlen))}


def with_crc(body: bytes) -> bytes:
    c = CRC16_CCITT_FUNC(body)
    return body + bytes([c >> 8, c & 0xFF])


# --------------------------------------------------------------------------------------------
# inputs whose running CRC passes through 0x0000 (a checksum that is computed in pieces must continue from the value
# it reached, also when that value is 0) — found by solving, not by search: a CRC is affine over GF(2) in any set of
# input bits
# --------------------------------------------------------------------------------------------
def crc_ccitt(data: bytes, start: int = 0xFFFF) -> int:
    """CRC-16/CCITT-FALSE by the standard library (independent of crcmod and of the package under test)"""
    return binascii.crc_hqx(bytes(data), start)


def fit_bits(f: Callable[[int], int], nbits: int, target: int = 0) -> Optional[int]:
    """a v in [0, 2^nbits) with f(v) == target, for f affine over GF(2) (a CRC as a function of `nbits` bits of its
    input); None if there is none"""
    base = f(0)
    basis: Dict[int, Tuple[int, int]] = {}
    for i in range(nbits):
        vec, combo = f(1 << i) ^ base, 1 << i
        while vec:
            p = vec.bit_length() - 1
            if p not in basis:
                basis[p] = (vec, combo)
                break
            vec ^= basis[p][0]
            combo ^= basis[p][1]
    w, v = base ^ target, 0
    while w:
        p = w.bit_length() - 1
        if p not in basis:
            return None
        w ^= basis[p][0]
        v ^= basis[p][1]
    return v


def spread(a: Dict, free: List[Tuple[str, int]], v: int) -> Dict:
    """`a` with the fields of `free` [(key, width in bits)] taken from the bits of v"""
    b = dict(a)
    for key, bits in free:
        b[key] = v & ((1 << bits) - 1)
        v >>= bits
    return b


def spec_tc(a) -> bytes:
    """the octets the statement prescribes, without the trailer"""
    data = unhx(a["data"])
    return (struct.pack("!HHH", 0x1800 | a["apid"], 0xC000 | a["count"], len(data) + 6)
            + bytes([0x20 | a["ack"], a["service"], a["subservice"]]) + struct.pack("!H", a["source_id"]) + data)


TC_FREE = {
    "sph": [[("count", 14), ("apid", 11)]],
    "before-source-id": [[("subservice", 8), ("service", 8)], [("count", 14), ("apid", 11)], [("ack", 4), ("service", 8), ("subservice", 8)]],
    "headers": [[("source_id", 16)], [("source_id", 16)], [("subservice", 8), ("service", 8)], [("count", 14), ("apid", 11)]],
}
TC_UPTO = {"sph": 6, "before-source-id": 9, "headers": 11}


def zero_crc_tc(rng, stage: str, dlen: Optional[int] = None) -> Optional[Dict]:
    """arguments of a telecommand with non-empty application data for which the CRC-16 of the octets up to the end of
    `stage` is exactly 0x0000 ('body': of everything before the trailer, so the trailer itself is 0000)"""
    a = rand_args(rng, rng.choice([1, 2, 3, 4, 7, 16, 40, rng.randint(1, 300)]) if dlen is None else dlen)
    if stage == "body":
        body = spec_tc(a)
        if len(unhx(a["data"])) < 2:
            return None
        a["data"] = hx(body[11:-2] + crc_ccitt(body[:-2]).to_bytes(2, "big"))
        return a
    free = rng.choice(TC_FREE[stage])
    v = fit_bits(lambda v: crc_ccitt(spec_tc(spread(a, free, v))[:TC_UPTO[stage]]), sum(b for _, b in free))
    return None if v is None else spread(a, free, v)


class C02(Prop):
    id = "C02"
    title = "PUS-C telecommand"
    lean_modules = ["SpVerif.Props.C02", "SpVerif.Props.C11Heap"]
    exhaustive_note = "all 256 values of the version/ack octet and of every other secondary-header octet through the decoder (CRC recomputed); all declared lengths 0..20 with matching CRC"
    trusted_base = ["crcmod (CRC16_CCITT_FUNC, PredefinedCrc) is tied to the Lean bit-serial crc16 by the crc16 op on random and structured inputs in this run"]

    def impl_ops(self):
        return OPS

    def nontrivial(self, c):
        o = c.op
        return any(v not in (0, None, False, "") for k, v in o.items() if k != "op")

    def cases(self, rng: random.Random, tier: str) -> Iterator[Case]:
        thorough = tier == "thorough"
        # crcmod vs model
        for n in [0, 1, 2, 3, 15, 16, 17, 255, 256, 1000, 70000 if thorough else 5000]:
            yield Case({"op": "crc16", "raw": hx(rbytes(rng, n))}, "valid", tag="crc-random")
            yield Case({"op": "crc16", "raw": "00" * n}, "valid", tag="crc-zeros")
            yield Case({"op": "crc16", "raw": "ff" * n}, "valid", tag="crc-ones")
        for _ in range(2000 if thorough else 300):
            yield Case({"op": "crc16", "raw": hx(rbytes(rng, rng.randint(0, 64)))}, "valid", tag="crc-random")
        # boundary pools
        for svc in pool(255, rng, 1):
            for ack in range(16):
                a = rand_args(rng)
                a.update(service=svc, ack=ack, subservice=rng.choice(pool(255, rng, 1)))
                yield Case({"op": "tc_pack", **a}, "valid", tag="boundary")
        for apid in pool(2047, rng):
            for count in pool(16383, rng, 1)[::2]:
                a = rand_args(rng)
                a.update(apid=apid, count=count, source_id=rng.choice(pool(65535, rng)))
                yield Case({"op": "tc_pack", **a}, "valid", tag="boundary")
                yield Case({"op": "tc_new", **a}, "valid", tag="boundary")
        big = [255, 256, 1000, 65528, 65529]
        for n in [0, 1, 2, 3] + big:
            a = rand_args(rng, n)
            yield Case({"op": "tc_pack", **a}, "valid", tag="data-len")
            raw = bytes(_tc(a).pack())
            yield Case({"op": "tc_unpack", "raw": hx(raw + rbytes(rng, 3))}, "valid", tag="data-len")
        for n in [65530, 65531, 70000]:
            yield Case({"op": "tc_new", **rand_args(rng, n)}, "invalid", errclass=True, tag="too-long")
        for fld, mx in (("apid", 2047), ("count", 16383)):
            for bad in out_pool(mx, rng):
                a = rand_args(rng)
                a[fld] = bad
                yield Case({"op": "tc_new", **a}, "invalid", errclass=True, tag=f"bad-{fld}")
        # random round trips with suffixes, truncations, secondary-header substitutions
        n = 20000 if thorough else 2500
        for i in range(n):
            a = rand_args(rng)
            yield Case({"op": "tc_pack", **a}, "valid", tag="random")
            raw = bytes(_tc(a).pack())
            sfx = rng.choice([b"", b"", rbytes(rng, 1), rbytes(rng, 2), raw, rbytes(rng, 13)])
            yield Case({"op": "tc_unpack", "raw": hx(raw + sfx)}, "valid", tag="random+suffix")
            if i % 10 == 0:
                for k in range(len(raw)):
                    yield Case({"op": "tc_unpack", "raw": hx(raw[:k])}, "invalid", tag="truncation")
            if i % 25 == 0:
                # corrupt one bit outside the length field: must not be accepted
                for _ in range(8):
                    pos = rng.choice([p for p in range(len(raw)) if p not in (4, 5)])
                    b = bytearray(raw)
                    b[pos] ^= 1 << rng.randint(0, 7)
                    yield Case({"op": "tc_unpack", "raw": hx(bytes(b))}, "invalid", tag="bit-flip")
                    yield Case({"op": "pus_crc_check", "raw": hx(bytes(b))}, "valid", tag="bit-flip")
                yield Case({"op": "pus_crc_check", "raw": hx(raw)}, "valid", tag="intact")
        # back-to-back decodes of telecommands that differ in every field (an object decoded earlier must not follow)
        for _ in range(1000 if thorough else 100):
            a, b = rand_args(rng), rand_args(rng)
            for k in ("service", "subservice"):
                b[k] = a[k] ^ 0xFF
            b.update(apid=a["apid"] ^ 0x7FF, count=a["count"] ^ 0x3FFF, source_id=a["source_id"] ^ 0xFFFF, ack=a["ack"] ^ 0xF)
            for x in (a, b, a):
                yield Case({"op": "tc_unpack", "raw": hx(bytes(_tc(x).pack()) + rbytes(rng, 2))}, "valid", tag="complement-pair")
        # exhaustive secondary-header octets (CRC recomputed so only the field semantics decide)
        a = rand_args(rng, 4)
        raw = bytes(_tc(a).pack())
        for pos in range(6, 11):
            for v in range(256):
                b = bytearray(raw[:-2])
                b[pos] = v
                yield Case({"op": "tc_unpack", "raw": hx(with_crc(bytes(b)))}, "any", tag=f"octet{pos}-sweep")
        # declared length rewritten to every small value, CRC made to match that declared length
        for _ in range(40 if thorough else 8):
            a = rand_args(rng, rng.randint(0, 12))
            raw = bytearray(_tc(a).pack()) + rbytes(rng, 16)
            for L in range(0, 21):
                b = bytearray(raw)
                b[4], b[5] = 0, L
                total = L + 7
                body = with_crc(bytes(b[: total - 2])) if total >= 2 else bytes(b)
                buf = body + bytes(b[total:])
                exp = "invalid" if total < 13 else "any"
                yield Case({"op": "tc_unpack", "raw": hx(buf)}, exp, tag="declared-length-crafted")
        # the same with the other bits of the first octet varied too (secondary-header flag clear, packet type TM,
        # version != 0 — whatever the primary header announces, a declared length that cannot hold secondary header and
        # CRC is refused), the short "packet" being followed by a further valid telecommand: nothing may be decoded
        # from the neighbour
        for i in range(60 if thorough else 12):
            a = rand_args(rng, rng.randint(0, 12))
            nxt = with_crc(spec_tc(rand_args(rng, rng.choice([0, 0, 1, 5]))))
            first = bytearray(with_crc(spec_tc(a)))
            for name, o0 in (("no-sec-header-flag", first[0] & ~0x08), ("type-tm", first[0] & ~0x10),
                             ("version", first[0] | rng.randint(1, 7) << 5),
                             ("first-octet", (first[0] & 0x07) | rng.randrange(32) << 3)):
                for L in range(0, 21):
                    total = L + 7
                    if total >= 13 and i % 4:
                        continue
                    b = bytearray(first)
                    b[0], b[4], b[5] = o0 & 0xFF, 0, L
                    b = b[:total]
                    b += bytes(total - len(b))
                    if total == 8:
                        # the CRC octets are where the PUS version nibble is read: look for an APID that makes it 2
                        for lo in range(256):
                            if crc_ccitt(bytes(b[:1]) + bytes([lo]) + bytes(b[2:6])) >> 12 == 2:
                                b[1] = lo
                                break
                    buf = with_crc(bytes(b[: total - 2])) + nxt + (b"" if i % 3 else rbytes(rng, 5))
                    yield Case({"op": "tc_unpack", "raw": hx(buf)}, "invalid" if total < 13 else "any",
                               tag="declared-length-crafted-" + name)
        # every place at which a checksum computed in pieces can stand at 0x0000: after the primary header, before the
        # source ID, after both headers (then continuing over non-empty application data), and at the very end
        for i in range(400 if thorough else 40):
            for stage in ("sph", "before-source-id", "headers", "body"):
                a = zero_crc_tc(rng, stage, dlen=2000 if (i == 7 and stage == "headers") else None)
                if a is None:
                    continue
                yield Case({"op": "tc_pack", **a}, "valid", tag="crc-zero-after-" + stage)
                if i % 4 == 0:
                    raw = with_crc(spec_tc(a))
                    yield Case({"op": "tc_unpack", "raw": hx(raw + rng.choice([b"", rbytes(rng, 2), raw]))}, "valid",
                               tag="crc-zero-after-" + stage)
        # a telecommand that reached the case's values the long way (key "hist"): built / decoded with other values, some or
        # all of its derived views read (pack, calc_crc, to_space_packet, packet_len ...), then changed through the documented
        # setters / header attributes / new header objects, then every view read again in the order the case gives (a view
        # that refreshes a remembered value hides a stale one read after it): all of that must be what a telecommand built
        # directly with the final values shows, and what the model packs
        reads = [None, [], ["pack"], ["calc_crc"], ["to_space_packet"], ["packet_len", "fields"], ["pack", "to_space_packet"]]
        firsts = ["to_space_packet", "calc_crc", "pack", "packet_len", "fields", "eq"]
        k = 0
        for rep in range(12 if thorough else 2):
            for how in ("new", "unpack"):
                for path in ("tc", "hdr", "replace"):
                    for rd in reads:
                        for what in TC_SETTABLE + ["all", "some"]:
                            k += 1
                            if (rep or what not in ("count", "all")) and (k + rep) % 4:
                                continue
                            a = rand_args(rng)
                            old = rand_args(rng) if what in ("all", "some") else dict(a)
                            if what == "some":
                                for key in rng.sample(TC_SETTABLE, rng.randint(1, 4)):
                                    old[key] = a[key]
                            elif what == "data":
                                n = len(unhx(a["data"]))
                                old["data"] = hx(rbytes(rng, rng.choice([n, n, n + 1, max(0, n - 1), 0, rng.randint(0, 40)])))
                            elif what != "all":
                                top = {"apid": 2047, "count": 16383, "source_id": 65535, "service": 255, "subservice": 255, "ack": 15}[what]
                                old[what] = rng.choice([(a[what] + 1) % (top + 1), a[what] ^ top, rng.randint(0, top)])
                            first = firsts[k % len(firsts)]
                            rest = [v for v in TC_VIEW_NAMES if v != first]
                            rng.shuffle(rest)
                            # "hold": the generic space-packet view taken BEFORE the change is looked at AFTER it
                            yield Case({"op": "tc_pack", **a, "hist": {"from": old, "how": how, "path": path, "read": rd,
                                                                       "after": [first] + rest, "hold": bool((k // 4 + rep) % 2)}},
                                       "valid", tag="read-set-read")
        # "equal to the original" whatever state the original is in (key "eq"): never packed, packed, checksum calculated,
        # values reached through the setters after a pack(), decoded twice ...; unequal when one field differs
        for i in range(600 if thorough else 60):
            a = rand_args(rng, rng.choice([0, 1, 2, 5, 17]) if i % 8 else None)
            if i % 3 == 0:
                a.update(apid=rng.choice(pool(2047, rng, 0)), count=rng.choice(pool(16383, rng, 0)),
                         source_id=rng.choice(pool(65535, rng, 0)))
            yield Case({"op": "tc_pack", **a, "eq": True}, "valid", tag="equality-states")
        # random octet strings
        for _ in range(20000 if thorough else 3000):
            ln = rng.randint(0, 40)
            b = bytearray(rbytes(rng, ln))
            if ln > 6 and rng.random() < 0.7:
                b[6] = 0x20 | (b[6] & 0x0F)
            if ln > 5 and rng.random() < 0.7:
                b[4], b[5] = 0, rng.randint(0, 40)
            yield Case({"op": "tc_unpack", "raw": hx(bytes(b))}, "any", tag="random-octets")
        # ---- cold start (core.cold_start_sample runs the cases named by cold_start_cases() as the first and only operation of
        #      a fresh interpreter): one case per ENTRY PATH of the checksum, so that each of them is, once, the first thing a
        #      process does with the package. A telecommand on which nothing was read (hist.read = []) whose views are then read
        #      with calc_crc (crc16 looked at right after it) / to_space_packet().pack() / pack() FIRST; the decoder, the
        #      standalone check and the CRC function on octets that were not made by the package. Emitted last: the stream of
        #      the cases above is what it was. ----
        a = rand_args(rng, 3)
        old = dict(a, count=(a["count"] + 1) % 16384)
        for first in ("calc_crc", "to_space_packet", "pack"):
            yield Case({"op": "tc_pack", **a, "hist": {"from": old, "how": "new", "path": "tc", "read": [], "hold": False,
                                                       "after": [first] + [v for v in TC_VIEW_NAMES if v != first]}},
                       "valid", tag=f"cold-start:{first}-first")
        body = spec_tc(rand_args(rng, 5))
        raw = body + crc_ccitt(body).to_bytes(2, "big")
        yield Case({"op": "tc_unpack", "raw": hx(raw)}, "valid", tag="cold-start:unpack-first")
        yield Case({"op": "pus_crc_check", "raw": hx(raw)}, "valid", tag="cold-start:check_pus_crc-first")
        yield Case({"op": "crc16", "raw": hx(body)}, "valid", tag="cold-start:crc-function-first")

    def cold_start_cases(self):
        """always in the cold-start sample: one case per entry path of the checksum (see the end of `cases`)"""
        return [f"cold-start:{p}-first" for p in ("calc_crc", "to_space_packet", "pack", "unpack", "check_pus_crc", "crc-function")]


PROP = C02()
