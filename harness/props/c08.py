"""C08 — CFDP TLV and LV items encode exactly, round-trip, and are type-safe (CCSDS 727.0-B-5 §5.4)"""
import random
from typing import Any, Dict, Iterator, List

import core
from core import Case, Prop, SelfCheckFailure, InfraError
from gen import hx, unhx, rbytes

from spacepackets.cfdp.lv import CfdpLv
from spacepackets.cfdp.defs import ConditionCode, FaultHandlerCode
from spacepackets.cfdp.exceptions import TlvTypeMissmatch
import spacepackets.cfdp.tlv as tlvmod
from spacepackets.cfdp.tlv import (
    CfdpTlv, EntityIdTlv, FlowLabelTlv, FaultHandlerOverrideTlv, FileStoreRequestTlv, FileStoreResponseTlv,
    MessageToUserTlv, TlvHolder, TlvType, FilestoreActionCode, FilestoreResponseStatusCode,
    map_enum_status_code_to_int, map_int_status_code_to_enum, map_enum_status_code_to_action_status_code,
)

SUFFIX = bytes.fromhex("a55a00ff06")

# constants the Lean model hard-codes (checked against the live module by table_sync)
TLV_TYPES = [0, 1, 2, 4, 5, 6]
ACTIONS = list(range(9))
SNP = [2, 3, 4]
STATUS_NAT = [0, 1, 2, 15, 16, 17, 31, 32, 33, 34, 35, 47, 48, 49, 50, 51, 63, 64, 65, 66, 67, 79, 80, 81, 95,
              96, 97, 98, 111, 112, 114, 127, 128, 130, 143]
# name -> code of the standard (727.0-B-5 tables 5-16..5-19): the shared tables of core.STD_NAMES, which the ops also use to
# obtain every member BY NAME (core.std_member) and to compare decoded codes with the named members (core.std_code)
STD_ACTION = core.STD_NAMES["FilestoreActionCode"]
# status code = action code * 16 + status nibble of table 5-18
STD_STATUS = core.STD_NAMES["FilestoreResponseStatusCode"]
# (the members the model hard-codes: 1001 'invalid file structure' has no member in the library)
STD_CONDITION = {n: v for n, v in core.STD_NAMES["ConditionCode"].items() if n != "INVALID_FILE_STRUCTURE"}
STD_HANDLER = core.STD_NAMES["FaultHandlerCode"]
CLS_TYPE = {"fs_request": 0, "fs_response": 1, "msg_to_user": 2, "fault_handler": 4, "flow_label": 5, "entity_id": 6}
WRAP = {"entity_id": EntityIdTlv, "flow_label": FlowLabelTlv, "msg_to_user": MessageToUserTlv}
CLASSES = {"entity_id": EntityIdTlv, "flow_label": FlowLabelTlv, "msg_to_user": MessageToUserTlv,
           "fault_handler": FaultHandlerOverrideTlv, "fs_request": FileStoreRequestTlv,
           "fs_response": FileStoreResponseTlv}
CC_MEMBERS = [0, 1, 2, 3, 4, 5, 6, 7, 8, 10, 11, 14, 15]
HC_MEMBERS = [1, 2, 3, 4]


def _enum(E, v):
    """the member an application would write for the code `v`: the member of E with the STANDARD NAME of the code
    (core.std_member); the IntEnum member of that value / the plain int for codes without a standard name, as before"""
    return core.std_member(E, v)


def _member(E, v):
    """like _enum, for the helpers that are documented for members only (a non-member code raises ValueError)"""
    return core.std_member(E, v, strict=True)


_code = core.std_code    # int(decoded value), after `decoded == E.NAME  <=>  the code is the standard's code for NAME`


# ---------------------------------------------------------------- the form of each argument (case key "forms", core.code_form)
# `a` is the op line or a nested object description (`held`, `a`, `b`); its "forms" key names, per argument, the Python form in
# which the argument is handed to the library: codes as 'member' (default) / 'int' / 'other' (member of a foreign IntEnum),
# octets as 'bytes' (default) / 'bytearray'; "type_via": 'setter' builds the generic TLV with another type and assigns the
# type through the `tlv_type` setter. The Lean ops do not read the key: the values are the same, so are the answers.
def _f(a, key):
    f = a.get("forms")
    return f.get(key) if f else None


def _arg(E, a, key):
    f = a.get("forms")
    return core.code_form(E, a[key], f.get(key)) if f else core.std_member(E, a[key])


def _arg_member(E, a, key):
    return core.code_form(E, a[key], _f(a, key), strict=True)


def _oct(a, key):
    f = a.get("forms")
    return core.octets_form(unhx(a[key]), f.get(key)) if f else unhx(a[key])


def _name(h: str) -> str:
    try:
        return unhx(h).decode()
    except UnicodeDecodeError:
        raise InfraError("generator produced a constructor-side file name that is not UTF-8")


def _need(cond, msg):
    if not cond:
        raise SelfCheckFailure(msg)


def _pack_checked(obj) -> bytes:
    # packs twice, the caller extending / modifying the first returned buffer in between (as PDU assembly does)
    raw = core.pack_stable(obj, type(obj).__name__ + ".pack()")
    _need(len(raw) == obj.packet_len, f"len(pack())={len(raw)} != packet_len={obj.packet_len}")
    return raw


def _detached(decode, raw: bytes, fields, what: str, obj):
    """the item was decoded out of a receive buffer (a bytearray) that the receiver reuses afterwards: value / file names
    / message of the decoded object are still the ones that were on the wire (core.decode_detached; the view is the
    op's field view plus the octets the object packs to)"""
    def view(o):
        f = dict(fields(o))
        try:
            f["raw"] = hx(o.pack())
        except ValueError:
            f["raw"] = None
        return f
    core.check_detached(decode, raw, view, what, expect=view(obj), memview=core.accepts_memoryview(decode))


# ---------------------------------------------------------------- LV
def _lv_fields(l: CfdpLv):
    return {"value": hx(l.value), "value_len": int(l.value_len), "packet_len": int(l.packet_len)}


def op_lv_new(a):
    return _lv_fields(CfdpLv(_oct(a, "value")))


def op_lv_pack(a):
    v = unhx(a["value"])
    l = CfdpLv(_oct(a, "value"))
    raw = _pack_checked(l)
    for sfx in (b"", SUFFIX):
        l2 = CfdpLv.unpack(raw + sfx)
        core.ISOLATION.check("CfdpLv", l2, _lv_fields)
        _need(bytes(l2.value) == v and l2 == l and l2.packet_len == len(raw),
              "CfdpLv.unpack(pack(lv) + suffix) does not return the value / consume len+1 octets")
    return {**_lv_fields(l), "raw": hx(raw)}


def op_lv_unpack(a):
    raw = unhx(a["raw"])
    l = CfdpLv.unpack(_oct(a, "raw"))
    # items decoded by earlier calls must still show what they showed then
    f = core.ISOLATION.check("CfdpLv", l, _lv_fields)
    _need(_pack_checked(l) == raw[: l.packet_len], "pack(unpack(b)) != b[:packet_len]")
    _detached(CfdpLv.unpack, raw, _lv_fields, "CfdpLv.unpack", l)
    return f


# ---------------------------------------------------------------- generic TLV
def _tlv_fields(t):
    return {"type": _code(TlvType, t.tlv_type), "value": hx(t.value), "packet_len": int(t.packet_len)}


def _generic(a) -> CfdpTlv:
    ty, val = _arg(TlvType, a, "type"), _oct(a, "value")
    if _f(a, "type_via") == "setter" and a["type"] in TLV_TYPES:
        # built with ANOTHER TLV type (the next one of the table), the type then assigned through the documented setter
        t = CfdpTlv(_enum(TlvType, TLV_TYPES[(TLV_TYPES.index(a["type"]) + 1) % len(TLV_TYPES)]), val)
        t.tlv_type = ty
        return t
    return CfdpTlv(ty, val)


def op_tlv_new(a):
    return _tlv_fields(_generic(a))


def op_tlv_pack(a):
    t = _generic(a)
    raw = _pack_checked(t)
    if a["type"] in TLV_TYPES:
        for sfx in (b"", SUFFIX):
            t2 = CfdpTlv.unpack(raw + sfx)
            _need(core.ISOLATION.check("CfdpTlv", t2, _tlv_fields) == _tlv_fields(t) and t2 == t and t == t2,
                  "CfdpTlv.unpack(pack(tlv) + suffix) does not return the same type/value/length")
    return {**_tlv_fields(t), "raw": hx(raw)}


def op_tlv_unpack(a):
    raw = unhx(a["raw"])
    t = CfdpTlv.unpack(_oct(a, "raw"))
    f = core.ISOLATION.check("CfdpTlv", t, _tlv_fields)
    _need(_pack_checked(t) == raw[: t.packet_len], "pack(unpack(b)) != b[:packet_len]")
    _detached(CfdpTlv.unpack, raw, _tlv_fields, "CfdpTlv.unpack", t)
    return f


# ---------------------------------------------------------------- plain wrappers
def _wrap_out(o, cls):
    _need(isinstance(o, cls), f"result is a {type(o).__name__}, not a {cls.__name__}")
    raw = _pack_checked(o)
    _need(raw[0] == int(cls.TLV_TYPE) == int(o.tlv_type), "object of a concrete class carries a foreign type octet")
    return {**_tlv_fields(o), "raw": hx(raw)}


def op_tlv_w_pack(a):
    cls = WRAP[a["cls"]]
    v = unhx(a["value"])
    o = cls(_oct(a, "value"))
    out = _wrap_out(o, cls)
    raw = unhx(out["raw"])
    for sfx in (b"", SUFFIX):
        o2 = cls.unpack(raw + sfx)
        _need(core.ISOLATION.check(cls.__name__, o2, _tlv_fields) == _tlv_fields(o) and bytes(o2.value) == v, "unpack(pack(x) + suffix) differs from x")
        if cls is not EntityIdTlv or len(v) in (1, 2, 4, 8):
            _need(o2 == o, "unpack(pack(x)) != x under ==")
    return out


def op_tlv_w_unpack(a):
    cls = WRAP[a["cls"]]
    raw = unhx(a["raw"])
    o = cls.unpack(_oct(a, "raw"))
    core.ISOLATION.check(cls.__name__, o, _tlv_fields)
    out = _wrap_out(o, cls)
    _need(unhx(out["raw"]) == raw[: out["packet_len"]], "pack(unpack(b)) != b[:packet_len]")
    _detached(cls.unpack, raw, _tlv_fields, cls.__name__ + ".unpack", o)
    return out


def op_tlv_w_from_tlv(a):
    cls = WRAP[a["cls"]]
    o = cls.from_tlv(_generic(a))
    core.ISOLATION.check(cls.__name__, o, _tlv_fields)
    return _wrap_out(o, cls)


def op_tlv_msg_reserved(a):
    return {"reserved": bool(MessageToUserTlv(_oct(a, "value")).is_reserved_cfdp_message())}


# ---------------------------------------------------------------- fault handler override
def _fh_fields(o):
    return {"type": _code(TlvType, o.tlv_type), "cc": _code(ConditionCode, o.condition_code),
            "hc": _code(FaultHandlerCode, o.handler_code), "value": hx(o.value), "packet_len": int(o.packet_len)}


def _fh_decoded(o):
    """a decoded fault-handler override: objects decoded by earlier calls must still show what they showed then"""
    _need(isinstance(o, FaultHandlerOverrideTlv), "result is not a FaultHandlerOverrideTlv")
    core.ISOLATION.check("FaultHandlerOverrideTlv", o, _fh_fields)
    return o


def _fh_out(o):
    _need(isinstance(o, FaultHandlerOverrideTlv), "result is not a FaultHandlerOverrideTlv")
    raw = _pack_checked(o)
    _need(raw[0] == 4 == int(o.tlv_type), "fault-handler object carries a foreign type octet")
    return {**_fh_fields(o), "raw": hx(raw)}


def op_tlv_fh_pack(a):
    o = FaultHandlerOverrideTlv(_arg(ConditionCode, a, "cc"), _arg(FaultHandlerCode, a, "hc"))
    out = _fh_out(o)
    raw = unhx(out["raw"])
    if a["cc"] < 16 and a["hc"] < 16:
        for sfx in (b"", SUFFIX):
            o2 = _fh_decoded(FaultHandlerOverrideTlv.unpack(raw + sfx))
            _need(_fh_out(o2) == out and o2 == o, "unpack(pack(x) + suffix) differs from x")
    return out


def op_tlv_fh_unpack(a):
    raw = unhx(a["raw"])
    o = _fh_decoded(FaultHandlerOverrideTlv.unpack(_oct(a, "raw")))
    out = _fh_out(o)
    _need(unhx(out["raw"]) == raw[: out["packet_len"]], "pack(unpack(b)) != b[:packet_len]")
    _detached(FaultHandlerOverrideTlv.unpack, raw, _fh_fields, "FaultHandlerOverrideTlv.unpack", o)
    return out


def op_tlv_fh_from_tlv(a):
    return _fh_out(_fh_decoded(FaultHandlerOverrideTlv.from_tlv(_generic(a))))


# ---------------------------------------------------------------- filestore request / response
def _fsreq(a) -> FileStoreRequestTlv:
    return FileStoreRequestTlv(_arg(FilestoreActionCode, a, "action"), _name(a["first"]), _name(a["second"]))


def _fsreq_fields(o):
    return {"type": _code(TlvType, o.tlv_type), "action": _code(FilestoreActionCode, o.action_code),
            "first": hx(o.first_file_name.encode()),
            "second": hx(o.second_file_name.encode()), "packet_len": int(o.packet_len)}


def _fsreq_decoded(o):
    _need(isinstance(o, FileStoreRequestTlv), "result is not a FileStoreRequestTlv")
    core.ISOLATION.check("FileStoreRequestTlv", o, _fsreq_fields)
    return o


def _fsreq_out(o):
    _need(isinstance(o, FileStoreRequestTlv), "result is not a FileStoreRequestTlv")
    raw = _pack_checked(o)
    _need(raw[0] == 0 == int(o.tlv_type), "filestore-request object carries a foreign type octet")
    return {**_fsreq_fields(o), "raw": hx(raw)}


def op_tlv_fsreq_len(a):
    return {"packet_len": int(_fsreq(a).packet_len)}


def op_tlv_fsreq_pack(a):
    o = _fsreq(a)
    out = _fsreq_out(o)
    raw = unhx(out["raw"])
    _need(bytes(o.value) == raw[2:], "value is not the packed TLV without its two header octets")
    out["value"] = hx(o.value)
    if a["action"] in ACTIONS:
        for sfx in (b"", SUFFIX):
            o2 = _fsreq_decoded(FileStoreRequestTlv.unpack(raw + sfx))
            f2, f1 = _fsreq_fields(o2), _fsreq_fields(o)
            if a["action"] not in SNP:
                f1["second"] = ""
                f1["packet_len"] = len(raw)
            _need(f2 == f1, "unpack(pack(x) + suffix) has different parameters than x")
            _need(o2 == o and bytes(o2.pack()) == raw, "unpack(pack(x)) != x under == / re-pack differs")
    return out


def _declared_len_check(o, raw):
    # every accepted filestore TLV reports exactly the length its TLV header declares
    _need(int(o.packet_len) == 2 + raw[1], f"packet_len={o.packet_len} != declared TLV length {2 + raw[1]}")


def op_tlv_fsreq_unpack(a):
    raw = unhx(a["raw"])
    o = _fsreq_decoded(FileStoreRequestTlv.unpack(_oct(a, "raw")))
    _declared_len_check(o, raw)
    out = _fsreq_out(o)
    _detached(FileStoreRequestTlv.unpack, raw, _fsreq_fields, "FileStoreRequestTlv.unpack", o)
    return out


def op_tlv_fsreq_from_tlv(a):
    return _fsreq_out(_fsreq_decoded(FileStoreRequestTlv.from_tlv(_generic(a))))


def _fsresp(a) -> FileStoreResponseTlv:
    return FileStoreResponseTlv(_arg(FilestoreActionCode, a, "action"), _arg(FilestoreResponseStatusCode, a, "status"),
                                _name(a["first"]), _name(a["second"]), CfdpLv(_oct(a, "msg")))


def _fsresp_fields(o):
    return {"type": _code(TlvType, o.tlv_type), "action": _code(FilestoreActionCode, o.action_code),
            "status": _code(FilestoreResponseStatusCode, o.status_code),
            "first": hx(o.first_file_name.encode()), "second": hx(o.second_file_name.encode()),
            "msg": hx(o.filestore_msg.value), "packet_len": int(o.packet_len)}


def _fsresp_decoded(o):
    _need(isinstance(o, FileStoreResponseTlv), "result is not a FileStoreResponseTlv")
    core.ISOLATION.check("FileStoreResponseTlv", o, _fsresp_fields)
    return o


def _fsresp_out(o):
    _need(isinstance(o, FileStoreResponseTlv), "result is not a FileStoreResponseTlv")
    raw = _pack_checked(o)
    _need(raw[0] == 1 == int(o.tlv_type), "filestore-response object carries a foreign type octet")
    return {**_fsresp_fields(o), "raw": hx(raw)}


def op_tlv_fsresp_len(a):
    return {"packet_len": int(_fsresp(a).packet_len)}


def op_tlv_fsresp_pack(a):
    o = _fsresp(a)
    out = _fsresp_out(o)
    raw = unhx(out["raw"])
    _need(bytes(o.value) == raw[2:], "value is not the packed TLV without its two header octets")
    out["value"] = hx(o.value)
    if a["action"] in ACTIONS and a["status"] >= 0 and a["status"] >> 4 == a["action"]:
        for sfx in (b"", SUFFIX):
            o2 = _fsresp_decoded(FileStoreResponseTlv.unpack(raw + sfx))
            f2, f1 = _fsresp_fields(o2), _fsresp_fields(o)
            if a["action"] not in SNP:
                f1["second"] = ""
                f1["packet_len"] = len(raw)
            _need(f2 == f1, "unpack(pack(x) + suffix) has different parameters than x")
            _need(o2 == o and bytes(o2.pack()) == raw, "unpack(pack(x)) != x under == / re-pack differs")
    return out


def op_tlv_fsresp_unpack(a):
    raw = unhx(a["raw"])
    o = _fsresp_decoded(FileStoreResponseTlv.unpack(_oct(a, "raw")))
    _declared_len_check(o, raw)
    out = _fsresp_out(o)
    _detached(FileStoreResponseTlv.unpack, raw, _fsresp_fields, "FileStoreResponseTlv.unpack", o)
    return out


def op_tlv_fsresp_from_tlv(a):
    return _fsresp_out(_fsresp_decoded(FileStoreResponseTlv.from_tlv(_generic(a))))


# ---------------------------------------------------------------- any TLV object, holder, equality
def _build(h):
    k = h["kind"]
    if k == "generic":
        return _generic(h)
    if k in WRAP:
        return WRAP[k](_oct(h, "value"))
    if k == "fault_handler":
        return FaultHandlerOverrideTlv(_arg(ConditionCode, h, "cc"), _arg(FaultHandlerCode, h, "hc"))
    if k == "fs_request":
        return _fsreq(h)
    if k == "fs_response":
        return _fsresp(h)
    raise InfraError(f"unknown kind {k}")


def op_tlv_holder(a):
    obj = _build(a["held"])
    holder = TlvHolder(obj)
    _need(_code(TlvType, holder.tlv_type) == _code(TlvType, obj.tlv_type), "TlvHolder.tlv_type differs from the held object's type")
    fn = {"entity_id": holder.to_entity_id, "flow_label": holder.to_flow_label, "msg_to_user": holder.to_msg_to_user,
          "fault_handler": holder.to_fault_handler_override, "fs_request": holder.to_fs_request,
          "fs_response": holder.to_fs_response}[a["to"]]
    try:
        r = fn()
    except TypeError:
        # DESIGN §8: for a holder of a concrete object of another class TypeError is the type-mismatch failure
        return {"refused": "type"}
    cls = CLASSES[a["to"]]
    _need(isinstance(r, cls), f"TlvHolder conversion to {a['to']} returned a {type(r).__name__}")
    raw = _pack_checked(r)
    _need(raw[0] == CLS_TYPE[a["to"]] == int(r.tlv_type), "converted object carries a foreign type octet")
    return {"type": _code(TlvType, r.tlv_type), "packet_len": int(r.packet_len), "raw": hx(raw)}


def op_tlv_any(a):
    o = _build(a["held"])
    raw = _pack_checked(o)
    return {"type": _code(TlvType, o.tlv_type), "packet_len": int(o.packet_len), "raw": hx(raw), "value": hx(o.value)}


def op_tlv_eq(a):
    x, y = _build(a["a"]), _build(a["b"])
    return {"eq": bool(x == y)}


def op_tlv_entity_eq(a):
    return {"eq": bool(EntityIdTlv(_oct(a, "a")) == EntityIdTlv(_oct(a, "b")))}


def op_tlv_check_type(a):
    _build(a["held"]).check_type(_arg(TlvType, a, "type"))
    return {}


def op_tlv_status_to_int(a):
    return {"nibble": int(map_enum_status_code_to_int(_arg_member(FilestoreResponseStatusCode, a, "status")))}


def op_tlv_status_to_action(a):
    ac, st = map_enum_status_code_to_action_status_code(_arg_member(FilestoreResponseStatusCode, a, "status"))
    return {"action": _code(FilestoreActionCode, ac), "nibble": int(st)}


def op_tlv_status_from_int(a):
    return {"status": _code(FilestoreResponseStatusCode, map_int_status_code_to_enum(_arg_member(FilestoreActionCode, a, "action"), a["status"]))}


def op_tlv_utf8(a):
    raw = unhx(a["raw"])
    try:
        s = raw.decode()
    except UnicodeDecodeError:
        return {"valid": False}
    _need(s.encode() == raw, "decode().encode() is not the identity on accepted octets")
    return {"valid": True}


OPS = {
    "lv_new": op_lv_new, "lv_pack": op_lv_pack, "lv_unpack": op_lv_unpack,
    "tlv_new": op_tlv_new, "tlv_pack": op_tlv_pack, "tlv_unpack": op_tlv_unpack,
    "tlv_w_pack": op_tlv_w_pack, "tlv_w_unpack": op_tlv_w_unpack, "tlv_w_from_tlv": op_tlv_w_from_tlv,
    "tlv_msg_reserved": op_tlv_msg_reserved,
    "tlv_fh_pack": op_tlv_fh_pack, "tlv_fh_unpack": op_tlv_fh_unpack, "tlv_fh_from_tlv": op_tlv_fh_from_tlv,
    "tlv_fsreq_len": op_tlv_fsreq_len, "tlv_fsreq_pack": op_tlv_fsreq_pack, "tlv_fsreq_unpack": op_tlv_fsreq_unpack,
    "tlv_fsreq_from_tlv": op_tlv_fsreq_from_tlv,
    "tlv_fsresp_len": op_tlv_fsresp_len, "tlv_fsresp_pack": op_tlv_fsresp_pack,
    "tlv_fsresp_unpack": op_tlv_fsresp_unpack, "tlv_fsresp_from_tlv": op_tlv_fsresp_from_tlv,
    "tlv_holder": op_tlv_holder, "tlv_any": op_tlv_any, "tlv_eq": op_tlv_eq, "tlv_entity_eq": op_tlv_entity_eq,
    "tlv_check_type": op_tlv_check_type,
    "tlv_status_to_int": op_tlv_status_to_int, "tlv_status_to_action": op_tlv_status_to_action,
    "tlv_status_from_int": op_tlv_status_from_int, "tlv_utf8": op_tlv_utf8,
}

for _k in [k for k in OPS if k.endswith(("_pack", "_new", "_len"))]:
    OPS[_k] = core.encoder_failure_is_refusal(OPS[_k])

# ---------------------------------------------------------------- generators
LENS_OK = [0, 1, 2, 3, 4, 8, 127, 128, 254, 255]
LENS_BAD = [256, 257, 300, 511, 512, 1000, 65536]

UTF8_GOOD = [b"", b"a", b"test.txt", b"/tmp/dir/file.bin", "ä.txt".encode(), "€".encode(), "𝄞.wav".encode(),
             b"\x00", b"\x7f", b"\xc2\x80", b"\xdf\xbf", b"\xe0\xa0\x80", b"\xed\x9f\xbf", b"\xee\x80\x80",
             b"\xef\xbf\xbf", b"\xf0\x90\x80\x80", b"\xf4\x8f\xbf\xbf", "名前/ファイル".encode(), "x" * 40 + "é"]
UTF8_GOOD = [x if isinstance(x, bytes) else x.encode() for x in UTF8_GOOD]
UTF8_BAD = [b"\x80", b"\xbf", b"\xc0\x80", b"\xc1\xbf", b"\xc2", b"\xc2\x7f", b"\xc2\xc0", b"\xe0\x80\x80",
            b"\xe0\x9f\xbf", b"\xe2\x82", b"\xe2", b"\xed\xa0\x80", b"\xed\xbf\xbf", b"\xf0\x80\x80\x80",
            b"\xf0\x8f\xbf\xbf", b"\xf0\x9f\x98", b"\xf4\x90\x80\x80", b"\xf5\x80\x80\x80", b"\xf8\x88\x80\x80\x80",
            b"\xfe", b"\xff", b"ab\xffcd", b"\xe1\x80\xc0", b"\xf1\x80\x80\x7f", b"a\xc3", b"\xef\xbf"]


def rand_utf8(rng: random.Random, maxlen: int) -> bytes:
    """a valid UTF-8 name of at most maxlen octets mixing 1/2/3/4-octet characters"""
    out = b""
    target = rng.randint(0, maxlen)
    while True:
        k = rng.random()
        if k < 0.6:
            ch = chr(rng.randint(0x20, 0x7E))
        elif k < 0.75:
            ch = chr(rng.randint(0x80, 0x7FF))
        elif k < 0.9:
            c = rng.randint(0x800, 0xFFFF)
            ch = chr(c if not 0xD800 <= c <= 0xDFFF else 0x20AC)
        else:
            ch = chr(rng.randint(0x10000, 0x10FFFF))
        e = ch.encode()
        if len(out) + len(e) > target:
            return out
        out += e


def fs_value(action: int, status: int, first: bytes, second: bytes, msg=None) -> bytes:
    v = bytes([(action << 4 | status) & 0xFF, len(first)]) + first
    if action in SNP:
        v += bytes([len(second)]) + second
    if msg is not None:
        v += bytes([len(msg)]) + msg
    return v


def generic_value_for(cls: str, rng: random.Random) -> bytes:
    """a value field that the concrete class `cls` decodes successfully"""
    if cls == "fault_handler":
        return bytes([rng.randint(0, 255)])
    if cls == "fs_request":
        a = rng.randint(0, 8)
        return fs_value(a, 0, rand_utf8(rng, 20), rand_utf8(rng, 20))
    if cls == "fs_response":
        st = rng.choice(STATUS_NAT)
        return fs_value(st >> 4, st & 15, rand_utf8(rng, 20), rand_utf8(rng, 20), rbytes(rng, rng.randint(0, 9)))
    return rbytes(rng, rng.choice([0, 1, 2, 4, 8, 17]))


def held_concrete(kind: str, rng: random.Random) -> Dict[str, Any]:
    if kind in WRAP:
        return {"kind": kind, "value": hx(rbytes(rng, rng.choice([0, 1, 2, 4, 8, 30])))}
    if kind == "fault_handler":
        return {"kind": kind, "cc": rng.choice(CC_MEMBERS), "hc": rng.choice(HC_MEMBERS)}
    if kind == "fs_request":
        return {"kind": kind, "action": rng.randint(0, 8), "first": hx(rand_utf8(rng, 30)), "second": hx(rand_utf8(rng, 30))}
    st = rng.choice(STATUS_NAT)
    return {"kind": kind, "action": st >> 4, "status": st, "first": hx(rand_utf8(rng, 30)),
            "second": hx(rand_utf8(rng, 30)), "msg": hx(rbytes(rng, rng.randint(0, 12)))}


def fs_fits(action: int, first: bytes, second: bytes, msg=None) -> bool:
    if len(first) > 255 or (action in SNP and len(second) > 255):
        return False
    n = 2 + len(first) + ((1 + len(second)) if action in SNP else 0) + ((1 + len(msg)) if msg is not None else 0)
    return n <= 255


# ---------------------------------------------------------------- forms the UNCHANGED library accepts, per op argument
# (established on /repo 066f1b2: every enum-valued argument is used arithmetically / compared with `!=` / `in [members]`, so
# the member, the plain int and a member of a foreign IntEnum behave alike; every octet argument is measured with len() and
# copied with extend() / sliced, so bytes and bytearray behave alike. memoryview is NOT generated: no signature names it, and
# the filestore classes refuse it today - `.decode()` of the file-name LVs)
_T, _O = core.CODE_FORMS, core.OCTET_FORMS
_GENERIC_SPEC = {"type": _T, "type_via": ("ctor", "setter"), "value": _O}
_HELD_SPEC = {"generic": _GENERIC_SPEC, "entity_id": {"value": _O}, "flow_label": {"value": _O}, "msg_to_user": {"value": _O},
              "fault_handler": {"cc": _T, "hc": _T}, "fs_request": {"action": _T},
              "fs_response": {"action": _T, "status": _T, "msg": _O}}
# op -> (share of the generated cases of that op that are repeated once with drawn forms, top-level spec, nested keys)
_FORM_SPEC = {
    "lv_new": (0.5, {"value": _O}, ()), "lv_pack": (0.3, {"value": _O}, ()), "lv_unpack": (0.02, {"raw": _O}, ()),
    "tlv_new": (0.5, _GENERIC_SPEC, ()), "tlv_pack": (0.5, _GENERIC_SPEC, ()), "tlv_unpack": (0.02, {"raw": _O}, ()),
    "tlv_w_pack": (0.3, {"value": _O}, ()), "tlv_w_unpack": (0.03, {"raw": _O}, ()), "tlv_w_from_tlv": (0.3, _GENERIC_SPEC, ()),
    "tlv_msg_reserved": (0.3, {"value": _O}, ()),
    "tlv_fh_pack": (1.0, {"cc": _T, "hc": _T}, ()), "tlv_fh_unpack": (0.05, {"raw": _O}, ()),
    "tlv_fh_from_tlv": (0.5, _GENERIC_SPEC, ()),
    "tlv_fsreq_len": (0.15, {"action": _T}, ()), "tlv_fsreq_pack": (0.2, {"action": _T}, ()),
    "tlv_fsreq_unpack": (0.02, {"raw": _O}, ()), "tlv_fsreq_from_tlv": (0.04, _GENERIC_SPEC, ()),
    "tlv_fsresp_len": (0.15, {"action": _T, "status": _T, "msg": _O}, ()),
    "tlv_fsresp_pack": (0.2, {"action": _T, "status": _T, "msg": _O}, ()),
    "tlv_fsresp_unpack": (0.02, {"raw": _O}, ()), "tlv_fsresp_from_tlv": (0.04, _GENERIC_SPEC, ()),
    "tlv_holder": (0.25, {}, ("held",)), "tlv_any": (0.2, {}, ("held",)), "tlv_eq": (0.3, {}, ("a", "b")),
    "tlv_entity_eq": (0.5, {"a": _O, "b": _O}, ()), "tlv_check_type": (0.08, {"type": _T}, ("held",)),
    "tlv_status_to_int": (1.0, {"status": _T}, ()), "tlv_status_to_action": (1.0, {"status": _T}, ()),
    "tlv_status_from_int": (1.0, {"action": _T}, ()),
}


def _form_variant(c: Case, frng: random.Random):
    """the case once more, its arguments in forms drawn from the tables above (None: not this time / nothing to vary)"""
    spec = _FORM_SPEC.get(c.op["op"])
    if spec is None or frng.random() >= spec[0] or "forms" in c.op:
        return None
    share, top, nested_keys = spec
    nested = {}
    for k in nested_keys:
        h = c.op.get(k)
        if isinstance(h, dict) and "forms" not in h:
            nested[k] = core.draw_forms(frng, _HELD_SPEC.get(h.get("kind"), {}), force=False)
    forms = core.draw_forms(frng, top, force=not any(nested.values()))
    if not forms and not any(nested.values()):
        k = frng.choice(list(nested)) if nested else None
        if k is None:
            return None
        nested[k] = core.draw_forms(frng, _HELD_SPEC.get(c.op[k].get("kind"), {}))
    return core.case_with_forms(c, forms, nested)


_FROM_TLV_OP = {"entity_id": ("tlv_w_from_tlv", {"cls": "entity_id"}), "flow_label": ("tlv_w_from_tlv", {"cls": "flow_label"}),
                "msg_to_user": ("tlv_w_from_tlv", {"cls": "msg_to_user"}), "fault_handler": ("tlv_fh_from_tlv", {}),
                "fs_request": ("tlv_fsreq_from_tlv", {}), "fs_response": ("tlv_fsresp_from_tlv", {})}


class C08(Prop):
    id = "C08"
    title = "CFDP TLV and LV items"
    lean_modules = ["SpVerif.Props.C08"]
    exhaustive_note = ("all 256 length octets of LV and TLV against exact / longer / one-short buffers; all 256 type octets "
                       "through the generic and every concrete decoder; every (concrete class, TLV type) pair through unpack, "
                       "from_tlv and TlvHolder.to_*; all 256 first value octets (action x status nibble) of filestore request "
                       "and response; all 256 fault-handler value octets; every status-code member through the three helpers; "
                       "every (concrete class, TLV type) pair again with the type of the generic TLV given as plain int / member of a foreign "
                       "IntEnum / member, by constructor and through the tlv_type setter, through from_tlv and TlvHolder.to_* (case key 'forms'); "
                       "UTF-8 acceptance: all 1-octet strings, all 2-octet strings with a lead octet >= 0x70 (all 65 536 in the thorough tier), all lead x second-octet pairs of the 3/4-octet forms (thorough: all 3-octet strings with lead E0, E1, ED, EF)")
    trusted_base = ["file names are modelled by their UTF-8 octets; bytes.decode() acceptance is the model's utf8Valid, "
                    "tied to CPython's strict decoder by the tlv_utf8 op (exhaustive on 1-2 octets, structured beyond)",
                    "TypeError of TlvHolder.to_* for a concrete object of another class is mapped to the payload "
                    "{'refused':'type'} on both sides (DESIGN section 8 interpretation of 'type-mismatch error')"]
    assumptions = ["TLV types, action codes, status codes, condition/handler codes are passed as the members of the library's enums "
                   "that carry the STANDARD NAME of the code (core.std_member / core.STD_NAMES; codes without a standard name as the "
                   "member of that value or the plain int), and decoded codes are compared with the members of those names; cases "
                   "with a 'forms' key pass the same codes as plain ints / members of a foreign IntEnum class and the same octets as "
                   "bytearray (the forms the library accepts on the unchanged tree; memoryview is not among them); "
                   "file names are str values that str.encode() accepts (no lone surrogates)"]

    def impl_ops(self):
        return OPS

    def table_sync(self):
        d = []
        if sorted(int(x) for x in TlvType) != TLV_TYPES:
            d.append("TlvType members")
        for n, v in CLS_TYPE.items():
            if int(CLASSES[n].TLV_TYPE) != v:
                d.append(f"{n}.TLV_TYPE")
        exp_t = {"FILESTORE_REQUEST": 0, "FILESTORE_RESPONSE": 1, "MESSAGE_TO_USER": 2, "FAULT_HANDLER": 4,
                 "FLOW_LABEL": 5, "ENTITY_ID": 6}
        if {m.name: int(m) for m in TlvType} != exp_t:
            d.append("TlvType names/values")
        if sorted(int(x) for x in FilestoreActionCode) != ACTIONS:
            d.append("FilestoreActionCode members")
        if sorted(int(getattr(FilestoreActionCode, n)) for n in ("RENAME_FILE_SNP", "APPEND_FILE_SNP", "REPLACE_FILE_SNP")) != SNP:
            d.append("two-name action codes")
        if sorted(set(int(x) for x in FilestoreResponseStatusCode.__members__.values())) != [-1] + STATUS_NAT:
            d.append("FilestoreResponseStatusCode member values")
        if int(FilestoreResponseStatusCode.INVALID) != -1:
            d.append("FilestoreResponseStatusCode.INVALID")
        if sorted(int(x) for x in ConditionCode) != [-1] + CC_MEMBERS:
            d.append("ConditionCode members")
        if sorted(int(x) for x in FaultHandlerCode) != HC_MEMBERS:
            d.append("FaultHandlerCode members")
        # named constants against the standard's tables (727.0-B-5 tables 5-16..5-19), by NAME: a wrong value
        # that merely becomes an alias of another member leaves the set of values intact
        for enum, exp in ((FilestoreResponseStatusCode, STD_STATUS), (FilestoreActionCode, STD_ACTION),
                          (ConditionCode, STD_CONDITION), (FaultHandlerCode, STD_HANDLER)):
            live = {n: int(v) for n, v in enum.__members__.items()}
            for n in sorted(set(live) | set(exp)):
                if live.get(n) != exp.get(n):
                    d.append(f"{enum.__name__}.{n} = {live.get(n)} (standard: {exp.get(n)})")
        if CfdpTlv.MINIMAL_LEN != 2:
            d.append("CfdpTlv.MINIMAL_LEN")
        if bytes(tlvmod.create_cfdp_proxy_and_dir_op_message_marker()) != b"cfdp":
            d.append("cfdp marker")
        if not issubclass(TlvTypeMissmatch, Exception) or issubclass(TlvTypeMissmatch, ValueError):
            d.append("TlvTypeMissmatch class hierarchy")
        return d

    def nontrivial(self, c: Case) -> bool:
        def nz(v):
            if isinstance(v, dict):
                return any(nz(x) for k, x in v.items() if k != "kind")
            if isinstance(v, str):
                return v.strip("0") != ""
            return v not in (0, None, False)
        return any(nz(v) for k, v in c.op.items() if k not in ("op", "cls", "to"))

    def neighbours(self, c: Case, rng: random.Random) -> Iterator[Case]:
        o = c.op
        if isinstance(o.get("raw"), str):
            raw = unhx(o["raw"])
            for k in range(len(raw)):
                yield Case({**o, "raw": hx(raw[:k])}, "any", tag="nb-truncation")
            for sfx in (SUFFIX, raw):
                yield Case({**o, "raw": hx(raw + sfx)}, "any", tag="nb-suffix")
            for i in range(min(len(raw), 4)):
                for v in (0, 1, 2, 4, 5, 6, 255):
                    b = bytearray(raw)
                    b[i] = v
                    yield Case({**o, "raw": hx(bytes(b))}, "any", tag="nb-subst")

    # ------------------------------------------------------------------------------------------
    def cases(self, rng: random.Random, tier: str) -> Iterator[Case]:
        """the generated stream (unchanged), followed by the TYPE-COERCION dimension: a share of those cases once more with
        their arguments in other forms (own random stream: the stream above is the same with and without it), and the
        exhaustive (concrete class x TLV type x form x route) table"""
        frng = core.forms_rng(rng)
        later: List[Case] = []
        for c in self.base_cases(rng, tier):
            yield c
            v = _form_variant(c, frng)
            if v is not None:
                later.append(v)
        yield from later
        yield from self.gen_forms(frng, 30 if tier == "thorough" else 3)

    # -- every concrete class x every TLV type x every form of the type / way of supplying it, through every route ----------
    def gen_forms(self, frng, R):
        kinds = list(CLS_TYPE)
        kind_of = {v: k for k, v in CLS_TYPE.items()}
        combos = [(tf, via) for tf in _T for via in ("ctor", "setter") if (tf, via) != ("member", "ctor")]
        for to in kinds:
            own = CLS_TYPE[to]
            op, extra = _FROM_TLV_OP[to]
            for t in TLV_TYPES:
                exp = "valid" if t == own else "invalid"
                for tf, via in combos:
                    for i in range(R):
                        v = generic_value_for(kind_of[t], frng)
                        forms = {"type": tf, "type_via": via}
                        if (i + len(v)) % 2:
                            forms["value"] = "bytearray"
                        forms = {k: x for k, x in forms.items() if x not in ("member", "ctor")}
                        yield Case({"op": op, **extra, "type": t, "value": hx(v), "forms": forms}, exp, errclass=True,
                                   tag="forms-from-tlv-own" if t == own else "forms-from-tlv-foreign")
                        held = {"kind": "generic", "type": t, "value": hx(v), "forms": forms}
                        yield Case({"op": "tlv_holder", "held": held, "to": to}, exp, errclass=True,
                                   tag="forms-holder-own" if t == own else "forms-holder-foreign")
        # the generic TLV itself: octets, views, equality with the member-built twin and with the concrete twin, check_type
        for t in TLV_TYPES:
            for tf, via in combos:
                forms = {k: x for k, x in (("type", tf), ("type_via", via)) if x not in ("member", "ctor")}
                for n in (0, 5, 255):
                    v = hx(rbytes(frng, n))
                    g = {"kind": "generic", "type": t, "value": v, "forms": forms}
                    twin = {"kind": "generic", "type": t, "value": v}
                    yield Case({"op": "tlv_pack", "type": t, "value": v, "forms": forms}, "valid", tag="forms-generic")
                    yield Case({"op": "tlv_new", "type": t, "value": v, "forms": forms}, "valid", tag="forms-generic")
                    yield Case({"op": "tlv_any", "held": g}, "valid", tag="forms-generic")
                    yield Case({"op": "tlv_eq", "a": g, "b": twin}, "valid", tag="forms-eq-twin")
                    yield Case({"op": "tlv_eq", "a": twin, "b": g}, "valid", tag="forms-eq-twin")
                    other = frng.choice([x for x in TLV_TYPES if x != t])
                    yield Case({"op": "tlv_eq", "a": g, "b": {**twin, "type": other}}, "valid", tag="forms-eq-other-type")
                    yield Case({"op": "tlv_eq", "a": {**g, "type": other}, "b": g}, "valid", tag="forms-eq-other-type")
                    k = kind_of[t]
                    if k in ("flow_label", "msg_to_user"):
                        yield Case({"op": "tlv_eq", "a": {"kind": k, "value": v}, "b": g}, "valid", tag="forms-eq-concrete-twin")
                        yield Case({"op": "tlv_eq", "a": g, "b": {"kind": k, "value": v}}, "valid", tag="forms-eq-concrete-twin")
                    for tt in TLV_TYPES:
                        yield Case({"op": "tlv_check_type", "held": g, "type": tt}, "valid" if tt == t else "invalid",
                                   errclass=True, tag="forms-check-type")
        for k in kinds:
            for t in TLV_TYPES:
                for tf in ("int", "other"):
                    yield Case({"op": "tlv_check_type", "held": held_concrete(k, frng), "type": t, "forms": {"type": tf}},
                               "valid" if t == CLS_TYPE[k] else "invalid", errclass=True, tag="forms-check-type")
        # every code of every concrete constructor as int / foreign member
        for tf in ("int", "other"):
            for cc in CC_MEMBERS:
                for hc in HC_MEMBERS:
                    f = {"cc": tf, "hc": frng.choice(_T)} if (cc + hc) % 2 else {"cc": frng.choice(_T), "hc": tf}
                    f = {k: x for k, x in f.items() if x != "member"}
                    yield Case({"op": "tlv_fh_pack", "cc": cc, "hc": hc, "forms": f}, "valid", tag="forms-all-members")
            for a in ACTIONS:
                for _ in range(R):
                    f1, f2 = rand_utf8(frng, 20), rand_utf8(frng, 20)
                    yield Case({"op": "tlv_fsreq_pack", "action": a, "first": hx(f1), "second": hx(f2), "forms": {"action": tf}},
                               "valid", tag="forms-all-members")
            for st in STATUS_NAT:
                f1, f2, m = rand_utf8(frng, 20), rand_utf8(frng, 20), rbytes(frng, frng.randint(0, 9))
                f = {"action": frng.choice(_T), "status": tf, "msg": frng.choice(_O)}
                f = {k: x for k, x in f.items() if x not in ("member", "bytes")}
                opd = {"action": st >> 4, "status": st, "first": hx(f1), "second": hx(f2), "msg": hx(m)}
                yield Case({"op": "tlv_fsresp_pack", **opd, "forms": f}, "valid", tag="forms-all-members")
                yield Case({"op": "tlv_any", "held": {"kind": "fs_response", **opd, "forms": f}}, "valid", tag="forms-all-members")

    def base_cases(self, rng: random.Random, tier: str) -> Iterator[Case]:
        thorough = tier == "thorough"
        R = 40 if thorough else 4
        yield from self.gen_lv(rng, R)
        yield from self.gen_tlv(rng, R)
        yield from self.gen_wrappers(rng, R)
        yield from self.gen_fault_handler(rng, R)
        yield from self.gen_fs(rng, R)
        yield from self.gen_holder_eq(rng, R)
        yield from self.gen_status(rng)
        yield from self.gen_sequences(rng, R)
        yield from self.gen_utf8(rng, R, thorough)

    # -- sequences: state must not leak between objects or between calls ------------------------------
    def gen_sequences(self, rng, R):
        """back-to-back decodes of items that differ in type, length and every value octet (an object decoded
        earlier must not follow a later decode); long values packed repeatedly (every pack op packs twice with the
        first returned buffer modified in between)"""
        own = {"entity_id": 6, "flow_label": 5, "msg_to_user": 2}
        for _ in range(25 * R):
            na, nb = rng.choice([64, 65, 100, 200, 254, 255]), rng.choice([0, 1, 2, 8, 63])
            va = rbytes(rng, na)
            vb = bytes(x ^ 0xFF for x in va[:nb])
            ta = rng.choice(TLV_TYPES)
            tb = rng.choice([t for t in TLV_TYPES if t != ta])
            for t, v in ((ta, va), (tb, vb), (ta, va)):
                yield Case({"op": "tlv_unpack", "raw": hx(bytes([t, len(v)]) + v + rbytes(rng, 2))}, "valid", tag="seq-decode")
                yield Case({"op": "lv_unpack", "raw": hx(bytes([len(v)]) + v)}, "valid", tag="seq-decode")
            for cls in WRAP:
                for v in (va, vb, va):
                    yield Case({"op": "tlv_w_unpack", "cls": cls, "raw": hx(bytes([own[cls], len(v)]) + v)}, "valid", tag="seq-decode")
                    yield Case({"op": "tlv_w_from_tlv", "cls": cls, "type": own[cls], "value": hx(v)}, "valid", tag="seq-decode")
                yield Case({"op": "tlv_w_pack", "cls": cls, "value": hx(va)}, "valid", tag="seq-pack-long")
            yield Case({"op": "tlv_pack", "type": ta, "value": hx(va)}, "valid", tag="seq-pack-long")
            yield Case({"op": "lv_pack", "value": hx(va)}, "valid", tag="seq-pack-long")
            # filestore request / response: two-name action with long names, then a one-name action with short ones
            f1, s1 = rand_utf8(rng, 60) + b"x" * 40, rand_utf8(rng, 60) + b"y" * 30
            f2 = rand_utf8(rng, 5)
            st1 = rng.choice([x for x in STATUS_NAT if x >> 4 in SNP])
            st2 = rng.choice([x for x in STATUS_NAT if x >> 4 not in SNP])
            m1, m2 = rbytes(rng, 20), rbytes(rng, 1)
            for (st, f, sn, m) in ((st1, f1, s1, m1), (st2, f2, b"", m2), (st1, f1, s1, m1)):
                v = fs_value(st >> 4, 0, f, sn)
                yield Case({"op": "tlv_fsreq_unpack", "raw": hx(bytes([0, len(v)]) + v)}, "valid", tag="seq-decode")
                yield Case({"op": "tlv_fsreq_from_tlv", "type": 0, "value": hx(v)}, "valid", tag="seq-decode")
                v = fs_value(st >> 4, st & 15, f, sn, m)
                yield Case({"op": "tlv_fsresp_unpack", "raw": hx(bytes([1, len(v)]) + v)}, "valid", tag="seq-decode")
                yield Case({"op": "tlv_fsresp_from_tlv", "type": 1, "value": hx(v)}, "valid", tag="seq-decode")
            op = {"action": st1 >> 4, "status": st1, "first": hx(f1), "second": hx(s1), "msg": hx(m1)}
            yield Case({"op": "tlv_fsresp_pack", **op}, "valid", tag="seq-pack-long")
            yield Case({"op": "tlv_fsreq_pack", "action": st1 >> 4, "first": hx(f1), "second": hx(s1)}, "valid", tag="seq-pack-long")
            yield Case({"op": "tlv_any", "held": {"kind": "fs_response", **op}}, "valid", tag="seq-pack-long")
            for b in (rng.randint(0, 255), rng.randint(0, 255)):
                yield Case({"op": "tlv_fh_unpack", "raw": hx(bytes([4, 1, b]))}, "valid", tag="seq-decode")

    # -- LV -------------------------------------------------------------------------------------
    def gen_lv(self, rng, R):
        for n in LENS_OK:
            for _ in range(2):
                v = hx(rbytes(rng, n))
                yield Case({"op": "lv_new", "value": v}, "valid", tag="len-pool")
                yield Case({"op": "lv_pack", "value": v}, "valid", tag="len-pool")
        for n in range(256):
            yield Case({"op": "lv_pack", "value": hx(rbytes(rng, n))}, "valid", tag="len-sweep")
        for n in LENS_BAD:
            v = hx(rbytes(rng, n))
            yield Case({"op": "lv_new", "value": v}, "invalid", errclass=True, tag="too-long")
            yield Case({"op": "lv_pack", "value": v}, "invalid", errclass=True, tag="too-long")
        for L in range(256):
            body = rbytes(rng, L)
            yield Case({"op": "lv_unpack", "raw": hx(bytes([L]) + body)}, "valid", tag="len-octet-sweep-exact")
            yield Case({"op": "lv_unpack", "raw": hx(bytes([L]) + body + rbytes(rng, rng.choice([1, 2, 40])))}, "valid",
                       tag="len-octet-sweep-suffix")
            yield Case({"op": "lv_unpack", "raw": hx(bytes([L]) + rbytes(rng, 300))}, "valid", tag="len-octet-sweep-long")
            if L > 0:
                yield Case({"op": "lv_unpack", "raw": hx(bytes([L]) + body[:-1])}, "invalid", errclass=True,
                           tag="len-octet-sweep-one-short")
                yield Case({"op": "lv_unpack", "raw": hx(bytes([L]))}, "invalid", errclass=True, tag="len-octet-only")
                yield Case({"op": "lv_unpack", "raw": hx(bytes([L]) + body[: rng.randint(0, L - 1)])}, "invalid",
                           errclass=True, tag="len-octet-sweep-short")
        yield Case({"op": "lv_unpack", "raw": ""}, "invalid", errclass=True, tag="empty")
        for _ in range(1500 * R):
            raw = rbytes(rng, rng.choice([1, 2, 3, 5, 9, 30, 100, 256, 257]))
            if rng.random() < 0.5:
                raw = bytes([rng.choice([0, 1, len(raw) - 2, len(raw) - 1, len(raw), len(raw) + 1]) % 256]) + raw[1:]
            yield Case({"op": "lv_unpack", "raw": hx(raw)}, "any", tag="random-octets")

    # -- generic TLV ------------------------------------------------------------------------------
    def gen_tlv(self, rng, R):
        for t in TLV_TYPES:
            for n in LENS_OK:
                v = hx(rbytes(rng, n))
                yield Case({"op": "tlv_new", "type": t, "value": v}, "valid", tag="type-x-len")
                yield Case({"op": "tlv_pack", "type": t, "value": v}, "valid", tag="type-x-len")
            for n in LENS_BAD:
                v = hx(rbytes(rng, n))
                yield Case({"op": "tlv_new", "type": t, "value": v}, "invalid", errclass=True, tag="too-long")
                yield Case({"op": "tlv_pack", "type": t, "value": v}, "invalid", errclass=True, tag="too-long")
        for n in range(256):
            yield Case({"op": "tlv_pack", "type": rng.choice(TLV_TYPES), "value": hx(rbytes(rng, n))}, "valid", tag="len-sweep")
        for t in (256, 257, 1 << 16):
            yield Case({"op": "tlv_pack", "type": t, "value": hx(rbytes(rng, 3))}, "invalid", tag="type-not-an-octet")
        # all 256 type octets
        for t in range(256):
            for n in (0, 1, 5):
                raw = bytes([t, n]) + rbytes(rng, n) + rbytes(rng, rng.choice([0, 0, 3]))
                yield Case({"op": "tlv_unpack", "raw": hx(raw)}, "valid" if t in TLV_TYPES else "invalid",
                           errclass=True, tag="type-octet-sweep")
        # all 256 length octets
        for L in range(256):
            t = rng.choice(TLV_TYPES)
            body = rbytes(rng, L)
            yield Case({"op": "tlv_unpack", "raw": hx(bytes([t, L]) + body)}, "valid", tag="len-octet-sweep-exact")
            yield Case({"op": "tlv_unpack", "raw": hx(bytes([t, L]) + body + rbytes(rng, rng.choice([1, 2, 40])))},
                       "valid", tag="len-octet-sweep-suffix")
            yield Case({"op": "tlv_unpack", "raw": hx(bytes([t, L]) + rbytes(rng, 300))}, "valid", tag="len-octet-sweep-long")
            if L > 0:
                for tt in TLV_TYPES:
                    yield Case({"op": "tlv_unpack", "raw": hx(bytes([tt, L]))}, "invalid", errclass=True,
                               tag="two-octets-only")
                yield Case({"op": "tlv_unpack", "raw": hx(bytes([t, L]) + body[:-1])}, "invalid", errclass=True,
                           tag="len-octet-sweep-one-short")
                yield Case({"op": "tlv_unpack", "raw": hx(bytes([t, L]) + body[: rng.randint(0, L - 1)])}, "invalid",
                           errclass=True, tag="len-octet-sweep-short")
        for raw in [b""] + [bytes([t]) for t in range(0, 8)] + [b"\xff"]:
            yield Case({"op": "tlv_unpack", "raw": hx(raw)}, "invalid", errclass=True, tag="fewer-than-two-octets")
        for _ in range(2000 * R):
            ln = rng.choice([2, 3, 4, 6, 10, 40, 257, 258])
            raw = bytearray(rbytes(rng, ln))
            if rng.random() < 0.8:
                raw[0] = rng.choice(TLV_TYPES)
            if rng.random() < 0.6:
                raw[1] = rng.choice([0, 1, ln - 3, ln - 2, ln - 1, ln]) % 256
            yield Case({"op": "tlv_unpack", "raw": hx(bytes(raw))}, "any", tag="random-octets")

    # -- entity id / flow label / message to user ----------------------------------------------------
    def gen_wrappers(self, rng, R):
        for cls, own in (("entity_id", 6), ("flow_label", 5), ("msg_to_user", 2)):
            for n in LENS_OK + [5, 6, 16]:
                for _ in range(2 * R):
                    v = rbytes(rng, n)
                    yield Case({"op": "tlv_w_pack", "cls": cls, "value": hx(v)}, "valid", tag="len-pool")
                    yield Case({"op": "tlv_any", "held": {"kind": cls, "value": hx(v)}}, "valid", tag="len-pool")
            for n in LENS_BAD:
                yield Case({"op": "tlv_w_pack", "cls": cls, "value": hx(rbytes(rng, n))}, "invalid", errclass=True, tag="too-long")
            # every type octet through unpack (own -> decoded; other TLV type -> type mismatch; no TLV type -> refused)
            for t in range(256):
                for n in (0, 1, 4, rng.randint(0, 40)):
                    raw = bytes([t, n]) + rbytes(rng, n)
                    sfx = rbytes(rng, rng.choice([0, 0, 2, 9]))
                    if t == own:
                        yield Case({"op": "tlv_w_unpack", "cls": cls, "raw": hx(raw + sfx)}, "valid", tag="own-type")
                    elif t in TLV_TYPES:
                        yield Case({"op": "tlv_w_unpack", "cls": cls, "raw": hx(raw + sfx)}, "invalid", errclass=True,
                                   tag="foreign-type")
                    else:
                        yield Case({"op": "tlv_w_unpack", "cls": cls, "raw": hx(raw + sfx)}, "invalid", tag="no-tlv-type")
            for t in TLV_TYPES:
                for n in LENS_OK:
                    v = hx(rbytes(rng, n))
                    yield Case({"op": "tlv_w_from_tlv", "cls": cls, "type": t, "value": v},
                               "valid" if t == own else "invalid", errclass=True, tag="from-tlv-type-x-len")
                # a foreign TLV whose value would be a perfectly good value of the foreign class
                for fk in CLS_TYPE:
                    if CLS_TYPE[fk] == t and t != own:
                        for _ in range(5 * R):
                            v = generic_value_for(fk, rng)
                            yield Case({"op": "tlv_w_from_tlv", "cls": cls, "type": t, "value": hx(v)}, "invalid",
                                       errclass=True, tag="from-tlv-foreign-wellformed")
                            yield Case({"op": "tlv_w_unpack", "cls": cls, "raw": hx(bytes([t, len(v)]) + v)}, "invalid",
                                       errclass=True, tag="unpack-foreign-wellformed")
            # truncations of a valid own-type TLV
            for _ in range(10 * R):
                v = rbytes(rng, rng.randint(1, 20))
                raw = bytes([own, len(v)]) + v
                for k in range(len(raw)):
                    yield Case({"op": "tlv_w_unpack", "cls": cls, "raw": hx(raw[:k])}, "invalid", tag="truncation")
        for v in [b"", b"cfdp", b"cfdp\x00", b"cfdq\x00", b"cfdp\x10abc", b"xcfdp\x00", b"CFDP\x00", b"cfd", b"cfdp\xff\xfe"]:
            yield Case({"op": "tlv_msg_reserved", "value": hx(v)}, "valid", tag="reserved-marker")
        for _ in range(50 * R):
            v = bytearray(b"cfdp" + rbytes(rng, rng.randint(0, 6)))
            if rng.random() < 0.4:
                v[rng.randint(0, 3)] ^= 1 << rng.randint(0, 7)
            yield Case({"op": "tlv_msg_reserved", "value": hx(bytes(v))}, "valid", tag="reserved-marker")
        # entity-id numerical equality
        for la in (0, 1, 2, 3, 4, 5, 8, 9):
            for lb in (0, 1, 2, 3, 4, 8):
                a = rbytes(rng, la)
                b = rbytes(rng, lb)
                ok = la in (1, 2, 4, 8) and lb in (1, 2, 4, 8)
                yield Case({"op": "tlv_entity_eq", "a": hx(a), "b": hx(b)}, "valid" if ok else "any", tag="entity-eq")
                if ok:
                    n = int.from_bytes(a, "big") % (1 << (8 * min(la, lb)))
                    yield Case({"op": "tlv_entity_eq", "a": hx(n.to_bytes(la, "big")), "b": hx(n.to_bytes(lb, "big"))},
                               "valid", tag="entity-eq-same-number")

    # -- fault handler override -----------------------------------------------------------------------
    def gen_fault_handler(self, rng, R):
        for cc in CC_MEMBERS:
            for hc in HC_MEMBERS:
                yield Case({"op": "tlv_fh_pack", "cc": cc, "hc": hc}, "valid", tag="all-members")
                yield Case({"op": "tlv_any", "held": {"kind": "fault_handler", "cc": cc, "hc": hc}}, "valid", tag="all-members")
        for hc in HC_MEMBERS:
            yield Case({"op": "tlv_fh_pack", "cc": -1, "hc": hc}, "invalid", errclass=True, tag="no-condition-field")
        for v in range(256):
            yield Case({"op": "tlv_fh_unpack", "raw": hx(bytes([4, 1, v]) + rbytes(rng, v % 3))}, "valid", tag="value-octet-sweep")
            yield Case({"op": "tlv_fh_from_tlv", "type": 4, "value": hx(bytes([v]))}, "valid", tag="value-octet-sweep")
        for n in (2, 3, 10, 255):
            v = rbytes(rng, n)
            yield Case({"op": "tlv_fh_unpack", "raw": hx(bytes([4, n]) + v)}, "valid", tag="longer-value")
            yield Case({"op": "tlv_fh_from_tlv", "type": 4, "value": hx(v)}, "valid", tag="longer-value")
        yield Case({"op": "tlv_fh_unpack", "raw": "0400"}, "invalid", errclass=True, tag="empty-value")
        yield Case({"op": "tlv_fh_unpack", "raw": "0400aabb"}, "invalid", errclass=True, tag="empty-value")
        yield Case({"op": "tlv_fh_from_tlv", "type": 4, "value": ""}, "invalid", errclass=True, tag="empty-value")
        for t in range(256):
            if t == 4:
                continue
            for n in (0, 1, 3):
                raw = bytes([t, n]) + rbytes(rng, n) + rbytes(rng, rng.choice([0, 2]))
                yield Case({"op": "tlv_fh_unpack", "raw": hx(raw)}, "invalid", errclass=t in TLV_TYPES,
                           tag="foreign-type" if t in TLV_TYPES else "no-tlv-type")
        for t in TLV_TYPES:
            if t != 4:
                for n in (0, 1, 2, 255):
                    yield Case({"op": "tlv_fh_from_tlv", "type": t, "value": hx(rbytes(rng, n))}, "invalid", errclass=True,
                               tag="from-tlv-foreign")
        for k in range(3):
            yield Case({"op": "tlv_fh_unpack", "raw": hx(bytes([4, 1, 0x13])[:k])}, "invalid", tag="truncation")

    # -- filestore request / response --------------------------------------------------------------------
    def gen_fs(self, rng, R):
        names = list(UTF8_GOOD) + [b"n" * 100, b"n" * 124, b"n" * 125, b"n" * 126, b"n" * 127, b"n" * 251, b"n" * 252,
                                   b"n" * 253, b"n" * 254, b"n" * 255, ("é" * 126).encode(), ("é" * 127).encode()]
        long_names = [b"n" * 256, ("é" * 128).encode(), b"n" * 300, ("€" * 86).encode()]
        # request: every action code x name pool
        for a in ACTIONS:
            for f in names + long_names:
                picks = [b"", rng.choice(names), rng.choice(names)] + ([rng.choice(long_names)] if rng.random() < 0.3 else [])
                for s in picks:
                    op = {"action": a, "first": hx(f), "second": hx(s)}
                    yield Case({"op": "tlv_fsreq_len", **op}, "valid", tag="action-x-names")
                    fits = fs_fits(a, f, s)
                    yield Case({"op": "tlv_fsreq_pack", **op}, "valid" if fits else "invalid", errclass=True,
                               tag="action-x-names" if fits else "does-not-fit")
                    if fits:
                        yield Case({"op": "tlv_any", "held": {"kind": "fs_request", **op}}, "valid", tag="action-x-names")
        # response: every (action, status) member x names x messages
        for st in STATUS_NAT:
            a = st >> 4
            for _ in range(6 * R):
                f, s = rng.choice(names), rng.choice(names)
                m = rbytes(rng, rng.choice([0, 0, 1, 2, 10, 100, 200, 255]))
                op = {"action": a, "status": st, "first": hx(f), "second": hx(s), "msg": hx(m)}
                yield Case({"op": "tlv_fsresp_len", **op}, "valid", tag="status-members")
                fits = fs_fits(a, f, s, m)
                yield Case({"op": "tlv_fsresp_pack", **op}, "valid" if fits else "invalid", errclass=True,
                           tag="status-members" if fits else "does-not-fit")
            for _ in range(4 * R):
                f, s, m = rand_utf8(rng, 60), rand_utf8(rng, 60), rbytes(rng, rng.randint(0, 60))
                op = {"action": a, "status": st, "first": hx(f), "second": hx(s), "msg": hx(m)}
                yield Case({"op": "tlv_fsresp_pack", **op}, "valid", tag="status-members-random-names")
                yield Case({"op": "tlv_any", "held": {"kind": "fs_response", **op}}, "valid", tag="status-members-random-names")
        # exact-fit boundaries of the 255-octet value field
        for a in ACTIONS:
            for total in (253, 254, 255, 256, 257):
                # request value = 1 + (1+len1) [+ (1+len2)]
                if a in SNP:
                    l2 = rng.randint(0, 100)
                    l1 = total - 3 - l2
                else:
                    l2, l1 = rng.randint(0, 5), total - 2
                if 0 <= l1 <= 255:
                    op = {"action": a, "first": hx(b"f" * l1), "second": hx(b"s" * l2)}
                    yield Case({"op": "tlv_fsreq_pack", **op}, "valid" if total <= 255 else "invalid", errclass=True,
                               tag="value-field-boundary")
                lm = rng.randint(0, 50)
                l1r = l1 - 1 - lm
                if 0 <= l1r <= 255:
                    st = rng.choice([x for x in STATUS_NAT if x >> 4 == a])
                    op = {"action": a, "status": st, "first": hx(b"f" * l1r), "second": hx(b"s" * l2), "msg": hx(rbytes(rng, lm))}
                    yield Case({"op": "tlv_fsresp_pack", **op}, "valid" if total <= 255 else "invalid", errclass=True,
                               tag="value-field-boundary")
                    yield Case({"op": "tlv_fsresp_len", **op}, "valid", tag="value-field-boundary")
        yield Case({"op": "tlv_fsresp_len", "action": 0, "status": 0, "first": "", "second": "", "msg": hx(b"m" * 256)},
                   "invalid", errclass=True, tag="message-lv-too-long")
        for a in (16, 17, 255, 256):
            yield Case({"op": "tlv_fsreq_pack", "action": a, "first": "61", "second": ""}, "invalid", tag="action-not-a-nibble")
        # decoders: all 256 first value octets
        for b0 in range(256):
            a, stn = b0 >> 4, b0 & 15
            f, s, m = rand_utf8(rng, 12), rand_utf8(rng, 12), rbytes(rng, rng.randint(0, 5))
            sfx = rbytes(rng, rng.choice([0, 0, 3]))
            v = fs_value(a, stn, f, s)
            yield Case({"op": "tlv_fsreq_unpack", "raw": hx(bytes([0, len(v)]) + v + sfx)},
                       "valid" if a in ACTIONS else "invalid", errclass=True, tag="first-octet-sweep")
            yield Case({"op": "tlv_fsreq_from_tlv", "type": 0, "value": hx(v)},
                       "valid" if a in ACTIONS else "invalid", errclass=True, tag="first-octet-sweep")
            # octets after the names inside the value field ("slack") must be refused (repair d425927)
            vs = v + rng.choice([b"\x00", b"\x01a", rbytes(rng, 1), rbytes(rng, 2), rbytes(rng, 3)])
            yield Case({"op": "tlv_fsreq_unpack", "raw": hx(bytes([0, len(vs)]) + vs + sfx)}, "invalid", errclass=True,
                       tag="first-octet-sweep-slack")
            yield Case({"op": "tlv_fsreq_from_tlv", "type": 0, "value": hx(vs)}, "invalid", errclass=True,
                       tag="first-octet-sweep-slack")
            v = fs_value(a, stn, f, s, m)
            ok = b0 in STATUS_NAT
            yield Case({"op": "tlv_fsresp_unpack", "raw": hx(bytes([1, len(v)]) + v + sfx)},
                       "valid" if ok else "invalid", errclass=True, tag="first-octet-sweep")
            yield Case({"op": "tlv_fsresp_from_tlv", "type": 1, "value": hx(v)},
                       "valid" if ok else "invalid", errclass=True, tag="first-octet-sweep")
            vs = v + rng.choice([b"\x00", b"\x01a", rbytes(rng, 1), rbytes(rng, 2), rbytes(rng, 3)])
            yield Case({"op": "tlv_fsresp_unpack", "raw": hx(bytes([1, len(vs)]) + vs + sfx)}, "invalid", errclass=True,
                       tag="first-octet-sweep-slack")
            yield Case({"op": "tlv_fsresp_from_tlv", "type": 1, "value": hx(vs)}, "invalid", errclass=True,
                       tag="first-octet-sweep-slack")
        # decoders: foreign types, every type octet
        for t in range(256):
            for cls, own in (("fsreq", 0), ("fsresp", 1)):
                if t == own:
                    continue
                for fk in ("fs_request", "fs_response", "entity_id"):
                    v = generic_value_for(fk, rng)
                    raw = bytes([t, len(v)]) + v + rbytes(rng, rng.choice([0, 2]))
                    yield Case({"op": f"tlv_{cls}_unpack", "raw": hx(raw)}, "invalid", errclass=t in TLV_TYPES,
                               tag="foreign-type" if t in TLV_TYPES else "no-tlv-type")
                    if t in TLV_TYPES:
                        yield Case({"op": f"tlv_{cls}_from_tlv", "type": t, "value": hx(v)}, "invalid", errclass=True,
                                   tag="from-tlv-foreign")
        # decoders: truncations (TLV length octet kept / fixed up), length-octet substitutions, bad UTF-8
        for i in range(40 * R):
            st = rng.choice(STATUS_NAT)
            a = st >> 4 if i % 3 else rng.choice(SNP)
            st = st if st >> 4 == a else a << 4
            f, s, m = rand_utf8(rng, 16), rand_utf8(rng, 16), rbytes(rng, rng.randint(0, 6))
            for cls, v in (("fsreq", fs_value(a, 0, f, s)), ("fsresp", fs_value(a, st & 15, f, s, m))):
                raw = bytes([0 if cls == "fsreq" else 1, len(v)]) + v
                yield Case({"op": f"tlv_{cls}_unpack", "raw": hx(raw + rbytes(rng, 4))}, "valid", tag="sample+suffix")
                # slack inside the value field (declared length grown, names unchanged): refused
                for slack in (b"\x00", b"\x01", b"\x01a", b"\x00\x00", rbytes(rng, rng.randint(1, 6)), v):
                    vs = v + slack
                    if len(vs) <= 255:
                        yield Case({"op": f"tlv_{cls}_unpack", "raw": hx(raw[:1] + bytes([len(vs)]) + vs + rbytes(rng, 2))},
                                   "invalid", errclass=True, tag="slack-in-value-field")
                        yield Case({"op": f"tlv_{cls}_from_tlv", "type": raw[0], "value": hx(vs)},
                                   "invalid", errclass=True, tag="slack-in-value-field")
                # ... while the same octets after the TLV (declared length unchanged) are not looked at
                yield Case({"op": f"tlv_{cls}_unpack", "raw": hx(raw + b"\x00")}, "valid", tag="sample+suffix")
                for k in range(len(raw)):
                    yield Case({"op": f"tlv_{cls}_unpack", "raw": hx(raw[:k])}, "invalid", tag="truncation")
                for k in range(len(v)):
                    yield Case({"op": f"tlv_{cls}_unpack", "raw": hx(raw[:1] + bytes([k]) + v[:k] + rbytes(rng, 2))},
                               "invalid", errclass=True, tag="truncation-length-fixed-up")
                    yield Case({"op": f"tlv_{cls}_from_tlv", "type": raw[0], "value": hx(v[:k])},
                               "invalid", errclass=True, tag="truncation-length-fixed-up")
                # substitute each LV length octet by boundary values
                pos = [1]
                if a in SNP:
                    pos.append(2 + len(f))
                if cls == "fsresp":
                    pos.append(len(v) - 1 - len(m))
                for p in pos:
                    for nv in {0, 1, v[p] - 1, v[p] + 1, len(v) - p - 2, len(v) - p - 1, len(v) - p, 255}:
                        if 0 <= nv <= 255:
                            b = bytearray(v)
                            b[p] = nv
                            yield Case({"op": f"tlv_{cls}_from_tlv", "type": raw[0], "value": hx(bytes(b))}, "any",
                                       tag="lv-length-substitution")
                # names that are not UTF-8
                for bad in rng.sample(UTF8_BAD, 6):
                    nm = rand_utf8(rng, 5) + bad + (rand_utf8(rng, 5) if rng.random() < 0.5 else b"")
                    vv = fs_value(a, st & 15 if cls == "fsresp" else 0, nm, s, m if cls == "fsresp" else None)
                    yield Case({"op": f"tlv_{cls}_from_tlv", "type": raw[0], "value": hx(vv)}, "any", tag="first-name-not-utf8")
                    if a in SNP:
                        vv = fs_value(a, st & 15 if cls == "fsresp" else 0, f, nm, m if cls == "fsresp" else None)
                        yield Case({"op": f"tlv_{cls}_unpack", "raw": hx(bytes([raw[0], len(vv)]) + vv)}, "any",
                                   tag="second-name-not-utf8")
        for bad in UTF8_BAD:
            for a in (0, 2):
                vv = fs_value(a, 0, bad, b"ok")
                yield Case({"op": "tlv_fsreq_from_tlv", "type": 0, "value": hx(vv)}, "invalid", errclass=True, tag="name-not-utf8")
                vv = fs_value(a, 0, b"ok", bad, b"")
                yield Case({"op": "tlv_fsresp_from_tlv", "type": 1, "value": hx(vv)}, "invalid" if a == 2 else "valid",
                           errclass=True, tag="name-not-utf8")
        for good in UTF8_GOOD:
            vv = fs_value(3, 0, good, good)
            yield Case({"op": "tlv_fsreq_from_tlv", "type": 0, "value": hx(vv)}, "valid", tag="name-utf8-boundary")
        yield Case({"op": "tlv_fsreq_unpack", "raw": "000a0005612e747874010203"}, "invalid", errclass=True, tag="slack-in-value-field")
        yield Case({"op": "tlv_fsreq_unpack", "raw": "00070005612e747874010203"}, "valid", tag="sample+suffix")
        yield Case({"op": "tlv_fsresp_unpack", "raw": "010510016100" + "09"}, "invalid", errclass=True, tag="slack-in-value-field")
        yield Case({"op": "tlv_fsresp_unpack", "raw": "010410016100" + "09"}, "valid", tag="sample+suffix")
        for cls, t in (("fsreq", 0), ("fsresp", 1)):
            yield Case({"op": f"tlv_{cls}_from_tlv", "type": t, "value": ""}, "invalid", errclass=True, tag="empty-value")
            yield Case({"op": f"tlv_{cls}_unpack", "raw": hx(bytes([t, 0]))}, "invalid", errclass=True, tag="empty-value")
        for _ in range(1500 * R):
            ln = rng.randint(0, 24)
            v = bytearray(rbytes(rng, ln))
            if ln > 0 and rng.random() < 0.8:
                v[0] = rng.choice(STATUS_NAT)
            if ln > 1 and rng.random() < 0.7:
                v[1] = rng.randint(0, max(0, ln - 2))
                for q in range(2, min(ln, 2 + v[1])):
                    v[q] = rng.randint(0x20, 0x7E) if rng.random() < 0.9 else v[q]
            cls, t = rng.choice([("fsreq", 0), ("fsresp", 1)])
            yield Case({"op": f"tlv_{cls}_from_tlv", "type": t, "value": hx(bytes(v))}, "any", tag="random-value")

    # -- holder conversions, any-object views, equality -----------------------------------------------------
    def gen_holder_eq(self, rng, R):
        kinds = list(CLS_TYPE)
        for to in kinds:
            own = CLS_TYPE[to]
            for _ in range(6 * R):
                # generic TLV of every type
                for t in TLV_TYPES:
                    fk = [k for k in kinds if CLS_TYPE[k] == t][0]
                    v = generic_value_for(fk, rng)
                    held = {"kind": "generic", "type": t, "value": hx(v)}
                    yield Case({"op": "tlv_holder", "held": held, "to": to}, "valid" if t == own else "invalid",
                               errclass=True, tag="generic-own" if t == own else "generic-foreign")
                # concrete object of every class
                for k in kinds:
                    yield Case({"op": "tlv_holder", "held": held_concrete(k, rng), "to": to}, "valid",
                               tag="concrete-same" if k == to else "concrete-other")
        for _ in range(30 * R):
            for k in kinds:
                h = held_concrete(k, rng)
                yield Case({"op": "tlv_any", "held": h}, "valid", tag="views")
                for t in TLV_TYPES:
                    yield Case({"op": "tlv_check_type", "held": h, "type": t}, "valid" if t == CLS_TYPE[k] else "invalid",
                               errclass=True, tag="check-type")
        for _ in range(60 * R):
            ka, kb = rng.choice(kinds), rng.choice(kinds)
            a = held_concrete(ka, rng)
            b = held_concrete(kb, rng) if rng.random() < 0.5 else dict(a)
            badw = lambda h: len(h["value"]) // 2 not in (1, 2, 4, 8)
            exp = "any" if (a["kind"] == "entity_id" and b["kind"] == "entity_id" and (badw(a) or badw(b))) else "valid"
            yield Case({"op": "tlv_eq", "a": a, "b": b}, exp, tag="eq-concrete")
            # generic twin of a concrete object compares equal from the generic side
            if ka != "entity_id":
                yield Case({"op": "tlv_eq", "a": a, "b": a}, "valid", tag="eq-self")
        for _ in range(40 * R):
            t = rng.choice(TLV_TYPES)
            v = rbytes(rng, rng.randint(0, 6))
            g = {"kind": "generic", "type": t, "value": hx(v)}
            g2 = {"kind": "generic", "type": rng.choice(TLV_TYPES), "value": hx(v if rng.random() < 0.7 else rbytes(rng, len(v)))}
            yield Case({"op": "tlv_eq", "a": g, "b": g2}, "valid", tag="eq-generic")
            for k in ("flow_label", "msg_to_user", "entity_id"):
                yield Case({"op": "tlv_eq", "a": g, "b": {"kind": k, "value": hx(v)}}, "valid", tag="eq-generic-vs-concrete")
                if k != "entity_id":
                    yield Case({"op": "tlv_eq", "a": {"kind": k, "value": hx(v)}, "b": g}, "valid", tag="eq-concrete-vs-generic")

    # -- status-code helpers ------------------------------------------------------------------------------------
    def gen_status(self, rng):
        for st in STATUS_NAT:
            yield Case({"op": "tlv_status_to_int", "status": st}, "valid", tag="all-members")
            yield Case({"op": "tlv_status_to_action", "status": st}, "valid", tag="all-members")
        yield Case({"op": "tlv_status_to_int", "status": -1}, "valid", tag="invalid-member")
        yield Case({"op": "tlv_status_to_action", "status": -1}, "invalid", errclass=True, tag="invalid-member")
        for a in ACTIONS:
            for s in range(16):
                yield Case({"op": "tlv_status_from_int", "action": a, "status": s}, "valid", tag="all-action-x-nibble")

    # -- UTF-8 acceptance: model predicate vs CPython ---------------------------------------------------------------
    def gen_utf8(self, rng, R, thorough):
        for x in UTF8_GOOD + UTF8_BAD:
            yield Case({"op": "tlv_utf8", "raw": hx(x)}, "valid", tag="crafted")
        for a in range(256):
            yield Case({"op": "tlv_utf8", "raw": hx(bytes([a]))}, "valid", tag="all-1-octet")
        for a in range(0 if thorough else 0x70, 256):
            for b in range(256):
                yield Case({"op": "tlv_utf8", "raw": hx(bytes([a, b]))}, "valid", tag="all-2-octet")
        tails = [0x00, 0x7F, 0x80, 0x8F, 0x90, 0x9F, 0xA0, 0xBF, 0xC0, 0xFF]
        for a in range(0xE0, 0xF0):
            for b in range(256):
                for c in (tails if thorough else (0x7F, 0x80, 0xBF, 0xC0)):
                    yield Case({"op": "tlv_utf8", "raw": hx(bytes([a, b, c]))}, "valid", tag="3-octet-forms")
        for a in range(0xF0, 0x100):
            for b in range(256):
                for c, d in (((0x80, 0x80), (0xBF, 0xBF), (0x7F, 0x80), (0x80, 0xC0), (0xC0, 0x80), (0xBF, 0x7F)) if thorough
                             else ((0x80, 0xBF), (0x7F, 0x80), (0xBF, 0xC0))):
                    yield Case({"op": "tlv_utf8", "raw": hx(bytes([a, b, c, d]))}, "valid", tag="4-octet-forms")
        if thorough:
            for a in (0xE0, 0xE1, 0xED, 0xEF):
                for b in range(256):
                    for c in range(256):
                        yield Case({"op": "tlv_utf8", "raw": hx(bytes([a, b, c]))}, "valid", tag="all-3-octet-lead-e0-e1-ed-ef")
            for a in (0xF0, 0xF1, 0xF4):
                for b in range(256):
                    for c in tails:
                        for d in (0x7F, 0x80, 0xBF, 0xC0):
                            yield Case({"op": "tlv_utf8", "raw": hx(bytes([a, b, c, d]))}, "valid", tag="4-octet-forms-deep")
        for _ in range(1500 * R):
            parts = []
            for _ in range(rng.randint(1, 6)):
                k = rng.random()
                if k < 0.5:
                    parts.append(rand_utf8(rng, 8))
                elif k < 0.7:
                    parts.append(rng.choice(UTF8_BAD))
                elif k < 0.85:
                    parts.append(rng.choice(UTF8_GOOD))
                else:
                    parts.append(rbytes(rng, rng.randint(1, 4)))
            raw = b"".join(parts)
            if rng.random() < 0.3 and raw:
                raw = raw[: rng.randint(0, len(raw))]
            yield Case({"op": "tlv_utf8", "raw": hx(raw)}, "valid", tag="mixed")


PROP = C08()
