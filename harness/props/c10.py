"""C10 — decoding arbitrary or truncated input fails only in documented ways

Cross-cutting check. One op, ``c10_decode {decoder, raw, <configuration>}``: the real decoder is run
on ``raw``; the result is ``true`` (an object was returned) or the canonical exception category.
The model side (``Ops/Robust.lean``) runs the decoder model of the owning property — the definitions
the ``C10_*`` theorems are about. Compared: accept / reject; an undocumented class is a concrete
violation whatever the model says (``core.compare``). ``c10_sweep`` does the same for ALL ``256^n``
strings ``head ‖ x ‖ tail`` (n ≤ 3) in one op and compares the accept pattern.

Everything is driven by TABLES so that adding a decoder kind is mechanical:

* ``DECODE``   decoder name -> function(raw, op) calling the public entry point of /repo
* ``FAMILIES`` family name  -> generator of valid packed units ``Unit(raw, cfg, positions, refit)``
               built with the independent encoders of the owning properties' harness modules
* ``KINDS``    decoder name -> (family, what a strict prefix must do, cheap?)

Streams per decoder (``cases``): every truncation of >= 50 valid units (``invalid`` where the unit is
self-delimiting for that decoder), the full unit and unit ‖ suffix (``valid``), every single-octet
substitution in header / length / type positions with {0, 1, 0x7F, 0x80, 0xFF, orig±1} (also with the
CRC re-fitted where there is one), random strings of length 0..64 biased towards valid prefixes,
exhaustive sweeps of all strings of length <= 2 (thorough: <= 3 for cheap decoders) and of 16-bit
length fields inside valid units, and ``bytes`` / ``bytearray`` / ``memoryview`` variants of the input.
A watchdog (``signal.alarm``) turns a decoder that does not return into a violation.
"""
import random
import signal
import struct
from collections import Counter, deque
from dataclasses import dataclass, field
from typing import Any, Callable, Dict, Iterator, List, Optional, Tuple

import core
from core import Case, Prop, SelfCheckFailure, InfraError
from gen import hx, unhx, rbytes

import props.c05 as c05
import props.c06_fixed as c6f
import props.c07 as c07
import props.c08 as c08
import props.c12 as c12
import props.c18 as c18
import props.c14 as c14
import props.c15 as c15
import props.c16 as c16
import props.c17 as c17

from spacepackets.ccsds.spacepacket import (
    SpacePacketHeader, PacketId, PacketType, get_apid_from_raw_space_packet, parse_space_packets,
)
from spacepackets.ccsds.time import CdsShortTimestamp
from spacepackets.ecss.tc import PusTc, PusTcDataFieldHeader
from spacepackets.ecss.tm import PusTm, PusTmSecondaryHeader
from spacepackets.ecss.pus_17_test import Service17Tm
from spacepackets.ecss.pus_1_verification import Service1Tm, UnpackParams
from spacepackets.ecss.pus_verificator import PusVerificator
from spacepackets.ecss.req_id import RequestId
from spacepackets.ecss.fields import PacketFieldEnum
from spacepackets.cfdp.pdu.header import PduHeader, AbstractPduBase
from spacepackets.cfdp.pdu.file_directive import FileDirectivePduBase
from spacepackets.cfdp.pdu import (
    AckPdu, PromptPdu, KeepAlivePdu, NakPdu, EofPdu, FinishedPdu, MetadataPdu, FileDataPdu, PduFactory,
)
from spacepackets.cfdp.lv import CfdpLv
from spacepackets.cfdp.tlv import (
    CfdpTlv, EntityIdTlv, FlowLabelTlv, FaultHandlerOverrideTlv, FileStoreRequestTlv, FileStoreResponseTlv,
    MessageToUserTlv, TlvHolder,
)
from spacepackets.util import (
    UnsignedByteField, ByteFieldU8, ByteFieldU16, ByteFieldU32, ByteFieldU64, ByteFieldGenerator,
)
from spacepackets.uslp.header import PrimaryHeader, TruncatedPrimaryHeader, determine_header_type
from spacepackets.uslp.frame import TransferFrame, TransferFrameDataField, FrameType

WATCHDOG_S = 5


# ---------------------------------------------------------------------------------------------
# watchdog: a decoder that does not return within WATCHDOG_S seconds is a violation ("never loops")
# ---------------------------------------------------------------------------------------------
class _Timeout(BaseException):
    pass


def _on_alarm(signum, frame):
    raise _Timeout()


def _guarded(fn: Callable[[], Any], what: Callable[[], str], retry: Optional[Callable[[], Any]] = None,
             limit: int = WATCHDOG_S):
    """run fn under the watchdog. A first timeout may be the harness itself (a garbage-collection pause
    with millions of live cases): the offending input alone (`retry`) is then run once more with a
    generous limit, and only a second timeout is reported."""
    old = signal.signal(signal.SIGALRM, _on_alarm)
    signal.alarm(limit)
    try:
        try:
            return fn()
        except _Timeout:
            if retry is None:
                raise SelfCheckFailure(f"decoder did not return within {limit} s (loop?): {what()}")
            signal.alarm(2 * limit)
            try:
                retry()
            except _Timeout:
                raise SelfCheckFailure(f"decoder did not return within {2 * limit} s (loop?): {what()}")
            except BaseException:  # noqa
                pass
            signal.alarm(0)
            raise _Restart()
    finally:
        signal.alarm(0)
        signal.signal(signal.SIGALRM, old)


class _Restart(Exception):
    """the watchdog fired but the input it fired on returns: run the batch again"""


# ---------------------------------------------------------------------------------------------
# DECODE: the public entry points of /repo, one line per decoder name of Ops/Robust.lean
# ---------------------------------------------------------------------------------------------
def _ft(v):
    return None if v is None else FrameType(v)


def _up(a):
    # one UnpackParams object per configuration, passed to every decode with that configuration (as programs do)
    v = (a["ts_len"], a["step_bytes"], a["err_bytes"])
    return core.REUSE.get(["UnpackParams", v], lambda: UnpackParams(*v))


def _parser(raw, a):
    # likewise one list of registered IDs per parser configuration
    ids = core.REUSE.get("C10.packet_ids " + str(a["ids"]),
                         lambda: [PacketId(PacketType(t[0]), bool(t[1]), t[2]) for t in a["ids"]])
    q = deque([bytearray(raw)])
    out = parse_space_packets(q, ids)
    rest = b"".join(bytes(c) for c in q)
    if a.get("strict_prefix"):
        # theorem C10_parser_prefix: a strict prefix of a registered packet is neither returned nor lost
        if len(out) != 0:
            raise SelfCheckFailure("a strict prefix of a complete packet was returned as a packet")
        if rest != bytes(raw):
            raise SelfCheckFailure("a strict prefix of a complete packet was not kept whole in the queue")
    for p in out:
        if len(p) < 7 or len(p) != ((p[4] << 8) | p[5]) + 7:
            raise SelfCheckFailure("returned packet is not as long as its length field says")
    return out


def _s1_verif(raw, a):
    s = Service1Tm.unpack(raw, _up(a))
    r = s.tc_req_id
    f = [int(r.ccsds_version), int(r.tc_packet_id.ptype), int(bool(r.tc_packet_id.sec_header_flag)),
         int(r.tc_packet_id.apid), int(r.tc_psc.seq_flags), int(r.tc_psc.seq_count)]
    v = PusVerificator()
    if not v.add_tc(c16._tc(f)):
        raise SelfCheckFailure("add_tc on a new tracker returned False")
    if v.add_tm(s) is None or v.add_tm(s) is None:
        raise SelfCheckFailure("add_tm returned None for a registered request id")
    return s


def _cds(raw, a):
    t = CdsShortTimestamp.unpack(raw)
    e = CdsShortTimestamp.empty()
    e.read_from_raw(raw)
    if (t.ccsds_days, t.ms_of_day) != (e.ccsds_days, e.ms_of_day):
        raise SelfCheckFailure("unpack and read_from_raw decode different values")
    return t


def _dir_front(raw, a):
    # what the seven file-directive decoders do first (FileDirectivePduBase.unpack, then
    # verify_length_and_checksum on its header)
    base = FileDirectivePduBase.unpack(raw)
    base.pdu_header.verify_length_and_checksum(raw)
    return base


def _pdu_front(raw, a):
    h = PduHeader.unpack(raw)
    h.verify_length_and_checksum(raw)
    return h


def _reserved(raw, a):
    r = c18._reserved_of(raw)          # MessageToUserTlv.unpack (both routes) and to_reserved_msg_tlv()
    if r is not None:
        c18._view(r)                   # classification queries and all eight getters
    return r


def _holder_tolerant(raw):
    """from_raw_to_holder under the C09 clause (trailing octets ignored or refused, see core.cfdp_tolerant)"""
    class _W:       # gives the holder the .pack()/== surface cfdp_tolerant compares
        def __init__(self, h): self.h = h
        def pack(self): return self.h.pdu.pack() if self.h.pdu is not None else b""
        def __eq__(self, o): return self.h.pdu == o.h.pdu
    return core.cfdp_tolerant(lambda b: _W(PduFactory.from_raw_to_holder(b)), raw).h


def _holder(raw, a):
    h = core.cfdp_tolerant(PduFactory.from_raw_to_holder, raw) if False else _holder_tolerant(raw)
    if h.pdu is not None:
        h.packet_len, h.pdu_type, h.is_file_directive, h.pdu_directive_type   # views of a held PDU never raise
    return h


_UN = {1: ByteFieldU8.from_u8_bytes, 2: ByteFieldU16.from_u16_bytes, 4: ByteFieldU32.from_u32_bytes,
       8: ByteFieldU64.from_u64_bytes}

_TLV_CLS = {"entity_id": EntityIdTlv, "flow_label": FlowLabelTlv, "msg_to_user": MessageToUserTlv,
            "fault_handler": FaultHandlerOverrideTlv, "fs_request": FileStoreRequestTlv,
            "fs_response": FileStoreResponseTlv}
_HOLDER = {"entity_id": "to_entity_id", "flow_label": "to_flow_label", "msg_to_user": "to_msg_to_user",
           "fault_handler": "to_fault_handler_override", "fs_request": "to_fs_request",
           "fs_response": "to_fs_response"}

DECODE: Dict[str, Callable[[Any, Dict[str, Any]], Any]] = {
    "sph": lambda raw, a: SpacePacketHeader.unpack(raw),
    "apid": lambda raw, a: get_apid_from_raw_space_packet(raw),
    "parser": _parser,
    "tc": lambda raw, a: PusTc.unpack(raw),
    "tc_sec": lambda raw, a: PusTcDataFieldHeader.unpack(raw),
    "tm_sec": lambda raw, a: PusTmSecondaryHeader.unpack(raw, a["ts_len"]),
    "tm": lambda raw, a: PusTm.unpack(raw, a["ts_len"]),
    "s17": lambda raw, a: Service17Tm.unpack(raw, a["ts_len"]),
    "tm_service": lambda raw, a: PusTm.service_from_bytes(raw),
    "s1": lambda raw, a: Service1Tm.unpack(raw, _up(a)),
    "s1_from_tm": lambda raw, a: Service1Tm.from_tm(PusTm.unpack(raw, a["ts_len"]), _up(a)),
    "s1_verif": _s1_verif,
    "reqid": lambda raw, a: RequestId.unpack(raw),
    "pfe": lambda raw, a: PacketFieldEnum.unpack(raw, a["pfc"]),
    "cds": _cds,
    "pdu_hdr": lambda raw, a: PduHeader.unpack(raw),
    "hdr_len": lambda raw, a: AbstractPduBase.header_len_from_raw(raw),
    "pdu_front": _pdu_front,
    "dir_front": _dir_front,
    "lv": lambda raw, a: CfdpLv.unpack(raw),
    "tlv": lambda raw, a: CfdpTlv.unpack(raw),
    "bf_from_bytes": lambda raw, a: UnsignedByteField.from_bytes(raw),
    "bf_gen": lambda raw, a: ByteFieldGenerator.from_bytes(a["n"], raw),
    "bf_un": lambda raw, a: _UN[a["n"]](raw),
    "uslp_hdr": lambda raw, a: PrimaryHeader.unpack(raw),
    "uslp_thdr": lambda raw, a: TruncatedPrimaryHeader.unpack(raw),
    "uslp_hdr_type": lambda raw, a: determine_header_type(raw),
    "tfdf": lambda raw, a: TransferFrameDataField.unpack(raw_tfdf=raw, truncated=bool(a["truncated"]),
                                                         exact_len=a["exact_len"], frame_type=_ft(a["frame_type"])),
    "frame": lambda raw, a: TransferFrame.unpack(raw_frame=raw, frame_type=FrameType(a["frame_type"]),
                                                 frame_properties=c17._props(a["props"])),
}
DECODE.update({
    # stage 2: CFDP PDUs, factory, reserved messages
    "directive_base": lambda raw, a: FileDirectivePduBase.unpack(raw),
    "ack": lambda raw, a: core.cfdp_tolerant(AckPdu.unpack, raw, refuses=False),
    "prompt": lambda raw, a: core.cfdp_tolerant(PromptPdu.unpack, raw, refuses=False),
    "keep_alive": lambda raw, a: core.cfdp_tolerant(KeepAlivePdu.unpack, raw, refuses=False),
    "nak": lambda raw, a: core.cfdp_tolerant(NakPdu.unpack, raw, refuses=True),
    "eof": lambda raw, a: core.cfdp_tolerant(EofPdu.unpack, raw, refuses=False),
    "finished": lambda raw, a: core.cfdp_tolerant(FinishedPdu.unpack, raw, refuses=False),
    "metadata": lambda raw, a: core.cfdp_tolerant(MetadataPdu.unpack, raw, refuses=False),
    "file_data": lambda raw, a: core.cfdp_tolerant(FileDataPdu.unpack, raw, refuses=False),
    "pdu_type": lambda raw, a: PduFactory.pdu_type(raw),
    "is_file_directive": lambda raw, a: PduFactory.is_file_directive(raw),
    "pdu_directive_type": lambda raw, a: PduFactory.pdu_directive_type(raw),
    "factory": lambda raw, a: core.cfdp_tolerant(PduFactory.from_raw, raw),
    "factory_holder": _holder,
    "reserved": _reserved,
})
for _k, _cls in _TLV_CLS.items():
    DECODE[_k] = (lambda cls: lambda raw, a: cls.unpack(raw))(_cls)
    DECODE[_k + ".from_tlv"] = (lambda cls: lambda raw, a: cls.from_tlv(CfdpTlv.unpack(raw)))(_cls)
    DECODE[_k + ".holder"] = (lambda m: lambda raw, a: getattr(TlvHolder(CfdpTlv.unpack(raw)), m)())(_HOLDER[_k])

# exception classes actually seen, per decoder (reported in the evidence through `exhaustive_note`)
SEEN: Counter = Counter()
_CAT: Dict[type, str] = {}
_exc_category = core.exc_category


def _category(e: BaseException) -> str:
    """core.exc_category is a pure function of the exception's class (isinstance chain); it is memoised
    per class because this check classifies several hundred thousand refusals per run"""
    c = _CAT.get(type(e))
    if c is None:
        c = _exc_category(e)
        _CAT[type(e)] = c
    return c


core.exc_category = _category


def _as_buf(raw: bytes, a):
    k = a.get("buf")
    if k == "bytearray":
        return bytearray(raw)
    if k == "memoryview":
        return memoryview(raw)
    return raw


# decoders that have hung once: their remaining cases are not run again (each would cost the watchdog limit)
HUNG: Dict[str, str] = {}


# phase: the first PLANNED[0] implementation calls are the generated cases (main evaluation); later calls come
# from the shrinker / failing-input search and are always run for real (with a short limit for a hung decoder),
# so that a shrunk replay is an input that really hangs
PLANNED = [0]
CALLS = [0]


def _hung(dec: str):
    CALLS[0] += 1
    if dec in HUNG and CALLS[0] <= PLANNED[0]:
        raise SelfCheckFailure(HUNG[dec] + " [earlier in this run; decoder not run again]")


def _limit(dec: str) -> int:
    return 2 if dec in HUNG else WATCHDOG_S


# the classes C10's statement lists for decoders (C10_errors_all_listed); core.DOCUMENTED also holds the classes other
# properties document for non-decoders (OverflowError: C14, FileNotFoundError: C19, InvalidVerifParams: C15)
C10_LISTED = {"value", "crc", "cfdp_version", "tlv_type", "uslp"}


_LISTED_CACHE: Dict[type, Optional[frozenset]] = {}


def _check_listed(e: BaseException, dec: str, raw: bytes):
    """a decoder must fail with a class of C10's list; an exception that is (also) an instance of a listed class passes
    (the verdict is a pure function of the exception's class: memoised)"""
    k = type(e)
    if k not in _LISTED_CACHE:
        c = frozenset(core.exc_categories(e)) | {_category(e)}
        _LISTED_CACHE[k] = c if (c & set(core.DOCUMENTED) and not c & C10_LISTED) else None
    cats = _LISTED_CACHE[k]
    if cats is not None:
        raise SelfCheckFailure(
            f"{type(e).__name__} ({'/'.join(sorted(cats))}) from decoder {dec} on input {raw.hex() or '(empty)'} is not one of the "
            f"error classes documented for decoders (ValueError family, CRC, unsupported version, TLV type, Uslp*)"[:300])


def op_c10_decode(a):
    fn = DECODE.get(a["decoder"])
    if fn is None:
        raise InfraError(f"no decoder {a['decoder']}")
    _hung(a["decoder"])
    raw = _as_buf(unhx(a["raw"]), a)
    try:
        try:
            _guarded(lambda: fn(raw, a), lambda: f"{a['decoder']} on {a['raw']}",
                     None if a["decoder"] in HUNG else (lambda: fn(raw, a)), _limit(a["decoder"]))
        except _Restart:
            _guarded(lambda: fn(raw, a), lambda: f"{a['decoder']} on {a['raw']}")
    except SelfCheckFailure as e:
        if "did not return" in str(e):
            HUNG.setdefault(a["decoder"], str(e))
        raise
    except BaseException as e:  # noqa
        SEEN[(a["decoder"], type(e).__name__)] += 1
        _check_listed(e, a["decoder"], bytes(raw))
        raise
    SEEN[(a["decoder"], "accepted")] += 1
    return True


def op_c10_sweep(a):
    fn = DECODE.get(a["decoder"])
    if fn is None:
        raise InfraError(f"no decoder {a['decoder']}")
    _hung(a["decoder"])
    head, tail, n = unhx(a["head"]), unhx(a["tail"]), a["sweep_len"]
    if not 0 <= n <= 3:
        raise InfraError("c10_sweep: sweep_len must be 0..3")
    runs: List[int] = []
    cur, ln, acc = False, 0, 0
    seen: Counter = Counter()
    state = {"raw": b""}

    def chunk(lo, hi):
        nonlocal cur, ln, acc
        for i in range(lo, hi):
            raw = head + i.to_bytes(n, "big") + tail
            state["raw"] = raw
            try:
                fn(raw, a)
                ok = True
            except SelfCheckFailure:
                raise
            except _Timeout:
                raise
            except BaseException as e:  # noqa
                ok = False
                cat = _category(e)
                seen[type(e).__name__] += 1
                if cat not in core.DOCUMENTED:
                    raise SelfCheckFailure(
                        f"undocumented {type(e).__name__} ({cat}) from {a['decoder']} on input {raw.hex() or '(empty)'}: {e}"[:300])
                _check_listed(e, a["decoder"], raw)
            if ok:
                acc += 1
            if ok == cur:
                ln += 1
            else:
                runs.append(ln)
                cur, ln = ok, 1

    total = 256 ** n
    step = 1 << 12
    for lo in range(0, total, step):
        saved = (list(runs), cur, ln, acc, Counter(seen))
        try:
            _guarded(lambda: chunk(lo, min(total, lo + step)), lambda: f"{a['decoder']} on {state['raw'].hex()}",
                     lambda: fn(state["raw"], a))
        except SelfCheckFailure as e:
            if "did not return" in str(e):
                HUNG.setdefault(a["decoder"], str(e))
            raise
        except _Restart:
            runs[:] = saved[0]
            cur, ln, acc = saved[1], saved[2], saved[3]
            seen.clear()
            seen.update(saved[4])
            _guarded(lambda: chunk(lo, min(total, lo + step)), lambda: f"{a['decoder']} on {state['raw'].hex()}")
    runs.append(ln)
    for k, v in seen.items():
        SEEN[(a["decoder"], k)] += v
    SEEN[(a["decoder"], "accepted")] += acc
    return {"accepted": acc, "accept_rle": runs}


def op_c10_decoders(a):
    return {"names": list(MODEL_ORDER)}


OPS = {"c10_decode": op_c10_decode, "c10_sweep": op_c10_sweep, "c10_decoders": op_c10_decoders}


# ---------------------------------------------------------------------------------------------
# FAMILIES: valid packed units (independent encoders), configuration, header/length/type positions
# ---------------------------------------------------------------------------------------------
@dataclass
class Unit:
    raw: bytes
    cfg: Dict[str, Any] = field(default_factory=dict)
    pos: List[int] = field(default_factory=list)         # header / length / type octets
    refit: Optional[Callable[[bytes], bytes]] = None     # re-fit the checksum after a substitution
    len16: Optional[int] = None                          # offset of a 16-bit length field (swept exhaustively)
    # variant declaring the total length L (L <= len(raw)) with the checksum fitted at the declared end
    declfit: Optional[Callable[[bytes, int], Optional[bytes]]] = None


def crc16(b: bytes) -> int:
    return c15.crc16(b)


def refit_crc(raw: bytes) -> bytes:
    return raw[:-2] + crc16(raw[:-2]).to_bytes(2, "big") if len(raw) >= 2 else raw


def fit_sp(raw: bytes, L: int) -> Optional[bytes]:
    """space packet declaring a total length of L octets, CRC-16 fitted at octets L-2, L-1"""
    if not 8 <= L <= len(raw):
        return None
    b = bytearray(raw)
    b[4:6] = (L - 7).to_bytes(2, "big")
    b[L - 2:L] = crc16(bytes(b[:L - 2])).to_bytes(2, "big")
    return bytes(b)


def fit_pdu_at(hl: int) -> Callable[[bytes, int], Optional[bytes]]:
    def fit(raw: bytes, L: int) -> Optional[bytes]:
        """PDU declaring a total length of L octets (data field L - hl), CRC fitted at the declared end when flagged"""
        if not hl <= L <= len(raw):
            return None
        b = bytearray(raw)
        b[1:3] = (L - hl).to_bytes(2, "big")
        if b[0] & 2 and L >= 2:
            b[L - 2:L] = crc16(bytes(b[:L - 2])).to_bytes(2, "big")
        return bytes(b)
    return fit


def enc_sph(version, ptype, shf, apid, flags, count, dlen) -> bytes:
    return struct.pack("!HHH", (version << 13) | (ptype << 12) | (shf << 11) | apid, (flags << 14) | count, dlen)


DATA_LENS = [0, 0, 1, 2, 3, 7, 16, 40]


def fam_sph(rng) -> Unit:
    return Unit(rbytes(rng, 6), {}, list(range(6)))


def fam_tc(rng) -> Unit:
    data = rbytes(rng, rng.choice(DATA_LENS))
    apid = rng.choice([0, 1, 0x7FF, rng.randint(0, 2047)])
    body = (enc_sph(0, 1, 1, apid, 3, rng.randint(0, 16383), 5 + len(data) + 2 - 1)
            + bytes([0x20 | rng.randint(0, 15), rng.randint(0, 255), rng.randint(0, 255)]) + rbytes(rng, 2) + data)
    raw = body + crc16(body).to_bytes(2, "big")
    return Unit(raw, {"ids": [[1, 1, apid]]}, list(range(0, 11)), refit_crc, 4, fit_sp)


def _tm_raw(rng, service, sub, ts: bytes, src: bytes, version=None, apid=None) -> Tuple[bytes, int]:
    apid = rng.choice([0, 1, 0x7FF, rng.randint(0, 2047)]) if apid is None else apid
    version = rng.choice([0, 0, 1, 5, 7]) if version is None else version
    body = (enc_sph(version, 0, 1, apid, 3, rng.randint(0, 16383), 7 + len(ts) + len(src) + 2 - 1)
            + bytes([0x20 | rng.randint(0, 15), service, sub]) + rbytes(rng, 4) + ts + src)
    return body + crc16(body).to_bytes(2, "big"), apid


def fam_tm(rng) -> Unit:
    ts = rbytes(rng, rng.choice([0, 1, 2, 4, 7, 7, 7, 8, 12, 16]))
    raw, apid = _tm_raw(rng, rng.randint(0, 255), rng.randint(0, 255), ts, rbytes(rng, rng.choice(DATA_LENS)))
    return Unit(raw, {"ts_len": len(ts), "ids": [[0, 1, apid]]}, list(range(0, 13)), refit_crc, 4, fit_sp)


def fam_tc_sec(rng) -> Unit:
    return Unit(bytes([0x20 | rng.randint(0, 15)]) + rbytes(rng, 4), {}, [0])


def fam_tm_sec(rng) -> Unit:
    ts = rbytes(rng, rng.choice([0, 1, 7, 7, 12]))
    return Unit(bytes([0x20 | rng.randint(0, 15)]) + rbytes(rng, 6) + ts, {"ts_len": len(ts)}, [0])


def fam_s17(rng) -> Unit:
    ts = rbytes(rng, rng.choice([0, 7, 7, 12]))
    raw, apid = _tm_raw(rng, 17, rng.choice([1, 2, 128, 255]), ts, rbytes(rng, rng.choice(DATA_LENS)))
    return Unit(raw, {"ts_len": len(ts), "ids": [[0, 1, apid]]}, list(range(0, 13)), refit_crc, 4, fit_sp)


def fam_s1(rng) -> Unit:
    sub = rng.randint(1, 8)
    sw, ew = rng.choice([1, 2, 4, 8]), rng.choice([1, 2, 4, 8])
    ts = rbytes(rng, rng.choice([0, 1, 7, 7, 12]))
    src = rbytes(rng, 4)
    if sub in (5, 6):
        src += rbytes(rng, sw)
    if sub % 2 == 0:
        src += rbytes(rng, ew) + rbytes(rng, rng.choice([0, 0, 1, 2, 5, 20]))
    raw, apid = _tm_raw(rng, 1, sub, ts, src)
    n = len(raw)
    # header, PUS secondary header, request id, the field octets behind it
    pos = list(range(0, 13)) + [p for p in range(13 + len(ts), min(n - 2, 13 + len(ts) + 4 + sw + ew + 1))]
    return Unit(raw, {"ts_len": len(ts), "step_bytes": sw, "err_bytes": ew, "ids": [[0, 1, apid]]}, pos, refit_crc, 4,
                fit_sp)


def fam_reqid(rng) -> Unit:
    return Unit(rbytes(rng, 4), {}, [0, 1, 2, 3])


def fam_pfe(rng) -> Unit:
    w = rng.choice([1, 2, 4, 8])
    pfc = 8 * w if rng.random() < 0.7 else rng.choice(c15.ODD_PFCS[w])
    return Unit(rbytes(rng, w), {"pfc": pfc}, [0, w - 1])


def fam_cds(rng) -> Unit:
    p = 0x40 | rng.choice([0, 0, 0, 1, 2, 3, 0x80, 0x83])      # time code 100, 16-bit day segment
    return Unit(c14._raw(p, rng.choice(c14.DAY_POOL + [rng.randint(0, 65535)]),
                         rng.choice(c14.MS_POOL + [rng.getrandbits(32)])), {}, [0, 1, 2, 3])


def fam_pdu_hdr(rng) -> Unit:
    h = c05.rand_hdr(rng)
    return Unit(c05.spec_pack(h), {}, [0, 1, 2, 3])


def fam_pdu(rng) -> Unit:
    """header ‖ body [‖ CRC] with the data-field length set accordingly; body starts with a directive code"""
    body = bytes([rng.choice([4, 5, 6, 7, 8, 9, 0x0C, rng.randint(0, 255)])]) + rbytes(rng, rng.choice(DATA_LENS))
    crc = rng.randint(0, 1)
    h = c05.rand_hdr(rng, dlen=len(body) + 2 * crc)
    h["crc"] = crc
    p = c05.spec_pack(h) + body
    hl = len(p) - len(body)
    if crc:
        return Unit(p + crc16(p).to_bytes(2, "big"), {"_hl": hl}, [0, 1, 2, 3, hl], refit_crc, 1, fit_pdu_at(hl))
    return Unit(p, {"_hl": hl}, [0, 1, 2, 3, hl], None, 1, fit_pdu_at(hl))


def fam_lv(rng) -> Unit:
    v = rbytes(rng, rng.choice([0, 0, 1, 2, 3, 8, 40, 255]))
    return Unit(bytes([len(v)]) + v, {}, [0])


def _tlv(t: int, v: bytes) -> bytes:
    return bytes([t, len(v)]) + v


def fam_tlv(rng) -> Unit:
    v = rbytes(rng, rng.choice([0, 0, 1, 2, 3, 8, 40, 255]))
    return Unit(_tlv(rng.choice(c08.TLV_TYPES), v), {}, [0, 1])


def fam_concrete(cls: str) -> Callable[[random.Random], Unit]:
    def gen(rng) -> Unit:
        v = c08.generic_value_for(cls, rng)
        # type, length, first value octet (codes / action+status), the LV length octets of filestore values
        pos = [0, 1] + ([2] if v else []) + ([3] if len(v) > 1 and cls.startswith("fs_") else [])
        if cls.startswith("fs_") and len(v) > 1 and 4 + v[1] < 2 + len(v):
            pos.append(4 + v[1])
        return Unit(_tlv(c08.CLS_TYPE[cls], v), {}, pos)
    return gen


def fam_bf(rng) -> Unit:
    w = rng.choice([1, 2, 4, 8])
    return Unit(rbytes(rng, w), {"n": w}, [0, w - 1])


def fam_uslp_hdr(rng) -> Unit:
    return Unit(c17.enc_phdr(c17.rand_phdr(rng)), {}, list(range(7)))


def fam_uslp_thdr(rng) -> Unit:
    return Unit(c17.enc_common(c17.rand_thdr(rng), 1), {}, [0, 1, 2, 3])


def fam_tfdf(rng) -> Unit:
    rules = rng.randint(0, 7)
    ft = 0 if rules in c17.FP_RULES else 1
    truncated = bool(ft == 1 and rng.random() < 0.3)
    t = {"rules": rules, "upid": rng.randint(0, 31), "fhp": rng.randint(0, 0xFFFF) if ft == 0 else None,
         "tfdz": hx(rbytes(rng, rng.choice([0, 1, 2, 3, 9, 30])))}
    raw = c17.enc_tfdf(t)
    return Unit(raw, {"truncated": int(truncated), "exact_len": len(raw), "frame_type": ft,
                      "_hdr_len": 3 if ft == 0 else 1}, [0, 1, 2][: (3 if ft == 0 else 1)])


_FRAME_CFGS: List[Tuple] = []


def fam_frame(rng) -> Unit:
    if not _FRAME_CFGS:
        _FRAME_CFGS.extend(c17.frame_configs(random.Random(1), False))
    rules, truncated, iz, ocf, fecf, tl = rng.choice(_FRAME_CFGS)
    f, ft = c17.wf_frame(rng, rules, truncated, iz, ocf, fecf, tl)
    raw = c17.enc_frame(f)
    hl = 4 if truncated else 7 + f["hdr"]["vcf_len"]
    tf = hl + (iz or 0)
    pos = list(range(min(hl, 7))) + [tf] + ([tf + 1, tf + 2] if ft == 0 else [])
    return Unit(raw, {"frame_type": ft, "props": c17.matching_props(f, ft, len(raw), rng)}, pos, None,
                None if truncated else 4)


def refit_pdu(raw: bytes) -> bytes:
    return refit_crc(raw) if raw and raw[0] & 2 else raw


_PDU_COUNTER = [0]


def fam_pdu_kind(kind) -> Callable[[random.Random], Unit]:
    """a valid PDU of one of the eight kinds, from the owning properties' parameter generators and
    independent encoders (props.c12.KINDS)"""
    def gen(rng) -> Unit:
        _PDU_COUNTER[0] += 1
        conf = c07.rand_conf(rng) if kind.code is None else c6f.rand_conf(rng)
        raw = kind.spec(kind.params(rng, conf, _PDU_COUNTER[0]))
        hl = 4 + 2 * conf["src_w"] + conf["seq_w"]
        pos = [0, 1, 2, 3] + [p for p in range(hl, min(len(raw), hl + 14))]
        return Unit(raw, {"_hl": hl, "_fd": kind.code is None}, pos, refit_pdu, 1, fit_pdu_at(hl))
    return gen


def fam_any_pdu(rng) -> Unit:
    return fam_pdu_kind(rng.choice(c12.KINDS))(rng)


def fam_reserved(rng) -> Unit:
    n = lambda: c18.name(rng, rng.choice([0, 1, 3, 8, 20]))
    w, q = rng.choice(c18.W), rng.choice(c18.W)
    v = rng.choice([
        lambda: c18.v_put_req(w, rng.getrandbits(8 * w), n(), n()),
        lambda: c18.v_orig(w, rng.getrandbits(8 * w), q, rng.getrandbits(8 * q)),
        lambda: c18.v_dir_req(n(), n()),
        lambda: c18.v_dir_resp(rng.randint(0, 1), n(), n()),
        lambda: c18.MARKER + b"\x0b" + bytes([rng.randint(0, 1)]),
        lambda: c18.MARKER + b"\x04" + bytes([rng.randint(0, 1)]),
        lambda: c18.MARKER + b"\x09",
        lambda: c18.MARKER + b"\x07" + bytes([rng.choice(c18.CC_MEMBERS) << 4 | rng.randint(0, 1) << 2 | rng.randint(0, 3)]),
        lambda: c18.MARKER + b"\x15" + bytes([rng.randint(0, 3) << 6]),
        lambda: rbytes(rng, rng.choice([0, 3, 4, 5, 9])),                       # not a reserved message
    ])()
    # type, length, marker, message type, the first field octets
    return Unit(c18.tlv(v), {}, list(range(0, min(2 + len(v), 10))))


FAMILIES: Dict[str, Callable[[random.Random], Unit]] = {
    "sph": fam_sph, "tc": fam_tc, "tc_sec": fam_tc_sec, "tm_sec": fam_tm_sec, "tm": fam_tm, "s17": fam_s17, "s1": fam_s1, "reqid": fam_reqid, "pfe": fam_pfe,
    "cds": fam_cds, "pdu_hdr": fam_pdu_hdr, "pdu": fam_pdu, "lv": fam_lv, "tlv": fam_tlv, "bf": fam_bf,
    "uslp_hdr": fam_uslp_hdr, "uslp_thdr": fam_uslp_thdr, "tfdf": fam_tfdf, "frame": fam_frame,
}
for _k in _TLV_CLS:
    FAMILIES[_k] = fam_concrete(_k)
for _kd in c12.KINDS:
    FAMILIES["pdu:" + _kd.name] = fam_pdu_kind(_kd)
FAMILIES["any_pdu"] = fam_any_pdu
FAMILIES["reserved"] = fam_reserved


# ---------------------------------------------------------------------------------------------
# KINDS: decoder -> family of valid units, and what the decoder must do with a strict prefix
# ---------------------------------------------------------------------------------------------
def P_REJECT(k: int, u: Unit) -> str:
    """self-delimiting unit: every strict prefix is rejected (theorems C10_*_prefix)"""
    return "invalid"


def p_min(n: int):
    """the entry point reads the first n octets only: shorter is rejected, the rest is accepted"""
    return lambda k, u: "invalid" if k < n else "valid"


def p_bf_from_bytes(k: int, u: Unit) -> str:
    return "valid" if k in (1, 2, 4, 8) else "invalid"


def p_tfdf(k: int, u: Unit) -> str:
    # the data field is delimited by the caller's exact_len; only its header is self-delimiting
    return "invalid" if k < u.cfg["_hdr_len"] else "valid"


def p_parser(k: int, u: Unit) -> str:
    return "valid"      # never raises; the op checks that nothing is returned and the prefix is kept


def p_directive_base(k: int, u: Unit) -> str:
    # FileDirectivePduBase.unpack needs the header and the directive code; it does not verify the length
    return "invalid" if k <= u.cfg["_hl"] else "valid"


def p_directive_type(k: int, u: Unit) -> str:
    if u.cfg["_fd"]:
        return "invalid" if k < 1 else "valid"        # File Data: None as soon as the type bit can be read
    return "invalid" if k <= u.cfg["_hl"] else "valid"


@dataclass
class Kind:
    family: str
    prefix: Callable[[int, Unit], str] = P_REJECT
    cheap: bool = False           # exhaustive 3-octet sweep in the thorough tier
    short: bool = False           # a 2-octet string can get past the first guard: 2-octet sweep also in the quick tier
    light: bool = False           # shares its decoding path with another entry: fewer units in the quick tier
    keys: Tuple[str, ...] = ()    # configuration keys the decoder reads
    full: str = "valid"           # verdict on the complete unit


KINDS: Dict[str, Kind] = {
    "sph": Kind("sph"), "apid": Kind("sph"),
    "parser": Kind("tc", p_parser, keys=("ids",)),
    "tc": Kind("tc"),
    "tc_sec": Kind("tc_sec", p_min(5)), "tm_sec": Kind("tm_sec", p_min(7), keys=("ts_len",)),
    "tm": Kind("tm", keys=("ts_len",)), "s17": Kind("s17", keys=("ts_len",)),
    "tm_service": Kind("tm", p_min(8), light=True),
    "s1": Kind("s1", keys=("ts_len", "step_bytes", "err_bytes")),
    "s1_from_tm": Kind("s1", keys=("ts_len", "step_bytes", "err_bytes"), light=True),
    "s1_verif": Kind("s1", keys=("ts_len", "step_bytes", "err_bytes"), light=True),
    "reqid": Kind("reqid"), "pfe": Kind("pfe", cheap=True, short=True, keys=("pfc",)), "cds": Kind("cds"),
    "pdu_hdr": Kind("pdu_hdr"), "hdr_len": Kind("pdu_hdr", p_min(4)),
    "pdu_front": Kind("pdu"), "dir_front": Kind("pdu"),
    "lv": Kind("lv", cheap=True, short=True), "tlv": Kind("tlv", cheap=True, short=True),
    "bf_from_bytes": Kind("bf", p_bf_from_bytes, short=True),
    "bf_gen": Kind("bf", cheap=True, short=True, keys=("n",)), "bf_un": Kind("bf", short=True, keys=("n",)),
    "uslp_hdr": Kind("uslp_hdr"), "uslp_thdr": Kind("uslp_thdr"),
    "uslp_hdr_type": Kind("uslp_hdr", p_min(4)),
    "tfdf": Kind("tfdf", p_tfdf, keys=("truncated", "exact_len", "frame_type")),
    "frame": Kind("frame", keys=("frame_type", "props")),
}
KINDS.update({
    "directive_base": Kind("pdu", p_directive_base),
    "pdu_type": Kind("any_pdu", p_min(1), short=True, light=True),
    "is_file_directive": Kind("any_pdu", p_min(1), short=True, light=True),
    "pdu_directive_type": Kind("any_pdu", p_directive_type, light=True),
    "factory": Kind("any_pdu"), "factory_holder": Kind("any_pdu", light=True),
    "reserved": Kind("reserved", short=True),
})
PDU_DECODERS = {"ack": "ack", "prompt": "prompt", "keep_alive": "keep_alive", "nak": "nak", "eof": "eof",
                "finished": "finished", "metadata": "metadata", "file_data": "file_data"}
for _d, _f in PDU_DECODERS.items():
    KINDS[_d] = Kind("pdu:" + _f)
for _k in _TLV_CLS:
    KINDS[_k] = Kind(_k, short=True)
    KINDS[_k + ".from_tlv"] = Kind(_k, light=True)
    KINDS[_k + ".holder"] = Kind(_k, light=True)
# a parser run on TM units uses the TM packet id
MODEL_ORDER = ["sph", "apid", "parser", "tc", "tc_sec", "tm_sec", "tm", "s17", "tm_service", "s1", "s1_from_tm", "s1_verif", "reqid", "pfe",
               "cds", "pdu_hdr", "hdr_len", "pdu_front", "dir_front", "lv", "tlv"] + list(_TLV_CLS) + \
              [k + ".from_tlv" for k in _TLV_CLS] + [k + ".holder" for k in _TLV_CLS] + \
              ["bf_from_bytes", "bf_gen", "bf_un", "uslp_hdr", "uslp_thdr", "uslp_hdr_type", "tfdf", "frame"] + \
              ["directive_base", "ack", "prompt", "keep_alive", "nak", "eof", "finished", "metadata", "file_data",
               "pdu_type", "is_file_directive", "pdu_directive_type", "factory", "factory_holder", "reserved"]

# default configuration for inputs that do not come from a unit (random strings, sweeps)
DEFAULT_CFG: Dict[str, Callable[[random.Random], Any]] = {
    "ids": lambda rng: [[rng.randint(0, 1), rng.randint(0, 1), rng.choice([0, 1, 0x7FF, rng.randint(0, 2047)])]
                        for _ in range(rng.randint(0, 3))],
    "ts_len": lambda rng: rng.choice([0, 1, 7, 7, 12, 64]),
    "step_bytes": lambda rng: rng.choice([1, 2, 4, 8, 0, 3]),
    "err_bytes": lambda rng: rng.choice([1, 2, 4, 8, 0, 3]),
    "pfc": lambda rng: rng.choice([8, 16, 32, 64, 0, 3, 4, 12, 20, 24, 36, 40, 60, 68, 72, 255]),
    "n": lambda rng: rng.choice([1, 2, 4, 8]),
    "truncated": lambda rng: rng.randint(0, 1),
    "exact_len": lambda rng: rng.choice([0, 1, 2, 3, 4, 10, 64, 65535]),
    "frame_type": lambda rng: rng.randint(0, 1),
    "props": lambda rng: {"kind": rng.randint(0, 1), "len": rng.choice([0, 4, 7, 8, 12, 20, 64, 65536]),
                          "iz": rng.choice([None, None, 0, 1, 5, 70]), "fecf": rng.choice([None, None, 0, 2, 4, 70])},
}
# bf_gen accepts any integer width (bad widths are refused); tfdf accepts frame_type null
WIDE_CFG: Dict[str, Dict[str, Callable[[random.Random], Any]]] = {
    "bf_gen": {"n": lambda rng: rng.choice([1, 2, 4, 8, 0, 3, 5, 16, -1, 256])},
    "tfdf": {"frame_type": lambda rng: rng.choice([0, 1, None])},
}

SUBST = [0, 1, 0x7F, 0x80, 0xFF]
SUFFIXES = [b"", b"\x00", b"\xff" * 3, bytes.fromhex("a55a00ff06")]


def cfg_for(dec: str, rng: random.Random, base: Optional[Dict[str, Any]] = None) -> Dict[str, Any]:
    kd = KINDS[dec]
    out = {}
    for k in kd.keys:
        if base is not None and k in base:
            out[k] = base[k]
        else:
            out[k] = WIDE_CFG.get(dec, {}).get(k, DEFAULT_CFG[k])(rng)
    return out


def mk(dec: str, raw: bytes, cfg: Dict[str, Any], expect: str, tag: str, **extra) -> Case:
    op = {"op": "c10_decode", "decoder": dec, "raw": hx(raw)}
    op.update({k: v for k, v in cfg.items() if not k.startswith("_")})
    op.update(extra)
    return Case(op, expect, tag=f"{dec}:{tag}")


def unit_cfg(dec: str, u: Unit) -> Dict[str, Any]:
    return {k: u.cfg[k] for k in KINDS[dec].keys}


class C10(Prop):
    id = "C10"
    title = "Decoding arbitrary or truncated input fails only in documented ways"
    lean_modules = ["SpVerif.Props.C10"]
    trusted_base = [
        "decoder models and their ties to /repo are those of the owning properties (C01-C05, C08, C13-C17, C20); this "
        "check re-ties their accept/reject verdicts on malformed input",
        "termination of the models is Lean's own termination check (structural / well-founded recursion, no fuel); "
        "termination of the real decoders is observed with a watchdog only",
    ]
    assumptions = [
        "inputs are octet strings (bytes, bytearray, memoryview), not None / str (DESIGN.md section 8)",
        "documented classes: ValueError family, CRC errors, UnsupportedCfdpVersion, TlvTypeMissmatch, Uslp* (core.DOCUMENTED)",
        "TM / service-1 / packet-field / byte-field-generator / USLP-frame units are self-delimiting only together with "
        "their configuration (timestamp length, widths, pfc, managed parameters); prefix clauses use the matching one",
    ]

    def impl_ops(self):
        return OPS

    @property
    def exhaustive_note(self):
        by_dec: Dict[str, List[str]] = {}
        for (d, cls), n in sorted(SEEN.items()):
            by_dec.setdefault(d, []).append(f"{cls}={n}")
        seen = "; ".join(f"{d}: {', '.join(v)}" for d, v in by_dec.items())
        return ("all octet strings of length <= 2 through every decoder (c10_sweep; thorough: length 3 for the cheap ones); "
                "all 65536 values of the 16-bit length field inside valid TC / TM / service-1 / PDU / USLP frame units. "
                "Real outcome classes seen in this run — " + seen)

    def table_sync(self):
        d = []
        try:
            r = core.run_driver(['{"op":"c10_decoders"}'])[0]
            names = r["ok"]["names"]
        except Exception as e:  # noqa
            return [f"cannot read the model's decoder table: {e!r}"]
        if sorted(names) != sorted(DECODE):
            d.append(f"decoder tables differ: model-only {sorted(set(names) - set(DECODE))}, harness-only {sorted(set(DECODE) - set(names))}")
        if sorted(KINDS) != sorted(DECODE):
            d.append("KINDS and DECODE tables differ")
        return d

    def nontrivial(self, c: Case) -> bool:
        o = c.op
        if o["op"] == "c10_sweep":
            return True
        return o.get("raw", "").strip("0") != ""

    def neighbours(self, c: Case, rng: random.Random) -> Iterator[Case]:
        o = c.op
        if o["op"] == "c10_sweep":
            # expand the sweep into single decodes so that a differing input can be named
            head, tail, n = unhx(o["head"]), unhx(o["tail"]), o["sweep_len"]
            cfg = {k: v for k, v in o.items() if k not in ("op", "decoder", "head", "tail", "sweep_len")}
            total = 256 ** n
            idx = range(total) if total <= 65536 else rng.sample(range(total), 65536)
            for i in idx:
                yield mk(o["decoder"], head + i.to_bytes(n, "big") + tail, cfg, "any", "sweep-expanded")
            return
        raw = unhx(o["raw"])
        cfg = {k: v for k, v in o.items() if k not in ("op", "decoder", "raw")}
        for k in range(len(raw)):
            yield mk(o["decoder"], raw[:k], cfg, "any", "nb-trunc")
        for i in range(min(len(raw), 16)):
            for v in SUBST:
                yield mk(o["decoder"], raw[:i] + bytes([v]) + raw[i + 1:], cfg, "any", "nb-subst")

    # -----------------------------------------------------------------------------------------
    def cases(self, rng: random.Random, tier: str) -> Iterator[Case]:
        n = 0
        for c in self._cases(rng, tier):
            n += 1
            yield c
        PLANNED[0] = CALLS[0] + n

    def _cases(self, rng: random.Random, tier: str) -> Iterator[Case]:
        thorough = tier == "thorough"
        if thorough:
            import gc
            gc.disable()     # millions of live cases: collector pauses would trip the watchdog; nothing here is cyclic
        n_units = 120 if thorough else 50
        n_random = 1_000_000 if thorough else 20_000
        decs = list(MODEL_ORDER)
        per_dec_random = n_random // len(decs)
        pools: Dict[str, List[Unit]] = {}

        def pool(fam: str) -> List[Unit]:
            if fam not in pools:
                r = random.Random(rng.random())
                pools[fam] = [FAMILIES[fam](r) for _ in range(n_units)]
            return pools[fam]

        for dec in decs:
            kd = KINDS[dec]
            units = pool(kd.family)
            # ---- exhaustive: all strings of length <= 2 (<= 3) ------------------------------------
            top = 3 if (thorough and kd.cheap) else (2 if (thorough or kd.short) else 1)
            for n in range(top + 1):
                for rep in range(1 if n != 2 else (2 if kd.keys else 1)):
                    cfg = cfg_for(dec, rng, units[0].cfg if (n >= 2 and rep == 0) else None)
                    yield Case({"op": "c10_sweep", "decoder": dec, "head": "", "tail": "", "sweep_len": n, **cfg}, "any",
                               tag=f"{dec}:all-len-{n}")
            # ---- valid units: full, with suffix, every truncation, buffer kinds -------------------
            for ui, u in enumerate(units):
                cfg = unit_cfg(dec, u)
                extra = {}
                if dec == "tm_service" and len(u.raw) < 8:
                    continue
                yield mk(dec, u.raw, cfg, kd.full, "full")
                if dec not in ("bf_from_bytes",):
                    sfx = SUFFIXES[ui % len(SUFFIXES)] or rbytes(rng, 1 + ui % 5)
                    if dec == "frame" and u.cfg["frame_type"] == 0:
                        pass    # a fixed frame longer than the managed length: the owning property decides
                    elif dec in ("tfdf",):
                        yield mk(dec, u.raw + sfx, cfg, "valid", "full+suffix")
                    elif dec == "frame" or kd.family in ("pdu:nak", "any_pdu"):
                        # NAK refuses octets behind the declared PDU (documented ValueError, C09); frames: C17
                        yield mk(dec, u.raw + sfx, cfg, "any", "full+suffix")
                    else:
                        yield mk(dec, u.raw + sfx, cfg, "valid" if kd.full == "valid" else "any", "full+suffix")
                for k in range(len(u.raw)):
                    exp = kd.prefix(k, u)
                    if dec == "parser":
                        extra = {"strict_prefix": True}
                    yield mk(dec, u.raw[:k], cfg, exp, "truncation", **extra)
                if ui < 12:
                    for buf in ("bytearray", "memoryview"):
                        yield mk(dec, u.raw, cfg, kd.full, "full-" + buf, buf=buf)
                        for k in sorted({0, 1, len(u.raw) // 2, len(u.raw) - 1}):
                            if 0 <= k < len(u.raw):
                                yield mk(dec, u.raw[:k], cfg, kd.prefix(k, u), "truncation-" + buf, buf=buf)
            # ---- single-octet substitutions in header / length / type positions --------------------
            for u in (units if thorough else units[: (12 if kd.light else 25)]):
                cfg = unit_cfg(dec, u)
                for i in u.pos:
                    if i >= len(u.raw):
                        continue
                    o = u.raw[i]
                    for v in sorted(set(SUBST + [(o + 1) & 0xFF, (o - 1) & 0xFF]) - {o}):
                        m = u.raw[:i] + bytes([v]) + u.raw[i + 1:]
                        yield mk(dec, m, cfg, "any", "substitution")
                        if u.refit is not None:
                            yield mk(dec, u.refit(m), cfg, "any", "substitution+crc")
            # ---- every small declared length with the checksum fitted at the declared end ----------
            for u in units[: (n_units if thorough else 25)]:
                if u.declfit is None:
                    continue
                cfg = unit_cfg(dec, u)
                for L in range(0, min(len(u.raw), 40) + 1):
                    m = u.declfit(u.raw, L)
                    if m is not None and m != u.raw:
                        yield mk(dec, m, cfg, "any", "declared-len+crc")
            # ---- exhaustive 16-bit length fields inside valid units ---------------------------------
            if units[0].len16 is not None or any(u.len16 is not None for u in units):
                cands = [u for u in units if u.len16 is not None]
                full16 = thorough or dec in ("tc", "pdu_front", "frame")
                for u in cands[: (4 if thorough else 1)]:
                    off = u.len16
                    if full16:
                        yield Case({"op": "c10_sweep", "decoder": dec, "head": hx(u.raw[:off]), "tail": hx(u.raw[off + 2:]),
                                    "sweep_len": 2, **unit_cfg(dec, u)}, "any", tag=f"{dec}:len16-sweep")
                    else:
                        for o in (off, off + 1):
                            yield Case({"op": "c10_sweep", "decoder": dec, "head": hx(u.raw[:o]), "tail": hx(u.raw[o + 1:]),
                                        "sweep_len": 1, **unit_cfg(dec, u)}, "any", tag=f"{dec}:len8-sweep")
            # ---- configuration mismatches on valid units ------------------------------------------
            if kd.keys:
                for u in units[:20]:
                    yield mk(dec, u.raw, cfg_for(dec, rng), "any", "foreign-config")
                    k = rng.randint(0, len(u.raw))
                    yield mk(dec, u.raw[:k], cfg_for(dec, rng), "any", "foreign-config")
            # ---- random strings, biased towards valid prefixes --------------------------------------
            for i in range(per_dec_random):
                r = rng.random()
                if r < 0.25:
                    raw = rbytes(rng, rng.randint(0, 64))
                    cfg = cfg_for(dec, rng)
                else:
                    u = units[rng.randrange(len(units))]
                    cfg = unit_cfg(dec, u) if r < 0.85 else cfg_for(dec, rng)
                    k = rng.randint(0, min(len(u.raw), 64))
                    raw = bytearray(u.raw[:k] + rbytes(rng, rng.choice([0, 0, 1, 2, 5, rng.randint(0, 64 - k)])))
                    for _ in range(rng.choice([0, 1, 1, 2, 3])):
                        if raw:
                            raw[rng.randrange(len(raw))] = rng.choice(SUBST + [rng.getrandbits(8)])
                    raw = bytes(raw)
                    if u.refit is not None and rng.random() < 0.3:
                        raw = u.refit(raw)
                yield mk(dec, raw, cfg, "any", "random")
        # ---- units of one family through the decoders of another ----------------------------------
        fams = sorted(pools)
        for dec in decs:
            for _ in range(40 if thorough else 12):
                u = rng.choice(pools[rng.choice(fams)])
                yield mk(dec, u.raw, cfg_for(dec, rng, u.cfg), "any", "foreign-unit")


PROP = C10()
