"""C15 — request IDs and service-1 verification reports"""
import random
from typing import Iterator

from core import Case, Prop, SelfCheckFailure
from gen import hx, unhx, pool, rbytes

from spacepackets.ccsds.spacepacket import PacketId, PacketSeqCtrl, PacketType, SequenceFlags, SpacePacketHeader
from spacepackets.ecss.req_id import RequestId
from spacepackets.ecss.fields import PacketFieldEnum
from spacepackets.ecss.tc import PusTc
import spacepackets.ecss.pus_1_verification as s1
from spacepackets.ecss.pus_1_verification import (
    Service1Tm, VerificationParams, FailureNotice, UnpackParams, Subservice,
)
from props.c03 import _tm_fields


def _req(a):
    return RequestId(PacketId(PacketType(a["ptype"]), bool(a["shf"]), a["apid"]),
                     PacketSeqCtrl(SequenceFlags(a["flags"]), a["count"]), a["version"])


def _req_fields(r: RequestId):
    return {"version": int(r.ccsds_version), "ptype": int(r.tc_packet_id.ptype), "shf": int(bool(r.tc_packet_id.sec_header_flag)),
            "apid": int(r.tc_packet_id.apid), "flags": int(r.tc_psc.seq_flags), "count": int(r.tc_psc.seq_count),
            "u32": int(r.as_u32())}


def _pfe_fields(f):
    return None if f is None else {"pfc": int(f.pfc), "val": int(f.val)}


def _fn_fields(f):
    return None if f is None else {"code": _pfe_fields(f.code), "data": hx(f.data)}


def _s1_fields(s: Service1Tm):
    return {"tm": _tm_fields(s.pus_tm),
            "params": {"req_id": _req_fields(s.tc_req_id), "step_id": _pfe_fields(s.step_id),
                       "failure": _fn_fields(s.failure_notice)}}


def op_req_pack(a):
    r = _req(a)
    raw = bytes(r.pack())
    h = SpacePacketHeader(packet_type=PacketType(a["ptype"]), apid=a["apid"], seq_count=a["count"], data_len=0x1234,
                          sec_header_flag=bool(a["shf"]), seq_flags=SequenceFlags(a["flags"]), ccsds_version=a["version"])
    r2 = RequestId.from_sp_header(h)
    if bytes(r2.pack()) != bytes(h.pack())[:4]:
        raise SelfCheckFailure("request id of a header is not the header's first four octets")
    if not (r2 == r) or hash(r2) != hash(r):
        raise SelfCheckFailure("request id built from the header differs from the one built from the fields")
    if int.from_bytes(raw, "big") != r.as_u32():
        raise SelfCheckFailure("as_u32() is not the big-endian value of pack()")
    r3 = RequestId.unpack(raw)
    if not (r3 == r) or _req_fields(r3) != _req_fields(r):
        raise SelfCheckFailure("unpack(pack(req_id)) differs")
    return {"raw": hx(raw), "u32": int(r.as_u32())}


def op_req_unpack(a):
    raw = unhx(a["raw"])
    r = RequestId.unpack(raw)
    if bytes(r.pack()) != raw[:4]:
        raise SelfCheckFailure("pack(unpack(b)) != b[:4]")
    return _req_fields(r)


def op_req_eq(a):
    x, y = _req(a["a"]), _req(a["b"])
    return {"eq": bool(x == y), "hash_eq": bool(hash(x) == hash(y))}


def op_pfe_unpack(a):
    return _pfe_fields(PacketFieldEnum.unpack(unhx(a["raw"]), a["pfc"]))


def op_pfe_pack(a):
    f = PacketFieldEnum(a["pfc"], a["val"])
    return {"raw": hx(f.pack()), "len": int(f.len())}


def _params(p):
    step = None if p["step_id"] is None else PacketFieldEnum(p["step_id"]["pfc"], p["step_id"]["val"])
    fail = None
    if p["failure"] is not None:
        c = p["failure"]["code"]
        fail = FailureNotice(PacketFieldEnum(c["pfc"], c["val"]), unhx(p["failure"]["data"]))
    return VerificationParams(_req(p["req_id"]), step, fail)


def op_s1_pack(a):
    vp = _params(a["params"])
    s = Service1Tm(apid=a["apid"], subservice=Subservice(a["subservice"]) if a["subservice"] in range(9) else a["subservice"],
                   timestamp=unhx(a["timestamp"]), verif_params=vp, seq_count=a["count"],
                   packet_version=a["version"], space_time_ref=a["time_ref"], destination_id=a["dest_id"])
    raw = bytes(s.pack())
    if len(raw) != s.pus_tm.packet_len:
        raise SelfCheckFailure("len(pack()) != packet_len")
    step_b = 1 if vp.step_id is None else vp.step_id.len()
    err_b = 1 if vp.failure_notice is None else vp.failure_notice.code.len()
    s2 = Service1Tm.unpack(raw, UnpackParams(len(unhx(a["timestamp"])), step_b, err_b))
    if _s1_fields(s2) != _s1_fields(s):
        raise SelfCheckFailure("decoding the packed report with matching widths returns different values")
    if not (s2 == s) or not (s == s2):
        raise SelfCheckFailure("decoded report != original under ==")
    if bytes(s2.pack()) != raw:
        raise SelfCheckFailure("decoded report re-packs differently")
    if vp.len() != len(s.source_data):
        raise SelfCheckFailure("VerificationParams.len() != len(source data)")
    return {"raw": hx(raw), "s1": _s1_fields(s), "src": hx(s.source_data)}


def op_s1_unpack(a):
    s = Service1Tm.unpack(unhx(a["raw"]), UnpackParams(a["ts_len"], a["step_bytes"], a["err_bytes"]))
    return _s1_fields(s)


OPS = {"req_pack": op_req_pack, "req_unpack": op_req_unpack, "req_eq": op_req_eq, "pfe_unpack": op_pfe_unpack,
       "pfe_pack": op_pfe_pack, "s1_pack": op_s1_pack, "s1_unpack": op_s1_unpack}

WIDTHS = [1, 2, 4, 8]


def rand_req(rng, tc_like=False):
    if tc_like:
        return {"version": 0, "ptype": 1, "shf": 1, "apid": rng.randint(0, 2047), "flags": 3, "count": rng.randint(0, 16383)}
    return {"version": rng.randint(0, 7), "ptype": rng.randint(0, 1), "shf": rng.randint(0, 1),
            "apid": rng.randint(0, 2047), "flags": rng.randint(0, 3), "count": rng.randint(0, 16383)}


def rand_val(rng, w):
    return rng.choice([0, 1, (1 << (8 * w)) - 1, rng.getrandbits(8 * w)])


def params_for(rng, sub, sw, ew, req=None, fdata_len=None):
    req = req or rand_req(rng, rng.random() < 0.5)
    step = {"pfc": 8 * sw, "val": rand_val(rng, sw)} if sub in (5, 6) else None
    fail = None
    if sub % 2 == 0:
        n = rng.choice([0, 0, 1, 2, 5, 20]) if fdata_len is None else fdata_len
        fail = {"code": {"pfc": 8 * ew, "val": rand_val(rng, ew)}, "data": hx(rbytes(rng, n))}
    return {"req_id": req, "step_id": step, "failure": fail}


def s1_args(rng, sub, sw, ew, ts=None):
    ts = rng.choice([0, 1, 7, 7, 12]) if ts is None else ts
    return {"apid": rng.randint(0, 2047), "subservice": sub, "timestamp": hx(rbytes(rng, ts)),
            "params": params_for(rng, sub, sw, ew), "count": rng.randint(0, 16383), "version": rng.randint(0, 7),
            "time_ref": rng.randint(0, 15), "dest_id": rng.randint(0, 65535)}


class C15(Prop):
    id = "C15"
    title = "request IDs and service-1 reports"
    lean_modules = ["SpVerif.Props.C15"]
    exhaustive_note = "all 65536 values of each request-ID word through unpack/pack; all 8 subservices x 16 width pairs x timestamp lengths 0..12; all pfc 0..80 through check_pfc"

    def impl_ops(self):
        return OPS

    def table_sync(self):
        exp = {"INVALID": 0, "TM_ACCEPTANCE_SUCCESS": 1, "TM_ACCEPTANCE_FAILURE": 2, "TM_START_SUCCESS": 3,
               "TM_START_FAILURE": 4, "TM_STEP_SUCCESS": 5, "TM_STEP_FAILURE": 6, "TM_COMPLETION_SUCCESS": 7,
               "TM_COMPLETION_FAILURE": 8}
        got = {m.name: int(m) for m in Subservice}
        return [] if got == exp else [f"Subservice members {got} != {exp}"]

    def nontrivial(self, c):
        return any(v not in (0, None, False, "") for k, v in c.op.items() if k != "op")

    def cases(self, rng: random.Random, tier: str) -> Iterator[Case]:
        thorough = tier == "thorough"
        # request id: exhaustive words through the decoder
        for word in range(2):
            other = rng.getrandbits(16)
            for w in range(65536):
                b = [0, 0, 0, 0]
                b[2 * word], b[2 * word + 1] = w >> 8, w & 0xFF
                b[2 - 2 * word], b[3 - 2 * word] = other >> 8, other & 0xFF
                yield Case({"op": "req_unpack", "raw": hx(bytes(b) + rbytes(rng, w % 2))}, "valid", tag=f"word{word}-sweep")
        for ln in range(4):
            yield Case({"op": "req_unpack", "raw": hx(rbytes(rng, ln))}, "invalid", errclass=True, tag="short")
        for apid in pool(2047, rng):
            for count in pool(16383, rng, 1):
                r = rand_req(rng)
                r.update(apid=apid, count=count)
                yield Case({"op": "req_pack", **r}, "valid", tag="boundary")
        for _ in range(20000 if thorough else 3000):
            a, b = rand_req(rng), rand_req(rng)
            if rng.random() < 0.5:
                b = dict(a)
                if rng.random() < 0.5:
                    k = rng.choice(["version", "ptype", "shf", "apid", "flags", "count"])
                    b[k] = {"version": (a[k] + 1) % 8, "ptype": 1 - a[k], "shf": 1 - a[k], "apid": a[k] ^ (1 << rng.randint(0, 10)),
                            "flags": (a[k] + 1) % 4, "count": a[k] ^ (1 << rng.randint(0, 13))}[k]
            yield Case({"op": "req_eq", "a": a, "b": b}, "valid", tag="eq")
            yield Case({"op": "req_pack", **a}, "valid", tag="random")
        # packet field enum
        for pfc in range(0, 81):
            n = int(round(pfc / 8))
            ok = n in (1, 2, 4, 8)
            yield Case({"op": "pfe_pack", "pfc": pfc, "val": 1}, "valid" if ok else "invalid", errclass=not ok, tag="pfc-sweep")
            yield Case({"op": "pfe_unpack", "pfc": pfc, "raw": hx(rbytes(rng, 9))}, "valid" if ok else "invalid", errclass=not ok, tag="pfc-sweep")
        for w in WIDTHS:
            for v in [0, 1, (1 << (8 * w)) - 1, rng.getrandbits(8 * w)]:
                yield Case({"op": "pfe_pack", "pfc": 8 * w, "val": v}, "valid", tag="pfe")
            yield Case({"op": "pfe_pack", "pfc": 8 * w, "val": 1 << (8 * w)}, "invalid", errclass=True, tag="pfe-too-large")
            for ln in range(0, w):
                yield Case({"op": "pfe_unpack", "pfc": 8 * w, "raw": hx(rbytes(rng, ln))}, "invalid", errclass=True, tag="pfe-short")
        # service 1 reports: all subservices x width pairs x timestamp lengths
        reps = 3 if thorough else 1
        for sub in range(1, 9):
            for sw in WIDTHS:
                for ew in WIDTHS:
                    for ts in range(0, 13):
                        for _ in range(reps):
                            a = s1_args(rng, sub, sw, ew, ts)
                            yield Case({"op": "s1_pack", **a}, "valid", tag=f"sub{sub}")
        # decode with suffix, with other widths, truncations
        for i in range(3000 if thorough else 400):
            sub = rng.randint(1, 8)
            sw, ew = rng.choice(WIDTHS), rng.choice(WIDTHS)
            a = s1_args(rng, sub, sw, ew)
            ts = len(a["timestamp"]) // 2
            raw = unhx(OPS["s1_pack"](a)["raw"])
            sfx = rng.choice([b"", rbytes(rng, 1), rbytes(rng, 9)])
            yield Case({"op": "s1_unpack", "raw": hx(raw + sfx), "ts_len": ts, "step_bytes": sw, "err_bytes": ew}, "valid", tag="decode+suffix")
            for sw2 in WIDTHS + [0, 3]:
                for ew2 in WIDTHS + [0, 3]:
                    if (sw2, ew2) != (sw, ew) and rng.random() < 0.3:
                        yield Case({"op": "s1_unpack", "raw": hx(raw + sfx), "ts_len": ts, "step_bytes": sw2, "err_bytes": ew2}, "any", tag="other-widths")
            if i % 8 == 0:
                for k in range(len(raw)):
                    yield Case({"op": "s1_unpack", "raw": hx(raw[:k]), "ts_len": ts, "step_bytes": sw, "err_bytes": ew}, "invalid", tag="truncation")
        # parameter sets that do not match the subservice are refused
        for sub in range(1, 9):
            for has_step in (False, True):
                for has_fail in (False, True):
                    want_fail = sub % 2 == 0
                    want_step = sub in (5, 6)
                    if has_step == want_step and has_fail == want_fail:
                        continue
                    a = s1_args(rng, sub, 1, 2)
                    p = a["params"]
                    p["step_id"] = {"pfc": 16, "val": 7} if has_step else None
                    p["failure"] = {"code": {"pfc": 8, "val": 3}, "data": "aa"} if has_fail else None
                    yield Case({"op": "s1_pack", **a}, "invalid", errclass=True, tag="params-mismatch")
        # arbitrary subservice values / short source data through the decoder
        from spacepackets.ecss.tm import PusTm
        for _ in range(4000 if thorough else 600):
            sub = rng.choice(list(range(0, 12)) + [rng.randint(0, 255)])
            ts = rng.choice([0, 7])
            src = rbytes(rng, rng.choice([0, 1, 3, 4, 5, 6, 8, 12, 13, 20]))
            tm = PusTm(service=1, subservice=sub, timestamp=rbytes(rng, ts), source_data=src, apid=rng.randint(0, 2047))
            yield Case({"op": "s1_unpack", "raw": hx(tm.pack()), "ts_len": ts, "step_bytes": rng.choice(WIDTHS + [0, 3]),
                        "err_bytes": rng.choice(WIDTHS + [0, 5])}, "any", tag="arbitrary-tm")


PROP = C15()
