"""C15 — request IDs and service-1 verification reports"""
import random
from typing import Iterator

import json

import core
from core import Case, Prop, SelfCheckFailure, InfraError, run_driver
from gen import hx, unhx, pool, rbytes

from spacepackets.ccsds.spacepacket import PacketId, PacketSeqCtrl, PacketType, SequenceFlags, SpacePacketHeader
from spacepackets.ecss.req_id import RequestId
from spacepackets.ecss.fields import PacketFieldEnum, PacketFieldU8, PacketFieldU16, PacketFieldU32
from spacepackets.ecss.tc import PusTc
import spacepackets.ecss.pus_1_verification as s1
from spacepackets.ecss.pus_1_verification import (
    Service1Tm, VerificationParams, FailureNotice, UnpackParams, Subservice,
)
from spacepackets.ecss.tm import PusTm
from props.c03 import _tm_fields


def _req(a):
    return RequestId(PacketId(PacketType(a["ptype"]), bool(a["shf"]), a["apid"]),
                     PacketSeqCtrl(SequenceFlags(a["flags"]), a["count"]), a["version"])


def _req_fields(r: RequestId):
    return {"version": int(r.ccsds_version), "ptype": int(r.tc_packet_id.ptype), "shf": int(bool(r.tc_packet_id.sec_header_flag)),
            "apid": int(r.tc_packet_id.apid), "flags": int(r.tc_psc.seq_flags), "count": int(r.tc_psc.seq_count),
            "u32": int(r.as_u32())}


def _pfe_fields(f):
    return None if f is None else {"pfc": int(f.pfc), "val": int(f.val)}


def _fn_fields(f):
    return None if f is None else {"code": _pfe_fields(f.code), "data": hx(f.data)}


def _s1_fields(s: Service1Tm):
    try:
        ec = _pfe_fields(s.error_code)
    except AssertionError:
        # report built without verification parameters for a failure subservice (outside the property)
        ec = "assertion"
    return {"tm": _tm_fields(s.pus_tm),
            "params": {"req_id": _req_fields(s.tc_req_id), "step_id": _pfe_fields(s.step_id),
                       "failure": _fn_fields(s.failure_notice)},
            "error_code": ec, "is_step_reply": bool(s.is_step_reply), "has_failure_notice": bool(s.has_failure_notice)}


# the two exhaustive word sweeps decode 131 072 request IDs: they look back one object only (run time)
_ISO_SWEEP = core.Isolation(keep=1)


def _unpack_params(ts_len, step_bytes, err_bytes) -> UnpackParams:
    """decoder configuration, one instance per distinct parameter set reused across calls (as programs do)"""
    return core.REUSE.get(["s1-unpack-params", ts_len, step_bytes, err_bytes],
                          lambda: UnpackParams(ts_len, step_bytes, err_bytes))


# ---- derived values a request ID remembers (case key "hist" of req_pack): read, change its public state, read ----
REQ_VIEW_NAMES = ["u32", "hash", "pack", "fields", "decoded", "lookup"]


def _req_views(final):
    """the views of one request ID as plain values: 32-bit form, hash, packed form, field view, comparison (== and hash,
    both directions) with the request ID decoded from its own packed octets and with one built from the final values,
    and its use as a dictionary key (what the verification bookkeeping of an application does)"""
    def v_decoded(r):
        back, ref = RequestId.unpack(bytes(r.pack()) + b"\x77"), _req(final)
        return {"eq_decoded": [bool(r == back), bool(back == r), hash(r) == hash(back)],
                "eq_final": [bool(r == ref), bool(ref == r), hash(r) == hash(ref)], "u32_decoded": int(back.as_u32())}

    def v_lookup(r):
        return {r: "found"}.get(RequestId.unpack(bytes(r.pack())), "missing")
    return [("u32", lambda r: int(r.as_u32())), ("hash", lambda r: hash(r)),
            ("pack", lambda r: hx(core.pack_stable(r, "RequestId.pack()"))), ("fields", _req_fields),
            ("decoded", v_decoded), ("lookup", v_lookup)]


def _req_consistent(r: RequestId, what: str):
    """one request ID, whatever was done to it: its packed form is its 32-bit form big-endian, its field view composes to
    the same 32 bits, it equals (and hashes like) the request ID decoded from its own octets and is found under it in a dict"""
    raw, u32, f = bytes(r.pack()), int(r.as_u32()), _req_fields(r)
    word = (f["version"] << 29) | (f["ptype"] << 28) | (f["shf"] << 27) | (f["apid"] << 16) | (f["flags"] << 14) | f["count"]
    if raw != u32.to_bytes(4, "big") or word != u32:
        raise SelfCheckFailure(f"{what}: pack() = {raw.hex()}, as_u32() = {u32:#010x}, its public fields say {word:#010x}: the forms of "
                               f"one request id disagree")
    back = RequestId.unpack(raw)
    if not (r == back) or not (back == r) or hash(r) != hash(back) or {r: 1}.get(back) != 1 or {back: 1}.get(r) != 1:
        raise SelfCheckFailure(f"{what}: the request id {raw.hex()} and the one decoded from its octets are not equal / do not hash "
                               f"equal / do not find each other as dictionary keys")
    return u32


def _sph_of(v) -> SpacePacketHeader:
    return SpacePacketHeader(packet_type=PacketType(v["ptype"]), apid=v["apid"], seq_count=v["count"], data_len=0x0102,
                             sec_header_flag=bool(v["shf"]), seq_flags=SequenceFlags(v["flags"]), ccsds_version=v["version"])


def _set_or_replace(holder, attr: str, changes, rebuild):
    """the public attributes of the part `holder.<attr>` are assigned one by one; if the part does not take assignments
    (an implementation may make packet ID / sequence control immutable values) a new part is stored instead"""
    part = getattr(holder, attr)
    if not all(core.tolerant_set(part, n, v) for n, v in changes):
        setattr(holder, attr, rebuild())


def _req_mutate(r: RequestId, old, new, path: str):
    """old -> new through the public state of a request ID: "assign" new PacketId / PacketSeqCtrl objects and version,
    "inplace" the attributes of the PacketId / PacketSeqCtrl it holds"""
    pid = lambda: PacketId(PacketType(new["ptype"]), bool(new["shf"]), new["apid"])      # noqa: E731
    psc = lambda: PacketSeqCtrl(SequenceFlags(new["flags"]), new["count"])                # noqa: E731
    if path == "inplace":
        _set_or_replace(r, "tc_packet_id", [(n, v) for k, n, v in (("ptype", "ptype", PacketType(new["ptype"])),
                                                                    ("shf", "sec_header_flag", bool(new["shf"])),
                                                                    ("apid", "apid", new["apid"])) if old[k] != new[k]], pid)
        _set_or_replace(r, "tc_psc", [(n, v) for k, n, v in (("flags", "seq_flags", SequenceFlags(new["flags"])),
                                                              ("count", "seq_count", new["count"])) if old[k] != new[k]], psc)
    else:
        if any(old[k] != new[k] for k in ("ptype", "shf", "apid")) or path == "assign+all":
            r.tc_packet_id = pid()
        if any(old[k] != new[k] for k in ("flags", "count")) or path == "assign+all":
            r.tc_psc = psc()
    if old["version"] != new["version"] or path == "assign+all":
        r.ccsds_version = new["version"]


class _Taken:
    """A request ID the application obtained for a telecommand BEFORE it reused the telecommand object for the next
    command: the ID of the telecommand that was sent is a value (the first four octets that went out). `check` requires,
    whatever happened to the telecommand object since: pack() / as_u32() / hash() / field view unchanged, still equal (both
    directions, equal hashes) to the request ID decoded from the octets it packed to then, still found - by itself and by
    that decoded request ID - in the dictionary it was filed in then."""

    def __init__(self, r: RequestId, label: str):
        self.r, self.label = r, label
        self.raw, self.u32, self.hash, self.fields = bytes(r.pack()), int(r.as_u32()), hash(r), _req_fields(r)
        self.book = {r: label}

    def check(self, after: str):
        r = self.r
        now = (bytes(r.pack()), int(r.as_u32()), hash(r), _req_fields(r))
        if now != (self.raw, self.u32, self.hash, self.fields):
            raise SelfCheckFailure(f"{self.label}: it packed to {self.raw.hex()} (as_u32 {self.u32:#010x}) when it was taken; after {after} "
                                   f"it packs to {now[0].hex()} (as_u32 {now[1]:#010x}, hash {'unchanged' if now[2] == self.hash else 'changed'}): "
                                   f"the request id of a telecommand that was sent changed retroactively")
        back = RequestId.unpack(self.raw)
        if not (r == back) or not (back == r) or hash(back) != hash(r):
            raise SelfCheckFailure(f"{self.label}: after {after} it no longer equals / hashes like the request id decoded from its own "
                                   f"octets {self.raw.hex()}")
        if self.book.get(back) != self.label or r not in self.book or self.book.get(r) != self.label or len(self.book) != 1:
            raise SelfCheckFailure(f"{self.label}: filed as dictionary key when it was taken ({self.raw.hex()}); after {after} the entry "
                                   f"is no longer found under that request id")


def _tc_like(v) -> bool:
    return (v["version"], v["ptype"], v["shf"], v["flags"]) == (0, 1, 1, 3)


def _tc_of(v) -> PusTc:
    """a telecommand object whose space packet header carries the six fields"""
    tc = PusTc(service=17, subservice=1, apid=v["apid"], seq_count=v["count"], app_data=b"\x01\x02")
    if v["version"] != 0:
        h = tc.sp_header
        tc.sp_header = SpacePacketHeader(packet_type=PacketType(v["ptype"]), apid=h.apid, seq_count=h.seq_count, data_len=h.data_len,
                                         sec_header_flag=bool(v["shf"]), seq_flags=SequenceFlags(v["flags"]), ccsds_version=v["version"])
    elif not _tc_like(v):
        tc.sp_header.packet_type = PacketType(v["ptype"])
        tc.sp_header.sec_header_flag = bool(v["shf"])
        tc.sp_header.seq_flags = SequenceFlags(v["flags"])
    return tc


def _reuse_header(tc, hdr: SpacePacketHeader, new, how: str = "tc"):
    """What an application does with ONE telecommand (header) object when it sends the next command: the fields named in
    `new` (apid, count, ptype, shf, flags - there is no setter for the version bits) are assigned through the documented
    setters. how: "tc" - `tc.apid` / `tc.seq_count` where a telecommand exists, the header's setters for the rest;
    "hdr" - the setters of `tc.sp_header` only; "parts" - first the public attributes of the PacketId / PacketSeqCtrl
    objects the header hands out (a refused assignment is ignored), then the header's setters all the same."""
    names = {"apid": ("apid", int), "count": ("seq_count", int), "ptype": ("packet_type", PacketType), "shf": ("sec_header_flag", bool),
             "flags": ("seq_flags", SequenceFlags)}
    if how == "parts":
        for k, (holder, attr) in (("apid", ("packet_id", "apid")), ("ptype", ("packet_id", "ptype")), ("shf", ("packet_id", "sec_header_flag")),
                                  ("count", ("packet_seq_control", "seq_count")), ("flags", ("packet_seq_control", "seq_flags"))):
            if k in new:
                core.tolerant_set(getattr(hdr, holder), attr, names[k][1](new[k]))
    for k in ("count", "apid", "ptype", "shf", "flags"):
        if k in new:
            n, conv = names[k]
            setattr(tc if (tc is not None and how == "tc" and k in ("apid", "count")) else hdr, n, conv(new[k]))


def _req_after_history(a) -> RequestId:
    """the request ID of the case's parameters, reached the long way (see key "hist").
    source "fields" / "unpack" / "sp_header" / "pus_tc": how the request ID was obtained with the OLD values; then views
    are read; then it is changed to the case's values ("assign" / "inplace"), or - path "header" - the space packet header
    (telecommand) it was taken from is changed to them through the header's setters, as an application does that reuses
    one telecommand object for the next command. The request ID of a telecommand is the first four octets that were
    SENT: the one taken earlier keeps the old values in every form (it is what a fresh request ID built from the old fields
    is, it stays filed under the old octets), and a request ID taken from the header afterwards is the one the model packs."""
    h = a["hist"]
    old, src, path = h["from"], h.get("source", "fields"), h.get("path", "assign")
    keep = {}

    def make():
        if src == "unpack":
            return RequestId.unpack(bytes(_req(old).pack()) + b"\x01")
        if src == "sp_header":
            keep["hdr"] = _sph_of(old)
            return RequestId.from_sp_header(keep["hdr"])
        if src == "pus_tc":
            tc = PusTc(service=17, subservice=1, apid=old["apid"], seq_count=old["count"], app_data=b"\x01\x02")
            keep["tc"], keep["hdr"] = tc, tc.sp_header
            return RequestId.from_pus_tc(tc)
        return _req(old)
    if path != "header":
        got = {}
        err = core.read_mutate_read(make, _req_views(a), lambda r: _req_mutate(r, old, a, path), lambda: _req(a), "RequestId",
                                    first=h.get("read"), after=h.get("after"), out=got)
        if err:
            raise SelfCheckFailure(err)
        _req_consistent(got["obj"], "RequestId changed through its public attributes")
        return got["obj"]
    r = make()
    rd = h.get("read")
    read = core.read_views(r, _req_views(old), rd)
    # (filed as a dictionary key only where the case reads that much before the change: with "read": [] nothing of the
    #  request ID has been looked at when the header changes - a request ID that takes its snapshot at first use shows)
    taken = _Taken(r, f"RequestId taken from a header ({src})") if rd is None or "lookup" in rd or "hash" in rd else None
    hdr = keep["hdr"]
    _reuse_header(keep.get("tc"), hdr, {k: a[k] for k in ("apid", "count", "ptype", "shf", "flags") if old[k] != a[k]},
                  h.get("how", "tc"))
    what = (f"the header / telecommand it was taken from ({src}, then {sorted(read) if read else 'nothing'} read) was given the fields of "
            f"the next command through its setters")
    now_v = core.read_views(r, _req_views(old), h.get("after"))
    fresh = core.read_views(_req(old), _req_views(old), h.get("after"))
    for n in now_v:
        if now_v[n] != fresh.get(n):
            raise SelfCheckFailure(f"RequestId: after {what}, `{n}` of the request id taken BEFORE shows {core._short(now_v[n])}; the request "
                                   f"id of the telecommand that was sent shows {core._short(fresh.get(n))}")
        _req_consistent(r, f"RequestId taken from a header ({src}) that was changed afterwards through its setters (last read: {n})")
    if taken is not None:
        taken.check(what)
    now = RequestId.from_sp_header(hdr) if "tc" not in keep else RequestId.from_pus_tc(keep["tc"])
    if bytes(now.pack()) != bytes(hdr.pack())[:4]:
        raise SelfCheckFailure("request id of a header is not the header's first four octets")
    _req_consistent(now, "RequestId taken from a header after the header was changed")
    differ = any(old[k] != a[k] for k in ("apid", "count", "ptype", "shf", "flags"))
    if differ and ((now == r) or (r == now) or {r: "first"}.get(now) is not None):
        raise SelfCheckFailure(f"RequestId: the request id taken from the header before ({bytes(r.pack()).hex()}) and the one taken after "
                               f"({bytes(now.pack()).hex()}) {what} compare equal / find each other as dictionary keys")
    return now


def op_req_pack(a):
    # (a header has no setter for the version bits: a "header" history that would need one is no history)
    if a.get("hist") and not (a["hist"].get("path") == "header" and a["version"] != a["hist"]["from"]["version"]):
        r = _req_after_history(a)
        return {"raw": hx(core.pack_stable(r, "RequestId.pack()")), "u32": int(r.as_u32())}
    r = _req(a)
    # (packs twice, the caller modifying the first returned buffer in between)
    raw = core.pack_stable(r, "RequestId.pack()")
    h = SpacePacketHeader(packet_type=PacketType(a["ptype"]), apid=a["apid"], seq_count=a["count"], data_len=0x1234,
                          sec_header_flag=bool(a["shf"]), seq_flags=SequenceFlags(a["flags"]), ccsds_version=a["version"])
    r2 = RequestId.from_sp_header(h)
    if bytes(r2.pack()) != bytes(h.pack())[:4]:
        raise SelfCheckFailure("request id of a header is not the header's first four octets")
    if not (r2 == r) or hash(r2) != hash(r):
        raise SelfCheckFailure("request id built from the header differs from the one built from the fields")
    if int.from_bytes(raw, "big") != r.as_u32():
        raise SelfCheckFailure("as_u32() is not the big-endian value of pack()")
    r3 = RequestId.unpack(raw)
    if not (r3 == r) or core.ISOLATION.check("RequestId", r3, _req_fields) != _req_fields(r):
        raise SelfCheckFailure("unpack(pack(req_id)) differs")
    return {"raw": hx(raw), "u32": int(r.as_u32())}


def op_req_unpack(a):
    raw = unhx(a["raw"])
    r = RequestId.unpack(raw)
    # request IDs decoded by earlier calls must still show what they showed then
    f = _ISO_SWEEP.check("RequestId", r, _req_fields)
    if core.pack_stable(r, "RequestId.pack() of a decoded request id") != raw[:4]:
        raise SelfCheckFailure("pack(unpack(b)) != b[:4]")
    return f


def op_req_eq(a):
    x, y = _req(a["a"]), _req(a["b"])
    return {"eq": bool(x == y), "hash_eq": bool(hash(x) == hash(y))}


def op_pfe_unpack(a):
    raw = unhx(a["raw"])
    f = PacketFieldEnum.unpack(raw, a["pfc"])
    v = core.ISOLATION.check("PacketFieldEnum", f, _pfe_fields)
    if core.pack_stable(f, "PacketFieldEnum.pack() of a decoded field") != raw[:f.len()]:
        raise SelfCheckFailure("PacketFieldEnum: pack(unpack(b)) != b[:width]")
    return v


_PFE_HELPERS = {"U8": (PacketFieldU8, 8), "U16": (PacketFieldU16, 16), "U32": (PacketFieldU32, 32)}


def _pfe_after_history(a) -> PacketFieldEnum:
    """key "hist" of pfe_pack: the field enumeration was built with another PFC / value, its width and octets were read,
    then `pfc` / `val` were assigned: width, octets and == are those of a field built directly with the final values"""
    h = a["hist"]
    old = h["from"]
    views = [("len", lambda f: int(f.len())), ("pack", lambda f: hx(core.pack_stable(f, "PacketFieldEnum.pack()"))),
             ("fields", _pfe_fields), ("eq", lambda f: [bool(f == _pfe(a)), bool(_pfe(a) == f)])]

    def mutate(f):
        if old["pfc"] != a["pfc"]:
            f.pfc = a["pfc"]
        if old["val"] != a["val"]:
            f.val = a["val"]
    got = {}
    err = core.read_mutate_read(lambda: _pfe(old), views, mutate, lambda: _pfe(a), "PacketFieldEnum", first=h.get("read"),
                                after=h.get("after"), out=got)
    if err:
        raise SelfCheckFailure(err)
    return got["obj"]


def op_pfe_pack(a):
    via = a.get("via")           # (ignored by the model op) build through the fixed-width helper class
    if via:
        cls, pfc = _PFE_HELPERS[via]
        f = cls(a["val"])
        # the helper is the field enumeration of that width: same pfc, value, equality as the generic constructor
        g = PacketFieldEnum(pfc, a["val"])
        if int(f.pfc) != pfc or int(f.val) != a["val"] or not (f == g) or not (g == f):
            raise SelfCheckFailure(f"PacketField{via}({a['val']}) is not the {pfc}-bit field enumeration: pfc={f.pfc} val={f.val} =={f == g}")
        back = PacketFieldEnum.unpack(bytes(f.pack()), pfc)
        if not (back == f):
            raise SelfCheckFailure(f"PacketField{via}: the decoded field does not compare equal to the original")
    elif a.get("hist"):
        f = _pfe_after_history(a)
    else:
        f = PacketFieldEnum(a["pfc"], a["val"])
    raw = core.pack_stable(f, "PacketFieldEnum.pack()")
    if len(raw) != f.len():
        raise SelfCheckFailure("PacketFieldEnum: len(pack()) != len()")
    if int.from_bytes(raw, "big") != a["val"]:
        raise SelfCheckFailure("PacketFieldEnum: pack() is not the big-endian value")
    f2 = PacketFieldEnum.unpack(raw + b"\x5a", 8 * len(raw))
    if f2.val != f.val or f2.len() != f.len():
        raise SelfCheckFailure("PacketFieldEnum: unpack(pack(f)) differs")
    return {"raw": hx(raw), "len": int(f.len())}


def op_pfe_with_size(a):
    return _pfe_fields(PacketFieldEnum.with_byte_size(a["n"], a["val"]))


def _pfe(c):
    return PacketFieldEnum(c["pfc"], c["val"])


def _fn(f):
    return FailureNotice(_pfe(f["code"]), unhx(f["data"]))


def op_pfe_eq(a):
    x, y = _pfe(a["a"]), _pfe(a["b"])
    return {"eq": bool(x == y)}


def op_fn_pack(a):
    f = _fn(a)
    raw = core.pack_stable(f, "FailureNotice.pack()")
    if len(raw) != f.len():
        raise SelfCheckFailure("FailureNotice: len(pack()) != len()")
    w = f.code.len()
    f2 = FailureNotice.unpack(raw, w)
    if core.ISOLATION.check("FailureNotice", f2, _fn_fields)["data"] != _fn_fields(f)["data"] or f2.code.val != f.code.val:
        raise SelfCheckFailure("FailureNotice: unpack(pack(f)) differs")
    if f.code.pfc == 8 * w and (not (f2 == f) or not (f == f2)):
        raise SelfCheckFailure("FailureNotice: unpack(pack(f)) != f under ==")
    return {"raw": hx(raw), "len": int(f.len())}


def op_fn_unpack(a):
    return core.ISOLATION.check("FailureNotice", FailureNotice.unpack(unhx(a["raw"]), a["err_bytes"], a["data_bytes"]), _fn_fields)


def op_fn_eq(a):
    x, y = _fn(a["a"]), _fn(a["b"])
    return {"eq": bool(x == y)}


def _params(p, req=None):
    step = None if p["step_id"] is None else _pfe(p["step_id"])
    fail = None if p["failure"] is None else _fn(p["failure"])
    return VerificationParams(_req(p["req_id"]) if req is None else req, step, fail)


def op_vp_pack(a):
    vp = _params(a["params"])
    return {"raw": hx(core.pack_stable(vp, "VerificationParams.pack()")), "len": int(vp.len())}


def op_vp_verify(a):
    _params(a["params"]).verify_against_subservice(a["subservice"])
    return {}


def _sub(v):
    return Subservice(v) if v in range(9) else v


def _s1(a, req=None):
    vp = None if a["params"] is None else _params(a["params"], req)
    return Service1Tm(apid=a["apid"], subservice=_sub(a["subservice"]), timestamp=unhx(a["timestamp"]), verif_params=vp,
                      seq_count=a["count"], packet_version=a["version"], space_time_ref=a["time_ref"],
                      destination_id=a["dest_id"]), vp


def _widths(vp):
    step_b = 1 if vp is None or vp.step_id is None else vp.step_id.len()
    err_b = 1 if vp is None or vp.failure_notice is None else vp.failure_notice.code.len()
    return step_b, err_b


def _check_report(s: Service1Tm, vp: VerificationParams, raw: bytes, ts_len: int):
    """the property's clauses on the real code alone"""
    if len(raw) != s.pus_tm.packet_len:
        raise SelfCheckFailure("len(pack()) != packet_len")
    src = bytes(s.source_data)
    if src[:4] != bytes(vp.req_id.pack()):
        raise SelfCheckFailure("source data does not start with the request id")
    if not (s.tc_req_id == vp.req_id) or hash(s.tc_req_id) != hash(vp.req_id):
        raise SelfCheckFailure("tc_req_id differs from the request id the report was built for")
    if vp.len() != len(src):
        raise SelfCheckFailure("VerificationParams.len() != len(source data)")
    step_b, err_b = _widths(vp)
    s2 = Service1Tm.unpack(raw, _unpack_params(ts_len, step_b, err_b))
    if core.ISOLATION.check("Service1Tm", s2, _s1_fields) != _s1_fields(s):
        raise SelfCheckFailure("decoding the packed report with matching widths returns different values")
    if not (s2 == s) or not (s == s2):
        raise SelfCheckFailure("decoded report != original under ==")
    if core.pack_stable(s2, "Service1Tm.pack() of a decoded report") != raw:
        raise SelfCheckFailure("decoded report re-packs differently")
    s3 = Service1Tm.from_tm(PusTm.unpack(raw, ts_len), _unpack_params(ts_len, step_b, err_b))
    if not (s3 == s) or core.ISOLATION.check("Service1Tm", s3, _s1_fields) != _s1_fields(s):
        raise SelfCheckFailure("from_tm(PusTm.unpack(...)) differs from the original report")


def _report_kept(s: Service1Tm, raw: bytes, was, ts_len: int, step, fail, first4: bytes, what: str):
    """A report that was built and packed for a telecommand BEFORE the telecommand object was reused for the next command
    (`was` = its field view then, `first4` = the first four octets of the telecommand's header then) is still the report
    for THAT telecommand: pack() repeats `raw`, tc_req_id packs to the first four source-data octets of `raw`, the field
    view is unchanged, and every clause checked when it was built holds again (decode(raw) == report, both directions,
    re-packs identically, also through from_tm)."""
    again = core.pack_stable(s, "Service1Tm.pack()")
    if again != raw:
        raise SelfCheckFailure(f"Service1Tm.pack() returned {raw.hex()[:100]} when the report was built and returns {again.hex()[:100]} "
                               f"after {what}")
    src4, rid = raw[13 + ts_len:17 + ts_len], bytes(s.tc_req_id.pack())
    if rid != src4 or src4 != first4:
        raise SelfCheckFailure(f"after {what}, tc_req_id of the report built BEFORE packs to {rid.hex()}; the report's own packed source "
                               f"data starts with {src4.hex()} (the telecommand it was built for: {first4.hex()}): the report no longer "
                               f"carries the request id of its telecommand")
    now = _s1_fields(s)
    if now != was:
        diff = sorted(k for k in now if now[k] != was.get(k))
        raise SelfCheckFailure(f"after {what}, the report built BEFORE shows other values ({diff}): "
                               f"{core._short(was['params'])} became {core._short(now['params'])}")
    try:
        _check_report(s, VerificationParams(RequestId.unpack(first4), step, fail), raw, ts_len)
    except SelfCheckFailure as e:
        raise SelfCheckFailure(f"after {what}, for the report built BEFORE: {e}")


def _s1_pack_via_header(a, via):
    """key "req_via" of s1_pack (not read by the model op): {"source": "sp_header" | "pus_tc", "then": {field: value},
    "how": "tc" | "hdr" | "parts"} - the request ID of the report is not built from the fields but TAKEN from a space packet
    header / telecommand object carrying them (RequestId.from_sp_header / from_pus_tc), the report is built with the
    constructor and packed; then the application gives the header / telecommand object the fields `then` of its next
    command through the documented setters. The report and the request ID stay those of the telecommand they were made for."""
    f = a["params"]["req_id"]
    if via["source"] == "pus_tc":
        tc = _tc_of(f)
        hdr, r, label = tc.sp_header, RequestId.from_pus_tc(tc), "RequestId.from_pus_tc(tc)"
    else:
        tc, hdr = None, _sph_of(f)
        r, label = RequestId.from_sp_header(hdr), "RequestId.from_sp_header(header)"
    s, vp = _s1(a, r)
    ts_len = len(unhx(a["timestamp"]))
    raw = core.pack_stable(s, "Service1Tm.pack()")
    _check_report(s, vp, raw, ts_len)
    first4, was = bytes(hdr.pack())[:4], _s1_fields(s)
    if first4 != bytes(_req(f).pack()):
        raise SelfCheckFailure("request id of a header is not the header's first four octets")
    taken = [_Taken(r, label), _Taken(s.tc_req_id, "tc_req_id of the report")]
    how = via.get("how", "tc")
    _reuse_header(tc, hdr, via["then"], how)
    what = (f"the {'telecommand' if tc is not None else 'header'} object the request id was taken from was given "
            f"{json.dumps(via['then'], sort_keys=True)} through its setters ({how}) for the next command")
    _report_kept(s, raw, was, ts_len, vp.step_id, vp.failure_notice, first4, what)
    for t in taken:
        t.check(what)
    return {"raw": hx(core.pack_stable(s, "Service1Tm.pack()")), "s1": _s1_fields(s), "src": hx(s.source_data)}


def op_s1_pack(a):
    if a.get("req_via") and a.get("params"):
        return _s1_pack_via_header(a, a["req_via"])
    s, vp = _s1(a)
    raw = core.pack_stable(s, "Service1Tm.pack()")
    _check_report(s, vp, raw, len(unhx(a["timestamp"])))
    return {"raw": hx(raw), "s1": _s1_fields(s), "src": hx(s.source_data)}


def op_s1_roundtrip(a):
    """round trip for ANY accepted PFC (also pfc != 8 x width): same value, same width, same octets; == iff aligned"""
    s, vp = _s1(a)
    raw = core.pack_stable(s, "Service1Tm.pack()")
    step_b, err_b = _widths(vp)
    s2 = Service1Tm.unpack(raw + unhx(a["suffix"]), _unpack_params(len(unhx(a["timestamp"])), step_b, err_b))
    back = core.ISOLATION.check("Service1Tm", s2, _s1_fields)
    if not (s2.tc_req_id == vp.req_id):
        raise SelfCheckFailure("decoded request id differs from the original")
    for name, x, y in (("step id", vp.step_id, s2.step_id),
                       ("error code", None if vp.failure_notice is None else vp.failure_notice.code,
                        None if s2.failure_notice is None else s2.failure_notice.code)):
        if (x is None) != (y is None):
            raise SelfCheckFailure(f"decoded report: {name} present/absent differs from the original")
        if x is not None and (int(x.val) != int(y.val) or x.len() != y.len()):
            raise SelfCheckFailure(f"decoded report: {name} has another value or width than the original")
    if vp.failure_notice is not None and bytes(s2.failure_notice.data) != bytes(vp.failure_notice.data):
        raise SelfCheckFailure("decoded report: failure data differs from the original")
    raw2 = core.pack_stable(s2, "Service1Tm.pack() of a decoded report")
    if raw2 != raw:
        raise SelfCheckFailure("decoded report re-packs differently")
    e1, e2 = bool(s2 == s), bool(s == s2)
    if e1 != e2:
        raise SelfCheckFailure("Service1Tm == is not symmetric")
    return {"raw": hx(raw), "back": back, "eq": e1, "repack": hx(raw2)}


def op_s1_new(a):
    s, vp = _s1(a)
    raw = core.pack_stable(s, "Service1Tm.pack()")
    return {"raw": hx(raw), "s1": _s1_fields(s), "src": hx(s.source_data)}


def op_s1_eq(a):
    x, _ = _s1(a["a"])
    y, _ = _s1(a["b"])
    e1, e2 = bool(x == y), bool(y == x)
    if e1 != e2:
        raise SelfCheckFailure("Service1Tm == is not symmetric")
    return {"eq": e1}


def op_s1_create(a):
    t = a["tc"]
    tc = PusTc(service=t["service"], subservice=t["subservice"], apid=t["apid"], app_data=unhx(t["data"]),
               seq_count=t["count"], source_id=t["source_id"], ack_flags=t["ack"])
    if t["version"] != 0:
        # a telecommand whose header carries non-default version bits (as from_composite_fields would build it)
        h = tc.sp_header
        tc.sp_header = SpacePacketHeader(packet_type=h.packet_type, apid=h.apid, seq_count=h.seq_count, data_len=h.data_len,
                                         sec_header_flag=h.sec_header_flag, seq_flags=h.seq_flags, ccsds_version=t["version"])
    step = None if a["step_id"] is None else _pfe(a["step_id"])
    fail = None if a["failure"] is None else _fn(a["failure"])
    ts = unhx(a["timestamp"])
    sub, apid = a["subservice"], a["apid"]
    s = _create(sub, apid, tc, step, fail, ts)
    raw = core.pack_stable(s, "Service1Tm.pack()")
    if bytes(s.source_data)[:4] != bytes(tc.sp_header.pack())[:4]:
        raise SelfCheckFailure("report does not carry the first four octets of the telecommand's space packet header")
    rq = RequestId.from_pus_tc(tc)
    if not (s.tc_req_id == rq) or s.tc_req_id.as_u32() != int.from_bytes(bytes(tc.sp_header.pack())[:4], "big"):
        raise SelfCheckFailure("tc_req_id is not the request id of the telecommand")
    _check_report(s, VerificationParams(rq, step, fail), raw, len(ts))
    if a.get("reuse"):
        _create_then_reuse(a["reuse"], s, raw, rq, tc, sub, apid, step, fail, ts)
    return {"raw": hx(core.pack_stable(s, "Service1Tm.pack()")), "s1": _s1_fields(s), "src": hx(s.source_data)}


def _create(sub, apid, tc, step, fail, ts) -> Service1Tm:
    if sub == 1:
        return s1.create_acceptance_success_tm(apid, tc, ts)
    if sub == 2:
        return s1.create_acceptance_failure_tm(apid, tc, fail, ts)
    if sub == 3:
        return s1.create_start_success_tm(apid, tc, ts)
    if sub == 4:
        return s1.create_start_failure_tm(apid, tc, fail, ts)
    if sub == 5:
        return s1.create_step_success_tm(apid, tc, step, ts)
    if sub == 6:
        return s1.create_step_failure_tm(apid, tc, step, fail, ts)
    if sub == 7:
        return s1.create_completion_success_tm(apid, tc, ts)
    if sub == 8:
        return s1.create_completion_failure_tm(apid, tc, fail, ts)
    raise ValueError("no such helper")


def _create_then_reuse(ru, s, raw, rq, tc, sub, apid, step, fail, ts):
    """key "reuse" of s1_create (not read by the model op): {"then": {field: value}, "how": "tc" | "hdr" | "parts"} - after the
    report for the telecommand has been built and packed, the application gives the SAME telecommand object the header
    fields `then` of its next command through the documented setters (tc.seq_count, tc.apid, the setters of tc.sp_header)
    and builds the report for that one with the same helper. "Every report built for a telecommand carries that
    telecommand's request ID" is about the telecommand that was sent: the first report, its request ID and the request IDs
    the application took for the first command stay what they were; the second report carries the new four octets."""
    hdr = tc.sp_header
    first4, was = bytes(hdr.pack())[:4], _s1_fields(s)
    taken = [_Taken(rq, "RequestId.from_pus_tc(tc)"), _Taken(RequestId.from_sp_header(hdr), "RequestId.from_sp_header(tc.sp_header)"),
             _Taken(s.tc_req_id, "tc_req_id of the report")]
    how = ru.get("how", "tc")
    _reuse_header(tc, hdr, ru["then"], how)
    what = (f"the telecommand object was given {json.dumps(ru['then'], sort_keys=True)} through its setters ({how}) for the next command")
    _report_kept(s, raw, was, len(ts), step, fail, first4, what)
    for t in taken:
        t.check(what)
    nxt = _create(sub, apid, tc, step, fail, ts)
    raw_n, next4 = core.pack_stable(nxt, "Service1Tm.pack()"), bytes(tc.sp_header.pack())[:4]
    if bytes(nxt.source_data)[:4] != next4 or bytes(nxt.tc_req_id.pack()) != next4:
        raise SelfCheckFailure(f"the report built for the next command of a reused telecommand object (header now {next4.hex()}) carries "
                               f"{bytes(nxt.source_data)[:4].hex()} / tc_req_id {bytes(nxt.tc_req_id.pack()).hex()}")
    _check_report(nxt, VerificationParams(RequestId.from_pus_tc(tc), step, fail), raw_n, len(ts))
    if next4 != first4 and ((nxt == s) or (s == nxt) or (nxt.tc_req_id == s.tc_req_id) or raw_n == raw):
        raise SelfCheckFailure(f"the reports for two different telecommands ({first4.hex()}, then {next4.hex()} on the same telecommand "
                               f"object) compare equal / carry equal request ids")
    what += " and the report for that command was built"
    _report_kept(s, raw, was, len(ts), step, fail, first4, what)
    for t in taken:
        t.check(what)


def op_s1_unpack(a):
    raw = unhx(a["raw"])
    s = Service1Tm.unpack(raw, _unpack_params(a["ts_len"], a["step_bytes"], a["err_bytes"]))
    # reports decoded by earlier calls must still show what they showed then
    f = core.ISOLATION.check("Service1Tm", s, _s1_fields)
    if core.pack_stable(s, "Service1Tm.pack() of a decoded report") != raw[:s.pus_tm.packet_len]:
        raise SelfCheckFailure("pack(unpack(b)) != b[:packet_len]")
    if core.pack_stable(s.tc_req_id, "RequestId.pack() of a decoded report") != bytes(s.source_data)[:4]:
        raise SelfCheckFailure("decoded request id is not the first four octets of the source data")
    return f


def op_s1_from_tm(a):
    tm = PusTm.unpack(unhx(a["raw"]), a["ts_len"])
    return core.ISOLATION.check("Service1Tm", Service1Tm.from_tm(tm, _unpack_params(a["ts_len"], a["step_bytes"], a["err_bytes"])), _s1_fields)


OPS = {"req_pack": op_req_pack, "req_unpack": op_req_unpack, "req_eq": op_req_eq, "pfe_unpack": op_pfe_unpack,
       "pfe_pack": op_pfe_pack, "pfe_with_size": op_pfe_with_size, "pfe_eq": op_pfe_eq,
       "s1_fn_pack": op_fn_pack, "s1_fn_unpack": op_fn_unpack, "s1_fn_eq": op_fn_eq,
       "s1_vp_pack": op_vp_pack, "s1_vp_verify": op_vp_verify,
       "s1_pack": op_s1_pack, "s1_new": op_s1_new, "s1_roundtrip": op_s1_roundtrip, "s1_eq": op_s1_eq, "s1_create": op_s1_create,
       "s1_unpack": op_s1_unpack, "s1_from_tm": op_s1_from_tm}

WIDTHS = [1, 2, 4, 8]
# PFC values that are not a multiple of 8 but still round (half to even) to an allowed width
ODD_PFCS = {1: [5, 7, 9, 11], 2: [12, 13, 15, 17, 19, 20], 4: [28, 29, 31, 33, 35, 36], 8: [60, 61, 63, 65, 67, 68]}


def rand_req(rng, tc_like=False):
    if tc_like:
        return {"version": 0, "ptype": 1, "shf": 1, "apid": rng.randint(0, 2047), "flags": 3, "count": rng.randint(0, 16383)}
    return {"version": rng.randint(0, 7), "ptype": rng.randint(0, 1), "shf": rng.randint(0, 1),
            "apid": rng.randint(0, 2047), "flags": rng.randint(0, 3), "count": rng.randint(0, 16383)}


def rand_val(rng, w):
    top = (1 << (8 * w)) - 1
    return rng.choice([0, 1, top, top - 1, 1 << (8 * w - 1), 1 << (8 * (w - 1)), 0x0102030405060708 & top, rng.getrandbits(8 * w)])


def rand_pfe(rng, w, exact=True):
    pfc = 8 * w if exact else rng.choice(ODD_PFCS[w])
    return {"pfc": pfc, "val": rand_val(rng, w)}


def params_for(rng, sub, sw, ew, req=None, fdata_len=None, exact=True):
    req = req or rand_req(rng, rng.random() < 0.4)
    step = rand_pfe(rng, sw, exact) if sub in (5, 6) else None
    fail = None
    if sub % 2 == 0:
        n = rng.choice([0, 0, 1, 2, 3, 5, 8, 20]) if fdata_len is None else fdata_len
        fail = {"code": rand_pfe(rng, ew, exact), "data": hx(rbytes(rng, n))}
    return {"req_id": req, "step_id": step, "failure": fail}


def s1_args(rng, sub, sw, ew, ts=None, **kw):
    ts = rng.choice([0, 1, 7, 7, 12]) if ts is None else ts
    return {"apid": rng.choice([0, 1, 2047, rng.randint(0, 2047)]), "subservice": sub, "timestamp": hx(rbytes(rng, ts)),
            "params": params_for(rng, sub, sw, ew, **kw), "count": rng.choice([0, 16383, rng.randint(0, 16383)]),
            "version": rng.randint(0, 7), "time_ref": rng.randint(0, 15), "dest_id": rng.choice([0, 65535, rng.randint(0, 65535)])}


def rand_tc(rng):
    return {"service": rng.choice([17, 3, 200, rng.randint(0, 255)]), "subservice": rng.randint(0, 255),
            "apid": rng.choice([0, 1, 0x7FF, rng.randint(0, 2047)]), "data": hx(rbytes(rng, rng.choice([0, 0, 1, 4, 30]))),
            "count": rng.choice([0, 1, 16383, rng.randint(0, 16383)]), "source_id": rng.choice([0, 65535, rng.randint(0, 65535)]),
            "ack": rng.randint(0, 15), "version": rng.choice([0, 0, 1, 5, 7])}


def next_command(rng, cur):
    """header fields an application assigns to a telecommand object it reuses for its next command (cur = the six fields it
    carries now): usually the next sequence count, sometimes another APID, sometimes other flag bits; at least one of the
    32 request-id bits changes"""
    then = {}
    r = rng.random()
    if r < 0.75:
        then["count"] = rng.choice([(cur["count"] + 1) % 16384, (cur["count"] + 1) % 16384, cur["count"] ^ 0x2000, rng.randint(0, 16383)])
    if r >= 0.6:
        then["apid"] = rng.choice([cur["apid"] ^ 0x400, cur["apid"] ^ 1, rng.randint(0, 2047)])
    if rng.random() < 0.2:
        k = rng.choice(["ptype", "shf", "flags"])
        then[k] = {"ptype": 1 - cur["ptype"], "shf": 1 - cur["shf"], "flags": (cur["flags"] + rng.randint(1, 3)) % 4}[k]
    if all(cur[k] == v for k, v in then.items()):
        then["count"] = (cur["count"] + 1) % 16384
    return then


def crc16(data: bytes) -> int:
    """CRC-16/CCITT-FALSE, bit-serial (independent of the package under test)"""
    reg = 0xFFFF
    for x in data:
        reg ^= x << 8
        for _ in range(8):
            reg = ((reg << 1) ^ 0x1021) & 0xFFFF if reg & 0x8000 else (reg << 1) & 0xFFFF
    return reg


def refit_crc(raw: bytes) -> bytes:
    body = raw[:-2]
    return body + crc16(body).to_bytes(2, "big")


def model_pack(ops):
    """octets of reports / telemetry packets as the *model* packs them (so that the decode stream
    does not depend on the encoder under test); one driver call for the whole batch"""
    res = run_driver([json.dumps(o) for o in ops])
    out = []
    for o, r in zip(ops, res):
        if "ok" not in r:
            raise InfraError(f"model refuses a generated packet: {o} -> {r}")
        out.append(unhx(r["ok"]["raw"]))
    return out


def tm_args(sub, ts: bytes, src: bytes, apid, service=1, count=0, version=0, time_ref=0, dest_id=0):
    return {"op": "tm_pack", "service": service, "subservice": sub, "timestamp": hx(ts), "data": hx(src), "apid": apid,
            "count": count, "msg_counter": 0, "time_ref": time_ref, "dest_id": dest_id, "version": version}


def mutate_s1(rng, a):
    """one-field change of Service1Tm constructor arguments that keeps them valid"""
    import copy
    b = copy.deepcopy(a)
    p = b["params"]
    choices = ["apid", "count", "version", "time_ref", "dest_id", "timestamp", "req", "subservice"]
    if p["step_id"] is not None:
        choices += ["step_val", "step_val", "step_pfc"]
    if p["failure"] is not None:
        choices += ["err_val", "err_val", "err_pfc", "fdata", "fdata"]
    k = rng.choice(choices)
    if k == "apid":
        b["apid"] ^= 1 << rng.randint(0, 10)
    elif k == "count":
        b["count"] ^= 1 << rng.randint(0, 13)
    elif k == "version":
        b["version"] = (b["version"] + rng.randint(1, 7)) % 8
    elif k == "time_ref":
        b["time_ref"] = (b["time_ref"] + rng.randint(1, 15)) % 16
    elif k == "dest_id":
        b["dest_id"] ^= 1 << rng.randint(0, 15)
    elif k == "timestamp":
        t = bytearray(unhx(b["timestamp"]))
        if t and rng.random() < 0.7:
            t[rng.randrange(len(t))] ^= 1 << rng.randint(0, 7)
        else:
            t.append(rng.getrandbits(8))
        b["timestamp"] = hx(t)
    elif k == "req":
        f = rng.choice(["version", "ptype", "shf", "apid", "flags", "count"])
        r = p["req_id"]
        r[f] = {"version": (r[f] + 1) % 8, "ptype": 1 - r[f], "shf": 1 - r[f], "apid": r[f] ^ (1 << rng.randint(0, 10)),
                "flags": (r[f] + 1) % 4, "count": r[f] ^ (1 << rng.randint(0, 13))}[f]
    elif k == "subservice":
        sub = b["subservice"]
        same_shape = [x for x in ((1, 3, 7) if sub in (1, 3, 7) else (2, 4, 8) if sub in (2, 4, 8) else ()) if x != sub]
        if same_shape:
            b["subservice"] = rng.choice(same_shape)
        else:
            b["count"] ^= 1
    elif k == "step_val":
        p["step_id"]["val"] ^= 1 << rng.randint(0, p["step_id"]["pfc"] - 1)
    elif k == "step_pfc":
        p["step_id"]["pfc"] = rng.choice([x for x in (8, 16, 32, 64) if x != p["step_id"]["pfc"]])
        p["step_id"]["val"] &= 0xFF
    elif k == "err_val":
        p["failure"]["code"]["val"] ^= 1 << rng.randint(0, p["failure"]["code"]["pfc"] - 1)
    elif k == "err_pfc":
        p["failure"]["code"]["pfc"] = rng.choice([x for x in (8, 16, 32, 64) if x != p["failure"]["code"]["pfc"]])
        p["failure"]["code"]["val"] &= 0xFF
    elif k == "fdata":
        d = bytearray(unhx(p["failure"]["data"]))
        if d and rng.random() < 0.6:
            d[rng.randrange(len(d))] ^= 1 << rng.randint(0, 7)
        elif d and rng.random() < 0.5:
            d.pop()
        else:
            d.append(rng.getrandbits(8))
        p["failure"]["data"] = hx(d)
    return b


class C15(Prop):
    id = "C15"
    title = "request IDs and service-1 reports"
    lean_modules = ["SpVerif.Props.C15", "SpVerif.Props.C11Heap"]
    exhaustive_note = ("all 65536 values of each request-ID word through unpack/pack; all 8 subservices x 16 width pairs x "
                       "timestamp lengths 0..12 (constructor and create_* helpers); all pfc 0..80 through check_pfc; all "
                       "(subservice 0..12 x 4 parameter shapes) through verify_against_subservice; every truncation of sampled reports")
    trusted_base = ["PusTm layer of the report (C03 model and theorems) is reused unchanged"]
    assumptions = ["field values, PFCs and UnpackParams widths are non-negative integers; explicit FailureNotice.unpack data lengths are non-negative",
                   "reports whose timestamp + source data exceed the 16-bit length field are outside the domain (the tm_data setter does not validate; pack then raises struct.error)"]

    def impl_ops(self):
        return OPS

    def table_sync(self):
        exp = {"INVALID": 0, "TM_ACCEPTANCE_SUCCESS": 1, "TM_ACCEPTANCE_FAILURE": 2, "TM_START_SUCCESS": 3,
               "TM_START_FAILURE": 4, "TM_STEP_SUCCESS": 5, "TM_STEP_FAILURE": 6, "TM_COMPLETION_SUCCESS": 7,
               "TM_COMPLETION_FAILURE": 8}
        got = {m.name: int(m) for m in Subservice}
        d = [] if got == exp else [f"Subservice members {got} != {exp}"]
        from spacepackets.ecss.defs import PusService
        if int(PusService.S1_VERIFICATION) != 1:
            d.append(f"PusService.S1_VERIFICATION = {int(PusService.S1_VERIFICATION)} != 1")
        up = UnpackParams(3)
        if (up.timestamp_len, up.bytes_step_id, up.bytes_err_code) != (3, 1, 1):
            d.append("UnpackParams defaults changed")
        if s1.ErrorCode is not PacketFieldEnum or s1.StepId is not PacketFieldEnum:
            d.append("ErrorCode/StepId are no longer PacketFieldEnum")
        return d

    def nontrivial(self, c):
        return any(v not in (0, None, False, "") for k, v in c.op.items() if k != "op")

    def neighbours(self, c, rng):
        op = c.op
        if op["op"] in ("s1_unpack", "s1_from_tm"):
            raw = unhx(op["raw"])
            for sw in WIDTHS:
                for ew in WIDTHS:
                    yield Case({**op, "step_bytes": sw, "err_bytes": ew}, "any", tag="nb-widths")
            for k in range(len(raw)):
                yield Case({**op, "raw": hx(raw[:k])}, "any", tag="nb-trunc")
        elif op["op"] in ("s1_pack", "s1_new") and op.get("params"):
            for sub in range(1, 9):
                for sw in WIDTHS:
                    for ew in WIDTHS:
                        a = s1_args(rng, sub, sw, ew, ts=len(op["timestamp"]) // 2)
                        yield Case({"op": "s1_pack", **a}, "valid", tag="nb-config")

    def cases(self, rng: random.Random, tier: str) -> Iterator[Case]:
        thorough = tier == "thorough"
        # ---------------------------------------------------------------- request id
        for word in range(2):
            other = rng.getrandbits(16)
            for w in range(65536):
                b = [0, 0, 0, 0]
                b[2 * word], b[2 * word + 1] = w >> 8, w & 0xFF
                b[2 - 2 * word], b[3 - 2 * word] = other >> 8, other & 0xFF
                yield Case({"op": "req_unpack", "raw": hx(bytes(b) + rbytes(rng, w % 2))}, "valid", tag=f"word{word}-sweep")
        for ln in range(4):
            yield Case({"op": "req_unpack", "raw": hx(rbytes(rng, ln))}, "invalid", errclass=True, tag="short")
        for apid in pool(2047, rng):
            for count in pool(16383, rng, 1):
                r = rand_req(rng)
                r.update(apid=apid, count=count)
                yield Case({"op": "req_pack", **r}, "valid", tag="boundary")
        for ver in range(8):
            for pt in range(2):
                for shf in range(2):
                    for fl in range(4):
                        yield Case({"op": "req_pack", "version": ver, "ptype": pt, "shf": shf, "flags": fl,
                                    "apid": rng.randint(0, 2047), "count": rng.randint(0, 16383)}, "valid", tag="flag-sweep")
        for _ in range(20000 if thorough else 2500):
            a, b = rand_req(rng), rand_req(rng)
            if rng.random() < 0.6:
                b = dict(a)
                if rng.random() < 0.6:
                    k = rng.choice(["version", "ptype", "shf", "apid", "flags", "count"])
                    b[k] = {"version": (a[k] + 1) % 8, "ptype": 1 - a[k], "shf": 1 - a[k], "apid": a[k] ^ (1 << rng.randint(0, 10)),
                            "flags": (a[k] + 1) % 4, "count": a[k] ^ (1 << rng.randint(0, 13))}[k]
            yield Case({"op": "req_eq", "a": a, "b": b}, "valid", tag="eq")
            yield Case({"op": "req_pack", **a}, "valid", tag="random")
        # a request ID that reached the case's values the long way (key "hist"): obtained with other values (from fields,
        # decoded, from a space packet header, from a telecommand), some or all of its forms read (as_u32, hash, pack, field
        # view, use as dictionary key), then changed through its public attributes (new PacketId / PacketSeqCtrl / version,
        # or the attributes of the ones it holds) or - path "header" - by changing the header / telecommand it was taken
        # from; every form read again in the order of the case. All forms of one request ID agree, equal IDs hash equal.
        reads = [None, ["u32"], ["hash"], ["lookup"], ["pack", "fields"], []]
        keys6 = ["version", "ptype", "shf", "apid", "flags", "count"]
        k = 0
        for rep in range(10 if thorough else 1):
            for src in ("fields", "unpack", "sp_header", "pus_tc"):
                for path in ("assign", "inplace", "assign+all", "header"):
                    if path == "header" and src in ("fields", "unpack"):
                        continue
                    for rd in reads:
                        for what in keys6 + ["all", "some"]:
                            k += 1
                            a = rand_req(rng, tc_like=rng.random() < 0.3)
                            old = rand_req(rng, tc_like=(src == "pus_tc"))
                            if what in keys6:
                                old = dict(a)
                                top = {"version": 7, "ptype": 1, "shf": 1, "apid": 2047, "flags": 3, "count": 16383}[what]
                                old[what] = rng.choice([a[what] ^ top, (a[what] + 1) % (top + 1)])
                            elif what == "some":
                                for x in rng.sample(keys6, 3):
                                    old[x] = a[x]
                            if src == "pus_tc":
                                old.update(version=0, ptype=1, shf=1, flags=3)
                            if path == "header":
                                a["version"] = old["version"]
                            if a == old:
                                continue
                            after = list(REQ_VIEW_NAMES)
                            rng.shuffle(after)
                            hist = {"from": old, "source": src, "path": path, "read": rd, "after": after}
                            if path == "header":
                                # the telecommand / header object is reused for the next command: tc.apid / tc.seq_count, the
                                # header's setters, or the attributes of the PacketId / PacketSeqCtrl the header hands out first
                                hist["how"] = ("tc", "hdr", "parts")[k % 3]
                            yield Case({"op": "req_pack", **a, "hist": hist}, "valid", tag="read-set-read" if path != "header" else "header-reused")
        # ---------------------------------------------------------------- packet field enum
        for pfc in range(0, 81):
            n = int(round(pfc / 8))
            ok = n in (1, 2, 4, 8)
            yield Case({"op": "pfe_pack", "pfc": pfc, "val": 1}, "valid" if ok else "invalid", errclass=not ok, tag="pfc-sweep")
            yield Case({"op": "pfe_unpack", "pfc": pfc, "raw": hx(rbytes(rng, 9))}, "valid" if ok else "invalid", errclass=not ok, tag="pfc-sweep")
        for n in range(0, 11):
            ok = n in (1, 2, 4, 8)
            yield Case({"op": "pfe_with_size", "n": n, "val": rng.getrandbits(8)}, "valid" if ok else "invalid", errclass=not ok, tag="with-size")
        for w in WIDTHS:
            top = (1 << (8 * w)) - 1
            for v in sorted({0, 1, 255, 256, top - 1, top, 1 << (8 * w - 1), 0x0102030405060708 & top, rng.getrandbits(8 * w)} - {top + 1}):
                if v <= top:
                    yield Case({"op": "pfe_pack", "pfc": 8 * w, "val": v}, "valid", tag="pfe")
                    if w in (1, 2, 4):
                        yield Case({"op": "pfe_pack", "pfc": 8 * w, "val": v, "via": {1: "U8", 2: "U16", 4: "U32"}[w]}, "valid", tag="pfe-helper")
            for pfc in ODD_PFCS[w]:
                yield Case({"op": "pfe_pack", "pfc": pfc, "val": rand_val(rng, w)}, "valid", tag="pfe-odd-pfc")
            for v in (top + 1, top + 2, 1 << 70):
                yield Case({"op": "pfe_pack", "pfc": 8 * w, "val": v}, "invalid", errclass=True, tag="pfe-too-large")
            # the field was built with another width / value and looked at, then pfc / val were assigned (key "hist")
            for w0 in WIDTHS:
                for rd in (None, ["len"], ["pack"], []):
                    new_v = rand_val(rng, w)
                    old_f = {"pfc": rng.choice([8 * w0] + ODD_PFCS[w0]), "val": rng.choice([new_v & ((1 << (8 * w0)) - 1), rand_val(rng, w0)])}
                    after = ["len", "pack", "fields", "eq"]
                    rng.shuffle(after)
                    yield Case({"op": "pfe_pack", "pfc": rng.choice([8 * w, 8 * w] + ODD_PFCS[w]), "val": new_v,
                                "hist": {"from": old_f, "read": rd, "after": after}}, "valid", tag="pfe-read-set-read")
            for ln in range(0, w):
                yield Case({"op": "pfe_unpack", "pfc": 8 * w, "raw": hx(rbytes(rng, ln))}, "invalid", errclass=True, tag="pfe-short")
            for ln in (w, w + 1, w + 9):
                yield Case({"op": "pfe_unpack", "pfc": 8 * w, "raw": hx(rbytes(rng, ln))}, "valid", tag="pfe-decode")
            if w <= 2:
                for v in range(256 if w == 1 else 0, 256 if w == 1 else 65536, 1 if w == 1 else 257):
                    yield Case({"op": "pfe_unpack", "pfc": 8 * w, "raw": hx(v.to_bytes(w, "big"))}, "valid", tag="pfe-sweep")
            if w == 1:
                for v in range(256):
                    yield Case({"op": "pfe_unpack", "pfc": 8, "raw": hx(bytes([v]))}, "valid", tag="pfe-sweep")
        for _ in range(2000 if thorough else 300):
            wa, wb = rng.choice(WIDTHS), rng.choice(WIDTHS)
            a = rand_pfe(rng, wa, rng.random() < 0.8)
            b = dict(a) if rng.random() < 0.5 else (rand_pfe(rng, wb) if rng.random() < 0.5 else {"pfc": a["pfc"], "val": a["val"] ^ 1})
            yield Case({"op": "pfe_eq", "a": a, "b": b}, "valid", tag="pfe-eq")
        # ---------------------------------------------------------------- failure notice
        for ew in WIDTHS:
            for n in (0, 1, 2, 7, 40):
                for exact in (True, False):
                    f = {"code": rand_pfe(rng, ew, exact), "data": hx(rbytes(rng, n))}
                    yield Case({"op": "s1_fn_pack", **f}, "valid", tag="fn-pack")
                raw = rbytes(rng, ew + n)
                yield Case({"op": "s1_fn_unpack", "raw": hx(raw), "err_bytes": ew, "data_bytes": None}, "valid", tag="fn-unpack")
                for nd in sorted({0, 1, n - 1, n, n + 1, n + 5} - {-1}):
                    yield Case({"op": "s1_fn_unpack", "raw": hx(raw + rbytes(rng, 2)), "err_bytes": ew, "data_bytes": nd}, "valid", tag="fn-unpack-len")
            for ln in range(ew):
                yield Case({"op": "s1_fn_unpack", "raw": hx(rbytes(rng, ln)), "err_bytes": ew, "data_bytes": rng.choice([None, 0, 3])},
                           "invalid", errclass=True, tag="fn-short")
            yield Case({"op": "s1_fn_pack", "code": {"pfc": 8 * ew, "val": 1 << (8 * ew)}, "data": "00"}, "invalid", errclass=True, tag="fn-too-large")
        for bad in (0, 3, 5, 6, 7, 9, 16):
            yield Case({"op": "s1_fn_unpack", "raw": hx(rbytes(rng, 20)), "err_bytes": bad, "data_bytes": None}, "invalid", errclass=True, tag="fn-bad-width")
        for _ in range(2000 if thorough else 300):
            ew = rng.choice(WIDTHS)
            a = {"code": rand_pfe(rng, ew), "data": hx(rbytes(rng, rng.choice([0, 1, 4])))}
            r = rng.random()
            if r < 0.4:
                b = {"code": dict(a["code"]), "data": a["data"]}
            elif r < 0.6:
                b = {"code": dict(a["code"]), "data": a["data"] + "00"}
            elif r < 0.8:
                b = {"code": {"pfc": a["code"]["pfc"], "val": a["code"]["val"] ^ 1}, "data": a["data"]}
            else:
                b = {"code": rand_pfe(rng, rng.choice(WIDTHS)), "data": hx(rbytes(rng, rng.choice([0, 1, 4])))}
            yield Case({"op": "s1_fn_eq", "a": a, "b": b}, "valid", tag="fn-eq")
        # ---------------------------------------------------------------- verification params
        shapes = [(False, False), (True, False), (False, True), (True, True)]
        for sub in list(range(0, 13)) + [255, rng.randint(13, 254)]:
            for has_step, has_fail in shapes:
                p = {"req_id": rand_req(rng), "step_id": rand_pfe(rng, rng.choice(WIDTHS)) if has_step else None,
                     "failure": {"code": rand_pfe(rng, rng.choice(WIDTHS)), "data": hx(rbytes(rng, rng.choice([0, 3])))} if has_fail else None}
                ok = (has_fail == (sub % 2 == 0)) and (has_step == (sub in (5, 6)))
                yield Case({"op": "s1_vp_verify", "params": p, "subservice": sub}, "valid" if ok else "invalid", errclass=not ok, tag="verify")
        for sw in WIDTHS:
            for ew in WIDTHS:
                for sub in (1, 2, 5, 6):
                    for exact in (True, False):
                        yield Case({"op": "s1_vp_pack", "params": params_for(rng, sub, sw, ew, exact=exact)}, "valid", tag="vp-pack")
        # ---------------------------------------------------------------- service 1 reports
        # all subservices x width pairs x timestamp lengths, through the constructor and the helpers
        reps = 4 if thorough else 2
        n_via = 0
        for sub in range(1, 9):
            for sw in WIDTHS:
                for ew in WIDTHS:
                    for ts in range(0, 13):
                        for _ in range(reps):
                            a = s1_args(rng, sub, sw, ew, ts)
                            yield Case({"op": "s1_pack", **a}, "valid", tag=f"sub{sub}")
                        if ts % 3 == 1 or thorough:
                            # the request ID of the report is taken from a header / telecommand object that the application
                            # reuses for its next command once the report is built (key "req_via")
                            n_via += 1
                            src = ("pus_tc", "sp_header")[n_via % 2]
                            a = s1_args(rng, sub, sw, ew, ts, req=rand_req(rng, tc_like=(src == "pus_tc" and rng.random() < 0.7)))
                            a["req_via"] = {"source": src, "then": next_command(rng, a["params"]["req_id"]), "how": ("tc", "hdr", "parts")[n_via % 3]}
                            yield Case({"op": "s1_pack", **a}, "valid", tag=f"sub{sub}-header-reused")
                        if ts % 2 == 0 or thorough:
                            p = params_for(rng, sub, sw, ew)
                            tc = rand_tc(rng)
                            c = {"op": "s1_create", "subservice": sub, "apid": rng.randint(0, 2047), "tc": tc,
                                 "step_id": p["step_id"], "failure": p["failure"], "timestamp": hx(rbytes(rng, ts))}
                            yield Case(c, "valid", tag=f"create{sub}")
                            # the same helper call; afterwards the telecommand object is reused for the next command (key "reuse")
                            n_via += 1
                            cur = {"apid": tc["apid"], "count": tc["count"], "ptype": 1, "shf": 1, "flags": 3}
                            yield Case({**c, "reuse": {"then": next_command(rng, cur), "how": ("tc", "hdr", "parts")[n_via % 3]}},
                                       "valid", tag=f"create{sub}-tc-reused")
        # PFCs that are not 8 x width (accepted by the constructor): the weaker round trip that holds for every
        # accepted PFC - same value, same width, same octets, == exactly when all PFCs were aligned
        for sub in range(1, 9):
            for sw in WIDTHS:
                for ew in WIDTHS:
                    for exact in (False, False, True) if thorough else (False, True):
                        a = s1_args(rng, sub, sw, ew, exact=exact)
                        a["suffix"] = hx(rbytes(rng, rng.choice([0, 0, 1, 5])))
                        yield Case({"op": "s1_roundtrip", **a}, "valid", tag="any-pfc" if not exact else "any-pfc-aligned")
        # boundary: the largest source data the 16-bit length field can describe (and one octet less)
        for sub, ts in ((2, 0), (6, 7), (8, 12)):
            for slack in (0, 1):
                sw, ew = rng.choice(WIDTHS), rng.choice(WIDTHS)
                n = 65527 - ts - 4 - ew - (sw if sub == 6 else 0) - slack
                a = s1_args(rng, sub, sw, ew, ts, fdata_len=n)
                yield Case({"op": "s1_pack", **a}, "valid", tag="max-length")
        # reports without verification parameters (empty request id, no source data)
        for sub in range(0, 10):
            a = s1_args(rng, 1, 1, 1)
            a.update(subservice=sub, params=None)
            yield Case({"op": "s1_new", **a}, "valid", tag="no-params")
        # invalid constructor arguments together with a mismatching parameter set: refused either way
        for _ in range(40):
            a = s1_args(rng, rng.randint(1, 8), 1, 1)
            a[rng.choice(["apid", "count"])] = rng.choice([-1, 2048 if rng.random() < 0.5 else 16384, 1 << 20])
            if a["apid"] in range(2048) and a["count"] in range(16384):
                a["apid"] = 2048
            yield Case({"op": "s1_new", **a}, "invalid", errclass=True, tag="bad-ctor-args")
        for sub in (-1, 256, 1000):
            a = s1_args(rng, 1, 1, 1)
            a.update(subservice=sub)
            yield Case({"op": "s1_new", **a}, "invalid", tag="bad-subservice")
        # whole-object equality
        for _ in range(3000 if thorough else 500):
            sub = rng.randint(1, 8)
            a = s1_args(rng, sub, rng.choice(WIDTHS), rng.choice(WIDTHS))
            import copy
            b = copy.deepcopy(a) if rng.random() < 0.35 else mutate_s1(rng, a)
            yield Case({"op": "s1_eq", "a": a, "b": b}, "valid", tag="s1-eq")
        # same source-data octets, different field boundaries: only the parameter comparison tells them apart
        for _ in range(300 if thorough else 60):
            sub = rng.choice([2, 4, 6, 8])
            a = s1_args(rng, sub, 1, 1)
            import copy
            b = copy.deepcopy(a)
            pa, pb = a["params"], b["params"]
            x = rbytes(rng, 3)
            if sub == 6 and rng.random() < 0.6:
                pa["step_id"], pa["failure"]["code"] = {"pfc": 16, "val": x[0] << 8 | x[1]}, {"pfc": 8, "val": x[2]}
                pb["step_id"], pb["failure"]["code"] = {"pfc": 8, "val": x[0]}, {"pfc": 16, "val": x[1] << 8 | x[2]}
            else:
                tail = unhx(pa["failure"]["data"])
                pa["failure"] = {"code": {"pfc": 16, "val": x[0] << 8 | x[1]}, "data": hx(x[2:] + tail)}
                pb["failure"] = {"code": {"pfc": 8, "val": x[0]}, "data": hx(x[1:] + tail)}
            yield Case({"op": "s1_eq", "a": a, "b": b}, "valid", tag="s1-eq-same-octets")
        # decode with suffix, with other widths, truncations, substitutions (octets packed by the model)
        n_dec = 3000 if thorough else 400
        dec_args = []
        for i in range(n_dec):
            sub = rng.randint(1, 8) if i >= 8 else i + 1
            dec_args.append(s1_args(rng, sub, rng.choice(WIDTHS), rng.choice(WIDTHS)))
        dec_raw = model_pack([{"op": "s1_pack", **a} for a in dec_args])
        short_ops, short_meta = [], []
        for i, (a, raw) in enumerate(zip(dec_args, dec_raw)):
            sub = a["subservice"]
            p = a["params"]
            sw = p["step_id"]["pfc"] // 8 if p["step_id"] else rng.choice(WIDTHS)
            ew = p["failure"]["code"]["pfc"] // 8 if p["failure"] else rng.choice(WIDTHS)
            ts = len(a["timestamp"]) // 2
            sfx = rng.choice([b"", rbytes(rng, 1), rbytes(rng, 9)])
            # widths the report does not use may be anything
            sw_d = sw if sub in (5, 6) else rng.choice(WIDTHS + [0, 3, 200])
            ew_d = ew if sub % 2 == 0 else rng.choice(WIDTHS + [0, 3, 200])
            if sub in (2, 4, 8):
                sw_d = rng.choice(WIDTHS + [0, 3])
            yield Case({"op": "s1_unpack", "raw": hx(raw + sfx), "ts_len": ts, "step_bytes": sw_d, "err_bytes": ew_d}, "valid", tag="decode+suffix")
            yield Case({"op": "s1_from_tm", "raw": hx(raw + sfx), "ts_len": ts, "step_bytes": sw_d, "err_bytes": ew_d}, "valid", tag="from-tm")
            for sw2 in WIDTHS + [0, 3]:
                for ew2 in WIDTHS + [0, 3]:
                    if (sw2, ew2) != (sw, ew) and rng.random() < 0.3:
                        yield Case({"op": "s1_unpack", "raw": hx(raw + sfx), "ts_len": ts, "step_bytes": sw2, "err_bytes": ew2}, "any", tag="other-widths")
            if i % 8 == 0:
                for k in range(len(raw)):
                    yield Case({"op": "s1_unpack", "raw": hx(raw[:k]), "ts_len": ts, "step_bytes": sw, "err_bytes": ew}, "invalid", tag="truncation")
                # truncated source data with a consistent length field and CRC
                src = raw[13 + ts:-2]
                for k in range(len(src)):
                    short_ops.append(tm_args(sub, unhx(a["timestamp"]), src[:k], a["apid"], count=a["count"], version=a["version"],
                                             time_ref=a["time_ref"], dest_id=a["dest_id"]))
                    full = k >= 4 + (sw if sub in (5, 6) else 0) + (ew if sub % 2 == 0 else 0)
                    short_meta.append((ts, sw, ew, full))
            if i % 4 == 0:
                for sub2 in list(range(0, 11)) + [255]:
                    m = bytearray(raw)
                    m[8] = sub2
                    yield Case({"op": "s1_unpack", "raw": hx(refit_crc(bytes(m))), "ts_len": ts, "step_bytes": sw, "err_bytes": ew}, "any", tag="subservice-substitution")
                for pos in range(len(raw)):
                    if pos in (4, 5):
                        continue
                    m = bytearray(raw)
                    m[pos] ^= 1 << rng.randint(0, 7)
                    yield Case({"op": "s1_unpack", "raw": hx(bytes(m)), "ts_len": ts, "step_bytes": sw, "err_bytes": ew}, "invalid", tag="bit-flip")
                    if pos >= 13 + ts and pos < len(raw) - 2 and rng.random() < 0.5:
                        yield Case({"op": "s1_unpack", "raw": hx(refit_crc(bytes(m))), "ts_len": ts, "step_bytes": sw, "err_bytes": ew}, "any", tag="source-data-substitution")
        # back-to-back decodes of different reports (other subservice, widths, timestamp length, request id) with the
        # reused decoder configurations: a report decoded earlier must not follow a later decode
        def dec_case(a, raw):
            p = a["params"]
            return Case({"op": "s1_unpack", "raw": hx(raw + rbytes(rng, 2)), "ts_len": len(a["timestamp"]) // 2,
                         "step_bytes": p["step_id"]["pfc"] // 8 if p["step_id"] else 1,
                         "err_bytes": p["failure"]["code"]["pfc"] // 8 if p["failure"] else 1}, "valid", tag="decode-sequence")
        for i in range(0, min(n_dec, 240 if thorough else 120) - 1, 2):
            for j in (i, i + 1, i):
                yield dec_case(dec_args[j], dec_raw[j])
            yield Case({"op": "req_unpack", "raw": hx(dec_raw[i][13 + len(dec_args[i]["timestamp"]) // 2:][:4])}, "valid", tag="decode-sequence")
        for raw, (ts, sw, ew, full) in zip(model_pack(short_ops), short_meta):
            yield Case({"op": "s1_unpack", "raw": hx(raw), "ts_len": ts, "step_bytes": sw, "err_bytes": ew},
                       "valid" if full else "invalid", tag="short-source-data")
        # parameter sets that do not match the subservice are refused
        for sub in range(1, 9):
            for has_step, has_fail in shapes:
                want_fail = sub % 2 == 0
                want_step = sub in (5, 6)
                if has_step == want_step and has_fail == want_fail:
                    continue
                for _ in range(3):
                    a = s1_args(rng, sub, 1, 2)
                    p = a["params"]
                    p["step_id"] = rand_pfe(rng, rng.choice(WIDTHS)) if has_step else None
                    p["failure"] = {"code": rand_pfe(rng, rng.choice(WIDTHS)), "data": hx(rbytes(rng, rng.choice([0, 1, 6])))} if has_fail else None
                    yield Case({"op": "s1_pack", **a}, "invalid", errclass=True, tag="params-mismatch")
        # arbitrary subservice values / short source data through the decoder
        arb_ops, arb_meta = [], []
        for _ in range(4000 if thorough else 700):
            sub = rng.choice(list(range(0, 12)) + [rng.randint(0, 255)])
            ts = rng.choice([0, 7])
            src = rbytes(rng, rng.choice([0, 1, 3, 4, 5, 6, 7, 8, 9, 12, 13, 20]))
            arb_ops.append(tm_args(sub, rbytes(rng, ts), src, rng.randint(0, 2047), service=rng.choice([1, 1, 1, 17])))
            arb_meta.append((ts, rng.choice(["s1_unpack", "s1_from_tm"]), rng.choice(WIDTHS + [0, 3]), rng.choice(WIDTHS + [0, 5])))
        for raw, (ts, op, sb, eb) in zip(model_pack(arb_ops), arb_meta):
            yield Case({"op": op, "raw": hx(raw), "ts_len": ts, "step_bytes": sb, "err_bytes": eb}, "any", tag="arbitrary-tm")
        for _ in range(2000 if thorough else 200):
            yield Case({"op": "s1_unpack", "raw": hx(rbytes(rng, rng.choice([0, 5, 6, 13, 15, 22, 30]))), "ts_len": rng.choice([0, 7]),
                        "step_bytes": rng.choice(WIDTHS), "err_bytes": rng.choice(WIDTHS)}, "any", tag="random-octets")


PROP = C15()
