"""C03 — PUS-C telemetry, any timestamp length; service-17 wrapper"""
import random
import struct
from typing import Dict, Iterator, Optional

import core
from core import Case, Prop, SelfCheckFailure
from gen import hx, unhx, pool, out_pool, rbytes

import spacepackets.ecss.tm as tmmod
from spacepackets.ecss.tm import PusTm
from spacepackets.ecss.pus_17_test import Service17Tm
from spacepackets.ecss import check_pus_crc
from spacepackets.crc import CRC16_CCITT_FUNC
from props.c01 import _fields as sph_fields
from props.c02 import crc_ccitt, fit_bits, spread, _pus_packet_problem, _sp_view_observe, _other_octets, _packed
from spacepackets.ccsds.spacepacket import SpacePacketHeader


def _tm(a):
    return PusTm(service=a["service"], subservice=a["subservice"], timestamp=unhx(a["timestamp"]),
                 source_data=unhx(a["data"]), apid=a["apid"], seq_count=a["count"],
                 message_counter=a["msg_counter"], space_time_ref=a["time_ref"],
                 destination_id=a["dest_id"], packet_version=a["version"])


def _s17(a):
    return Service17Tm(apid=a["apid"], subservice=a["subservice"], timestamp=unhx(a["timestamp"]),
                       ssc=a["count"], source_data=unhx(a["data"]), packet_version=a["version"],
                       space_time_ref=a["time_ref"], destination_id=a["dest_id"])


def _tm_fields(t):
    sec = t.pus_tm_sec_header
    return {"sph": sph_fields(t.sp_header), "time_ref": int(sec.spacecraft_time_ref), "service": int(t.service),
            "subservice": int(t.subservice), "msg_counter": int(sec.message_counter), "dest_id": int(sec.dest_id),
            "timestamp": hx(t.timestamp), "data": hx(t.source_data), "packet_len": int(t.packet_len)}


def _s17_view(s):
    return _tm_fields(s.pus_tm)


def _detached_view(fields):
    """every observable of a decoded telemetry packet for the receive-buffer probe (core.decode_detached): the fields,
    the stored checksum and the octets it packs to"""
    def view(t):
        f = dict(fields(t))
        tm = getattr(t, "pus_tm", t)
        f["crc16"] = None if tm.crc16 is None else hx(tm.crc16)
        try:
            f["raw"] = hx(t.pack())
        except (ValueError, struct.error):
            f["raw"] = None
        return f
    return view


_TM_VIEW, _S17_VIEW = _detached_view(_tm_fields), _detached_view(_s17_view)


# ---- derived values the telemetry packet remembers (case key "hist" of tm_pack): read, change through the setters, read ----
TM_VIEW_NAMES = ["packet_len", "fields", "to_space_packet", "calc_crc", "pack", "eq"]
TM_SETTABLE = ["apid", "count", "msg_counter", "dest_id", "time_ref", "service", "subservice", "timestamp", "data", "version"]
TM_TOP = {"apid": 2047, "count": 16383, "msg_counter": 65535, "dest_id": 65535, "time_ref": 15, "service": 255, "subservice": 255,
          "version": 7}


def _tm_views(final):
    """every derived view of a telemetry packet as plain values. `pack` and `calc_crc` refresh the stored checksum,
    `to_space_packet` is documented to calculate it too; `crc16` is looked at right after each of them (between a setter and
    the next calculation it is, as documented, the stored result of the LAST calculation and not a view of the fields)."""
    def crc_of(t):
        return None if t.crc16 is None else hx(t.crc16)

    def v_sp(t):
        sp = t.to_space_packet()
        return {"raw": hx(core.pack_stable(sp, "PusTm.to_space_packet().pack()")), "crc16": crc_of(t),
                "apid": int(sp.apid), "count": int(sp.seq_count), "shf": bool(sp.sec_header_flag)}

    def v_calc(t):
        t.calc_crc()
        return crc_of(t)

    def v_pack(t):
        raw = core.pack_stable(t, "PusTm.pack()")
        return {"raw": hx(raw), "crc16": crc_of(t), "again": hx(t.pack(recalc_crc=False))}

    def v_eq(t):
        ref = _tm(final)
        return [bool(t == ref), bool(ref == t)]
    return [("packet_len", lambda t: int(t.packet_len)), ("fields", _tm_fields), ("to_space_packet", v_sp),
            ("calc_crc", v_calc), ("pack", v_pack), ("eq", v_eq)]


def _tm_mutate(t: PusTm, old, new, path: str):
    """old -> new through the documented ways of changing a telemetry packet: "tm" the setters of PusTm (apid, tm_data;
    the other fields have none and are attributes / setters of the two header objects it exposes), "hdr" the attributes /
    setters of sp_header and pus_tm_sec_header only (source data still through tm_data, there is no other way), "replace"
    new header objects stored in space_packet_header / pus_tm_sec_header. The packet version has no setter and the length
    field follows the source data only: "tm" / "hdr" are used for histories that keep the version and the LENGTH of the
    timestamp (the generator sees to that), "replace" for any."""
    data, ts = unhx(new["data"]), unhx(new["timestamp"])
    if path == "replace":
        t.tm_data = data
        t.space_packet_header = SpacePacketHeader(packet_type=t.sp_header.packet_type, apid=new["apid"], seq_count=new["count"],
                                                  data_len=7 + len(ts) + len(data) + 1, sec_header_flag=True,
                                                  ccsds_version=new["version"])
        t.pus_tm_sec_header = type(t.pus_tm_sec_header)(service=new["service"], subservice=new["subservice"], timestamp=ts,
                                                        message_counter=new["msg_counter"], dest_id=new["dest_id"],
                                                        spacecraft_time_ref=new["time_ref"])
        return
    if new["version"] != old["version"] or len(new["timestamp"]) != len(old["timestamp"]):
        raise core.InfraError("generator: a history through the setters cannot change the version / the timestamp length")
    if new["apid"] != old["apid"]:
        setattr(t.sp_header if path == "hdr" else t, "apid", new["apid"])
    if new["count"] != old["count"]:
        t.sp_header.seq_count = new["count"]
    if new["data"] != old["data"]:
        t.tm_data = data
    for key, attr in (("service", "service"), ("subservice", "subservice"), ("msg_counter", "message_counter"),
                      ("dest_id", "dest_id"), ("time_ref", "spacecraft_time_ref")):
        if new[key] != old[key]:
            setattr(t.pus_tm_sec_header, attr, new[key])
    if new["timestamp"] != old["timestamp"]:
        t.pus_tm_sec_header.timestamp = ts


# things taken from a telemetry packet BEFORE it is changed and looked at AFTER (core.held_across_change)
TM_HOLDERS = [("PusTm.to_space_packet()", lambda t: t.to_space_packet(), _sp_view_observe, lambda v: _pus_packet_problem(v["raw"]))]


def _tm_after_history(a):
    """the telemetry packet of the case's parameters, reached the long way: built (or decoded) with other values, looked at,
    changed to the case's values through the setters; what it shows then is what a packet built directly with the case's
    values shows. "hold": the generic space-packet view taken BEFORE the change still packs to the packet as it was"""
    h = a["hist"]
    old = h["from"]

    def make():
        t = _tm(old)
        return PusTm.unpack(bytes(t.pack()) + b"\x00", len(t.timestamp)) if h.get("how") == "unpack" else t

    def change(t):
        _tm_mutate(t, old, a, h.get("path", "tm"))

    def mutate(t):
        if h.get("hold"):
            bad = core.held_across_change(t, TM_HOLDERS, change, "PusTm")
            if bad:
                raise SelfCheckFailure(bad)
        else:
            change(t)
    got = {}
    err = core.read_mutate_read(make, _tm_views(a), mutate, lambda: _tm(a), "PusTm", first=h.get("read"), after=h.get("after"),
                                out=got)
    if err:
        raise SelfCheckFailure(err)
    return got["obj"], got["after"]


def _tm_args_text(a) -> str:
    return ", ".join(f"{k}={str(a[k])[:60]}" for k in TM_SETTABLE if k in a)


def _tm_equality(a, full: bool, raw: bytes, make=None, decode=None, cls: str = "PusTm", attr: str = "", fixed=(),
                 inner=None, via: str = "o") -> None:
    """`==` between telemetry packets holding the values of `a`, in every state an application can hold them (see
    core.equal_in_every_state); full=False: only the decoded / never-packed pair in both orders. make / decode: how the
    packet is built / decoded (default PusTm itself; the service-17 wrapper hands in its own and compares the `pus_tm`
    it wraps; fixed: fields the constructor handed in does not take). inner / via: for candidates that are WRAPPERS compared
    as wrappers (Service17Tm == Service17Tm): how the PusTm the documented setters live on is reached from a candidate
    (`inner(o)`, written `via` in the call sequences, e.g. "o.pus_tm")"""
    inner = inner or (lambda o: o)
    n = len(a["timestamp"]) // 2
    make = make or (lambda b=None: _tm(a if b is None else b))
    decode = decode or (lambda octets: PusTm.unpack(octets, n))
    raw = bytes(raw)

    def prepared(step):
        def build():
            t = make()
            step(t)
            return t
        return build

    def reached(old, path, how="new"):
        def build():
            t = make(old)
            t = decode(bytes(t.pack()) + b"\x00") if how == "unpack" else t
            t.pack()                       # whatever the object remembers is now about the OLD values
            _tm_mutate(inner(t), old, a, path)
            return t
        return build

    same = [(f"{cls}(<the same arguments>){attr}, nothing called on it", make)]
    different = []
    if full:
        same += [(f"{cls}(<the same arguments>){attr}; o.pack()", prepared(lambda t: t.pack())),
                 (f"{cls}(<the same arguments>){attr}; {via}.calc_crc()", prepared(lambda t: inner(t).calc_crc())),
                 (f"{cls}(<the same arguments>){attr}; {via}.to_space_packet()", prepared(lambda t: inner(t).to_space_packet())),
                 (f"{cls}(<the same arguments>){attr}; {via}.pack(recalc_crc=False)", prepared(lambda t: inner(t).pack(recalc_crc=False))),
                 (f"{cls}.unpack(<the same octets>, {n}){attr}", lambda: decode(raw)),
                 (f"{cls}.unpack(<the same octets>, {n}){attr}; o.pack()", lambda: _packed(decode(raw))),
                 (f"{cls}.unpack(bytearray(<the same octets>), {n}){attr}", lambda: decode(bytearray(raw)))]
        far = dict(a)               # every field different; version and timestamp LENGTH as they are (no setter reaches them)
        for key in [k for k in TM_SETTABLE if k not in fixed]:
            if key == "timestamp":
                far[key] = hx(bytes(x ^ 0xFF for x in unhx(a[key])))
            elif key == "data":
                far[key] = _other_octets(a[key], "far")
            elif key != "version":
                far[key] = a[key] ^ TM_TOP[key]
            old = dict(a)
            old[key] = far[key]
            if old != a:
                for path in ("tm", "hdr") if key == "apid" else ("tm",):
                    same.append((f"{cls}(<{key} = {str(old[key])[:40]}, else the same>){attr}; o.pack(); {key} set to the final value "
                                 f"through {'the setters of PusTm ({via}.apid / {via}.tm_data) or, where it has none, ' if path == 'tm' else ''}"
                                 f"the attributes of {via}.sp_header / {via}.pus_tm_sec_header", reached(old, path)))
            for how, name in (("bit", key + " (one bit)"), ("longer", key + " (one octet longer)")):
                if key in ("timestamp", "data"):
                    if how == "bit" and key == "timestamp" and not a[key]:
                        continue
                    v = _other_octets(a[key], how)
                elif how == "longer":
                    continue
                else:
                    v = a[key] ^ 1
                diff = dict(a)
                diff[key] = v
                different.append((f"{cls}(<{name} differs: {str(v)[:40]}, else the same>){attr}, nothing called on it",
                                  lambda d=diff: make(d)))
                different.append((f"{cls}(<{name} differs: {str(v)[:40]}, else the same>){attr}; o.pack()",
                                  lambda d=diff: _packed(make(d))))
        if far != a:
            same += [(f"{cls}(<every field but the version different>){attr}; o.pack(); every field set to the final value through the "
                      f"setters / header attributes of {via}", reached(far, "tm")),
                     (f"{cls}.unpack(<octets of a packet with every field but the version different>, {n}){attr}; o.pack(); every field "
                      f"set to the final value through the header attributes of {via}", reached(far, "hdr", "unpack")),
                     (f"{cls}(<every field but the version different>){attr}; o.pack(); {via}.tm_data = final data; {via}.space_packet_header, "
                      f"{via}.pus_tm_sec_header = new header objects with the final values", reached(far, "replace"))]
    err = core.equal_in_every_state(lambda: decode(raw), make, same, different, what=f"{cls}({_tm_args_text(a)}){attr}",
                                    decoded=f"{cls}.unpack({hx(raw)[:120]}, {n}){attr}", both_sides=full)
    if err:
        raise SelfCheckFailure(err)


def op_tm_new(a):
    return _tm_fields(_tm(a))


def op_tm_pack(a):
    if a.get("hist"):
        # the octets the changed packet showed (in the order of the case) are what the model is asked about
        t, seen = _tm_after_history(a)
        if all("ok" in seen.get(v, {}) for v in ("pack", "to_space_packet", "packet_len")):
            return {"raw": seen["pack"]["ok"]["raw"], "sp_raw": seen["to_space_packet"]["ok"]["raw"],
                    "packet_len": seen["packet_len"]["ok"]}
    else:
        t = _tm(a)
    # (packs twice, the caller modifying the first returned buffer in between)
    raw = core.pack_stable(t, "PusTm.pack()")
    if len(raw) != t.packet_len:
        raise SelfCheckFailure(f"len(pack())={len(raw)} != packet_len={t.packet_len}")
    if not check_pus_crc(raw):
        raise SelfCheckFailure("check_pus_crc rejects a freshly packed telemetry packet")
    t2 = PusTm.unpack(raw, len(t.timestamp))
    if not (t2 == t) or not (t == t2):
        raise SelfCheckFailure("unpack(pack(tm)) != tm under ==")
    if core.ISOLATION.check("PusTm", t2, _tm_fields) != _tm_fields(t):
        raise SelfCheckFailure("unpack(pack(tm)) has different field values")
    _tm_undisturbed(t2, a, raw)
    if core.pack_stable(t2, "PusTm.pack() of a decoded packet") != raw:
        raise SelfCheckFailure("re-packing the decoded telemetry does not reproduce the octets")
    if raw[tmmod.PUS_TM_TIMESTAMP_OFFSET:tmmod.PUS_TM_TIMESTAMP_OFFSET + len(t.timestamp)] != bytes(t.timestamp):
        raise SelfCheckFailure("timestamp is not at PUS_TM_TIMESTAMP_OFFSET")
    sp = core.pack_stable(t.to_space_packet(), "PusTm.to_space_packet().pack()")
    # "an equal telemetry packet": also equal to an original that was never packed itself, in both orders (case key "eq": in
    # every state an application can hold the original in, and unequal to packets that differ in one field)
    _tm_equality(a, bool(a.get("eq")), raw)
    return {"raw": hx(raw), "sp_raw": hx(sp), "packet_len": int(t.packet_len)}


def op_tm_unpack(a):
    raw = unhx(a["raw"])
    t = PusTm.unpack(raw, a["ts_len"])
    # (before pack(), which recomputes the stored checksum)
    if t.crc16 is not None and bytes(t.crc16) != raw[t.packet_len - 2:t.packet_len]:
        raise SelfCheckFailure("crc16 of the decoded packet is not the packet's own trailer")
    # telemetry packets decoded by earlier calls must still show what they showed then
    f = core.ISOLATION.check("PusTm", t, _tm_fields)
    _tm_equals_rebuilt(t, f, raw[:t.packet_len], a["ts_len"])
    if core.pack_stable(t, "PusTm.pack() of a decoded packet") != raw[:t.packet_len]:
        raise SelfCheckFailure("pack(unpack(b)) != b[:packet_len]")
    # decoded out of a receive buffer (a bytearray) that the receiver reuses afterwards: time stamp, source data and
    # checksum of the decoded packet are still the ones that were on the wire
    core.check_detached(lambda b: PusTm.unpack(b, a["ts_len"]), raw, _TM_VIEW, "PusTm.unpack", expect=_TM_VIEW(t),
                        memview=core.accepts_memoryview(PusTm.unpack))
    return f


def _tm_undisturbed(t2, a, raw: bytes) -> None:
    """(the isolation clause in a form that needs no earlier case) the packet decoded from `raw` shows the same fields after
    the octets of ANOTHER packet - every field different, another timestamp length - have been decoded as well"""
    f = _tm_fields(t2)
    ts, data = unhx(a["timestamp"]), unhx(a["data"])
    b = {"service": a["service"] ^ 0xFF, "subservice": a["subservice"] ^ 0xFF, "apid": a["apid"] ^ 0x7FF, "count": a["count"] ^ 0x3FFF,
         "msg_counter": a["msg_counter"] ^ 0xFFFF, "dest_id": a["dest_id"] ^ 0xFFFF, "time_ref": a["time_ref"] ^ 0xF,
         "version": a["version"] ^ 7, "timestamp": hx(bytes(x ^ 0xFF for x in ts[:40]) + b"\x33"),
         "data": hx(bytes(x ^ 0xFF for x in data[:40]) + b"\x5a")}
    other = with_crc(spec_tm(b))
    PusTm.unpack(other, len(b["timestamp"]) // 2)
    now = _tm_fields(t2)
    if now != f:
        raise SelfCheckFailure(f"d = PusTm.unpack({hx(raw)[:120]}, {len(ts)}) showed {core._short(f)}; after PusTm.unpack({hx(other)[:120]}, "
                               f"{len(b['timestamp']) // 2}) - the octets of another packet - d shows {core._short(now)}: an object "
                               f"decoded earlier changed when another input was decoded")


def _tm_equals_rebuilt(t, f, raw: bytes, ts_len: int, what: str = "PusTm.unpack", attr: str = "") -> None:
    """the decoded packet (nothing called on it yet) and a packet built from the decoded field values on which nothing was
    ever computed are equal, in both orders - whenever the constructor can express the decoded packet at all (it always
    builds type TM / secondary header present / unsegmented)"""
    try:
        o = PusTm(service=f["service"], subservice=f["subservice"], timestamp=unhx(f["timestamp"]), source_data=unhx(f["data"]),
                  apid=f["sph"]["apid"], seq_count=f["sph"]["count"], message_counter=f["msg_counter"],
                  space_time_ref=f["time_ref"], destination_id=f["dest_id"], packet_version=f["sph"]["version"])
    except ValueError:
        return
    if _tm_fields(o) != f:
        return
    got = core._eq_outcomes(t, o)
    if got != [True, True, False, False]:
        raise SelfCheckFailure(f"d = {what}({hx(raw)[:120]}, {ts_len}){attr}; o = PusTm(<the field values d shows: {core._short(f)}>), "
                               f"nothing called on o: [d == o, o == d, d != o, o != d] is {got} - the decoded telemetry packet is "
                               f"not equal to a packet with identical fields that was never packed itself")


def op_s17_pack(a):
    s = _s17(a)
    raw = core.pack_stable(s, "Service17Tm.pack()")
    s2 = Service17Tm.unpack(raw, len(s.timestamp))
    core.ISOLATION.check("Service17Tm", s2, _s17_view)
    if core.pack_stable(s2, "Service17Tm.pack() of a decoded packet") != raw:
        raise SelfCheckFailure("Service17Tm re-pack differs")
    for attr in ("service", "subservice", "timestamp", "source_data", "ccsds_version"):
        if getattr(s2, attr) != getattr(s, attr):
            raise SelfCheckFailure(f"Service17Tm round trip changes {attr}")
    if s2.sp_header != s.sp_header:
        raise SelfCheckFailure("Service17Tm round trip changes the space packet header")
    # the telemetry packet inside the decoded wrapper equals the one inside a wrapper that was never packed (and a plain
    # PusTm with service 17 and the same fields), both orders; key "eq": every state, as for PusTm
    b = dict(a, service=17, msg_counter=0)
    n = len(s.timestamp)
    _tm_undisturbed(s2.pus_tm, b, raw)

    def wrapped(args=None):
        return _s17(b if args is None else args).pus_tm
    _tm_equality(b, bool(a.get("eq")), raw, make=wrapped, decode=lambda octets: Service17Tm.unpack(octets, n).pus_tm,
                 cls="Service17Tm", attr=".pus_tm", fixed=("service", "msg_counter"))
    # (make = the plain class, decoded = out of the wrapper)
    _tm_equality(b, False, raw, decode=lambda octets: Service17Tm.unpack(octets, n).pus_tm, cls="PusTm")
    # "also via the service-17 wrapper": the decoded WRAPPER equals the wrapper it was packed from, as wrappers - never packed,
    # packed, its wrapped packet changed through the documented setters to the same final values, decoded twice; wrappers
    # that differ in one field are unequal (key "eq": every state); a comparison with something that is not a wrapper
    # does not raise (what it answers is not claimed)
    _tm_equality(b, bool(a.get("eq")), raw, make=lambda args=None: _s17(b if args is None else args),
                 decode=lambda octets: Service17Tm.unpack(octets, n), cls="Service17Tm", fixed=("service", "msg_counter"),
                 inner=lambda o: o.pus_tm, via="o.pus_tm")
    for label, other in (("PusTm(<service 17, the same fields>)", _tm(b)), ("the int 5", 5), ("None", None),
                         ("the octets it packs to", raw)):
        for name, x in (("Service17Tm(<the arguments>)", s), (f"Service17Tm.unpack({hx(raw)[:120]}, {n})", s2)):
            try:
                _ = [x == other, other == x, x != other, other != x]
            except Exception as e:  # noqa
                raise SelfCheckFailure(f"comparing w = {name} with {label} (w == x, x == w, w != x, x != w) raises "
                                       f"{type(e).__name__}: {str(e)[:100]}")
    return {"raw": hx(raw), "tm": _tm_fields(s.pus_tm)}


def op_s17_unpack(a):
    raw = unhx(a["raw"])
    s = Service17Tm.unpack(raw, a["ts_len"])
    f = core.ISOLATION.check("Service17Tm", s, _s17_view)
    _tm_equals_rebuilt(s.pus_tm, f, raw[:s.pus_tm.packet_len], a["ts_len"], "Service17Tm.unpack", ".pus_tm")
    core.check_detached(lambda b: Service17Tm.unpack(b, a["ts_len"]), raw, _S17_VIEW, "Service17Tm.unpack", expect=_S17_VIEW(s),
                        memview=core.accepts_memoryview(Service17Tm.unpack))
    return f


def op_service_from_bytes(a):
    return {"service": int(PusTm.service_from_bytes(bytearray(unhx(a["raw"]))))}


OPS = {"tm_new": op_tm_new, "tm_pack": op_tm_pack, "tm_unpack": op_tm_unpack, "s17_pack": op_s17_pack,
       "s17_unpack": op_s17_unpack, "tm_service_from_bytes": op_service_from_bytes}

TS_LENS = [0, 1, 2, 3, 4, 7, 8, 12, 16]


def rand_args(rng, ts=None, dlen=None):
    if ts is None:
        ts = rng.choice(TS_LENS + [7, 7, 7])
    if dlen is None:
        dlen = rng.choice([0, 0, 1, 2, 3, 7, 16, 40, rng.randint(0, 300)])
    return {"service": rng.randint(0, 255), "subservice": rng.randint(0, 255), "apid": rng.randint(0, 2047),
            "count": rng.randint(0, 16383), "msg_counter": rng.randint(0, 65535), "time_ref": rng.randint(0, 15),
            "dest_id": rng.randint(0, 65535), "version": rng.randint(0, 7), "timestamp": hx(rbytes(rng, ts)),
            "data": hx(rbytes(rng, dlen))}


def with_crc(body: bytes) -> bytes:
    c = CRC16_CCITT_FUNC(body)
    return body + bytes([c >> 8, c & 0xFF])


def spec_tm(a) -> bytes:
    """the octets the statement prescribes, without the trailer"""
    ts, src = unhx(a["timestamp"]), unhx(a["data"])
    return (struct.pack("!HHH", a["version"] << 13 | 0x0800 | a["apid"], 0xC000 | a["count"], 8 + len(ts) + len(src))
            + bytes([0x20 | a["time_ref"], a["service"], a["subservice"]]) + struct.pack("!HH", a["msg_counter"], a["dest_id"])
            + ts + src)


TM_FREE = {
    "sph": [[("count", 14), ("apid", 11), ("version", 3)], [("apid", 11), ("count", 14)]],
    "fixed-secondary-header": [[("dest_id", 16)], [("msg_counter", 16)], [("subservice", 8), ("service", 8)]],
    "headers": [[("msg_counter", 16)], [("msg_counter", 16)], [("dest_id", 16)], [("count", 14), ("apid", 11)],
                [("time_ref", 4), ("subservice", 8), ("service", 8)]],
}
S17_FREE = [[("dest_id", 16)], [("count", 14), ("apid", 11)], [("time_ref", 4), ("subservice", 8), ("version", 3), ("apid", 11)]]


def zero_crc_tm(rng, stage: str, s17: bool = False, ts: Optional[int] = None, dlen: Optional[int] = None) -> Optional[Dict]:
    """arguments of a telemetry packet with non-empty source data for which the CRC-16 of the octets up to the end of
    `stage` is exactly 0x0000: 'sph' (6 octets), 'fixed-secondary-header' (13), 'headers' (13 + timestamp), 'body'
    (everything before the trailer, which is then 0000). s17: service 17, message counter 0 (the service-17 wrapper)"""
    a = rand_args(rng, ts=ts, dlen=rng.choice([1, 1, 2, 3, 4, 7, 16, 40, rng.randint(1, 300)]) if dlen is None else dlen)
    if s17:
        a.update(service=17, msg_counter=0)
    n_ts = len(a["timestamp"]) // 2
    if stage == "body":
        body = spec_tm(a)
        if len(a["data"]) // 2 < 2:
            return None
        a["data"] = hx(body[13 + n_ts:-2] + crc_ccitt(body[:-2]).to_bytes(2, "big"))
        return a
    upto = {"sph": 6, "fixed-secondary-header": 13, "headers": 13 + n_ts}[stage]
    if stage == "headers" and n_ts >= 2 and rng.random() < 0.3:
        # (the timestamp is opaque octets: its last two make the running checksum zero)
        body = spec_tm(a)
        a["timestamp"] = hx(body[13:upto - 2] + crc_ccitt(body[:upto - 2]).to_bytes(2, "big"))
        return a
    free = rng.choice(TM_FREE["sph"] if stage == "sph" else (S17_FREE if s17 else TM_FREE[stage]))
    v = fit_bits(lambda v: crc_ccitt(spec_tm(spread(a, free, v))[:upto]), sum(b for _, b in free))
    return None if v is None else spread(a, free, v)


class C03(Prop):
    id = "C03"
    title = "PUS-C telemetry"
    lean_modules = ["SpVerif.Props.C03"]
    exhaustive_note = "all 256 values of every fixed secondary-header octet through the decoder (CRC recomputed); all declared lengths 0..30 with matching CRC for timestamp lengths 0..16; decoder timestamp length 0..20 against each packed length"
    trusted_base = ["crcmod tied to the Lean CRC by the C02 crc16 op; timestamp content is opaque octets (CDS semantics are C14)"]

    def impl_ops(self):
        return OPS

    def table_sync(self):
        d = []
        if tmmod.PUS_TM_TIMESTAMP_OFFSET != 13:
            d.append(f"PUS_TM_TIMESTAMP_OFFSET={tmmod.PUS_TM_TIMESTAMP_OFFSET} model=13")
        if tmmod.PusTmSecondaryHeader.MIN_LEN != 7:
            d.append("PusTmSecondaryHeader.MIN_LEN != 7")
        return d

    def nontrivial(self, c):
        return any(v not in (0, None, False, "") for k, v in c.op.items() if k != "op")

    def cases(self, rng: random.Random, tier: str) -> Iterator[Case]:
        thorough = tier == "thorough"
        for svc in pool(255, rng, 1):
            for ref in range(16):
                a = rand_args(rng)
                a.update(service=svc, time_ref=ref, subservice=rng.choice(pool(255, rng, 1)))
                yield Case({"op": "tm_pack", **a}, "valid", tag="boundary")
        for apid in pool(2047, rng):
            for cnt in pool(65535, rng, 1)[::2]:
                a = rand_args(rng)
                a.update(apid=apid, msg_counter=cnt, dest_id=rng.choice(pool(65535, rng)), count=rng.choice(pool(16383, rng)))
                yield Case({"op": "tm_pack", **a}, "valid", tag="boundary")
                yield Case({"op": "tm_new", **a}, "valid", tag="boundary")
        for ts in TS_LENS + [100, 1000]:
            for ver in (0, 5, 7):
                a = rand_args(rng, ts)
                a["version"] = ver
                yield Case({"op": "tm_pack", **a}, "valid", tag="ts-len")
                b = dict(a)
                for k in ("service", "msg_counter"):
                    b.pop(k)
                yield Case({"op": "s17_pack", **b}, "valid", tag="ts-len")
        for ts, n in [(0, 65527), (7, 65520), (16, 65511), (1000, 64527), (0, 65526)]:
            a = rand_args(rng, ts, n)
            yield Case({"op": "tm_pack", **a}, "valid", tag="max-len")
            raw = bytes(_tm(a).pack())
            yield Case({"op": "tm_unpack", "raw": hx(raw + rbytes(rng, 2)), "ts_len": ts}, "valid", tag="max-len")
        for ts, n in [(0, 65528), (7, 65521), (16, 65520), (70000, 0)]:
            yield Case({"op": "tm_new", **rand_args(rng, ts, n)}, "invalid", errclass=True, tag="too-long")
        for fld, mx in (("apid", 2047), ("count", 16383), ("service", 255), ("subservice", 255), ("msg_counter", 65535)):
            for bad in out_pool(mx, rng):
                a = rand_args(rng)
                a[fld] = bad
                yield Case({"op": "tm_new", **a}, "invalid", errclass=True, tag=f"bad-{fld}")
        n = 20000 if thorough else 2000
        for i in range(n):
            a = rand_args(rng)
            ts = len(a["timestamp"]) // 2
            yield Case({"op": "tm_pack", **a}, "valid", tag="random")
            raw = bytes(_tm(a).pack())
            sfx = rng.choice([b"", b"", rbytes(rng, 1), rbytes(rng, 2), raw, rbytes(rng, 13)])
            yield Case({"op": "tm_unpack", "raw": hx(raw + sfx), "ts_len": ts}, "valid", tag="random+suffix")
            if i % 5 == 0:
                yield Case({"op": "s17_unpack", "raw": hx(raw + sfx), "ts_len": ts}, "valid", tag="random+suffix")
                yield Case({"op": "tm_service_from_bytes", "raw": hx(raw[: rng.randint(0, len(raw))])}, "any", tag="service-from-bytes")
            if i % 10 == 0:
                for k in range(len(raw)):
                    yield Case({"op": "tm_unpack", "raw": hx(raw[:k]), "ts_len": ts}, "invalid", tag="truncation")
                # decoder configured with another timestamp length: verdict and values must agree with the model
                for other in range(0, 21):
                    yield Case({"op": "tm_unpack", "raw": hx(raw + sfx), "ts_len": other}, "any", tag="other-ts-len")
            if i % 25 == 0:
                for _ in range(8):
                    pos = rng.choice([p for p in range(len(raw)) if p not in (4, 5)])
                    b = bytearray(raw)
                    b[pos] ^= 1 << rng.randint(0, 7)
                    yield Case({"op": "tm_unpack", "raw": hx(bytes(b)), "ts_len": ts}, "invalid", tag="bit-flip")
        # back-to-back decodes of packets that differ in every field and in the timestamp length
        for _ in range(1000 if thorough else 100):
            a = rand_args(rng)
            b = rand_args(rng, ts=rng.choice([x for x in TS_LENS if x != len(a["timestamp"]) // 2]))
            for k in ("service", "subservice"):
                b[k] = a[k] ^ 0xFF
            b.update(apid=a["apid"] ^ 0x7FF, count=a["count"] ^ 0x3FFF, msg_counter=a["msg_counter"] ^ 0xFFFF,
                     dest_id=a["dest_id"] ^ 0xFFFF, time_ref=a["time_ref"] ^ 0xF, version=a["version"] ^ 7)
            for x in (a, b, a):
                yield Case({"op": rng.choice(["tm_unpack", "tm_unpack", "s17_unpack"]), "raw": hx(bytes(_tm(x).pack()) + rbytes(rng, 2)),
                            "ts_len": len(x["timestamp"]) // 2}, "valid", tag="complement-pair")
        a = rand_args(rng, 3, 4)
        raw = bytes(_tm(a).pack())
        for pos in range(6, 13):
            for v in range(256):
                b = bytearray(raw[:-2])
                b[pos] = v
                yield Case({"op": "tm_unpack", "raw": hx(with_crc(bytes(b))), "ts_len": 3}, "any", tag=f"octet{pos}-sweep")
        for ts in (range(0, 17) if thorough else [0, 1, 2, 7, 16]):
            a = rand_args(rng, ts, rng.randint(0, 6))
            raw = bytearray(_tm(a).pack()) + rbytes(rng, 24)
            for L in range(0, 31):
                b = bytearray(raw)
                b[4], b[5] = 0, L
                total = L + 7
                body = with_crc(bytes(b[: total - 2])) if total >= 2 else bytes(b)
                buf = body + bytes(b[total:])
                exp = "invalid" if total < 15 + ts else "any"
                yield Case({"op": "tm_unpack", "raw": hx(buf), "ts_len": ts}, exp, tag="declared-length-crafted")
        # the same with the other bits of the first octet varied (secondary-header flag clear, packet type TC, any
        # version), the short "packet" being followed by a further valid telemetry packet
        for i, ts in enumerate(list(range(0, 17)) if thorough else [0, 1, 2, 7, 16, rng.randint(3, 12)]):
            a = rand_args(rng, ts, rng.randint(0, 6))
            nxt = with_crc(spec_tm(rand_args(rng, ts, rng.choice([0, 0, 1, 5]))))
            first = bytearray(with_crc(spec_tm(a)))
            for name, o0 in (("no-sec-header-flag", first[0] & ~0x08), ("type-tc", first[0] | 0x10),
                             ("first-octet", (first[0] & 0x07) | rng.randrange(32) << 3)):
                for L in range(0, 31):
                    total = L + 7
                    if total >= 15 + ts and (i + L) % 4:
                        continue
                    b = bytearray(first)
                    b[0], b[4], b[5] = o0 & 0xFF, 0, L
                    b = b[:total]
                    b += bytes(total - len(b))
                    if total == 8:
                        # the CRC octets are where the PUS version nibble is read: look for an APID that makes it 2
                        for lo in range(256):
                            if crc_ccitt(bytes(b[:1]) + bytes([lo]) + bytes(b[2:6])) >> 12 == 2:
                                b[1] = lo
                                break
                    buf = with_crc(bytes(b[: total - 2])) + nxt + (b"" if i % 3 else rbytes(rng, 5))
                    yield Case({"op": "tm_unpack", "raw": hx(buf), "ts_len": ts}, "invalid" if total < 15 + ts else "any",
                               tag="declared-length-crafted-" + name)
        # every place at which a checksum computed in pieces can stand at 0x0000: after the primary header, after the
        # fixed part of the secondary header, after the timestamp (then continuing over non-empty source data), and at
        # the very end
        for i in range(400 if thorough else 40):
            for stage in ("sph", "fixed-secondary-header", "headers", "body"):
                big = 2000 if (i == 7 and stage == "headers") else None
                a = zero_crc_tm(rng, stage, dlen=big)
                if a is not None:
                    yield Case({"op": "tm_pack", **a}, "valid", tag="crc-zero-after-" + stage)
                    if i % 4 == 0:
                        raw = with_crc(spec_tm(a))
                        yield Case({"op": rng.choice(["tm_unpack", "s17_unpack"]), "raw": hx(raw + rng.choice([b"", rbytes(rng, 2), raw])),
                                    "ts_len": len(a["timestamp"]) // 2}, "valid", tag="crc-zero-after-" + stage)
                if i % 2 == 0:
                    b = zero_crc_tm(rng, stage, s17=True)
                    if b is not None:
                        for k in ("service", "msg_counter"):
                            b.pop(k)
                        yield Case({"op": "s17_pack", **b}, "valid", tag="crc-zero-after-" + stage)
        # a telemetry packet that reached the case's values the long way (key "hist"): built / decoded with other values, some or
        # all of its derived views read (pack, calc_crc, to_space_packet, packet_len ...), then changed through the documented
        # setters / header attributes / new header objects, then every view read again in the order the case gives: all of that
        # must be what a packet built directly with the final values shows, and what the model packs. "hold": the generic
        # space-packet view taken BEFORE the change is looked at AFTER it (it still packs to the packet as it was)
        reads = [None, [], ["pack"], ["calc_crc"], ["to_space_packet"], ["packet_len", "fields"], ["pack", "to_space_packet"]]
        firsts = ["to_space_packet", "calc_crc", "pack", "packet_len", "fields", "eq"]
        k = 0
        for rep in range(12 if thorough else 2):
            for how in ("new", "unpack"):
                for path in ("tm", "hdr", "replace"):
                    for rd in reads:
                        for what in TM_SETTABLE + ["all", "some"]:
                            k += 1
                            if (rep or what not in ("apid", "all")) and (k + rep) % 7:
                                continue
                            if what == "version" and path != "replace":
                                continue
                            a = rand_args(rng)
                            n_ts = len(a["timestamp"]) // 2
                            if what in ("all", "some"):
                                old = rand_args(rng, ts=None if path == "replace" else n_ts)
                                if path != "replace":
                                    old["version"] = a["version"]
                                if what == "some":
                                    for key in rng.sample(TM_SETTABLE, rng.randint(1, 5)):
                                        if path == "replace" or key != "timestamp":
                                            old[key] = a[key]
                            else:
                                old = dict(a)
                                if what == "data":
                                    n = len(unhx(a["data"]))
                                    old["data"] = hx(rbytes(rng, rng.choice([n, n, n + 1, max(0, n - 1), 0, rng.randint(0, 40)])))
                                elif what == "timestamp":
                                    m = n_ts if path != "replace" else rng.choice([n_ts, n_ts + 1, max(0, n_ts - 1), 0, 7])
                                    old["timestamp"] = hx(rbytes(rng, m))
                                else:
                                    top = TM_TOP[what]
                                    old[what] = rng.choice([(a[what] + 1) % (top + 1), a[what] ^ top, rng.randint(0, top)])
                            first = firsts[k % len(firsts)]
                            rest = [v for v in TM_VIEW_NAMES if v != first]
                            rng.shuffle(rest)
                            yield Case({"op": "tm_pack", **a, "hist": {"from": old, "how": how, "path": path, "read": rd,
                                                                       "after": [first] + rest, "hold": bool((k // 7 + rep) % 2)}},
                                       "valid", tag="read-set-read")
        # "an equal telemetry packet" whatever state the original is in (key "eq"): never packed, packed, checksum calculated,
        # values reached through the setters after a pack(), decoded twice ...; unequal when one field differs
        for i in range(500 if thorough else 40):
            a = rand_args(rng, dlen=rng.choice([0, 1, 2, 5, 17]) if i % 8 else None)
            if i % 3 == 0:
                a.update(apid=rng.choice(pool(2047, rng, 0)), count=rng.choice(pool(16383, rng, 0)),
                         msg_counter=rng.choice(pool(65535, rng, 0)), dest_id=rng.choice(pool(65535, rng, 0)))
            yield Case({"op": "tm_pack", **a, "eq": True}, "valid", tag="equality-states")
            if i % 4 == 1:
                b = dict(a)
                for key in ("service", "msg_counter"):
                    b.pop(key)
                yield Case({"op": "s17_pack", **b, "eq": True}, "valid", tag="equality-states")
        for _ in range(20000 if thorough else 3000):
            ln = rng.randint(0, 48)
            b = bytearray(rbytes(rng, ln))
            if ln > 6 and rng.random() < 0.7:
                b[6] = 0x20 | (b[6] & 0x0F)
            if ln > 5 and rng.random() < 0.7:
                b[4], b[5] = 0, rng.randint(0, 48)
            yield Case({"op": "tm_unpack", "raw": hx(bytes(b)), "ts_len": rng.choice([0, 1, 7, 7, 12])}, "any", tag="random-octets")
        # ---- cold start (core.cold_start_sample runs the cases named by cold_start_cases() as the first and only operation of
        #      a fresh interpreter): one case per ENTRY PATH of the checksum, so that each of them is, once, the first thing a
        #      process does with the package. A telemetry packet on which nothing was read (hist.read = []) whose views are then
        #      read with calc_crc (crc16 looked at right after it) / to_space_packet().pack() / pack() FIRST; the service-17
        #      wrapper packed first; both decoders on octets that were not made by the package. Emitted last: the stream of the
        #      cases above is what it was. ----
        a = rand_args(rng, 7, 3)
        old = dict(a, apid=(a["apid"] + 1) % 2048)
        for first in ("calc_crc", "to_space_packet", "pack"):
            yield Case({"op": "tm_pack", **a, "hist": {"from": old, "how": "new", "path": "tm", "read": [], "hold": False,
                                                       "after": [first] + [v for v in TM_VIEW_NAMES if v != first]}},
                       "valid", tag=f"cold-start:{first}-first")
        b = rand_args(rng, 7, 2)
        for key in ("service", "msg_counter"):
            b.pop(key)
        yield Case({"op": "s17_pack", **b}, "valid", tag="cold-start:s17-pack-first")
        c = rand_args(rng, 7, 5)
        body = spec_tm(c)
        raw = body + crc_ccitt(body).to_bytes(2, "big")
        yield Case({"op": "tm_unpack", "raw": hx(raw), "ts_len": 7}, "valid", tag="cold-start:unpack-first")
        yield Case({"op": "s17_unpack", "raw": hx(raw), "ts_len": 7}, "valid", tag="cold-start:s17-unpack-first")

    def cold_start_cases(self):
        """always in the cold-start sample: one case per entry path of the checksum (see the end of `cases`)"""
        return [f"cold-start:{p}-first" for p in ("calc_crc", "to_space_packet", "pack", "s17-pack", "unpack", "s17-unpack")]


PROP = C03()
