"""C20 — unsigned byte fields keep value, width and big-endian octets coherent

Every op returns *all* views of the field it produced (int(), len(), as_bytes, hex_str), so one
comparison with the model covers the whole "views agree" clause. Clauses that involve two objects
of the real code (round trip under ==, == against octets, hash consistency) are self checks inside
the ops. Only the public API is used.

Negative values handed to IntByteConversion.to_unsigned escape as struct.error from struct.pack;
the statement only speaks about the helper's *accepted* range, so for those inputs the op
bf_to_unsigned_refused compares accept/refuse only (see manifest note).
"""
import random
import struct
import zlib
from typing import Any, Dict, Iterator, List

import core
from core import Case, Prop, SelfCheckFailure, exc_category, DOCUMENTED
from gen import hx, unhx, pool, rbytes

from spacepackets.util import (
    ByteFieldEmpty, ByteFieldGenerator, ByteFieldU8, ByteFieldU16, ByteFieldU32, ByteFieldU64,
    IntByteConversion, UnsignedByteField,
)

WIDTHS = [0, 1, 2, 4, 8]
VWIDTHS = [1, 2, 4, 8]
SUB = {1: ByteFieldU8, 2: ByteFieldU16, 4: ByteFieldU32, 8: ByteFieldU64}
READER = {1: "from_u8_bytes", 2: "from_u16_bytes", 4: "from_u32_bytes", 8: "from_u64_bytes"}


# --------------------------------------------------------------------------------------------
# implementation ops
# --------------------------------------------------------------------------------------------
def _views(f) -> Dict[str, Any]:
    v, n = int(f), len(f)
    if f.value != v:
        raise SelfCheckFailure(f"field.value ({f.value!r}) != int(field) ({v!r})")
    if f.byte_len != n:
        raise SelfCheckFailure(f"field.byte_len ({f.byte_len!r}) != len(field) ({n!r})")
    h = f.hex_str
    return {"value": int(v), "len": int(n), "raw": bytes(f.as_bytes).hex(), "hex": None if h is None else str(h)}


def _coherent(f, what: str):
    """the statement at one field object, on the real code alone"""
    # (as_bytes is read twice; were it a mutable buffer, the first one is modified by the caller in between)
    v, n, raw = int(f), len(f), core.pack_stable(f, what + ".as_bytes", packer=lambda: f.as_bytes)
    if len(raw) != n:
        raise SelfCheckFailure(f"{what}: len(as_bytes)={len(raw)} but len(field)={n}")
    if int.from_bytes(raw, "big") != v:
        raise SelfCheckFailure(f"{what}: as_bytes={raw.hex()} is not the big-endian encoding of {v}")
    if n > 0 and f.hex_str != "0x" + raw.hex():
        raise SelfCheckFailure(f"{what}: hex_str={f.hex_str!r} but as_bytes={raw.hex()}")
    if not (f == raw):
        raise SelfCheckFailure(f"{what}: field != its own as_bytes")


def _same(f, g, what: str):
    if not (f == g) or not (g == f) or (f != g):
        raise SelfCheckFailure(f"{what}: rebuilt field is not == to the original")
    if hash(f) != hash(g):
        raise SelfCheckFailure(f"{what}: equal fields with different hashes")
    if _views(f) != _views(g):
        raise SelfCheckFailure(f"{what}: rebuilt field has different views {_views(g)} vs {_views(f)}")


def _roundtrip(f, sfx: bytes = b"\xa5\x5a"):
    """from-bytes entries give back an equal field (widths 1, 2, 4, 8)"""
    n, raw = len(f), bytes(f.as_bytes)
    if n == 0:
        return
    _same(f, UnsignedByteField.from_bytes(raw), "UnsignedByteField.from_bytes(as_bytes)")
    _same(f, ByteFieldGenerator.from_bytes(n, raw), "ByteFieldGenerator.from_bytes(len, as_bytes)")
    _same(f, ByteFieldGenerator.from_bytes(n, raw + sfx), "ByteFieldGenerator.from_bytes(len, as_bytes + suffix)")
    _same(f, getattr(SUB[n], READER[n])(bytearray(raw) + sfx), f"{READER[n]}(as_bytes + suffix)")
    _same(f, ByteFieldGenerator.from_int(n, int(f)), "ByteFieldGenerator.from_int(len, int)")


# ~330 000 fields are decoded from octets: the probe looks back one object only (run time)
_ISO = core.Isolation(keep=1)


# Case key "reassign" ({"int": v} | {"hex": octets}; not read by the model ops): the application ASSIGNS ANOTHER VALUE (through
# the documented `value` setter) to a field one of the from-int / from-octets entries handed out earlier for the same
# arguments - entity IDs and sequence numbers are counted up in place. A field the same entry returned before, one it returned
# after, and one it returns now for the same arguments still show the value that was asked for (core.factory_independent;
# the whole sequence is in the line, the re-assigned field is put back at the end).
def _reassigned(a, make, what: str):
    st = a.get("reassign")
    if not st:
        return

    def mutate(f):
        f.value = st["int"] if "int" in st else unhx(st["hex"])
    err = core.factory_independent(make, _views, mutate, what + f" [an earlier result was re-assigned: value = {st}]")
    if err is not None:
        raise SelfCheckFailure(err)


def op_bf_new(a):
    f = UnsignedByteField(a["value"], a["width"])
    _coherent(f, "UnsignedByteField(value, width)")
    _roundtrip(f)
    return _views(f)


def op_bf_empty(a):
    f = ByteFieldEmpty() if a.get("default") else ByteFieldEmpty(a["width"])
    _coherent(f, "ByteFieldEmpty")
    return _views(f)


def op_bf_sub(a):
    f = SUB[a["width"]](a["value"])
    _coherent(f, SUB[a["width"]].__name__)
    _same(f, UnsignedByteField(a["value"], a["width"]), "subclass vs base class")
    return _views(f)


def _detached(decode, raw: bytes, f, what: str):
    """the field was read out of a receive buffer (a bytearray) that the receiver reuses afterwards: value, octets and
    hex string of the field are still the ones that were read (core.decode_detached); one field in eight, chosen by the
    octets themselves (~330 000 fields are decoded from octets)"""
    if zlib.crc32(raw) & 7 == 0:
        core.check_detached(decode, raw, _views, what, expect=_views(f), memview=core.accepts_memoryview(decode))


def op_bf_from_bytes(a):
    raw = unhx(a["raw"])
    f = UnsignedByteField.from_bytes(raw)
    _ISO.check("UnsignedByteField", f, _views)    # fields decoded by earlier calls still show what they showed then
    _detached(UnsignedByteField.from_bytes, raw, f, "UnsignedByteField.from_bytes")
    _coherent(f, "from_bytes")
    if bytes(f.as_bytes) != raw:
        raise SelfCheckFailure("from_bytes(raw).as_bytes != raw")
    _reassigned(a, lambda: UnsignedByteField.from_bytes(raw), "UnsignedByteField.from_bytes")
    return _views(f)


def op_bf_from_un(a):
    raw = unhx(a["raw"])
    f = getattr(SUB[a["width"]], READER[a["width"]])(raw)
    _ISO.check("UnsignedByteField", f, _views)
    _detached(getattr(SUB[a["width"]], READER[a["width"]]), raw, f, READER[a["width"]])
    _coherent(f, READER[a["width"]])
    _reassigned(a, lambda: getattr(SUB[a["width"]], READER[a["width"]])(raw), READER[a["width"]])
    return _views(f)


def op_bf_gen_int(a):
    f = ByteFieldGenerator.from_int(a["width"], a["value"])
    _coherent(f, "ByteFieldGenerator.from_int")
    _reassigned(a, lambda: ByteFieldGenerator.from_int(a["width"], a["value"]), "ByteFieldGenerator.from_int")
    return _views(f)


def op_bf_gen_bytes(a):
    raw = unhx(a["raw"])
    f = ByteFieldGenerator.from_bytes(a["width"], raw)
    _ISO.check("UnsignedByteField", f, _views)
    _detached(lambda b: ByteFieldGenerator.from_bytes(a["width"], b), raw, f, "ByteFieldGenerator.from_bytes")
    _coherent(f, "ByteFieldGenerator.from_bytes")
    if bytes(f.as_bytes) != raw[:a["width"]]:
        raise SelfCheckFailure("generator did not take the first `width` octets")
    _reassigned(a, lambda: ByteFieldGenerator.from_bytes(a["width"], raw), "ByteFieldGenerator.from_bytes")
    return _views(f)


def op_bf_eq(a):
    f = UnsignedByteField(a["v1"], a["w1"])
    g = ByteFieldGenerator.from_int(a["w2"], a["v2"]) if a["w2"] in VWIDTHS and a.get("via_gen") else UnsignedByteField(a["v2"], a["w2"])
    eq = bool(f == g)
    if bool(g == f) != eq:
        raise SelfCheckFailure("== is not symmetric")
    if bool(f != g) == eq:
        raise SelfCheckFailure("!= is not the negation of ==")
    if eq and hash(f) != hash(g):
        raise SelfCheckFailure("equal fields with different hashes")
    # usable as dictionary key: found iff equal
    key_eq = g in {f: 1}
    return {"eq": eq, "key_eq": bool(key_eq), "eq_octets": bool(f == bytes(g.as_bytes))}


def op_bf_seq(a):
    if a.get("via_gen") and a["width"] in VWIDTHS:
        f = ByteFieldGenerator.from_int(a["width"], a["value"])
    else:
        f = UnsignedByteField(a["value"], a["width"])
    init = _views(f)
    results: List[Any] = []
    views: List[Any] = []
    for i, st in enumerate(a["steps"]):
        hash(f)  # observing the hash between assignments must not freeze it (a stale cache would show below)
        try:
            if "int" in st:
                f.value = st["int"]
            else:
                raw = unhx(st["hex"])
                f.value = bytearray(raw) if i % 2 else raw
            results.append("ok")
        except Exception as e:  # noqa
            cat = exc_category(e)
            if cat not in DOCUMENTED:
                raise
            results.append(cat)
        views.append(_views(f))
        if i < 8:
            core.pack_stable(f, f"as_bytes after step {i}", packer=lambda: f.as_bytes)
        # equality / hashing stay in step with the views after every assignment
        g = UnsignedByteField(int(f), len(f))
        if not (f == g) or not (g == f):
            raise SelfCheckFailure(f"after step {i}: field is not == to a fresh field with the same value and width")
        if hash(f) != hash(g) or {g: 1}.get(f) != 1:
            raise SelfCheckFailure(f"after step {i}: field equal to a fresh field hashes differently (value {int(f)}, width {len(f)})")
    if a.get("via_gen") and a["width"] in VWIDTHS:
        # the field came from the generator and has been re-assigned since: what the generator returns now for the same
        # arguments is the field that was asked for (if it is not, the re-assigned field is the generator's: put it back so
        # that this line alone fails)
        now = _views(ByteFieldGenerator.from_int(a["width"], a["value"]))
        if now != init:
            core.tolerant_set(f, "value", a["value"])
            raise SelfCheckFailure(f"ByteFieldGenerator.from_int({a['width']}, {a['value']}) returns a field showing {now} after the field "
                                   f"it returned earlier for the same arguments was re-assigned (steps {str(a['steps'])[:120]}); "
                                   f"asked for was {init}")
    return {"init": init, "results": results, "views": views}


def op_bf_to_unsigned(a):
    raw = IntByteConversion.to_unsigned(a["width"], a["value"])
    return {"raw": bytes(raw).hex()}


def op_bf_to_signed(a):
    n = a["width"]
    raw = bytes(IntByteConversion.to_signed(n, a["value"]))
    back = None
    if n != 0:
        back = int(struct.unpack(IntByteConversion.signed_struct_specifier(n), raw)[0])
    return {"raw": raw.hex(), "back": back}


def op_bf_to_unsigned_refused(a):
    try:
        IntByteConversion.to_unsigned(a["width"], a["value"])
    except (ValueError, struct.error):
        return {"refused": True}
    return {"refused": False}


OPS = {
    "bf_new": op_bf_new, "bf_empty": op_bf_empty, "bf_sub": op_bf_sub, "bf_from_bytes": op_bf_from_bytes,
    "bf_from_un": op_bf_from_un, "bf_gen_int": op_bf_gen_int, "bf_gen_bytes": op_bf_gen_bytes,
    "bf_eq": op_bf_eq, "bf_seq": op_bf_seq, "bf_to_unsigned": op_bf_to_unsigned,
    "bf_to_signed": op_bf_to_signed, "bf_to_unsigned_refused": op_bf_to_unsigned_refused,
}


# --------------------------------------------------------------------------------------------
# pools
# --------------------------------------------------------------------------------------------
def value_pool(w: int, rng: random.Random, extra: int = 4) -> List[int]:
    """in-range values of width w: boundaries, every power of two and its neighbours, octet patterns"""
    if w == 0:
        return [0]
    mx = (1 << (8 * w)) - 1
    s = set(pool(mx, rng, extra))
    for k in range(8 * w):
        s.update({1 << k, (1 << k) - 1, (1 << k) + 1, mx ^ (1 << k)})
    for i in range(w):
        for b in (0x01, 0x7F, 0x80, 0xFF):
            s.add(b << (8 * i))                    # one octet set, at every position
            s.add(mx ^ (0xFF << (8 * i)) | ((b ^ 0xFF) << (8 * i)))
    s.add(int.from_bytes(bytes(range(1, w + 1)), "big"))           # 01 02 03 … (octet order)
    s.add(int.from_bytes(bytes(range(0xF0, 0xF0 + w)), "big"))
    s.add(int.from_bytes(bytes([0xAA, 0x55] * 4)[:w], "big"))
    return sorted(v for v in s if 0 <= v <= mx)


def bad_values(w: int, rng: random.Random) -> List[int]:
    lim = 1 << (8 * w)
    c = [-1, -2, -255, -256, -lim, -(lim - 1), -(1 << 70), -rng.randint(1, 1 << 40),
         lim, lim + 1, 2 * lim - 1, 2 * lim, lim * 256, lim + 0xFF, 1 << 64, (1 << 64) + 1, 1 << 70,
         lim + rng.randint(1, 1 << 40)]
    return [v for v in c if not (0 <= v < lim)]


BAD_WIDTHS = [-8, -2, -1, 3, 5, 6, 7, 9, 10, 12, 16, 32, 64, 255, 256, 1 << 31, 1 << 64]


def signed_pool(w: int, rng: random.Random) -> List[int]:
    h = 1 << (8 * w - 1)
    s = {0, 1, -1, 2, -2, 127, -127, 128, -128, 129, -129, 255, -255, 256, -256,
         h - 1, -(h - 1), h - 2, -(h - 2), h // 2, -(h // 2)}
    for k in range(8 * w - 1):
        s.update({1 << k, -(1 << k), (1 << k) - 1, -((1 << k) - 1)})
    for _ in range(8):
        s.add(rng.randint(-(h - 1), h - 1))
    return sorted(v for v in s if abs(v) <= h - 1)


def signed_bad(w: int, rng: random.Random) -> List[int]:
    h = 1 << (8 * w - 1)
    return [h, -h, h + 1, -(h + 1), 2 * h - 1, 2 * h, -(2 * h), 4 * h, 1 << 70, -(1 << 70),
            h + rng.randint(1, 1 << 30), -(h + rng.randint(1, 1 << 30))]


def octet_pool(n: int, rng: random.Random) -> List[bytes]:
    """octet strings of length n: extremes, one marked octet at every position, counting pattern, random"""
    if n == 0:
        return [b""]
    out = [bytes(n), b"\xff" * n, bytes(range(1, n + 1)), bytes(range(0xF0, 0xF0 + n)) if n <= 16 else bytes(n)]
    for i in range(min(n, 10)):
        for b in (0x01, 0x80, 0xFF):
            x = bytearray(n)
            x[i] = b
            out.append(bytes(x))
            y = bytearray(b"\xff" * n)
            y[i] = b ^ 0xFF
            out.append(bytes(y))
    out += [rbytes(rng, n) for _ in range(3)]
    return out


def in_range(w: int, v: int) -> bool:
    return w in WIDTHS and 0 <= v < (1 << (8 * w))


# --------------------------------------------------------------------------------------------
class C20(Prop):
    id = "C20"
    title = "Unsigned byte fields keep value, width and big-endian bytes coherent"
    lean_modules = ["SpVerif.Props.C20"]
    exhaustive_note = (
        "every run: all 65 793 (width, value) pairs of widths 0, 1, 2 through the constructor (with round trips through "
        "every from-bytes entry and the generator as self checks); all 65 793 octet strings of length <= 2 through "
        "UnsignedByteField.from_bytes, from_u8_bytes, from_u16_bytes and ByteFieldGenerator.from_bytes(1|2, .); all "
        "values of widths 1 and 2 assigned through the value setter, as integers and as octets; to_unsigned for all "
        "values of widths 1, 2; to_signed for every integer in [-140, 140] (width 1) and [-32780, 32780] (width 2). "
        "Widths 4 and 8: boundary pools (every power of two and its neighbours, one marked octet at every position) "
        "and random values over the full 32/64-bit range; the theorems cover all values.")
    trusted_base = [
        "CPython int, struct.pack/unpack ranges and two's complement, bytes slicing, format spec '#0Nx' (modelled)",
    ]
    assumptions = [
        "arguments have the annotated types: int for values and widths (not bool/float/str), bytes/bytearray for octets",
        "byte_len is not re-assigned after construction (the public byte_len setter changes the width without touching value or octets; not part of the statement)",
        "a negative value handed to IntByteConversion.to_unsigned is outside its accepted range: it is refused, with struct.error rather than ValueError (compared as accept/refuse only)",
        "empty field: from_bytes(b''), ByteFieldGenerator.from_int/from_bytes(0, .) and assigning octets to it are documented refusals (ValueError)",
    ]

    def impl_ops(self):
        return OPS

    def table_sync(self):
        d = []
        for n, (u, s) in {1: ("!B", "!b"), 2: ("!H", "!h"), 4: ("!I", "!i"), 8: ("!Q", "!q")}.items():
            if IntByteConversion.unsigned_struct_specifier(n) != u:
                d.append(f"unsigned_struct_specifier({n})={IntByteConversion.unsigned_struct_specifier(n)!r} model={u}")
            if IntByteConversion.signed_struct_specifier(n) != s:
                d.append(f"signed_struct_specifier({n})={IntByteConversion.signed_struct_specifier(n)!r} model={s}")
        for n in list(range(-3, 20)) + [32, 64]:
            for nm in ("unsigned_struct_specifier", "signed_struct_specifier"):
                try:
                    getattr(IntByteConversion, nm)(n)
                    ok = True
                except ValueError:
                    ok = False
                if ok != (n in VWIDTHS):
                    d.append(f"{nm}({n}) accepted={ok} model={n in VWIDTHS}")
            try:
                UnsignedByteField.verify_byte_len(n)
                ok = True
            except ValueError:
                ok = False
            if ok != (n in WIDTHS):
                d.append(f"verify_byte_len({n}) accepted={ok} model={n in WIDTHS}")
        return d

    def nontrivial(self, c: Case) -> bool:
        o = c.op
        return any(v not in (0, None, False, "", []) for k, v in o.items() if k not in ("op", "width", "w1", "w2"))

    def neighbours(self, c: Case, rng: random.Random) -> Iterator[Case]:
        o = c.op
        if "value" in o and "width" in o and o["op"] in ("bf_new", "bf_gen_int", "bf_sub", "bf_to_unsigned"):
            for w in VWIDTHS:
                for dv in (-1, 0, 1):
                    v = o["value"] + dv
                    if in_range(w, v):
                        yield Case({"op": "bf_new", "value": v, "width": w}, "valid", tag="nb")
                        yield Case({"op": "bf_to_unsigned", "value": v, "width": w}, "valid", tag="nb")
        if "raw" in o:
            raw = unhx(o["raw"])
            for n in range(len(raw) + 1):
                yield Case({"op": "bf_from_bytes", "raw": hx(raw[:n])}, "valid" if n in VWIDTHS else "invalid",
                           errclass=n not in VWIDTHS, tag="nb-trunc")

    # ----------------------------------------------------------------------------------------
    def cases(self, rng: random.Random, tier: str) -> Iterator[Case]:
        thorough = tier == "thorough"

        def new_case(w, v, tag):
            return Case({"op": "bf_new", "value": v, "width": w}, "valid", tag=tag)

        def bytes_cases(raw: bytes, tag: str, readers=VWIDTHS):
            n = len(raw)
            yield Case({"op": "bf_from_bytes", "raw": hx(raw)}, "valid" if n in VWIDTHS else "invalid",
                       errclass=n not in VWIDTHS, tag=tag)
            for w in readers:
                ok = n >= w
                yield Case({"op": "bf_from_un", "width": w, "raw": hx(raw)}, "valid" if ok else "invalid",
                           errclass=not ok, tag=tag)
                yield Case({"op": "bf_gen_bytes", "width": w, "raw": hx(raw)}, "valid" if ok else "invalid",
                           errclass=not ok, tag=tag)

        # --- histories of assignments -------------------------------------------------------
        def step(w: int) -> Dict[str, Any]:
            r = rng.random()
            lim = 1 << (8 * w)
            if r < 0.35:
                return {"int": rng.choice(value_pool(w, rng, 0)) if rng.random() < 0.5 else rng.randrange(lim)}
            if r < 0.5:
                return {"int": rng.choice(bad_values(w, rng))}
            if r < 0.8:
                n = rng.choice([w, w, w, w + 1, w + 2, w + 9])
                return {"hex": hx(rng.choice(octet_pool(n, rng)) if rng.random() < 0.5 else rbytes(rng, n))}
            return {"hex": hx(rbytes(rng, rng.choice([0, max(w - 1, 0), max(w - 2, 0), w // 2])))}

        for k in range(12000 if thorough else 1500):
            w = WIDTHS[k % 5]
            v0 = rng.choice(value_pool(w, rng, 0)) if k % 2 else rng.randrange(1 << (8 * w))
            yield Case({"op": "bf_seq", "width": w, "value": v0, "via_gen": bool(k & 8),
                        "steps": [step(w) for _ in range(1 if k < 400 else rng.randint(2, 8))]}, "valid", tag=f"history-w{w}")
        # --- exhaustive: widths 0, 1, 2 -----------------------------------------------------
        yield new_case(0, 0, "exhaustive-w0")
        yield Case({"op": "bf_empty", "width": 0, "default": True}, "valid", tag="exhaustive-w0")
        yield Case({"op": "bf_empty", "width": 0}, "valid", tag="exhaustive-w0")
        for v in range(256):
            yield new_case(1, v, "exhaustive-w1")
            yield Case({"op": "bf_sub", "width": 1, "value": v}, "valid", tag="exhaustive-w1")
            yield Case({"op": "bf_gen_int", "width": 1, "value": v}, "valid", tag="exhaustive-w1")
            yield Case({"op": "bf_to_unsigned", "width": 1, "value": v}, "valid", tag="exhaustive-w1")
        for v in range(65536):
            yield new_case(2, v, "exhaustive-w2")
            yield Case({"op": "bf_to_unsigned", "width": 2, "value": v}, "valid", tag="exhaustive-w2")
        # all octet strings of length <= 2 through every from-bytes entry that can accept them
        yield from bytes_cases(b"", "exhaustive-octets")
        for x in range(256):
            yield from bytes_cases(bytes([x]), "exhaustive-octets", readers=[1, 2])
        for x in range(65536):
            yield from bytes_cases(x.to_bytes(2, "big"), "exhaustive-octets", readers=[1, 2])
        for x in range(0, 65536, 97):
            yield from bytes_cases(x.to_bytes(2, "big"), "short-for-4-8", readers=[4, 8])
        # every value of widths 1 and 2 assigned through the setter (integers, then octets)
        yield Case({"op": "bf_seq", "width": 1, "value": 0x5A, "steps": [{"int": v} for v in range(256)]},
                   "valid", tag="exhaustive-set-w1")
        yield Case({"op": "bf_seq", "width": 1, "value": 0xA5, "via_gen": True,
                    "steps": [{"hex": hx(bytes([v]) + rbytes(rng, v % 3))} for v in range(256)]},
                   "valid", tag="exhaustive-set-w1")
        order = list(range(65536))
        rng.shuffle(order)
        CH = 2048
        for i in range(0, 65536, CH):
            chunk = order[i:i + CH]
            yield Case({"op": "bf_seq", "width": 2, "value": rng.randrange(65536), "steps": [{"int": v} for v in chunk]},
                       "valid", tag="exhaustive-set-w2")
            yield Case({"op": "bf_seq", "width": 2, "value": rng.randrange(65536), "via_gen": bool(i & CH),
                        "steps": [{"hex": hx(v.to_bytes(2, "big") + rbytes(rng, v % 2))} for v in reversed(chunk)]},
                       "valid", tag="exhaustive-set-w2")
        # signed helper: every integer around the accepted range of widths 1 and 2
        for w, span in ((1, 140), (2, 32780)):
            h = 1 << (8 * w - 1)
            for v in range(-span, span + 1):
                ok = abs(v) <= h - 1
                yield Case({"op": "bf_to_signed", "width": w, "value": v}, "valid" if ok else "invalid",
                           errclass=not ok, tag=f"signed-sweep-w{w}")

        # --- widths 4 and 8 (and pools for all): boundary pools + random ---------------------
        n_rand = 40000 if thorough else 2500
        for w in WIDTHS:
            vals = value_pool(w, rng)
            if w >= 4:
                vals = vals + [rng.getrandbits(8 * w) for _ in range(n_rand)]
                # random values with a random bit length (small magnitudes in a wide field)
                vals += [rng.getrandbits(rng.randint(1, 8 * w)) for _ in range(n_rand // 4)]
            for i, v in enumerate(vals):
                tag = f"pool-w{w}" if i < len(vals) - (n_rand + n_rand // 4 if w >= 4 else 0) else f"random-w{w}"
                yield new_case(w, v, tag)
                yield Case({"op": "bf_to_unsigned", "width": w, "value": v}, "valid", tag=tag)
                if w in VWIDTHS:
                    yield Case({"op": "bf_gen_int", "width": w, "value": v}, "valid", tag=tag)
                    yield Case({"op": "bf_sub", "width": w, "value": v}, "valid", tag=tag)
                    if w >= 4 and (i % 3 == 0 or tag.startswith("pool")):
                        raw = v.to_bytes(w, "big")
                        yield from bytes_cases(raw + rbytes(rng, rng.choice([0, 0, 1, 3, 8])), tag, readers=[w])
                        yield Case({"op": "bf_from_bytes", "raw": hx(raw)}, "valid", tag=tag)
            yield Case({"op": "bf_empty", "width": w}, "valid", tag="empty-class-with-width")

        # --- refusals: out-of-range values, unsupported widths ------------------------------
        for w in WIDTHS:
            for bad in bad_values(w, rng):
                yield Case({"op": "bf_new", "value": bad, "width": w}, "invalid", errclass=True, tag="bad-value")
                if w in VWIDTHS:
                    yield Case({"op": "bf_sub", "value": bad, "width": w}, "invalid", errclass=True, tag="bad-value")
                    yield Case({"op": "bf_gen_int", "value": bad, "width": w}, "invalid", errclass=True, tag="bad-value")
                    if bad > 0:
                        yield Case({"op": "bf_to_unsigned", "value": bad, "width": w}, "invalid", errclass=True, tag="bad-value")
                    else:
                        yield Case({"op": "bf_to_unsigned_refused", "value": bad, "width": w}, "valid", tag="negative-to-unsigned")
                else:
                    # width 0: the helper returns b"" whatever the value
                    yield Case({"op": "bf_to_unsigned", "value": bad, "width": 0}, "valid", tag="helper-w0")
                    yield Case({"op": "bf_to_signed", "value": bad, "width": 0}, "valid", tag="helper-w0")
        for bw in BAD_WIDTHS:
            # absurdly large widths are tried with one value only: if such a width is not refused up front the
            # call allocates gigabytes and takes a minute, and one witness is enough
            for v in ((1,) if abs(bw) > 1 << 20 else (0, 1, 255, rng.getrandbits(16), -1)):
                yield Case({"op": "bf_new", "value": v, "width": bw}, "invalid", errclass=True, tag="bad-width")
                yield Case({"op": "bf_gen_int", "value": v, "width": bw}, "invalid", errclass=True, tag="bad-width")
                yield Case({"op": "bf_to_unsigned", "value": v, "width": bw}, "invalid", errclass=True, tag="bad-width")
                yield Case({"op": "bf_to_signed", "value": v, "width": bw}, "invalid", errclass=True, tag="bad-width")
            yield Case({"op": "bf_empty", "width": bw}, "invalid", errclass=True, tag="bad-width")
            for raw in (b"", b"\x01", rbytes(rng, 9), rbytes(rng, min(abs(bw), 40))):
                yield Case({"op": "bf_gen_bytes", "width": bw, "raw": hx(raw)}, "invalid", errclass=True, tag="bad-width")
        for v in (0, 1, 255):
            yield Case({"op": "bf_gen_int", "value": v, "width": 0}, "invalid", errclass=True, tag="gen-width-0")
            yield Case({"op": "bf_gen_bytes", "width": 0, "raw": hx(bytes(v % 3))}, "invalid", errclass=True, tag="gen-width-0")

        # --- octet strings: every length 0..20 through every reader; pools for lengths 4, 8 --
        for n in list(range(0, 21)) + [32, 64, 255]:
            strings = octet_pool(n, rng) if n in (3, 4, 5, 7, 8, 9) else [rbytes(rng, n) for _ in range(3)] + [bytes(n), b"\xff" * n]
            for raw in strings:
                yield from bytes_cases(raw, f"octets-len{min(n, 21)}")
        for _ in range(20000 if thorough else 1500):
            w = rng.choice([4, 8])
            n = rng.choice([w, w, w, w + 1, w + 5, w - 1, rng.randint(0, 12)])
            yield from bytes_cases(rbytes(rng, n), "octets-random", readers=[w])

        # --- back-to-back decodes of octet strings that differ in width and in every bit (a field decoded earlier
        #     must not follow a later decode) --------------------------------------------------------------------
        for _ in range(3000 if thorough else 300):
            w1 = rng.choice(VWIDTHS)
            w2 = rng.choice([w for w in VWIDTHS if w != w1])
            raw1 = rbytes(rng, w1)
            raw2 = bytes(x ^ 0xFF for x in (raw1 * 8)[:w2])
            for raw in (raw1, raw2, raw1):
                yield from bytes_cases(raw, "complement-pair", readers=[len(raw)])

        # --- a field handed out earlier for the same arguments was re-assigned (key "reassign") ---------------
        for w in VWIDTHS:
            vals = value_pool(w, rng, 0)
            for v in rng.sample(vals, min(len(vals), 24)) + [0, 1, (1 << (8 * w)) - 1]:
                v2 = rng.choice(vals) if rng.random() < 0.5 else rng.getrandbits(8 * w)
                if v2 == v:
                    v2 = v ^ 1
                st = {"int": v2} if rng.random() < 0.5 else {"hex": hx(v2.to_bytes(w, "big") + rbytes(rng, rng.choice([0, 0, 2])))}
                raw = v.to_bytes(w, "big")
                yield Case({"op": "bf_gen_int", "width": w, "value": v, "reassign": st}, "valid", tag="reassigned")
                yield Case({"op": "bf_gen_bytes", "width": w, "raw": hx(raw + rbytes(rng, rng.choice([0, 1, 5]))), "reassign": st},
                           "valid", tag="reassigned")
                yield Case({"op": "bf_from_un", "width": w, "raw": hx(raw + rbytes(rng, rng.choice([0, 3]))), "reassign": st},
                           "valid", tag="reassigned")
                yield Case({"op": "bf_from_bytes", "raw": hx(raw), "reassign": st}, "valid", tag="reassigned")

        # --- equality and hashing -----------------------------------------------------------
        small = [(w, v) for w in WIDTHS for v in (0, 1, 2, 255, 256, 257, 65535, 65536, (1 << 32) - 1, 1 << 32,
                                                  (1 << 61) - 1, (1 << 64) - 1) if in_range(w, v)]
        for (w1, v1) in small:
            for (w2, v2) in small:
                yield Case({"op": "bf_eq", "w1": w1, "v1": v1, "w2": w2, "v2": v2, "via_gen": bool((v1 + v2) & 1)},
                           "valid", tag="eq-matrix")
        for _ in range(6000 if thorough else 600):
            w1 = rng.choice(VWIDTHS)
            v1 = rng.choice(value_pool(w1, rng, 0)) if rng.random() < 0.5 else rng.getrandbits(8 * w1)
            mode = rng.randint(0, 3)
            if mode == 0:
                w2, v2 = w1, v1
            elif mode == 1:                       # same value, other width
                w2 = rng.choice([w for w in VWIDTHS if in_range(w, v1)])
                v2 = v1
            elif mode == 2:                       # same width, neighbouring / bit-flipped value
                w2 = w1
                v2 = v1 ^ (1 << rng.randrange(8 * w1))
            else:                                 # same octets modulo a shorter width
                w2 = rng.choice(VWIDTHS)
                v2 = v1 % (1 << (8 * w2))
            yield Case({"op": "bf_eq", "w1": w1, "v1": v1, "w2": w2, "v2": v2, "via_gen": rng.random() < 0.5},
                       "valid", tag="eq-random")

        # single assignments from every pool value, by integer and by octets, on widths 4 and 8
        for w in (4, 8):
            vals = value_pool(w, rng)
            yield Case({"op": "bf_seq", "width": w, "value": 0, "steps": [{"int": v} for v in vals]}, "valid", tag=f"history-pool-w{w}")
            yield Case({"op": "bf_seq", "width": w, "value": vals[-1],
                        "steps": [{"hex": hx(v.to_bytes(w, "big") + rbytes(rng, v % 3))} for v in vals]}, "valid", tag=f"history-pool-w{w}")


        # --- conversion helpers -------------------------------------------------------------
        for w in VWIDTHS:
            sp = signed_pool(w, rng)
            if w >= 4:
                h = 1 << (8 * w - 1)
                sp = sp + [rng.randint(-(h - 1), h - 1) for _ in range(n_rand // 2)]
            for v in sp:
                yield Case({"op": "bf_to_signed", "width": w, "value": v}, "valid", tag=f"signed-w{w}")
            for v in signed_bad(w, rng):
                yield Case({"op": "bf_to_signed", "width": w, "value": v}, "invalid", errclass=True, tag=f"signed-bad-w{w}")
            for v in [-1, -2, -128, -(1 << (8 * w - 1)), -(1 << (8 * w)), -rng.randint(1, 1 << (8 * w))]:
                yield Case({"op": "bf_to_unsigned_refused", "width": w, "value": v}, "valid", tag="negative-to-unsigned")
                yield Case({"op": "bf_to_unsigned_refused", "width": w, "value": -v}, "valid", tag="positive-to-unsigned")


PROP = C20()
