"""C12 — the PDU factory returns the right PDU kind, equal to what was packed.

Cross-cutting: valid PDUs of every kind come from the generators / builders / field views / independent
encoders of the owning properties (props/c06_fixed.py, props/c06_var.py, props/c07.py), organised as one table
of kinds (`KINDS`). Adding a kind = one entry in that table.
"""
import random
import warnings
from dataclasses import dataclass
from typing import Any, Callable, Dict, Iterator, List, Optional

import core
from core import Case, Prop, SelfCheckFailure, exc_category, DOCUMENTED, pack_stable, ISOLATION
from gen import hx, unhx, rbytes

import props.c06_fixed as c6f
import props.c06_var as c6v
import props.c07 as c07
from props.c05 import shared_conf, conf_untouched, contrast_conf, decoded_alone, mutate_cfdp, MUT_ALL, _conf as fresh_conf
from props.c05 import conf_form_variants

from spacepackets.cfdp.defs import PduType
from spacepackets.cfdp.pdu import (
    AckPdu, EofPdu, FileDataPdu, FinishedPdu, KeepAlivePdu, MetadataPdu, NakPdu, PromptPdu, DirectiveType,
)
from spacepackets.cfdp.pdu.helper import PduFactory, PduHolder
from spacepackets.cfdp.pdu.header import AbstractPduBase

WIDTHS = [1, 2, 4, 8]
DIRECTIVE_MEMBERS = [4, 5, 6, 7, 8, 9, 12, 10]       # model: Factory.directiveTypes
CONF_KEYS = c6f.CONF_KEYS


# --------------------------------------------------------------------------------------------
# the table of kinds
# --------------------------------------------------------------------------------------------
@dataclass
class Kind:
    idx: int                      # position in the model's Kind.all
    name: str
    cls: type
    accessor: str                 # name of the PduHolder accessor
    code: Optional[int]           # DirectiveType member (None: File Data)
    build: Callable[[Dict[str, Any]], Any]                       # constructor arguments -> object (owning builder)
    fields: Optional[Callable[[Any], Dict[str, Any]]]            # owning field view
    params: Callable[[random.Random, Dict[str, Any], int], Dict[str, Any]]   # configuration -> constructor arguments
    harvest: Callable[[random.Random, bool], Iterator[Dict[str, Any]]]        # the owning generator's valid arguments
    spec: Optional[Callable[[Dict[str, Any]], bytes]]            # independent encoder (octets without the implementation)
    refuses_trailing: bool = False
    # what the decoder hands back is compared up to this normalisation of the field view (Metadata: [] = None)
    norm: Callable[[Dict[str, Any]], Dict[str, Any]] = lambda f: f
    # can the library's == compare this object? (EOF / Finished: fault-location entity ID of width 1, 2, 4, 8)
    eq_ok: Callable[[Any], bool] = lambda obj: True


def _harvest(gen, opname: str):
    """valid constructor arguments as the owning generator produces them (its 'valid <kind>_pack' cases)"""
    def h(rng: random.Random, thorough: bool) -> Iterator[Dict[str, Any]]:
        for c in gen(rng, thorough):
            if c.op["op"] == opname and c.expect == "valid":
                yield {k: v for k, v in c.op.items() if k != "op"}
    return h


_ACK_TRIPLES = [(ac, c, s) for ac in (4, 5) for c in c6f.COND_MEMBERS for s in range(4)]
_NAK_COUNTS = [0, 1, 2, 3, 5, 17]


def _ack_params(rng, a, k):
    ac, c, s = _ACK_TRIPLES[k % len(_ACK_TRIPLES)]
    return {**a, "acked": ac, "cond": c, "status": s}


def _prompt_params(rng, a, k):
    return {**a, "resp": k % 2}


def _ka_params(rng, a, k):
    return {**a, "progress": c6f.fss_val(rng, a["large"])}


def _nak_params(rng, a, k):
    n = _NAK_COUNTS[k % len(_NAK_COUNTS)]
    segs = c6f.rand_segs(rng, a["large"], n)
    return {**a, "start": c6f.fss_val(rng, a["large"]), "end": c6f.fss_val(rng, a["large"]),
            "segs": segs if (segs or k % 2) else None}


def _fd_params(rng, a, k):
    r = c07.rand_args(rng, a, dl=c07.DATA_LENS[k % len(c07.DATA_LENS)] if k % 3 else None)
    return r


def _fd_harvest(rng, thorough):
    for i in range(4000 if thorough else 300):
        yield c07.rand_args(rng)


def _hex_or_none(b: Optional[bytes]) -> Optional[str]:
    return None if b is None else hx(b)


def _eof_params(rng, a, k):
    cond = c6f.COND_MEMBERS[k % len(c6f.COND_MEMBERS)]
    fault = None if k % 5 == 0 else c6v.rand_fault(rng, c6v.ID_WIDTHS[k % 4])
    return {**a, "checksum": hx(c6v.rand_checksum(rng)), "size": c6f.fss_val(rng, a["large"]),
            "fault": _hex_or_none(fault), "cond": cond}


def _fin_params(rng, a, k):
    cond = c6f.COND_MEMBERS[k % len(c6f.COND_MEMBERS)]
    fault = None if (cond in c6v.NO_FAULT_CONDS or k % 3 == 0) else c6v.rand_fault(rng, c6v.ID_WIDTHS[k % 4])
    return {**a, "cond": cond, "delivery": k % 2, "status": (k // 2) % 4,
            "responses": [c6v.rand_resp(rng) for _ in range([0, 1, 0, 2, 3][k % 5])], "fault": _hex_or_none(fault)}


def _md_params(rng, a, k):
    opts = [None, [], c6v.rand_options(rng, 1), None, c6v.rand_options(rng, 3)][k % 5]
    return {**a, "closure": bool(k % 2), "ctype": c6v.CHECKSUM_TYPES[k % len(c6v.CHECKSUM_TYPES)],
            "size": c6f.fss_val(rng, a["large"]),
            "src": None if k % 7 == 0 else hx(c6v.rand_name(rng)), "dst": None if k % 11 == 0 else hx(c6v.rand_name(rng)),
            "options": opts}


def _fault_eq_ok(obj) -> bool:
    fl = obj.fault_location
    if getattr(obj, "finished_params", None) is not None and obj.finished_params.file_store_responses is None:
        return False        # responses given as None (outside the typed parameter set): `==` with the decoded [] is not claimed
    return fl is None or len(fl.value) in c6v.ID_WIDTHS


def _fin_harvest(rng, thorough):
    # a fault location together with a condition code that cannot have one is not a valid parameter set for the
    # round trip (DESIGN section 8: the field is not packed)
    for a in _harvest(c6v.PART.fin_cases, "fin_pack")(rng, thorough):
        if a["fault"] is None or a["cond"] not in c6v.NO_FAULT_CONDS:
            yield a


def _spec_eof(a):
    return c6v.spec_eof(a, a["cond"], unhx(a["checksum"]), a["size"], None if a["fault"] is None else unhx(a["fault"]))


def _spec_fin(a):
    return c6v.spec_fin(a, a["cond"], a["delivery"], a["status"], a["responses"],
                        None if a["fault"] is None else unhx(a["fault"]))


def _spec_md(a):
    return c6v.spec_md(a, a["closure"], a["ctype"], a["size"], b"" if a["src"] is None else unhx(a["src"]),
                       b"" if a["dst"] is None else unhx(a["dst"]), a["options"])


KINDS: List[Kind] = [
    Kind(0, "file_data", FileDataPdu, "to_file_data_pdu", None, c07._pdu, c07._pdu_fields, _fd_params,
         _fd_harvest, c07.spec_fd),
    Kind(1, "eof", EofPdu, "to_eof_pdu", 4, c6v._eof, c6v._eof_fields, _eof_params,
         _harvest(c6v.PART.eof_cases, "eof_pack"), _spec_eof, eq_ok=_fault_eq_ok),
    Kind(2, "finished", FinishedPdu, "to_finished_pdu", 5, c6v._fin, c6v._fin_fields, _fin_params,
         _fin_harvest, _spec_fin, eq_ok=_fault_eq_ok),
    Kind(3, "ack", AckPdu, "to_ack_pdu", 6, c6f._ack, c6f._ack_fields, _ack_params,
         _harvest(c6f.PART.ack_cases, "ack_pack"), lambda a: c6f.spec_ack(a, a["acked"], a["cond"], a["status"])),
    Kind(4, "metadata", MetadataPdu, "to_metadata_pdu", 7, c6v._md, c6v._md_fields, _md_params,
         _harvest(c6v.PART.md_cases, "md_pack"), _spec_md, norm=c6v._md_norm),
    Kind(5, "nak", NakPdu, "to_nak_pdu", 8, c6f._nak, c6f._nak_fields, _nak_params,
         _harvest(c6f.PART.nak_cases, "nak_pack"),
         lambda a: c6f.spec_nak(a, a["start"], a["end"], a["segs"] or []), refuses_trailing=True),
    Kind(6, "prompt", PromptPdu, "to_prompt_pdu", 9, c6f._prompt, c6f._prompt_fields, _prompt_params,
         _harvest(c6f.PART.prompt_cases, "prompt_pack"), lambda a: c6f.spec_prompt(a, a["resp"])),
    Kind(7, "keep_alive", KeepAlivePdu, "to_keep_alive_pdu", 12, c6f._ka, c6f._ka_fields, _ka_params,
         _harvest(c6f.PART.ka_cases, "ka_pack"), lambda a: c6f.spec_ka(a, a["progress"])),
]
KIND_OF_CLASS = {k.cls: k for k in KINDS}
KIND_OF_CODE = {k.code: k for k in KINDS if k.code is not None}


# --------------------------------------------------------------------------------------------
# implementation ops (public API only)
# --------------------------------------------------------------------------------------------
def _kind_of(obj) -> Optional[Kind]:
    if obj is None:
        return None
    k = KIND_OF_CLASS.get(type(obj))
    if k is None:
        raise SelfCheckFailure(f"the factory returned an object of class {type(obj).__name__}, none of the eight PDU classes")
    return k


def _payload(obj) -> Dict[str, Any]:
    k = _kind_of(obj)
    if k is None:
        return {"kind": None, "pdu": None}
    f = k.fields(obj)
    f["raw"] = c6f._repack(obj)
    return {"kind": k.idx, "pdu": f}


def _digest(obj) -> Dict[str, Any]:
    """cheap but complete view of whatever the factory returned, for the isolation probes: class, the octets it
    re-packs to (every parameter and every configuration field is in there) and its lengths"""
    if obj is None:
        return {"kind": None}
    r = c6f._repack(obj)
    if r is None:
        return _payload(obj)
    return {"kind": type(obj).__name__, "raw": r, "packet_len": int(obj.packet_len), "header_len": int(obj.header_len)}


def _isolated(obj, payload: Dict[str, Any]):
    """the objects the factory returned to the previous calls are looked at again (decoding this input must not have
    changed them), and this one is looked at again after another header was decoded"""
    d = ISOLATION.check("C12:PduFactory", obj, _digest)
    if obj is not None:
        decoded_alone(obj, _digest, payload["pdu"], "PduFactory.from_raw", before=d)
    return payload


def _from_raw_sfx(raw: bytes, sfx: bytes):
    """factory on raw + suffix under the C09 clause: octets after the declared PDU are either ignored or refused with a
    documented error. The model op falls back to the PDU alone when raw + suffix is refused and a suffix was given; a
    buffer that is longer than it declares WITHOUT a separate suffix goes through core.cfdp_tolerant (the model ignores
    the excess for every kind but NAK)."""
    if not sfx:
        return core.cfdp_tolerant(PduFactory.from_raw, raw)
    try:
        return PduFactory.from_raw(raw + sfx)
    except Exception as e:  # noqa
        if exc_category(e) in DOCUMENTED:
            return PduFactory.from_raw(raw)
        raise


def _sub(f, conv, exact: bool = False) -> Dict[str, Any]:
    try:
        return {"ok": conv(f())}
    except SelfCheckFailure:
        raise
    except Exception as e:  # noqa
        cat = exc_category(e)
        return {"err": cat if (exact or cat not in DOCUMENTED) else "documented"}


def _opt_int(v):
    return None if v is None else int(v)


def _inspect(buf: bytes) -> Dict[str, Any]:
    r = {"pdu_type": _sub(lambda: PduFactory.pdu_type(buf), int),
         "is_file_directive": _sub(lambda: PduFactory.is_file_directive(buf), bool),
         "directive_type": _sub(lambda: PduFactory.pdu_directive_type(buf), _opt_int)}
    # the three views agree with each other
    if "ok" in r["pdu_type"] and "ok" in r["is_file_directive"]:
        if r["is_file_directive"]["ok"] != (r["pdu_type"]["ok"] == int(PduType.FILE_DIRECTIVE)):
            raise SelfCheckFailure("is_file_directive disagrees with pdu_type")
    if "ok" in r["directive_type"] and "ok" in r["pdu_type"]:
        if (r["directive_type"]["ok"] is None) != (r["pdu_type"]["ok"] == int(PduType.FILE_DATA)):
            raise SelfCheckFailure("pdu_directive_type is None iff the PDU type is File Data: violated")
    return r


def _check_inspectors_of(k: Kind, buf: bytes):
    """the inspectors report what the packed octets of a PDU of kind k carry"""
    want_t = int(PduType.FILE_DATA) if k.code is None else int(PduType.FILE_DIRECTIVE)
    t = int(PduFactory.pdu_type(buf))
    if t != want_t or t != (buf[0] >> 4) & 1:
        raise SelfCheckFailure(f"pdu_type reports {t} for a packed {k.name} PDU")
    if bool(PduFactory.is_file_directive(buf)) != (k.code is not None):
        raise SelfCheckFailure(f"is_file_directive wrong for a packed {k.name} PDU")
    d = PduFactory.pdu_directive_type(buf)
    if _opt_int(d) != k.code:
        raise SelfCheckFailure(f"pdu_directive_type reports {d!r} for a packed {k.name} PDU (code {k.code})")
    if k.code is not None:
        hl = 4 + 2 * (((buf[3] >> 4) & 7) + 1) + (buf[3] & 7) + 1
        if buf[hl] != k.code:
            raise SelfCheckFailure("the directive code is not the octet right behind the header")


def _holder_view(h: PduHolder, obj) -> Dict[str, Any]:
    """all eight accessors + views of a holder; self checks: an accessor that succeeds returns the held object"""
    acc = []
    for k in KINDS:
        def call(k=k):
            r = getattr(h, k.accessor)()
            if r is not obj or obj is None:
                raise SelfCheckFailure(f"{k.accessor}() returned an object that is not the held one")
            return r
        acc.append(_sub(call, _payload, exact=True))
    held = _kind_of(obj)
    with warnings.catch_warnings():
        warnings.simplefilter("ignore", DeprecationWarning)
        if h.pdu is not obj or h.base is not obj:
            raise SelfCheckFailure("holder.pdu / holder.base is not the object that was stored")
    out = {"held": None if held is None else held.idx, "acc": acc, "packet_len": int(h.packet_len),
           "raw": hx(pack_stable(h, "PduHolder.pack()")), "views": None}
    if obj is not None:
        out["views"] = {"pdu_type": _sub(lambda: h.pdu_type, int, exact=True),
                        "is_file_directive": _sub(lambda: h.is_file_directive, bool, exact=True),
                        "directive_type": _sub(lambda: h.pdu_directive_type, _opt_int, exact=True)}
    return out


def _check_holder_table(view: Dict[str, Any], held: Optional[Kind]):
    """the property's table on the real code alone: success on the diagonal, TypeError elsewhere"""
    for k, r in zip(KINDS, view["acc"]):
        if held is not None and k.idx == held.idx:
            if "ok" not in r:
                raise SelfCheckFailure(f"{k.accessor}() failed ({r}) on a holder of a {held.name} PDU")
        elif r != {"err": "type"}:
            raise SelfCheckFailure(f"{k.accessor}() on a holder of {'nothing' if held is None else 'a ' + held.name + ' PDU'}"
                                   f" gave {str(r)[:80]} instead of TypeError")
    if held is not None:
        v = view["views"]
        want_t = 1 if held.code is None else 0
        if v["pdu_type"] != {"ok": want_t} or v["is_file_directive"] != {"ok": held.code is not None} \
                or v["directive_type"] != {"ok": held.code}:
            raise SelfCheckFailure(f"holder views of a {held.name} PDU: {v}")


def _make_holder(obj, via: int) -> PduHolder:
    if via == 1:
        h = PduHolder(None)
        h.pdu = obj
        return h
    if via == 2:
        h = PduHolder(None)
        with warnings.catch_warnings():
            warnings.simplefilter("ignore", DeprecationWarning)
            h.base = obj
        return h
    return PduHolder(obj)


def _redecode_probe(raw: bytes, mask: int):
    """key "mut" of a case: the factory decodes, the application modifies what it got through the public setters (see
    props.c05.mutate_cfdp), the factory decodes again - the same octets, the same PDU with its last bit flipped (refused
    before and after when the PDU carries a CRC), the same PDU followed by other octets"""
    others = [raw[:-1] + bytes([raw[-1] ^ 1]), raw + b"\x5a\xa5\x00"] if raw else []
    core.redecode_after_mutation(PduFactory.from_raw, raw, _digest, mutate_cfdp(mask), "PduFactory.from_raw", others)


def _poison(k: Kind, a):
    """key "poison" of a fac_roundtrip case: calls that fail and are caught - packing a PDU of the same kind that was made
    unencodable (own configuration object), the factory on cut / foreign buffers. What is packed and decoded next must not
    know about them."""
    def bad_pack(how):
        def f():
            o = k.build(a, fresh_conf(a))
            how(o)
            o.pack()
        return f

    def cut(n):
        def f():
            good = bytes(k.build(a, fresh_conf(a)).pack())
            PduFactory.from_raw(good[:n] if n >= 0 else good[:len(good) + n])
        return f
    ts = core.tolerant_set
    core.attempt_all([bad_pack(lambda o: ts(o.pdu_header, "transaction_seq_num", None)),
                      bad_pack(lambda o: ts(o.pdu_header.pdu_conf, "dest_entity_id", None)),
                      bad_pack(lambda o: ts(o.pdu_header, "pdu_data_field_len", 1 << 20)),
                      cut(-1), cut(5), cut(3),
                      lambda: PduFactory.from_raw(b"\xe0" + bytes(k.build(a, fresh_conf(a)).pack())[1:])])


def _roundtrip(k: Kind, a, sfx: bytes):
    """pack, factory, and every clause of the statement visible on the real code alone"""
    if a.get("poison"):
        _poison(k, a)
    conf = shared_conf(a)      # the PduConfig instance a program would hold for these parameters (shared between cases)
    obj = k.build(a, conf)
    raw = pack_stable(obj, f"{k.cls.__name__}.pack()")
    conf_untouched(conf, a, f"{k.cls.__name__}(...).pack()")
    dec = _from_raw_sfx(raw, sfx)
    if type(dec) is not k.cls:
        raise SelfCheckFailure(f"from_raw(pack(<{k.name}>)) returned {type(dec).__name__}")
    if k.eq_ok(obj) and (not (dec == obj) or not (obj == dec)):
        raise SelfCheckFailure(f"from_raw(pack(x)) != x under == ({k.name})")
    if bytes(dec.pack()) != raw:
        raise SelfCheckFailure(f"re-packing what the factory returned does not reproduce the octets ({k.name})")
    if k.norm(k.fields(dec)) != k.norm(k.fields(obj)):
        raise SelfCheckFailure(f"from_raw(pack(x)) has different header / parameter values ({k.name})")
    _check_inspectors_of(k, raw + sfx)
    return obj, raw, dec


def op_fac_roundtrip(a):
    k = KINDS[a["kind"]]
    obj, raw, dec = _roundtrip(k, a, unhx(a["suffix"]))
    h = PduFactory.from_raw_to_holder(raw)
    if getattr(h, k.accessor)() is not h.pdu or type(h.pdu) is not k.cls:
        raise SelfCheckFailure(f"from_raw_to_holder(pack(<{k.name}>)).{k.accessor}() does not return the decoded PDU")
    return _isolated(dec, _payload(dec))


def op_fac_from_raw(a):
    if a.get("mut"):
        _redecode_probe(unhx(a["raw"]), a["mut"])
    obj = _from_raw_sfx(unhx(a["raw"]), unhx(a["suffix"]))
    return _isolated(obj, _payload(obj))


def op_fac_inspect(a):
    return _inspect(unhx(a["raw"]))


def op_fac_holder_raw(a):
    h = PduFactory.from_raw_to_holder(unhx(a["raw"]))
    ISOLATION.check("C12:PduFactory", h.pdu, _digest)
    v = _holder_view(h, h.pdu)
    _check_holder_table(v, _kind_of(h.pdu))
    return v


# ---- what a holder remembers about the PDU it held before (case key "hist" of fac_holder): ask, store another, ask ----
def _holder_views():
    """every way of asking a holder what it holds, as plain values: the three views, the lengths / octets, and each typed
    accessor (class of what it returns and whether that is the stored object)"""
    def acc(k):
        def call(h):
            r = getattr(h, k.accessor)()
            return {"cls": type(r).__name__, "is_stored": r is h.pdu}
        return call
    return ([("pdu_type", lambda h: int(h.pdu_type)), ("is_file_directive", lambda h: bool(h.is_file_directive)),
             ("directive_type", lambda h: _opt_int(h.pdu_directive_type)), ("packet_len", lambda h: int(h.packet_len)),
             ("pack", lambda h: hx(h.pack()))] + [("to:" + k.name, acc(k)) for k in KINDS])


def _store(h: PduHolder, obj, via: int):
    if via == 2:
        with warnings.catch_warnings():
            warnings.simplefilter("ignore", DeprecationWarning)
            h.base = obj
    else:
        h.pdu = obj


def _decode_for_holder(kind, raw_hex):
    return None if kind is None else KINDS[kind].cls.unpack(unhx(raw_hex))


def _octets_of_kind(kind, raw_hex) -> bool:
    """do the octets announce a PDU of this kind (type bit, directive octet)? - the reused-holder probe is only asked of
    PDUs decoded by the decoder of their own kind (the statement's domain)"""
    if kind is None:
        return True
    raw, k = unhx(raw_hex), KINDS[kind]
    if len(raw) < 4 or (raw[0] >> 4) & 1 != (1 if k.code is None else 0):
        return False
    return k.code is None or (len(raw) > header_len(raw) and raw[header_len(raw)] == k.code)


def _holder_after_history(a, obj) -> PduHolder:
    """a REUSED holder: it held the PDUs of `hist.steps` one after the other (each: kind, raw, how it was stored, which of
    the views / accessors were used while it was held), then `obj` was stored in it (`holder.pdu = obj`, or the deprecated
    `holder.base = obj`). Every way of asking it then answers like a holder freshly built around `obj`."""
    steps = a["hist"]["steps"]

    def make():
        return _make_holder(_decode_for_holder(steps[0]["kind"], steps[0]["raw"]), steps[0].get("via", 0))

    def mutate(h):
        for st in steps[1:]:
            _store(h, _decode_for_holder(st["kind"], st["raw"]), st.get("via", 1))
            core.read_views(h, _holder_views(), st.get("read"))
        _store(h, obj, a.get("via", 1))
    got = {}
    err = core.read_mutate_read(make, _holder_views(), mutate, lambda: PduHolder(obj), "PduHolder", first=steps[0].get("read"),
                                after=a["hist"].get("after"), out=got)
    if err:
        raise SelfCheckFailure(err)
    return got["obj"]


def op_fac_holder(a):
    if a["kind"] is None:
        obj = None
    else:
        obj = KINDS[a["kind"]].cls.unpack(unhx(a["raw"]))
        ISOLATION.check("C12:PduFactory", obj, _digest)
    hist = a.get("hist") and all(_octets_of_kind(st["kind"], st["raw"]) for st in a["hist"]["steps"] + [a])
    v = _holder_view(_holder_after_history(a, obj) if hist else _make_holder(obj, a.get("via", 0)), obj)
    # (the table is claimed for PDUs decoded by the decoder of their own kind; a case minimised into "the File Data
    #  decoder on the octets of a directive" is outside the statement)
    if a.get("canonical", True) and _octets_of_kind(a["kind"], a["raw"]):
        _check_holder_table(v, _kind_of(obj))
    return v


OPS = {
    "fac_roundtrip": op_fac_roundtrip, "fac_from_raw": op_fac_from_raw, "fac_inspect": op_fac_inspect,
    "fac_holder_raw": op_fac_holder_raw, "fac_holder": op_fac_holder,
}


# --------------------------------------------------------------------------------------------
# generators
# --------------------------------------------------------------------------------------------
def header_len(raw: bytes) -> int:
    return 4 + 2 * (((raw[3] >> 4) & 7) + 1) + (raw[3] & 7) + 1


def suffixes(rng: random.Random, raw: bytes) -> List[bytes]:
    return [b"", rbytes(rng, 1), rbytes(rng, 2), bytes([6, 1, 0x55]), rbytes(rng, 8), rbytes(rng, 16), raw[: 64],
            rbytes(rng, rng.randint(3, 40))]


def refix_crc(b: bytes, crc: int) -> bytes:
    return c6f.with_crc(b[:-2]) if crc and len(b) > 2 else b


def from_raw_case(raw: bytes, sfx: bytes, expect: str, tag: str, errclass: bool = False, **extra) -> Case:
    return Case({"op": "fac_from_raw", "raw": hx(raw), "suffix": hx(sfx), **extra}, expect, errclass=errclass, tag=tag)


def inspect_case(raw: bytes, tag: str) -> Case:
    return Case({"op": "fac_inspect", "raw": hx(raw)}, "valid", tag=tag)


class C12(Prop):
    id = "C12"
    title = "The PDU factory returns the right PDU kind, equal to what was packed"
    lean_modules = ["SpVerif.Props.C12"]
    thorough = False
    exhaustive_note = ("every kind x all 512 header configurations (16 width combinations x CRC x large file x mode x "
                       "caller's direction x segmentation control) through pack -> from_raw, the three inspectors and the "
                       "holder; all 9 (held kind or none) x 8 (requested kind) accessor pairs, for each way of filling the "
                       "holder; for every directive kind all 256 values of the directive octet in four width combinations "
                       "(all 16 in the thorough tier) and every DirectiveType member, its neighbours and a random sample in "
                       "each of the 16, through the inspectors and the factory; all 256 values of octet 0 and octet 3; every "
                       "truncation of sampled PDUs of every kind and width combination")
    trusted_base = [
        "decoder models of the eight kinds: owned and tied by C05 / C06 / C07 (their own exhaustive sweeps); this check reuses their Ops field renderings",
        "arithmetic normal form of the inspectors (d0/16%2, 4+2*(d3/16%8+1)+(d3%8+1)) vs shifts/masks of the code: tied by the exhaustive sweeps of octet 0, octet 3 and the directive octet",
        "isinstance / typing.cast / property dispatch of CPython are modelled (AnyPdu.view), not verified",
    ]
    assumptions = [
        "held objects are objects the library builds itself (constructors, class decoders on octets of their own kind, the factory): for these the accessor table is claimed. An object obtained by calling the decoder of one class on the octets of another kind (PromptPdu.unpack on ACK octets keeps directive code 6) is modelled faithfully (Holder.castTo) but lies outside the statement and is not compared",
        "PduHolder.pdu_type / is_file_directive / pdu_directive_type on an EMPTY holder raise AssertionError (modelled, theorem C12_holder_views); the statement is silent about them and they are not compared",
        "Metadata: what the factory returns is compared with the packed object up to the decoder's normalisation (options as generic TLVs of the same type and value, an empty option list = no options), as in C06; == of EOF / Finished PDUs is only asked for fault-location entity IDs of width 1, 2, 4, 8 (the library's == raises ValueError for other widths)",
    ]

    def impl_ops(self):
        return OPS

    def table_sync(self):
        d = []
        if [int(m) for m in DirectiveType] != DIRECTIVE_MEMBERS:
            d.append(f"DirectiveType members {[int(m) for m in DirectiveType]} model={DIRECTIVE_MEMBERS}")
        if (int(PduType.FILE_DIRECTIVE), int(PduType.FILE_DATA)) != (0, 1) or sorted(int(m) for m in PduType) != [0, 1]:
            d.append("PduType members")
        names = {"eof": "EOF_PDU", "finished": "FINISHED_PDU", "ack": "ACK_PDU", "metadata": "METADATA_PDU",
                 "nak": "NAK_PDU", "prompt": "PROMPT_PDU", "keep_alive": "KEEP_ALIVE_PDU"}
        for k in KINDS:
            if k.code is not None and int(getattr(DirectiveType, names[k.name])) != k.code:
                d.append(f"DirectiveType.{names[k.name]} model={k.code}")
            if not callable(getattr(PduHolder, k.accessor, None)):
                d.append(f"PduHolder.{k.accessor} missing")
        if int(DirectiveType.NONE) != 10:
            d.append("DirectiveType.NONE model=10")
        if AbstractPduBase.FIXED_LENGTH != 4:
            d.append("AbstractPduBase.FIXED_LENGTH model=4")
        return d

    def nontrivial(self, c: Case) -> bool:
        o = c.op
        if isinstance(o.get("raw"), str):
            return o["raw"].strip("0") != ""
        return True

    def neighbours(self, c: Case, rng: random.Random) -> Iterator[Case]:
        o = c.op
        if o["op"] in ("fac_from_raw", "fac_inspect", "fac_holder_raw") and isinstance(o.get("raw"), str):
            raw = unhx(o["raw"])
            for cut in range(len(raw)):
                x = from_raw_case(raw[:cut], b"", "any", "nb-truncation")
                if x:
                    yield x
                yield inspect_case(raw[:cut], "nb-truncation")
            for pos in range(min(len(raw), 30)):
                b = bytearray(raw)
                b[pos] ^= 1 << rng.randint(0, 7)
                x = from_raw_case(bytes(b), b"", "any", "nb-bitflip")
                if x:
                    yield x
                yield inspect_case(bytes(b), "nb-bitflip")
        elif o["op"] == "fac_roundtrip":
            k = KINDS[o["kind"]]
            for i, a in enumerate(c6f.all_confs(rng)):
                yield Case({"op": "fac_roundtrip", "kind": k.idx, **k.params(rng, a, i), "suffix": ""}, "valid",
                           tag="nb-config")

    # ----------------------------------------------------------------------------------------
    def pdu_cases(self, k: Kind, a: Dict[str, Any], rng: random.Random, tag: str, i: int, deep: bool) -> Iterator[Case]:
        """everything that is asked of one valid PDU (constructor arguments `a`) of kind k"""
        raw = k.spec(a)
        sfx = suffixes(rng, raw)
        yield Case({"op": "fac_roundtrip", "kind": k.idx, **a, "suffix": hx(sfx[i % len(sfx)])}, "valid",
                   tag=f"{k.name}:{tag}")
        # the same octets from the independent encoder: alone and with a suffix
        yield from_raw_case(raw, b"", "valid", f"{k.name}:{tag}")
        yield from_raw_case(raw, sfx[1 + i % (len(sfx) - 1)], "valid", f"{k.name}:{tag}+suffix")
        yield inspect_case(raw + sfx[(i // 2) % len(sfx)], f"{k.name}:{tag}")
        # the holder: filled by the kind's own decoder (three ways) or by the factory
        if len(raw) > 4096:
            pass        # what a holder does is independent of the size of the held PDU
        elif i % 4 == 1 or (self.thorough and i % 4 == 3):
            yield Case({"op": "fac_holder", "kind": k.idx, "raw": hx(raw), "via": (i // 4) % 3}, "valid",
                       tag=f"{k.name}:{tag}")
        elif i % 4 == 2 or (self.thorough and i % 4 == 0):
            yield Case({"op": "fac_holder_raw", "raw": hx(raw)}, "valid", tag=f"{k.name}:{tag}")
        if not deep:
            return
        crc = a["crc"]
        hl = header_len(raw)
        # every truncation: refused (documented), inspectors never fail in an undocumented way
        for cut in range(len(raw)):
            yield from_raw_case(raw[:cut], b"", "invalid", f"{k.name}:truncation")
            yield inspect_case(raw[:cut], f"{k.name}:truncation")
            if cut in (0, 1, 3, 4, hl - 1, hl, hl + 1):
                yield Case({"op": "fac_holder_raw", "raw": hx(raw[:cut])}, "invalid", tag=f"{k.name}:truncation")
        # all 256 values of the directive octet (CRC made to match)
        if k.code is not None:
            # all 256 values in four width combinations per kind (all 16 in the thorough tier); in the others every
            # member of DirectiveType, its neighbours, the extremes and a random sample
            full = a["src_w"] == a["seq_w"] or self.thorough
            values = range(256) if full else sorted(set(DIRECTIVE_MEMBERS) | {0, 1, 3, 11, 13, 14, 127, 128, 255}
                                                    | {rng.randrange(256) for _ in range(24)})
            for v in values:
                b = bytearray(raw)
                b[hl] = v
                b = refix_crc(bytes(b), crc)
                yield inspect_case(b, f"{k.name}:directive-octet")
                if v == k.code or v == 10:
                    e, ec = "valid", False
                elif v not in DIRECTIVE_MEMBERS:
                    e, ec = "invalid", True          # unknown directive code: ValueError
                else:
                    e, ec = "any", False             # the decoder of another kind on these parameters
                x = from_raw_case(b, b"", e, f"{k.name}:directive-octet", errclass=ec)
                if x:
                    yield x
                if v in (10, 11, k.code):
                    yield Case({"op": "fac_holder_raw", "raw": hx(b)}, "valid" if e == "valid" else "invalid",
                               tag=f"{k.name}:directive-octet")
        # all 256 values of octet 0 (version, type bit, flags) and of octet 3 (width codes)
        # (the sweep of octet 3 runs through all 64 width-code pairs itself: four base configurations per kind)
        for pos in ((0, 3) if a["src_w"] == a["seq_w"] or self.thorough else ()):
            for v in range(256):
                b = bytearray(raw + sfx[v % len(sfx)])
                b[pos] = v
                yield inspect_case(bytes(b), f"{k.name}:octet{pos}")
                x = from_raw_case(bytes(b), b"", "any", f"{k.name}:octet{pos}")
                if x:
                    yield x
        # the type bit flipped with the CRC made to match: the other decoder runs on these octets
        b = bytearray(raw)
        b[0] ^= 0x10
        b = refix_crc(bytes(b), crc)
        x = from_raw_case(b, b"", "any", f"{k.name}:type-bit")
        if x:
            yield x
        yield inspect_case(b, f"{k.name}:type-bit")

    def cases(self, rng: random.Random, tier: str) -> Iterator[Case]:
        """the generated stream, then a share of its valid configuration-carrying cases once more with the five PduConfig
        flags as plain ints / bools (props.c05.conf_form_variants; case key forms.conf)"""
        yield from conf_form_variants(self._cases_members(rng, tier), rng, share=0.05)

    def _cases_members(self, rng: random.Random, tier: str) -> Iterator[Case]:
        thorough = tier == "thorough"
        self.thorough = thorough
        for c in self._cases(rng, thorough):
            if c is not None:
                yield c

    def _cases(self, rng: random.Random, thorough: bool) -> Iterator[Optional[Case]]:
        # --- the empty holder: all eight accessors, each way of emptying it ---
        for via in (0, 1, 2):
            yield Case({"op": "fac_holder", "kind": None, "raw": "", "via": via}, "valid", tag="empty-holder")

        # --- every kind x every header configuration (512) ---
        seen_widths = {k.idx: set() for k in KINDS}
        for rep in range(4 if thorough else 1):
            for k in KINDS:
                for i, a in enumerate(c6f.all_confs(rng)):
                    args = k.params(rng, a, i + rep)
                    wkey = (a["src_w"], a["seq_w"], a["crc"])
                    # deep (truncations, octet sweeps) once per kind x width combination x CRC in the thorough tier,
                    # once per kind x width combination in the quick tier
                    first = wkey not in seen_widths[k.idx] and (thorough or a["crc"] == (a["src_w"] + a["seq_w"]) % 2)
                    deep = first
                    if first:
                        seen_widths[k.idx].add(wkey)
                    if deep and k.name == "nak" and args.get("segs") and len(args["segs"]) > 3:
                        args["segs"] = args["segs"][:2]
                    if deep and k.name == "file_data" and len(args["data"]) > 64:
                        args["data"] = args["data"][:32]
                    if deep and k.name == "finished":
                        args["responses"] = args["responses"][:1]
                    if deep and k.name == "metadata":
                        for nm in ("src", "dst"):
                            if args[nm] is not None and len(args[nm]) > 24:
                                args[nm] = hx(b"n\xc3\xa4me-x")
                        if args["options"]:
                            args["options"] = args["options"][:1]
                    yield from self.pdu_cases(k, args, rng, "config-all", i, deep)

        # --- structured parameter values of the owning generators (boundary pools, every enum member, sizes) ---
        for k in KINDS:
            got = list(k.harvest(rng, thorough))
            # keep the run time bounded: very long PDUs (max-size NAK / File Data) only a few times
            small = [a for a in got if len(str(a)) < 4000]
            big = [a for a in got if len(str(a)) >= 4000]
            n = 3000 if thorough else 300
            pick = small if len(small) <= n else rng.sample(small, n)
            pick += big[: (8 if thorough else 2)]
            for i, a in enumerate(pick):
                yield from self.pdu_cases(k, a, rng, "owner-params", i, False)

        # --- file directives that end before / at the directive octet; DirectiveType.NONE; header-only File Data ---
        for idw in WIDTHS:
            for sw in WIDTHS:
                for ptype in (0, 1):
                    a = c6f.rand_conf(rng, idw=idw, sw=sw)
                    h = dict(a)
                    h.update(ptype=ptype, segmeta=0, dlen=rng.choice([0, 1, 2, 5]))
                    hdr = c07.hdr_spec_pack(h)
                    for tail in (b"", bytes([10]), bytes([11]), bytes([0]), bytes([255]), bytes([10]) + rbytes(rng, 5)):
                        raw = hdr + tail
                        yield inspect_case(raw, "header-only")
                        if ptype == 0 and tail[:1] == bytes([10]):
                            yield from_raw_case(raw, b"", "valid", "directive-none")
                            yield Case({"op": "fac_holder_raw", "raw": hx(raw)}, "valid", tag="directive-none")
                        elif ptype == 0:
                            yield from_raw_case(raw, b"", "invalid", "header-only", errclass=True)
                        else:
                            yield from_raw_case(raw, b"", "any", "header-only")

        # --- random octet strings with a bias towards plausible headers and directive octets ---
        for _ in range(200000 if thorough else 4000):
            ln = rng.choice([0, 1, 2, 3, 4, 6, 7, 8, 9, 10, 11, 12, 15, 16, 24, rng.randint(0, 60)])
            b = bytearray(rbytes(rng, ln))
            if ln > 0 and rng.random() < 0.9:
                b[0] = 0x20 | (b[0] & 0x1F)
                if rng.random() < 0.7:
                    b[0] &= ~0x02
            idw = sw = 1
            if ln > 3 and rng.random() < 0.9:
                idw, sw = rng.choice([1, 1, 2, 4, 8, 3]), rng.choice([1, 1, 2, 4, 5])
                b[3] = (b[3] & 0x88) | (idw - 1) << 4 | (sw - 1)
            hl = 4 + 2 * idw + sw
            if ln > 3 and rng.random() < 0.8:
                d = max(0, ln - hl + rng.choice([0, 0, 0, -1, 1, -2, 2, -8, 8]))
                b[1], b[2] = (d >> 8) & 0xFF, d & 0xFF
            if ln > hl and rng.random() < 0.8:
                b[hl] = rng.choice([4, 5, 6, 7, 8, 9, 12, 10, 11, 4, 5, 6, 7, 8, 9, 12, 0, 255])
            raw = bytes(b)
            if ln > 2 and (b[0] & 2) and rng.random() < 0.7:
                raw = c6f.with_crc(raw[:-2])
            yield inspect_case(raw, "random-octets")
            yield from_raw_case(raw, b"", "any", "random-octets")
            if rng.random() < 0.1:
                x = from_raw_case(raw, b"", "any", "random-octets")
                if x:
                    yield Case({"op": "fac_holder_raw", "raw": hx(raw)}, "any", tag="random-octets")

        # --- state leaking between calls / objects (the ops look again at what the factory returned to the previous
        #     calls and hand the same PduConfig instance to cases with equal configuration parameters): one
        #     configuration through all eight kinds back to back, the one differing in every field, the first again ---
        for j in range(300 if thorough else 12):
            a = c6f.rand_conf(rng)
            b = contrast_conf(a)
            for c in (a, b, a):
                for k in KINDS:
                    yield Case({"op": "fac_roundtrip", "kind": k.idx, **k.params(rng, c, j), "suffix": ""}, "valid",
                               tag=f"{k.name}:shared-config")
            for c in (a, b, a):
                for k in KINDS:
                    yield from_raw_case(k.spec(k.params(rng, c, j + 1)), b"", "valid", f"{k.name}:isolation-pair")
        # --- what the application did before: it modified, through the public setters, PDUs the factory had decoded from
        #     the same octets (key "mut": each setter group alone, all, random subsets); pack / decode calls that failed and
        #     were caught (key "poison") ---
        singles = [1 << n for n in range(10)] + [MUT_ALL, 1 | 128]
        for j in range(400 if thorough else 24):
            a = c6f.rand_conf(rng)
            for k in KINDS:
                m = singles[(j + k.idx) % len(singles)] if j % 2 == 0 else rng.randint(1, MUT_ALL)
                args = k.params(rng, a, j)
                yield from_raw_case(k.spec(args), b"", "valid", f"{k.name}:setters-then-decode", mut=m)
                yield Case({"op": "fac_roundtrip", "kind": k.idx, **k.params(rng, a, j + 1), "suffix": "", "poison": 1}, "valid",
                           tag=f"{k.name}:failed-calls-then-roundtrip")

        # --- the reused holder (key "hist"): it held a PDU of one kind and was asked about it (the views, the matching or
        #     a non-matching accessor, everything, nothing), then a PDU of another kind was stored in it (holder.pdu = ...,
        #     or the deprecated holder.base = ...): all 64 ordered pairs of kinds (the diagonal with two different PDUs of
        #     the kind), both ways of storing, every way of having asked; chains of three with an empty holder in between.
        #     All accessors and views answer like those of a fresh holder of the last PDU, and like the model's ---
        def sample(k: Kind, j: int) -> str:
            args = k.params(rng, c6f.rand_conf(rng), j)
            if k.name == "file_data" and len(args["data"]) > 64:
                args["data"] = args["data"][:32]
            if k.name == "nak" and args.get("segs"):
                args["segs"] = args["segs"][:2]
            return hx(k.spec(args))
        n_reads = 8
        for rep in range(6 if thorough else 2):
            pdus = {k.idx: [sample(k, 2 * rep), sample(k, 2 * rep + 1)] for k in KINDS}
            for ka in KINDS:
                for kb in KINDS:
                    for via in (1, 2):
                        j = (ka.idx * 8 + kb.idx) * 2 + via + rep * 3
                        rd = [None, ["pdu_type"], ["is_file_directive"], ["directive_type"], ["to:" + ka.name], ["to:" + kb.name],
                              ["packet_len", "pack"], []][j % n_reads]
                        after = [n for n, _ in _holder_views()]
                        rng.shuffle(after)
                        yield Case({"op": "fac_holder", "kind": kb.idx, "raw": pdus[kb.idx][1], "via": via,
                                    "hist": {"steps": [{"kind": ka.idx, "raw": pdus[ka.idx][0], "via": j % 3, "read": rd}],
                                             "after": after}}, "valid", tag=f"{ka.name}->{kb.name}:reused-holder")
            for j in range(24):
                ks = [rng.choice(KINDS) for _ in range(3)]
                steps = [{"kind": k.idx, "raw": pdus[k.idx][0], "via": rng.choice([0, 1, 2]) if i == 0 else rng.choice([1, 2]),
                          "read": rng.choice([None, ["pdu_type"], ["directive_type"], ["to:" + k.name], []])}
                         for i, k in enumerate(ks[:2])]
                if j % 3 == 0:
                    steps.insert(1, {"kind": None, "raw": "", "via": 1, "read": rng.choice([None, []])})
                if j % 8 == 7:
                    # the reused holder is emptied last
                    yield Case({"op": "fac_holder", "kind": None, "raw": "", "via": rng.choice([1, 2]), "hist": {"steps": steps}},
                               "valid", tag="reused-holder-emptied")
                else:
                    yield Case({"op": "fac_holder", "kind": ks[2].idx, "raw": pdus[ks[2].idx][1], "via": rng.choice([1, 2]),
                                "hist": {"steps": steps}}, "valid", tag="reused-holder-chain")


PROP = C12()
