"""TEMPORARY STUB of the C06 part 'var' (EOF, Finished, Metadata) — overwritten by the worker that owns that part."""
from core import Prop


class C06VarStub(Prop):
    id = "C06"
    lean_modules = []
    exhaustive_note = ""

    def impl_ops(self):
        return {}

    def cases(self, rng, tier):
        return iter(())


PART = C06VarStub()
