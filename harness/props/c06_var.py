"""C06, part 'var' — EOF, Finished and Metadata PDUs (CCSDS 727.0-B-5 §5.2.2, §5.2.3, §5.2.5): the file-directive
PDUs that carry TLVs / LVs.

Exposes `PART` (loaded by props/c06.py). The other part (base class, ACK, Prompt, Keep Alive, NAK) is props/c06_fixed.py.
"""
import random
import struct
from typing import Any, Callable, Dict, Iterator, List, Optional

import core
from core import Case, Prop, SelfCheckFailure, pack_stable
from gen import hx, unhx, rbytes

from spacepackets.cfdp.defs import ConditionCode, ChecksumType, DeliveryCode, FileStatus, Direction
from spacepackets.cfdp.pdu.file_directive import DirectiveType
from spacepackets.cfdp.pdu.eof import EofPdu
from spacepackets.cfdp.pdu.finished import FinishedPdu, FinishedParams
from spacepackets.cfdp.pdu.metadata import MetadataPdu, MetadataParams
from spacepackets.cfdp.tlv import EntityIdTlv, TlvType
from spacepackets.crc import CRC16_CCITT_FUNC

from props.c06_fixed import (
    unpack_tolerant,
    _conf, _pdu_common, _repack, _pack_fails, _enum, _code, spec_pdu, spec_hdr, with_crc, fss, rand_conf, all_confs, fss_pool,
    fss_val, fss_bad, rand_val, vmax, bad_conf_cases, CONF_KEYS, COND_MEMBERS, U32, U64,
    _built, _isolated, _eq_op, contrast_conf, detached,
)
from props.c08 import (
    _build, _fsresp, _fsresp_fields, _name, rand_utf8, held_concrete, STATUS_NAT, SNP, UTF8_GOOD, UTF8_BAD,
)

CHECKSUM_TYPES = [0, 1, 2, 3, 15]
NO_FAULT_CONDS = [0, 11]              # NO_ERROR, UNSUPPORTED_CHECKSUM_TYPE: a Finished PDU carries no fault location
ID_WIDTHS = [1, 2, 4, 8]
TLV_SUFFIX = bytes([6, 1, 0x55])     # a well-formed entity-ID TLV: what a folding decoder would swallow


def _need(cond, msg):
    if not cond:
        raise SelfCheckFailure(msg)


# --------------------------------------------------------------------------------------------
# implementation ops (public API only)
# --------------------------------------------------------------------------------------------
def _fault(h: Optional[str]) -> Optional[EntityIdTlv]:
    return None if h is None else EntityIdTlv(unhx(h))


def _fault_field(t) -> Optional[str]:
    if t is None:
        return None
    _need(_code(TlvType, t.tlv_type) == 6, "fault location is not an entity-ID TLV")
    return hx(t.value)


def _check_octets(p, fields, raw: bytes) -> Dict[str, Any]:
    """length / CRC / repeatability clauses visible on the real code alone"""
    f = fields(p)
    _need(len(raw) == f["packet_len"], f"len(pack())={len(raw)} != packet_len={f['packet_len']}")
    _need(bytes(p.pack()) == raw, "pack() twice gives different octets")
    hl = f["header_len"]
    _need((raw[1] << 8 | raw[2]) == len(raw) - hl,
          f"data-field length in the octets {raw[1] << 8 | raw[2]} != octets after the header {len(raw) - hl}")
    if f["crc"] == 1:
        _need(CRC16_CCITT_FUNC(raw) == 0, "CRC flag set but the trailer is not the CRC-16 of the preceding octets")
    return f


def _check_roundtrip(p, cls, fields, raw: bytes, f, norm: Callable = lambda x: x, eq: bool = True):
    q = cls.unpack(raw)
    _need(norm(fields(q)) == norm(f), "unpack(pack(x)) has different parameter / header values")
    if eq:
        _need((q == p) and (p == q), "unpack(pack(x)) != x under ==")
    _need(bytes(q.pack()) == raw, "re-packing the decoded PDU does not reproduce the octets")
    # C09: trailing octets (here a well-formed TLV) are either ignored or refused with a documented error
    try:
        q2 = cls.unpack(raw + TLV_SUFFIX)
    except ValueError:
        return
    _need(norm(fields(q2)) == norm(f), "octets after the declared PDU change the decoded parameters")
    _need(bytes(q2.pack()) == raw, "octets after the declared PDU change the re-packed octets")


def _decoded(p, fields, raw: bytes, cls=None):
    f = fields(p)
    _isolated(p, fields, f)
    _need(f["packet_len"] <= len(raw), "decoded PDU is longer than the buffer it was decoded from")
    if cls is not None:
        # decoded out of a receive buffer that is reused afterwards (core.decode_detached)
        detached(cls, raw, fields, p)
    r = _repack(p)
    if r is not None:
        _need(len(unhx(r)) == f["packet_len"], "decoded PDU: len(pack()) != packet_len")
    f["raw"] = r
    return f


def _apply_steps(p, steps, table):
    for name, v in steps:
        table[name](p, v)


def _after_setter(p, fields, check):
    f = fields(p)
    r = _repack(p)
    if r is not None:
        _need(pack_stable(p, type(p).__name__ + ".pack()") == unhx(r), "pack() twice gives different octets")
        check(p, unhx(r))
    f["raw"] = r
    return f


# ---- EOF ----
def _eof(a, conf=None) -> EofPdu:
    return EofPdu(pdu_conf=_conf(a) if conf is None else conf, file_checksum=unhx(a["checksum"]), file_size=a["size"],
                  fault_location=_fault(a["fault"]), condition_code=_enum(ConditionCode, a["cond"]))


def _eof_fields(p: EofPdu, code=None):
    f = _pdu_common(p, code)
    f.update(cond=_code(ConditionCode, p.condition_code), checksum=hx(p.file_checksum), size=int(p.file_size),
             fault=_fault_field(p.fault_location))
    return f


def _eof_check(p, raw: bytes):
    f = _check_octets(p, _eof_fields, raw)
    fl = p.fault_location
    _check_roundtrip(p, EofPdu, _eof_fields, raw, f, eq=fl is None or len(fl.value) in ID_WIDTHS)
    return f


def op_eof_new(a):
    return _built(_eof, a, "EofPdu(...)", lambda p: _eof_fields(p, 4))


def op_eof_pack(a):
    def use(p):
        _need(_code(DirectiveType, p.directive_type) == 4 and _code(Direction, p.direction) == 0,
              "EOF PDU constructed with another directive code / direction")
        f = _eof_check(p, pack_stable(p, "EofPdu.pack()"))
        f["raw"] = hx(p.pack())
        return f
    return _built(_eof, a, "EofPdu(...).pack()", use)


def op_eof_pack_fails(a):
    r = _built(_eof, a, "EofPdu(...).pack()", _pack_fails)
    r.pop("_raw", None)
    return r


def op_eof_unpack(a):
    raw = unhx(a["raw"])
    return _decoded(unpack_tolerant(EofPdu, raw), _eof_fields, raw, EofPdu)


def _set_attr(name, conv=lambda v: v):
    def f(p, v):
        setattr(p, name, conv(v))
    return f


EOF_SETTERS = {"fault": _set_attr("fault_location", _fault), "cond": _set_attr("condition_code", lambda v: _enum(ConditionCode, v)),
               "size": _set_attr("file_size"), "checksum": _set_attr("file_checksum", unhx)}


def op_eof_set(a):
    p = _eof(a)
    _apply_steps(p, a["steps"], EOF_SETTERS)
    return _after_setter(p, _eof_fields, _eof_check)


# ---- Finished ----
def _fin(a, conf=None) -> FinishedPdu:
    params = FinishedParams(condition_code=_enum(ConditionCode, a["cond"]), delivery_code=_enum(DeliveryCode, a["delivery"]),
                            file_status=_enum(FileStatus, a["status"]),
                            # "responses_none" (ignored by the model op): no responses given as None instead of []
                            file_store_responses=(None if a.get("responses_none") and not a["responses"]
                                                  else [_fsresp(r) for r in a["responses"]]),
                            fault_location=_fault(a["fault"]))
    return FinishedPdu(pdu_conf=_conf(a) if conf is None else conf, params=params)


def _fin_fields(p: FinishedPdu, code=None):
    f = _pdu_common(p, None)
    _need(int(p.packet_len) == f["packet_len"] and int(p.pdu_data_field_len) == f["dlen"],
          "packet_len / pdu_data_field_len of the PDU differ from those of its base")
    _need(_code(DirectiveType, p.directive_type) == 5, "FinishedPdu.directive_type is not FINISHED_PDU")
    prm = p.finished_params
    _need(int(prm.condition_code) == int(p.condition_code) and int(prm.delivery_code) == int(p.delivery_code)
          and int(prm.file_status) == int(p.file_status), "finished_params and the PDU's views disagree")
    f.update(cond=_code(ConditionCode, p.condition_code), delivery=_code(DeliveryCode, p.delivery_code),
             status=_code(FileStatus, p.file_status),
             responses=[_fsresp_fields(r) for r in (p.file_store_responses or [])], fault=_fault_field(p.fault_location),
             might=bool(p.might_have_fault_location), resp_len=int(p.file_store_responses_len))
    if code is not None:
        _need(f["code"] == code, f"directive code {f['code']} != {code}")
    return f


def _fin_norm_dropped_fault(f):
    g = dict(f)
    if not g["might"]:
        g["fault"] = None
    return g


def _fin_check(p, raw: bytes):
    f = _check_octets(p, _fin_fields, raw)
    fl = p.fault_location
    if fl is not None and not p.might_have_fault_location:
        # DESIGN §8: not a valid parameter set for the round trip; the fault location is not packed
        _check_roundtrip(p, FinishedPdu, _fin_fields, raw, f, norm=_fin_norm_dropped_fault, eq=False)
    else:
        # (responses given as None instead of a list: outside the typed parameter set - FinishedParams declares a
        #  List - so `==` with the decoded PDU, which holds [], is not claimed; octets, lengths and values are)
        none_resp = p.finished_params.file_store_responses is None
        _check_roundtrip(p, FinishedPdu, _fin_fields, raw, f, eq=(fl is None or len(fl.value) in ID_WIDTHS) and not none_resp)
    return f


def op_fin_new(a):
    return _built(_fin, a, "FinishedPdu(...)", lambda p: _fin_fields(p, 5))


def op_fin_pack(a):
    def use(p):
        _need(_code(DirectiveType, p.pdu_file_directive.directive_type) == 5 and _code(Direction, p.direction) == 1,
              "Finished PDU constructed with another directive code / direction")
        f = _fin_check(p, pack_stable(p, "FinishedPdu.pack()"))
        f["raw"] = hx(p.pack())
        return f
    return _built(_fin, a, "FinishedPdu(...).pack()", use)


def op_fin_unpack(a):
    raw = unhx(a["raw"])
    return _decoded(unpack_tolerant(FinishedPdu, raw), _fin_fields, raw, FinishedPdu)


FIN_SETTERS = {"fault": _set_attr("fault_location", _fault), "cond": _set_attr("condition_code", lambda v: _enum(ConditionCode, v)),
               "responses": _set_attr("file_store_responses", lambda v: None if v is None else [_fsresp(r) for r in v])}


def op_fin_set(a):
    p = _fin(a)
    _apply_steps(p, a["steps"], FIN_SETTERS)
    return _after_setter(p, _fin_fields, _fin_check)


# ---- Metadata ----
def _opt_name(h: Optional[str]) -> Optional[str]:
    return None if h is None else _name(h)


def _options(v):
    return None if v is None else [_build(h) for h in v]


def _md(a, conf=None) -> MetadataPdu:
    params = MetadataParams(closure_requested=bool(a["closure"]), checksum_type=_enum(ChecksumType, a["ctype"]),
                            file_size=a["size"], source_file_name=_opt_name(a["src"]), dest_file_name=_opt_name(a["dst"]))
    return MetadataPdu(pdu_conf=_conf(a) if conf is None else conf, params=params, options=_options(a["options"]))


def _name_field(get) -> Optional[str]:
    try:
        n = get()
    except ValueError:
        return "!value"
    return None if n is None else hx(n.encode())


def _tlv_value(o) -> Optional[str]:
    try:
        return hx(o.value)
    except ValueError:
        return None


def _md_fields(p: MetadataPdu, code=None):
    f = _pdu_common(p, None)
    _need(int(p.packet_len) == f["packet_len"] and int(p.pdu_data_field_len) == f["dlen"],
          "packet_len / pdu_data_field_len of the PDU differ from those of its base")
    _need(int(p.directive_param_field_len) == f["param_len"], "directive_param_field_len differs from that of the base")
    _need(_code(DirectiveType, p.directive_type) == 7, "MetadataPdu.directive_type is not METADATA_PDU")
    opts = p.options
    f.update(closure=bool(p.closure_requested), ctype=_code(ChecksumType, p.checksum_type), size=int(p.file_size),
             src_name=_name_field(lambda: p.source_file_name), dst_name=_name_field(lambda: p.dest_file_name),
             options=None if opts is None else [{"type": _code(TlvType, o.tlv_type), "packet_len": int(o.packet_len),
                                                 "value": _tlv_value(o)} for o in opts])
    if code is not None:
        _need(f["code"] == code, f"directive code {f['code']} != {code}")
    return f


def _md_norm(f):
    g = dict(f)
    if g["options"] == []:
        g["options"] = None         # an empty option list and no options are the same PDU
    return g


def _md_check(p, raw: bytes):
    f = _check_octets(p, _md_fields, raw)
    _check_roundtrip(p, MetadataPdu, _md_fields, raw, f, norm=_md_norm)
    return f


def op_md_new(a):
    return _built(_md, a, "MetadataPdu(...)", lambda p: _md_fields(p, 7))


def op_md_pack(a):
    def use(p):
        _need(_code(DirectiveType, p.pdu_file_directive.directive_type) == 7 and _code(Direction, p.direction) == 0,
              "Metadata PDU constructed with another directive code / direction")
        f = _md_check(p, pack_stable(p, "MetadataPdu.pack()"))
        f["raw"] = hx(p.pack())
        return f
    return _built(_md, a, "MetadataPdu(...).pack()", use)


def op_md_pack_fails(a):
    r = _built(_md, a, "MetadataPdu(...).pack()", _pack_fails)
    r.pop("_raw", None)
    return r


def op_md_unpack(a):
    raw = unhx(a["raw"])
    return _decoded(unpack_tolerant(MetadataPdu, raw), _md_fields, raw, MetadataPdu)


MD_SETTERS = {"options": _set_attr("options", _options), "src": _set_attr("source_file_name", _opt_name),
              "dst": _set_attr("dest_file_name", _opt_name)}


def op_md_set(a):
    p = _md(a)
    _apply_steps(p, a["steps"], MD_SETTERS)
    return _after_setter(p, _md_fields, _md_check)


OPS = {
    "eof_new": op_eof_new, "eof_pack": op_eof_pack, "eof_pack_fails": op_eof_pack_fails, "eof_unpack": op_eof_unpack,
    "eof_set": op_eof_set, "eof_eq": _eq_op(_eof),
    "fin_new": op_fin_new, "fin_pack": op_fin_pack, "fin_len": op_fin_pack, "fin_unpack": op_fin_unpack,
    "fin_set": op_fin_set, "fin_eq": _eq_op(_fin),
    "md_new": op_md_new, "md_pack": op_md_pack, "md_pack_fails": op_md_pack_fails, "md_unpack": op_md_unpack,
    "md_set": op_md_set, "md_eq": _eq_op(_md),
}


def _encoder_failure_is_refusal(fn):
    """C06 asks of an encoder only that an unencodable parameter set makes pack() FAIL rather than truncate; which
    class it fails with is not stated (C10 is about decoders). struct.error / OverflowError from an encoder op are
    therefore reported like the ValueError the model shows."""
    def wrapped(a):
        try:
            return fn(a)
        except (struct.error, OverflowError) as e:
            raise ValueError(f"(canonicalised encoder failure) {type(e).__name__}: {e}") from e
    return wrapped


for _k in [k for k in OPS if k.endswith(("_pack", "_new", "_set", "_set_segs", "_set_file_flag"))]:
    OPS[_k] = _encoder_failure_is_refusal(OPS[_k])


# --------------------------------------------------------------------------------------------
# independent encoders (CCSDS 727.0-B-5 tables 5-6, 5-7, 5-9, 5-2, 5-3), used to build decoder inputs
# --------------------------------------------------------------------------------------------
def lv(v: bytes) -> bytes:
    return bytes([len(v)]) + v


def tlv(t: int, v: bytes) -> bytes:
    return bytes([t, len(v)]) + v


def spec_resp(r) -> bytes:
    v = bytes([r["status"] & 0xFF]) + lv(unhx(r["first"]))
    if r["action"] in SNP:
        v += lv(unhx(r["second"]))
    return tlv(1, v + lv(unhx(r["msg"])))


def spec_option(h) -> bytes:
    k = h["kind"]
    if k == "generic":
        return tlv(h["type"], unhx(h["value"]))
    if k in ("entity_id", "flow_label", "msg_to_user"):
        return tlv({"entity_id": 6, "flow_label": 5, "msg_to_user": 2}[k], unhx(h["value"]))
    if k == "fault_handler":
        return tlv(4, bytes([h["cc"] << 4 | h["hc"]]))
    if k == "fs_request":
        v = bytes([h["action"] << 4]) + lv(unhx(h["first"]))
        if h["action"] in SNP:
            v += lv(unhx(h["second"]))
        return tlv(0, v)
    return spec_resp(h)


def eof_params(a, cond, checksum: bytes, size, fault: Optional[bytes]) -> bytes:
    return bytes([cond << 4]) + checksum + fss(a, size) + (tlv(6, fault) if fault is not None else b"")


def spec_eof(a, cond, checksum, size, fault) -> bytes:
    return spec_pdu(a, 0, 4, eof_params(a, cond, checksum, size, fault))


def fin_params(cond, dc, fs, responses, fault: Optional[bytes]) -> bytes:
    return (bytes([cond << 4 | dc << 2 | fs]) + b"".join(spec_resp(r) for r in responses)
            + (tlv(6, fault) if fault is not None else b""))


def spec_fin(a, cond, dc, fs, responses, fault) -> bytes:
    return spec_pdu(a, 1, 5, fin_params(cond, dc, fs, responses, fault))


def md_params(a, closure, ctype, size, src: bytes, dst: bytes, options) -> bytes:
    return (bytes([int(closure) << 6 | ctype]) + fss(a, size) + lv(src) + lv(dst)
            + b"".join(spec_option(h) for h in (options or [])))


def spec_md(a, closure, ctype, size, src, dst, options) -> bytes:
    return spec_pdu(a, 0, 7, md_params(a, closure, ctype, size, src, dst, options))


# --------------------------------------------------------------------------------------------
# generators
# --------------------------------------------------------------------------------------------
def rand_checksum(rng) -> bytes:
    return bytes(rng.sample(range(1, 256), 4)) if rng.random() < 0.7 else rng.choice([bytes(4), b"\xff" * 4, rbytes(rng, 4)])


def rand_fault(rng, w=None) -> bytes:
    w = rng.choice(ID_WIDTHS) if w is None else w
    return bytes(rng.sample(range(1, 256), w)) if w <= 8 and rng.random() < 0.7 else rbytes(rng, w)


def rand_name(rng) -> bytes:
    r = rng.random()
    if r < 0.25:
        return rng.choice(UTF8_GOOD)
    if r < 0.3:
        return b""
    return rand_utf8(rng, rng.choice([5, 20, 60, 255]))


def name_exact(rng, n: int) -> bytes:
    """a UTF-8 name of exactly n octets with non-ASCII characters"""
    out = rand_utf8(rng, n)
    return out + b"x" * (n - len(out))


def rand_resp(rng, small=True) -> Dict[str, Any]:
    st = rng.choice(STATUS_NAT)
    action = st >> 4
    m = 12 if small else 60
    return {"action": action, "status": st, "first": hx(rand_utf8(rng, m)),
            "second": hx(rand_utf8(rng, m)) if action in SNP else "", "msg": hx(rbytes(rng, rng.randint(0, m)))}


def resp_of_len(rng, total: int) -> Dict[str, Any]:
    """a filestore response (CREATE_FILE / success) whose TLV has exactly `total` octets (5 <= total <= 257)"""
    body = total - 2 - 1 - 1 - 1      # TLV header, status octet, first-name length, message length
    first = body // 2
    return {"action": 0, "status": 0, "first": hx(name_exact(rng, first)), "second": "", "msg": hx(rbytes(rng, body - first))}


# entity-ID TLV *objects* are not Metadata options (727.0-B-5 table 5-9 lists filestore requests, messages to user,
# fault-handler overrides and flow labels): EntityIdTlv.__eq__ is False against the generic TLV the decoder yields
OPTION_KINDS = ["generic", "flow_label", "msg_to_user", "fault_handler", "fs_request", "fs_response"]


def rand_option(rng, kind=None) -> Dict[str, Any]:
    kind = kind or rng.choice(OPTION_KINDS)
    if kind == "generic":
        return {"kind": "generic", "type": rng.choice([0, 1, 2, 4, 5, 6]), "value": hx(rbytes(rng, rng.choice([0, 1, 2, 9, 40])))}
    if kind == "fs_response":
        return {"kind": kind, **rand_resp(rng)}
    h = held_concrete(kind, rng)
    if kind == "fs_request" and h["action"] not in SNP:
        h["second"] = ""
    return h


def rand_options(rng, n: int):
    return [rand_option(rng) for _ in range(n)]


def var_suffixes(rng) -> List[bytes]:
    st = rand_resp(rng)
    return [rbytes(rng, 1), TLV_SUFFIX, tlv(6, rbytes(rng, 2)), spec_resp(st), tlv(2, b""), bytes([6, 0]),
            rbytes(rng, rng.randint(2, 40))]


def dec_cases(op: str, raw: bytes, rng, a, tag: str, full: bool) -> Iterator[Case]:
    """a valid PDU built by the independent encoder: alone, followed by other octets (random, TLV-shaped, a second
    PDU), and (full) every truncation, substitutions in length / code octets, single-bit flips, CRC variants"""
    yield Case({"op": op, "raw": hx(raw)}, "valid", tag=tag)
    sfx = var_suffixes(rng) + [raw]
    for s in (sfx if full else [rng.choice(sfx)]):
        yield Case({"op": op, "raw": hx(raw + s)}, "valid", tag=tag + "+suffix")
    if not full:
        return
    hl = 4 + 2 * a["src_w"] + a["seq_w"]
    # every position of a short PDU; of a long one the header, the start of the parameters, the end and a sample
    positions = list(range(len(raw))) if len(raw) <= 120 else sorted(
        set(range(hl + 24)) | set(range(len(raw) - 24, len(raw))) | set(rng.sample(range(len(raw)), 40)))
    for cut in positions:
        yield Case({"op": op, "raw": hx(raw[:cut])}, "invalid", tag=tag + "-truncation")
    for pos in (1, 2, hl, hl + 1):
        if pos >= len(raw):
            continue
        for v in {0, 1, 0x7F, 0x80, 0xFF, (raw[pos] + 1) & 0xFF, (raw[pos] - 1) & 0xFF, (raw[pos] + 2) & 0xFF,
                  (raw[pos] - 2) & 0xFF, 4, 5, 7}:
            if v == raw[pos]:
                continue
            b = bytearray(raw)
            b[pos] = v
            yield Case({"op": op, "raw": hx(bytes(b) + rng.choice([b"", b"", TLV_SUFFIX]))}, "any", tag=tag + "-substitution")
    for pos in positions:
        b = bytearray(raw)
        b[pos] ^= 1 << rng.randint(0, 7)
        if a["crc"] and pos >= 4:
            yield Case({"op": op, "raw": hx(bytes(b))}, "invalid", tag=tag + "-bitflip-crc")
        else:
            yield Case({"op": op, "raw": hx(bytes(b))}, "any", tag=tag + "-bitflip")
    if a["crc"]:
        yield Case({"op": op, "raw": hx(with_crc(raw[:-2] + rbytes(rng, 3)))}, "any", tag=tag + "-crc-over-buffer")
        yield Case({"op": op, "raw": hx(raw[:-2])}, "invalid", tag=tag + "-no-trailer")


def trailer_hunt(build: Callable[[int], bytes], target: int, budget: int) -> Optional[bytes]:
    """a CRC-flagged PDU whose CRC trailer equals `target` (e.g. 0x0600 = an empty entity-ID TLV): a decoder that
    folds the trailer into the TLV area decodes something else. `build(i)` gives the PDU without trailer."""
    for i in range(budget):
        body = build(i)
        if CRC16_CCITT_FUNC(body) == target:
            return with_crc(body)
    return None


def refit_trailer(raw: bytes, target: int) -> bytes:
    """the CRC-flagged PDU `raw` (complete, trailer included) with the last two octets of its entity-ID / sequence-number
    area chosen so that its CRC-16 trailer is `target` (solved, not searched: exactly one value does it). Any value is
    valid there, so the result is a valid PDU of the same kind, configuration and parameters."""
    from props.c02 import crc_ccitt, fit_bits
    hl = 4 + 2 * (((raw[3] >> 4) & 7) + 1) + ((raw[3] & 7) + 1)
    body = bytearray(raw[:-2])

    def f(v):
        body[hl - 2], body[hl - 1] = v >> 8, v & 0xFF
        return crc_ccitt(body)
    f(fit_bits(f, 16, target))
    return bytes(body) + target.to_bytes(2, "big")


def trailer_tlv_cases(op: str, raw: bytes, rng, types: List[int], tag: str, n: int = 2) -> Iterator[Case]:
    """`raw`: a valid CRC-flagged PDU of the independent encoder. Its trailer is made to read as the header of a TLV
    (type T, length L) and the PDU is followed by octets that complete that "TLV" and by long continuations: decoded
    as the PDU alone (or refused — the ops answer a documented refusal by decoding the PDU alone)"""
    for _ in range(n):
        t = rng.choice(types)
        ln = rng.choice([0, 0, 0, 1, 2, 4, 8, rng.randint(1, 40)])
        fitted = refit_trailer(raw, t << 8 | ln)
        yield Case({"op": op, "raw": hx(fitted)}, "valid", tag=tag)
        sfxs = [rbytes(rng, ln), rbytes(rng, ln + 2), rbytes(rng, ln) + TLV_SUFFIX, rbytes(rng, 300), bytes(2), fitted]
        for sfx in rng.sample(sfxs, 3):
            yield Case({"op": op, "raw": hx(fitted + sfx)}, "valid", tag=tag + "+suffix")


def eq_variants(x: Dict[str, Any], rng, keys: List[str], mutate: Callable[[Dict[str, Any], str], Optional[Dict[str, Any]]],
                op: str) -> Iterator[Case]:
    yield Case({"op": op, "a": x, "b": dict(x)}, "valid", tag="eq-same")
    for key in keys:
        y = mutate(dict(x), key)
        if isinstance(y, tuple):
            yield Case({"op": op, "a": y[1], "b": y[2]}, "valid", tag="eq-" + key)
        elif y is not None:
            yield Case({"op": op, "a": x, "b": y}, "valid", tag="eq-" + key)


def mutate_conf(y, key, rng) -> bool:
    if key in ("crc", "large", "mode", "dir", "segctrl"):
        y[key] ^= 1
        return True
    if key in ("src_v", "dst_v", "seq_v"):
        y[key] = (y[key] + 1) % (vmax(y[key[:3] + "_w"]) + 1)
        return True
    return False


class C06Var(Prop):
    id = "C06"
    title = "EOF, Finished, Metadata"
    lean_modules = ["SpVerif.Props.C06Var"]
    exhaustive_note = ("part var: for each of EOF / Finished / Metadata all 512 header configurations (CRC x large file x "
                       "16 width combinations x mode x caller's direction x segmentation control) through pack and through "
                       "unpack (inputs built by an independent encoder); every ConditionCode member for EOF and every "
                       "(ConditionCode x DeliveryCode x FileStatus) triple for Finished with and without fault location; "
                       "every (closure x ChecksumType) pair; all 256 values of the first parameter octet of each kind, of "
                       "the directive-code octet and of the first TLV-type octet through the decoders")
    trusted_base = [
        "arithmetic normal form of the first parameter octet (cond*16, cond*16+dc*4+fs, closure*64+ctype) vs shifts/ors of the code: tied by the exhaustive 256-value sweeps through the decoders and the exhaustive enum-member sweeps through pack",
        "str.encode()/bytes.decode() (UTF-8) of file names: modelled by the octets and the RFC 3629 predicate of the C08 model, tied differentially",
        "the finished C05 header model, the C08 TLV / LV models and the file-directive base model of part 'fixed' are reused unchanged",
    ]
    assumptions = [
        "enum-typed constructor arguments are members of their IntEnums (ConditionCode incl. NO_CONDITION_FIELD=-1, DeliveryCode, FileStatus, ChecksumType); closure_requested is a bool; file_size is a Python int (negative and oversized values are modelled)",
        "FinishedParams.file_store_responses is a list of FileStoreResponseTlv (the dataclass annotation; None is only accepted by the setter), fault locations are EntityIdTlv objects, Metadata options are TLV objects of the seven library classes",
        "EofPdu.condition_code / file_checksum / file_size are plain attributes: assignments are modelled as field updates (a checksum that is not 4 octets long after assignment is outside the domain)",
        "== between two entity-ID TLVs whose width is not 1, 2, 4 or 8 raises ValueError (UnsignedByteField): such fault locations are packed / decoded / re-packed but not compared with ==",
    ]

    def impl_ops(self):
        return OPS

    def table_sync(self):
        d = []
        if sorted(int(x) for x in ChecksumType) != CHECKSUM_TYPES:
            d.append(f"ChecksumType members {sorted(int(x) for x in ChecksumType)}")
        if sorted(int(x) for x in DeliveryCode) != [0, 1]:
            d.append("DeliveryCode members")
        if sorted(int(x) for x in FileStatus) != [0, 1, 2, 3]:
            d.append("FileStatus members")
        if sorted(int(x) for x in ConditionCode) != [-1] + COND_MEMBERS:
            d.append("ConditionCode members")
        if [int(ConditionCode.NO_ERROR), int(ConditionCode.UNSUPPORTED_CHECKSUM_TYPE)] != NO_FAULT_CONDS:
            d.append("NO_ERROR / UNSUPPORTED_CHECKSUM_TYPE values")
        if (int(DirectiveType.EOF_PDU), int(DirectiveType.FINISHED_PDU), int(DirectiveType.METADATA_PDU)) != (4, 5, 7):
            d.append("directive codes of EOF / Finished / Metadata")
        if (int(TlvType.FILESTORE_RESPONSE), int(TlvType.ENTITY_ID)) != (1, 6):
            d.append("TlvType.FILESTORE_RESPONSE / ENTITY_ID")
        # every member the ops use BY NAME against the tables of the standard (a swap leaves the set of values intact)
        d += core.std_table_diffs((ChecksumType, DeliveryCode, FileStatus, ConditionCode, DirectiveType, TlvType, Direction))
        return d

    def nontrivial(self, c: Case) -> bool:
        o = c.op
        if isinstance(o.get("raw"), str):
            return o["raw"].strip("0") != ""
        return any(v not in (0, None, False, "", []) for k, v in o.items() if k != "op")

    def neighbours(self, c: Case, rng: random.Random) -> Iterator[Case]:
        o = c.op
        if isinstance(o.get("raw"), str) and "src_w" not in o:
            raw = unhx(o["raw"])
            for k in range(len(raw)):
                yield Case({"op": o["op"], "raw": hx(raw[:k])}, "any", tag="nb-truncation")
            for pos in range(min(len(raw), 400)):
                b = bytearray(raw)
                b[pos] ^= 1 << rng.randint(0, 7)
                yield Case({"op": o["op"], "raw": hx(bytes(b))}, "any", tag="nb-bitflip")
        elif all(k in o for k in CONF_KEYS) and o["op"] in ("eof_pack", "fin_pack", "md_pack"):
            params = {k: v for k, v in o.items() if k not in CONF_KEYS and k != "op"}
            for a in all_confs(rng):
                if o["op"] != "fin_pack" and a["large"] != o["large"]:
                    continue
                yield Case({"op": o["op"], **a, **params}, "valid", tag="nb-config")

    # ----------------------------------------------------------------------------------------
    def cases(self, rng: random.Random, tier: str) -> Iterator[Case]:
        thorough = tier == "thorough"
        yield from self.eof_cases(rng, thorough)
        yield from self.fin_cases(rng, thorough)
        yield from self.md_cases(rng, thorough)
        yield from self.random_octets(rng, thorough)
        yield from self.leak_cases(rng, thorough)
        yield from factory_twin_cases(rng, tier)          # appended block at the end of the file (hardening I)

    # ---- state leaking between calls / objects ----
    def leak_cases(self, rng, thorough):
        """as in part 'fixed': one configuration (one PduConfig instance in the ops) through the three constructors back
        to back, then the configuration that differs in every field, then the first again; the decoders on inputs of the
        independent encoder in the same order (the ops look again at the objects decoded by the previous calls)"""
        for i in range(600 if thorough else 30):
            a = rand_conf(rng)
            b = contrast_conf(a)
            for c in (a, b, a):
                cond = rng.choice(COND_MEMBERS)
                fault = None if cond in NO_FAULT_CONDS else rand_fault(rng)
                fh = None if fault is None else hx(fault)
                cs, size = rand_checksum(rng), fss_val(rng, c["large"])
                yield Case({"op": "eof_pack", **c, "checksum": hx(cs), "size": size, "fault": fh, "cond": cond}, "valid",
                           tag="shared-config")
                rs = [rand_resp(rng) for _ in range(i % 3)]
                dc, fs = rng.randint(0, 1), rng.randint(0, 3)
                yield Case({"op": "fin_pack", **c, "cond": cond, "delivery": dc, "status": fs, "responses": rs, "fault": fh},
                           "valid", tag="shared-config")
                src, dst, opts = rand_name(rng), rand_name(rng), rng.choice([None, rand_options(rng, 1 + i % 2)])
                closure, ctype = bool(i % 2), rng.choice(CHECKSUM_TYPES)
                yield Case({"op": "md_pack", **c, "closure": closure, "ctype": ctype, "size": size, "src": hx(src),
                            "dst": hx(dst), "options": opts}, "valid", tag="shared-config")
                yield Case({"op": "eof_new", **c, "checksum": hx(cs), "size": size, "fault": fh, "cond": cond}, "valid",
                           tag="shared-config")
            for c in (a, b, a):
                cond = rng.choice(COND_MEMBERS)
                fault = None if cond in NO_FAULT_CONDS else rand_fault(rng)
                size = fss_val(rng, c["large"])
                yield from dec_cases("eof_unpack", spec_eof(c, cond, rand_checksum(rng), size, fault), rng, c,
                                     "isolation-pair", False)
                rs = [rand_resp(rng) for _ in range(1 + i % 2)]
                yield from dec_cases("fin_unpack", spec_fin(c, cond, rng.randint(0, 1), rng.randint(0, 3), rs, fault), rng, c,
                                     "isolation-pair", False)
                opts = rng.choice([None, rand_options(rng, 2)])
                yield from dec_cases("md_unpack", spec_md(c, bool(i % 2), rng.choice(CHECKSUM_TYPES), size, rand_name(rng),
                                                          rand_name(rng), opts), rng, c, "isolation-pair", False)

    # ---- EOF ----
    def eof_cases(self, rng, thorough):
        k = 0
        for rep in range(20 if thorough else 2):
            for a in all_confs(rng):
                k += 1
                cond = COND_MEMBERS[k % len(COND_MEMBERS)]
                cs, size = rand_checksum(rng), fss_val(rng, a["large"])
                fault = None if k % 5 == 0 else rand_fault(rng, ID_WIDTHS[k % 4])
                p = {"checksum": hx(cs), "size": size, "fault": None if fault is None else hx(fault), "cond": cond}
                yield Case({"op": "eof_pack", **a, **p}, "valid", tag="config-all")
                yield from dec_cases("eof_unpack", spec_eof(a, cond, cs, size, fault), rng, a, "config-all", k % 32 == 0)
        # every condition code, with and without fault location; NO_CONDITION_FIELD (-1) cannot be packed
        for rep in range(10 if thorough else 2):
            for cond in COND_MEMBERS:
                for fault in (None, rand_fault(rng)):
                    a = rand_conf(rng)
                    cs, size = rand_checksum(rng), fss_val(rng, a["large"])
                    p = {"checksum": hx(cs), "size": size, "fault": None if fault is None else hx(fault), "cond": cond}
                    yield Case({"op": "eof_pack", **a, **p}, "valid", tag="enum-all")
                    yield Case({"op": "eof_unpack", "raw": hx(spec_eof(a, cond, cs, size, fault) + rbytes(rng, rep % 2))},
                               "valid", tag="enum-all")
        for fault in (None, "01"):
            a = rand_conf(rng)
            p = {"checksum": "01020304", "size": 7, "fault": fault, "cond": -1}
            yield Case({"op": "eof_new", **a, **p}, "valid", tag="no-condition-field")
            yield Case({"op": "eof_pack", **a, **p}, "invalid", errclass=True, tag="no-condition-field")
        # file size over the full range of the selected width; values that do not fit make pack fail
        for large in (0, 1):
            for v in fss_pool(rng, large):
                for crc in (0, 1):
                    a = rand_conf(rng, large=large, crc=crc)
                    cs = rand_checksum(rng)
                    fault = rng.choice([None, rand_fault(rng)])
                    cond = rng.choice(COND_MEMBERS)
                    yield Case({"op": "eof_pack", **a, "checksum": hx(cs), "size": v,
                                "fault": None if fault is None else hx(fault), "cond": cond}, "valid", tag="size-boundary")
                    yield Case({"op": "eof_unpack", "raw": hx(spec_eof(a, cond, cs, v, fault) + rbytes(rng, crc))}, "valid",
                               tag="size-boundary")
            for v in fss_bad(rng, large):
                for crc in (0, 1):
                    a = rand_conf(rng, large=large, crc=crc)
                    yield Case({"op": "eof_pack_fails", **a, "checksum": hx(rand_checksum(rng)), "size": v,
                                "fault": rng.choice([None, "0a0b"]), "cond": rng.choice(COND_MEMBERS)}, "valid",
                               tag="fss-overflow")
            a = rand_conf(rng, large=large)
            yield Case({"op": "eof_pack_fails", **a, "checksum": "00000000", "size": rng.randint(0, U32), "fault": None,
                        "cond": 0}, "valid", tag="fss-fits")
            # a 64-bit size assigned to a 32-bit PDU afterwards: pack must fail, not truncate
            a = rand_conf(rng, large=0)
            yield Case({"op": "eof_set", **a, "checksum": "01020304", "size": 1, "fault": None, "cond": 0,
                        "steps": [["size", U32 + 1 + rng.randint(0, 1 << 30)]]}, "valid", tag="set-size-overflow")
        # checksum must be 4 octets
        for n in (0, 1, 3, 5, 8):
            a = rand_conf(rng)
            yield Case({"op": "eof_new", **a, "checksum": hx(rbytes(rng, n)), "size": 0, "fault": None, "cond": 0},
                       "invalid", errclass=True, tag="checksum-length")
        # fault location entity IDs of every width a TLV can carry
        for w in [0, 1, 2, 3, 4, 5, 6, 7, 8, 9, 16, 100, 254, 255]:
            for crc in (0, 1):
                a = rand_conf(rng, crc=crc)
                cs, size, cond, fault = rand_checksum(rng), fss_val(rng, a["large"]), rng.choice(COND_MEMBERS), rand_fault(rng, w)
                yield Case({"op": "eof_pack", **a, "checksum": hx(cs), "size": size, "fault": hx(fault), "cond": cond},
                           "valid", tag="fault-width")
                yield Case({"op": "eof_unpack", "raw": hx(spec_eof(a, cond, cs, size, fault) + TLV_SUFFIX * crc)}, "valid",
                           tag="fault-width")
        a = rand_conf(rng)
        yield Case({"op": "eof_new", **a, "checksum": "00000000", "size": 0, "fault": hx(rbytes(rng, 256)), "cond": 4},
                   "invalid", errclass=True, tag="fault-too-long")
        yield from bad_conf_cases("eof_pack", {"checksum": "01020304", "size": 5, "fault": None, "cond": 0}, rng)
        # every value of the first parameter octet through the decoder (the nibble is stored raw)
        for v in range(256):
            a = rand_conf(rng)
            fault = rng.choice([None, rand_fault(rng)])
            params = bytearray(eof_params(a, 0, rand_checksum(rng), fss_val(rng, a["large"]), fault))
            params[0] = v
            conformant = v & 0x0F == 0 and v >> 4 in COND_MEMBERS
            yield Case({"op": "eof_unpack", "raw": hx(spec_pdu(a, 0, 4, bytes(params)) + rbytes(rng, v % 2))},
                       "valid" if conformant else "any", tag="octet0-sweep")
        # every directive-code octet (the decoder does not look at it)
        for v in range(256):
            a = rand_conf(rng)
            raw = spec_pdu(a, 0, v, eof_params(a, 5, rand_checksum(rng), 9, None))
            yield Case({"op": "eof_unpack", "raw": hx(raw)}, "valid" if v == 4 else "any", tag="directive-code-sweep")
        # parameter field shorter than the fixed part / followed by something that is not an entity-ID TLV
        for large in (0, 1):
            w = 8 if large else 4
            for plen in sorted({0, 1, 4, 5, 8, 9, 10, 12, 13, 14, 5 + w - 1, 5 + w, 5 + w + 1, 5 + w + 2, 5 + w + 3, 30}):
                for crc in (0, 1):
                    a = rand_conf(rng, large=large, crc=crc)
                    raw = spec_pdu(a, 0, 4, rbytes(rng, plen))
                    yield Case({"op": "eof_unpack", "raw": hx(raw + rbytes(rng, 4))},
                               "invalid" if plen < 5 + w else ("valid" if plen == 5 + w else "any"), errclass=plen < 5 + w,
                               tag="param-field-length")
            for t in (0, 1, 2, 3, 4, 5, 6, 7, 255):
                for tail in (b"", b"\x00", rbytes(rng, 3)):
                    a = rand_conf(rng, large=large)
                    fixed = eof_params(a, 4, rand_checksum(rng), 77, None)
                    raw = spec_pdu(a, 0, 4, fixed + tlv(t, rbytes(rng, 2)) + tail)
                    yield Case({"op": "eof_unpack", "raw": hx(raw)}, "valid" if (t == 6 and not tail) else "any",
                               tag="tlv-type-sweep")
            for cutlen in (1, 2, 3):
                a = rand_conf(rng, large=large)
                raw = spec_pdu(a, 0, 4, eof_params(a, 4, rand_checksum(rng), 77, None) + tlv(6, rbytes(rng, 4))[:cutlen])
                yield Case({"op": "eof_unpack", "raw": hx(raw)}, "invalid", errclass=True, tag="fault-tlv-cut")
        # a CRC trailer that reads as an (empty) entity-ID TLV must not become a fault location
        for target in ([0x0600, 0x0601] if thorough else [0x0600]):
            a = rand_conf(rng, crc=1)
            size = fss_val(rng, a["large"])
            dlen = 1 + len(eof_params(a, 4, bytes(4), size, None)) + 2
            head = spec_hdr(a, dlen, 0) + bytes([4])
            raw = trailer_hunt(lambda i: head + eof_params(a, 4, i.to_bytes(4, "big"), size, None), target, 400000)
            if raw is not None:
                yield Case({"op": "eof_unpack", "raw": hx(raw)}, "valid", tag="trailer-looks-like-tlv")
                yield Case({"op": "eof_unpack", "raw": hx(raw + TLV_SUFFIX)}, "valid", tag="trailer-looks-like-tlv")
        for _ in range(40 if thorough else 6):
            a = rand_conf(rng, crc=1)
            cond = rng.choice(COND_MEMBERS)
            fault = rng.choice([None, None, rand_fault(rng)])
            raw = spec_eof(a, cond, rand_checksum(rng), fss_val(rng, a["large"]), fault)
            yield from trailer_tlv_cases("eof_unpack", raw, rng, [6, 6, 6, 1, 2], "trailer-fitted-tlv")
        # setters
        for _ in range(300 if thorough else 60):
            a = rand_conf(rng)
            base = {"checksum": hx(rand_checksum(rng)), "size": fss_val(rng, a["large"]),
                    "fault": rng.choice([None, hx(rand_fault(rng))]), "cond": rng.choice(COND_MEMBERS)}
            steps = []
            for _ in range(rng.randint(1, 4)):
                s = rng.choice(["fault", "cond", "size", "checksum"])
                steps.append([s, {"fault": rng.choice([None, hx(rand_fault(rng))]), "cond": rng.choice(COND_MEMBERS),
                                  "size": fss_val(rng, a["large"]), "checksum": hx(rand_checksum(rng))}[s]])
            yield Case({"op": "eof_set", **a, **base, "steps": steps}, "valid", tag="setters")
        # __eq__
        for _ in range(200 if thorough else 40):
            a = rand_conf(rng)
            x = {**a, "checksum": hx(rand_checksum(rng)), "size": fss_val(rng, a["large"]),
                 "fault": rng.choice([None, hx(rand_fault(rng))]), "cond": rng.choice(COND_MEMBERS)}

            def mut(y, key):
                if mutate_conf(y, key, rng):
                    return y
                if key == "checksum":
                    b = bytearray(unhx(y["checksum"]))
                    b[rng.randrange(4)] ^= 1 << rng.randint(0, 7)
                    y["checksum"] = hx(b)
                elif key == "size":
                    y["size"] ^= 1 << rng.randint(0, 31)
                elif key == "cond":
                    y["cond"] = rng.choice([c for c in COND_MEMBERS if c != y["cond"]])
                elif key == "fault":
                    y["fault"] = None if y["fault"] is not None else hx(rand_fault(rng))
                elif key == "fault-value":
                    if y["fault"] is None:
                        return None
                    b = bytearray(unhx(y["fault"]))
                    b[-1] ^= 1
                    y["fault"] = hx(b)
                elif key == "fault-width":
                    # same numerical value in another width compares equal
                    if y["fault"] is None or len(y["fault"]) // 2 == 8:
                        return None
                    y["fault"] = "00" * (len(y["fault"]) // 2) + y["fault"]
                return y
            yield from eq_variants(x, rng, ["checksum", "size", "cond", "fault", "fault-value", "fault-width", "crc", "large",
                                            "src_v", "dst_v", "seq_v", "mode"], mut, "eof_eq")
        a = rand_conf(rng)
        x = {**a, "checksum": "01020304", "size": 1, "fault": "010203", "cond": 4}
        yield Case({"op": "eof_eq", "a": x, "b": dict(x)}, "any", tag="eq-fault-width-3")

    # ---- Finished ----
    def fin_cases(self, rng, thorough):
        counts = [0, 0, 1, 2, 3, 6]
        k = 0
        for rep in range(20 if thorough else 2):
            for a in all_confs(rng):
                k += 1
                cond = COND_MEMBERS[k % len(COND_MEMBERS)]
                dc, fs = (k // 13) % 2, (k // 26) % 4
                rs = [rand_resp(rng) for _ in range(counts[k % len(counts)])]
                fault = None if (cond in NO_FAULT_CONDS or k % 3 == 0) else rand_fault(rng, ID_WIDTHS[k % 4])
                p = {"cond": cond, "delivery": dc, "status": fs, "responses": rs, "fault": None if fault is None else hx(fault)}
                yield Case({"op": "fin_pack", **a, **p}, "valid", tag="config-all")
                if not rs:
                    # the same PDU with "no filestore responses" given as None (FinishedParams allows it): same octets, same lengths
                    yield Case({"op": "fin_pack", **a, **p, "responses_none": True}, "valid", tag="config-all-none")
                yield from dec_cases("fin_unpack", spec_fin(a, cond, dc, fs, rs, fault), rng, a, "config-all", k % 32 == 0)
        # every (condition code x delivery code x file status), with / without fault location
        for rep in range(5 if thorough else 1):
            for cond in COND_MEMBERS:
                for dc in (0, 1):
                    for fs in range(4):
                        for with_fault in (False, True):
                            if with_fault and cond in NO_FAULT_CONDS:
                                continue
                            a = rand_conf(rng)
                            rs = [rand_resp(rng) for _ in range(rng.choice([0, 1, 2]))]
                            fault = rand_fault(rng) if with_fault else None
                            p = {"cond": cond, "delivery": dc, "status": fs, "responses": rs,
                                 "fault": None if fault is None else hx(fault)}
                            yield Case({"op": "fin_pack", **a, **p}, "valid", tag="enum-all")
                            yield Case({"op": "fin_unpack", "raw": hx(spec_fin(a, cond, dc, fs, rs, fault) + rbytes(rng, fs % 2))},
                                       "valid", tag="enum-all")
        # DESIGN §8: a fault location with a condition code that has none is not packed; the length clauses still hold
        for cond in NO_FAULT_CONDS:
            for crc in (0, 1):
                for n in (0, 2):
                    a = rand_conf(rng, crc=crc)
                    p = {"cond": cond, "delivery": rng.randint(0, 1), "status": rng.randint(0, 3),
                         "responses": [rand_resp(rng) for _ in range(n)], "fault": hx(rand_fault(rng))}
                    yield Case({"op": "fin_len", **a, **p}, "valid", tag="fault-with-no-error")
                    yield Case({"op": "fin_set", **a, **dict(p, cond=4), "steps": [["cond", cond]]}, "valid",
                               tag="fault-with-no-error")
                    yield Case({"op": "fin_set", **a, **dict(p, fault=None), "steps": [["fault", hx(rand_fault(rng))]]}, "valid",
                               tag="fault-with-no-error")
        for fault in (None, "01"):
            a = rand_conf(rng)
            p = {"cond": -1, "delivery": 0, "status": 2, "responses": [], "fault": fault}
            yield Case({"op": "fin_new", **a, **p}, "valid", tag="no-condition-field")
            yield Case({"op": "fin_pack", **a, **p}, "invalid", errclass=True, tag="no-condition-field")
        # fault location entity IDs of every width a TLV can carry
        for w in [0, 1, 2, 3, 4, 5, 7, 8, 9, 100, 255]:
            for crc in (0, 1):
                a = rand_conf(rng, crc=crc)
                cond = rng.choice([c for c in COND_MEMBERS if c not in NO_FAULT_CONDS])
                rs = [rand_resp(rng) for _ in range(rng.choice([0, 1]))]
                fault = rand_fault(rng, w)
                yield Case({"op": "fin_pack", **a, "cond": cond, "delivery": 1, "status": 1, "responses": rs, "fault": hx(fault)},
                           "valid", tag="fault-width")
                yield Case({"op": "fin_unpack", "raw": hx(spec_fin(a, cond, 1, 1, rs, fault) + TLV_SUFFIX * crc)}, "valid",
                           tag="fault-width")
        # as many filestore responses as the 16-bit data-field length allows, and one octet more
        for crc in ((0, 1) if thorough else (rng.randint(0, 1),)):
            a = rand_conf(rng, crc=crc)
            room = 65535 - 2 - 2 * crc
            rs = [resp_of_len(rng, 257) for _ in range(room // 257)]
            rest = room - 257 * len(rs)
            if rest >= 5:
                rs.append(resp_of_len(rng, rest))
            p = {"cond": 0, "delivery": 0, "status": 2, "fault": None}
            yield Case({"op": "fin_pack", **a, **p, "responses": rs}, "valid", tag="max-responses")
            yield Case({"op": "fin_unpack", "raw": hx(spec_fin(a, 0, 0, 2, rs, None))}, "valid", tag="max-responses")
            yield Case({"op": "fin_new", **a, **p, "responses": rs[:-1] + [resp_of_len(rng, rest + 1)]}, "invalid", errclass=True,
                       tag="too-many-responses")
            yield Case({"op": "fin_set", **a, **p, "responses": [], "steps": [["responses", rs + [resp_of_len(rng, 5)]]]},
                       "invalid", errclass=True, tag="too-many-responses")
        yield from bad_conf_cases("fin_pack", {"cond": 0, "delivery": 0, "status": 2, "responses": [], "fault": None}, rng)
        # every value of the first parameter octet through the decoder
        for v in range(256):
            a = rand_conf(rng)
            cond = v >> 4
            rs = [rand_resp(rng) for _ in range(v % 3)]
            fault = rand_fault(rng) if (cond not in NO_FAULT_CONDS and v % 2) else None
            params = bytearray(fin_params(0, 0, 0, rs, fault))
            params[0] = v
            raw = spec_pdu(a, 1, 5, bytes(params))
            if cond not in COND_MEMBERS:
                yield Case({"op": "fin_unpack", "raw": hx(raw)}, "invalid", errclass=True, tag="octet0-sweep")
            else:
                yield Case({"op": "fin_unpack", "raw": hx(raw + rbytes(rng, v % 2))}, "any" if v & 8 else "valid", tag="octet0-sweep")
        for v in range(256):
            a = rand_conf(rng)
            raw = spec_pdu(a, 1, v, fin_params(4, 1, 2, [rand_resp(rng)], b"\x01\x02"))
            yield Case({"op": "fin_unpack", "raw": hx(raw)}, "valid" if v == 5 else "any", tag="directive-code-sweep")
        # every TLV type octet at the start and after a response; entity ID where none may be; cut TLVs
        for v in range(256):
            a = rand_conf(rng)
            first = tlv(v, rbytes(rng, v % 4)) if v not in (1,) else spec_resp(rand_resp(rng))
            body = first if v % 2 else spec_resp(rand_resp(rng)) + first
            raw = spec_pdu(a, 1, 5, bytes([0x46]) + body)
            ok = v in (1, 6)
            yield Case({"op": "fin_unpack", "raw": hx(raw)}, "valid" if ok else "invalid", errclass=not ok, tag="tlv-type-sweep")
        for cond in NO_FAULT_CONDS:
            a = rand_conf(rng)
            raw = spec_pdu(a, 1, 5, fin_params(cond, 0, 2, [rand_resp(rng)], b"\x07"))
            yield Case({"op": "fin_unpack", "raw": hx(raw)}, "invalid", errclass=True, tag="entity-id-with-no-error")
        for crc in (0, 1):
            a = rand_conf(rng, crc=crc)
            r = rand_resp(rng)
            full = fin_params(4, 0, 1, [r, rand_resp(rng)], b"\x01\x02\x03\x04")
            for cut in range(1, len(full)):
                yield Case({"op": "fin_unpack", "raw": hx(spec_pdu(a, 1, 5, full[:cut]) + TLV_SUFFIX)}, "any", tag="tlv-area-cut")
            # two entity IDs (the last one wins), entity ID before a response, a response with slack inside its TLV
            yield Case({"op": "fin_unpack", "raw": hx(spec_pdu(a, 1, 5, bytes([0x45]) + tlv(6, b"\x01") + tlv(6, b"\x02\x03")))},
                       "any", tag="two-entity-ids")
            yield Case({"op": "fin_unpack", "raw": hx(spec_pdu(a, 1, 5, bytes([0x45]) + tlv(6, b"\x01") + spec_resp(r)))},
                       "any", tag="entity-id-first")
            inner = spec_resp(r)[2:]
            yield Case({"op": "fin_unpack", "raw": hx(spec_pdu(a, 1, 5, bytes([0x45]) + tlv(1, inner + b"\x06\x00") + tlv(6, b"\x09")))},
                       "any", tag="response-with-slack")
            yield Case({"op": "fin_unpack", "raw": hx(spec_pdu(a, 1, 5, b""))}, "invalid", errclass=True, tag="no-parameter-octet")
        # a CRC trailer that reads as an (empty) entity-ID TLV must not become a fault location
        for target in ([0x0600, 0x0601] if thorough else [0x0600]):
            a = rand_conf(rng, crc=1, sw=4)

            def build(i, a=a):
                b = dict(a, seq_v=i)
                return spec_hdr(b, 4, 1) + bytes([5, 0x46])
            raw = trailer_hunt(build, target, 400000)
            if raw is not None:
                yield Case({"op": "fin_unpack", "raw": hx(raw)}, "valid", tag="trailer-looks-like-tlv")
                yield Case({"op": "fin_unpack", "raw": hx(raw + TLV_SUFFIX)}, "valid", tag="trailer-looks-like-tlv")
        for _ in range(40 if thorough else 6):
            a = rand_conf(rng, crc=1)
            cond = rng.choice(COND_MEMBERS)
            fault = None if (cond in NO_FAULT_CONDS or rng.random() < 0.5) else rand_fault(rng)
            rs = [rand_resp(rng) for _ in range(rng.choice([0, 0, 1, 2]))]
            raw = spec_fin(a, cond, rng.randint(0, 1), rng.randint(0, 3), rs, fault)
            yield from trailer_tlv_cases("fin_unpack", raw, rng, [6, 6, 1, 1, 2], "trailer-fitted-tlv")
        # setters
        for _ in range(300 if thorough else 60):
            a = rand_conf(rng)
            cond = rng.choice(COND_MEMBERS)
            base = {"cond": cond, "delivery": rng.randint(0, 1), "status": rng.randint(0, 3),
                    "responses": [rand_resp(rng) for _ in range(rng.choice([0, 1, 2]))],
                    "fault": rng.choice([None, hx(rand_fault(rng))])}
            steps = []
            for _ in range(rng.randint(1, 4)):
                s = rng.choice(["fault", "cond", "responses"])
                steps.append([s, {"fault": rng.choice([None, hx(rand_fault(rng))]), "cond": rng.choice(COND_MEMBERS),
                                  "responses": rng.choice([None, [], [rand_resp(rng)], [rand_resp(rng), rand_resp(rng)]])}[s]])
            yield Case({"op": "fin_set", **a, **base, "steps": steps}, "valid", tag="setters")
        # __eq__
        for _ in range(200 if thorough else 40):
            a = rand_conf(rng)
            cond = rng.choice([c for c in COND_MEMBERS if c not in NO_FAULT_CONDS])
            x = {**a, "cond": cond, "delivery": rng.randint(0, 1), "status": rng.randint(0, 3),
                 "responses": [rand_resp(rng) for _ in range(rng.choice([0, 1, 2, 3]))],
                 "fault": rng.choice([None, hx(rand_fault(rng))])}

            def mut(y, key):
                if mutate_conf(y, key, rng):
                    return y
                if key == "cond":
                    y["cond"] = rng.choice([c for c in COND_MEMBERS if c not in NO_FAULT_CONDS + [y["cond"]]])
                elif key == "delivery":
                    y["delivery"] ^= 1
                elif key == "status":
                    y["status"] = (y["status"] + rng.randint(1, 3)) % 4
                elif key == "fault":
                    y["fault"] = None if y["fault"] is not None else hx(rand_fault(rng))
                elif key == "fault-value":
                    if y["fault"] is None:
                        return None
                    b = bytearray(unhx(y["fault"]))
                    b[0] ^= 0x10
                    y["fault"] = hx(b)
                elif key == "responses-len":
                    y["responses"] = y["responses"] + [rand_resp(rng)]
                elif key == "responses-order":
                    if len(y["responses"]) < 2 or y["responses"][0] == y["responses"][1]:
                        return None
                    y["responses"] = [y["responses"][1], y["responses"][0]] + y["responses"][2:]
                elif key == "responses-msg":
                    if not y["responses"]:
                        return None
                    r = dict(y["responses"][-1])
                    r["msg"] = r["msg"] + "00" if len(r["msg"]) < 20 else r["msg"][:-2]
                    y["responses"] = y["responses"][:-1] + [r]
                elif key in ("responses-msg-same-len", "responses-name-same-len"):
                    if not y["responses"]:
                        return None
                    r = dict(y["responses"][-1])
                    fld = "msg" if key.startswith("responses-msg") else "first"
                    n = len(r[fld]) // 2
                    if n == 0:
                        return None
                    r[fld] = hx(b"q" * n) if r[fld] != hx(b"q" * n) else hx(b"r" * n)
                    y["responses"] = y["responses"][:-1] + [r]
                return y
            yield from eq_variants(x, rng, ["cond", "delivery", "status", "fault", "fault-value", "responses-len",
                                            "responses-order", "responses-msg", "responses-msg-same-len",
                                            "responses-name-same-len", "crc", "large", "src_v", "dst_v", "seq_v",
                                            "dir"], mut, "fin_eq")
        # == with a fault location whose entity ID has a width outside {1,2,4,8} raises ValueError
        # (C06_finished_eq_other_width); model and implementation must agree on that
        for w in (0, 3, 5, 9):
            a = rand_conf(rng)
            x = {**a, "cond": 4, "delivery": 1, "status": 2, "responses": [rand_resp(rng) for _ in range(rng.choice([0, 1]))],
                 "fault": hx(rand_fault(rng, w))}
            yield Case({"op": "fin_eq", "a": x, "b": dict(x)}, "any", tag="eq-fault-width-other")

    # ---- Metadata ----
    def md_cases(self, rng, thorough):
        counts = [None, 0, 1, 2, 4]
        k = 0
        for rep in range(20 if thorough else 2):
            for a in all_confs(rng):
                k += 1
                closure, ctype = bool(k % 2), CHECKSUM_TYPES[k % 5]
                size = fss_val(rng, a["large"])
                src = None if k % 7 == 0 else rand_name(rng)
                dst = None if k % 11 == 0 else rand_name(rng)
                n = counts[k % len(counts)]
                opts = None if n is None else rand_options(rng, n)
                p = {"closure": closure, "ctype": ctype, "size": size, "src": None if src is None else hx(src),
                     "dst": None if dst is None else hx(dst), "options": opts}
                yield Case({"op": "md_pack", **a, **p}, "valid", tag="config-all")
                yield from dec_cases("md_unpack", spec_md(a, closure, ctype, size, src or b"", dst or b"", opts), rng, a,
                                     "config-all", k % 32 == 0)
        for rep in range(10 if thorough else 2):
            for closure in (False, True):
                for ctype in CHECKSUM_TYPES:
                    a = rand_conf(rng)
                    src, dst, size = rand_name(rng), rand_name(rng), fss_val(rng, a["large"])
                    opts = rng.choice([None, rand_options(rng, 1)])
                    yield Case({"op": "md_pack", **a, "closure": closure, "ctype": ctype, "size": size, "src": hx(src),
                                "dst": hx(dst), "options": opts}, "valid", tag="enum-all")
                    yield Case({"op": "md_unpack", "raw": hx(spec_md(a, closure, ctype, size, src, dst, opts) + rbytes(rng, rep % 2))},
                               "valid", tag="enum-all")
        # file size over the full range; a size that does not fit makes pack fail (ValueError above 2^32 / 2^64)
        for large in (0, 1):
            top = U64 if large else U32
            for v in fss_pool(rng, large):
                for crc in (0, 1):
                    a = rand_conf(rng, large=large, crc=crc)
                    src, dst = rand_name(rng), rand_name(rng)
                    opts = rng.choice([None, rand_options(rng, 2)])
                    yield Case({"op": "md_pack", **a, "closure": True, "ctype": 3, "size": v, "src": hx(src), "dst": hx(dst),
                                "options": opts}, "valid", tag="size-boundary")
                    yield Case({"op": "md_unpack", "raw": hx(spec_md(a, True, 3, v, src, dst, opts) + rbytes(rng, crc))}, "valid",
                               tag="size-boundary")
            for v in fss_bad(rng, large) + [top + 1]:
                for crc in (0, 1):
                    a = rand_conf(rng, large=large, crc=crc)
                    p = {"closure": False, "ctype": 0, "size": v, "src": "61", "dst": None, "options": None}
                    yield Case({"op": "md_pack_fails", **a, **p}, "valid", tag="fss-overflow")
                    if v > top + 1:
                        yield Case({"op": "md_pack", **a, **p}, "invalid", errclass=True, tag="fss-overflow")
            a = rand_conf(rng, large=large)
            yield Case({"op": "md_pack_fails", **a, "closure": False, "ctype": 0, "size": rng.randint(0, U32), "src": None,
                        "dst": None, "options": []}, "valid", tag="fss-fits")
        # names: 0..255 octets incl. non-ASCII, None vs ""; 256 octets refused
        for n in [0, 1, 2, 127, 128, 254, 255]:
            for which in ("src", "dst", "both"):
                a = rand_conf(rng)
                src = name_exact(rng, n) if which != "dst" else rand_name(rng)
                dst = name_exact(rng, n) if which != "src" else rand_name(rng)
                opts = rng.choice([None, rand_options(rng, 1)])
                size = fss_val(rng, a["large"])
                yield Case({"op": "md_pack", **a, "closure": False, "ctype": 15, "size": size, "src": hx(src), "dst": hx(dst),
                            "options": opts}, "valid", tag="name-length")
                yield Case({"op": "md_unpack", "raw": hx(spec_md(a, False, 15, size, src, dst, opts))}, "valid", tag="name-length")
        for name in UTF8_GOOD:
            a = rand_conf(rng)
            yield Case({"op": "md_pack", **a, "closure": True, "ctype": 2, "size": 1, "src": hx(name), "dst": hx(name[::1]),
                        "options": None}, "valid", tag="name-utf8")
        for name in UTF8_BAD:
            a = rand_conf(rng)
            yield Case({"op": "md_unpack", "raw": hx(spec_md(a, True, 2, 1, name, b"ok", None))}, "any", tag="name-not-utf8")
            yield Case({"op": "md_unpack", "raw": hx(spec_md(a, True, 2, 1, b"ok", name, [rand_option(rng)]))}, "any",
                       tag="name-not-utf8")
        for which in ("src", "dst"):
            a = rand_conf(rng)
            p = {"closure": False, "ctype": 0, "size": 0, "src": "61", "dst": "62", "options": None}
            p[which] = hx(name_exact(rng, 256))
            yield Case({"op": "md_new", **a, **p}, "invalid", errclass=True, tag="name-too-long")
            yield Case({"op": "md_set", **a, **dict(p, **{which: None}), "steps": [[which, p[which]]]}, "invalid", errclass=True,
                       tag="name-too-long")
        # options: every TLV class, empty list vs None, as many as the 16-bit data-field length allows and one more
        for kind in OPTION_KINDS:
            for crc in (0, 1):
                a = rand_conf(rng, crc=crc)
                opts = [rand_option(rng, kind) for _ in range(rng.choice([1, 2, 3]))]
                src, dst, size = rand_name(rng), rand_name(rng), fss_val(rng, a["large"])
                yield Case({"op": "md_pack", **a, "closure": True, "ctype": 1, "size": size, "src": hx(src), "dst": hx(dst),
                            "options": opts}, "valid", tag="option-kind")
                yield Case({"op": "md_unpack", "raw": hx(spec_md(a, True, 1, size, src, dst, opts) + TLV_SUFFIX * crc)}, "valid",
                           tag="option-kind")
        for large, crc in ([(0, 0), (0, 1), (1, 0), (1, 1)] if thorough else [(rng.randint(0, 1), rng.randint(0, 1))]):
            if True:
                a = rand_conf(rng, large=large, crc=crc)
                room = 65535 - 1 - 1 - (8 if large else 4) - 2 - 2 * crc
                opts = [{"kind": "generic", "type": rng.choice([0, 1, 2, 4, 5, 6]), "value": hx(rbytes(rng, 255))}
                        for _ in range(room // 257)]
                rest = room - 257 * len(opts)
                if rest >= 2:
                    opts.append({"kind": "msg_to_user", "value": hx(rbytes(rng, rest - 2))})
                p = {"closure": False, "ctype": 0, "size": 3, "src": None, "dst": None}
                yield Case({"op": "md_pack", **a, **p, "options": opts}, "valid", tag="max-options")
                yield Case({"op": "md_unpack", "raw": hx(spec_md(a, False, 0, 3, b"", b"", opts))}, "valid", tag="max-options")
                yield Case({"op": "md_new", **a, **dict(p, src="61"), "options": opts}, "invalid", errclass=True,
                           tag="too-many-options")
                yield Case({"op": "md_set", **a, **p, "options": None, "steps": [["options", opts], ["dst", "62"]]}, "invalid",
                           errclass=True, tag="too-many-options")
        yield from bad_conf_cases("md_pack", {"closure": False, "ctype": 0, "size": 0, "src": None, "dst": None, "options": None}, rng)
        # every value of the first parameter octet through the decoder
        for v in range(256):
            a = rand_conf(rng)
            opts = rng.choice([None, rand_options(rng, 1)])
            params = bytearray(md_params(a, False, 0, fss_val(rng, a["large"]), rand_name(rng), rand_name(rng), opts))
            params[0] = v
            raw = spec_pdu(a, 0, 7, bytes(params))
            if v & 0x0F not in CHECKSUM_TYPES:
                yield Case({"op": "md_unpack", "raw": hx(raw)}, "invalid", errclass=True, tag="octet0-sweep")
            else:
                yield Case({"op": "md_unpack", "raw": hx(raw + rbytes(rng, v % 2))}, "any" if v & 0xB0 else "valid",
                           tag="octet0-sweep")
        for v in range(256):
            a = rand_conf(rng)
            raw = spec_pdu(a, 0, v, md_params(a, True, 3, 5, b"a", b"b", [rand_option(rng)]))
            yield Case({"op": "md_unpack", "raw": hx(raw)}, "valid" if v == 7 else "any", tag="directive-code-sweep")
        # parameter field too short / LVs or options that overrun it / option type octets
        for large in (0, 1):
            w = 8 if large else 4
            for plen in sorted({0, 1, 2, w, w + 1, w + 2, w + 3, w + 4, 6, 7, 10, 11}):
                for crc in (0, 1):
                    a = rand_conf(rng, large=large, crc=crc)
                    raw = spec_pdu(a, 0, 7, bytes([0x43]) * min(plen, 1) + bytes(max(plen - 1, 0)))
                    yield Case({"op": "md_unpack", "raw": hx(raw + rbytes(rng, 12))},
                               "invalid" if plen < w + 3 else ("valid" if plen == w + 3 else "any"), errclass=plen < w + 3,
                               tag="param-field-length")
            a = rand_conf(rng, large=large)
            full = md_params(a, True, 3, 9, b"source", "ziël".encode(), [rand_option(rng), rand_option(rng)])
            for cut in range(len(full)):
                yield Case({"op": "md_unpack", "raw": hx(spec_pdu(a, 0, 7, full[:cut]) + TLV_SUFFIX)}, "any",
                           tag="param-area-cut")
        for v in range(256):
            a = rand_conf(rng)
            raw = spec_pdu(a, 0, 7, md_params(a, False, 0, 1, b"s", b"d", None) + tlv(v, rbytes(rng, v % 5)))
            ok = v in (0, 1, 2, 4, 5, 6)
            yield Case({"op": "md_unpack", "raw": hx(raw)}, "valid" if ok else "invalid", errclass=not ok, tag="tlv-type-sweep")
        # a CRC trailer that reads as an (empty) TLV must not become an option
        for target in ([0x0600, 0x0200, 0x0501] if thorough else [0x0600]):
            a = rand_conf(rng, crc=1)
            dlen = 1 + len(md_params(a, True, 3, 0, b"ab", b"", None)) + 2
            head = spec_hdr(a, dlen, 0) + bytes([7])
            raw = trailer_hunt(lambda i: head + md_params(a, True, 3, i, b"ab", b"", None), target, 400000)
            if raw is not None:
                yield Case({"op": "md_unpack", "raw": hx(raw)}, "valid", tag="trailer-looks-like-tlv")
                yield Case({"op": "md_unpack", "raw": hx(raw + TLV_SUFFIX)}, "valid", tag="trailer-looks-like-tlv")
        for _ in range(40 if thorough else 6):
            a = rand_conf(rng, crc=1)
            opts = rng.choice([None, None, rand_options(rng, 1), rand_options(rng, 2)])
            raw = spec_md(a, bool(rng.randint(0, 1)), rng.choice(CHECKSUM_TYPES), fss_val(rng, a["large"]), rand_name(rng),
                          rand_name(rng), opts)
            yield from trailer_tlv_cases("md_unpack", raw, rng, [0, 1, 2, 4, 5, 6], "trailer-fitted-tlv", n=3)
        # setters
        for _ in range(300 if thorough else 60):
            a = rand_conf(rng)
            base = {"closure": bool(rng.randint(0, 1)), "ctype": rng.choice(CHECKSUM_TYPES), "size": fss_val(rng, a["large"]),
                    "src": rng.choice([None, hx(rand_name(rng))]), "dst": rng.choice([None, hx(rand_name(rng))]),
                    "options": rng.choice([None, [], rand_options(rng, 2)])}
            steps = []
            for _ in range(rng.randint(1, 4)):
                s = rng.choice(["options", "src", "dst"])
                steps.append([s, {"options": rng.choice([None, [], rand_options(rng, 1), rand_options(rng, 3)]),
                                  "src": rng.choice([None, "", hx(rand_name(rng))]),
                                  "dst": rng.choice([None, "", hx(rand_name(rng))])}[s]])
            yield Case({"op": "md_set", **a, **base, "steps": steps}, "valid", tag="setters")
        # __eq__ (incl. [] vs None, "" vs None)
        for _ in range(200 if thorough else 40):
            a = rand_conf(rng)
            x = {**a, "closure": bool(rng.randint(0, 1)), "ctype": rng.choice(CHECKSUM_TYPES), "size": fss_val(rng, a["large"]),
                 "src": hx(rand_name(rng)), "dst": hx(rand_name(rng)),
                 "options": rng.choice([None, [], rand_options(rng, 1), rand_options(rng, 3)])}

            def mut(y, key):
                if mutate_conf(y, key, rng):
                    return y
                if key == "closure":
                    y["closure"] = not y["closure"]
                elif key == "ctype":
                    y["ctype"] = rng.choice([c for c in CHECKSUM_TYPES if c != y["ctype"]])
                elif key == "size":
                    y["size"] ^= 1 << rng.randint(0, 31)
                elif key in ("src", "dst"):
                    y[key] = y[key] + "7a" if len(y[key]) < 400 else "7a"
                elif key in ("src-same-len", "dst-same-len"):
                    # same length: the header comparison (packet_len) cannot mask a difference of the names
                    kk = key[:3]
                    n = len(y[kk]) // 2
                    if n == 0:
                        return None
                    y[kk] = hx(b"x" * n) if y[kk] != hx(b"x" * n) else hx(b"y" * n)
                elif key == "options-same-len":
                    o = y["options"] or []
                    if not o:
                        return None
                    v = rbytes(rng, 3)
                    y["options"] = [{"kind": "generic", "type": 5, "value": hx(v)}] + o[1:]
                    x2 = dict(x, options=[{"kind": "flow_label", "value": hx(bytes([v[0], v[1], v[2] ^ 0x40]))}] + o[1:])
                    return ("pair", x2, y)
                elif key == "options-none-empty":
                    if y["options"] not in (None, []):
                        return None
                    y["options"] = [] if y["options"] is None else None
                elif key == "options-len":
                    y["options"] = (y["options"] or []) + [rand_option(rng, "msg_to_user")]
                elif key == "options-order":
                    o = y["options"] or []
                    if len(o) < 2 or spec_option(o[0]) == spec_option(o[1]):
                        return None
                    y["options"] = [o[1], o[0]] + o[2:]
                elif key == "options-value":
                    o = y["options"] or []
                    if not o:
                        return None
                    y["options"] = o[:-1] + [{"kind": "flow_label", "value": hx(rbytes(rng, 3))}]
                elif key == "name-none-empty":
                    y["src"], y["dst"] = None, None
                    return None if (x["src"] or x["dst"]) else y
                return y
            yield from eq_variants(x, rng, ["closure", "ctype", "size", "src", "dst", "src-same-len", "dst-same-len",
                                            "options-same-len", "options-none-empty", "options-len",
                                            "options-order", "options-value", "name-none-empty", "crc", "large", "src_v", "dst_v",
                                            "seq_v", "mode"], mut, "md_eq")
        a = rand_conf(rng)
        x = {**a, "closure": True, "ctype": 3, "size": 9, "src": "", "dst": None, "options": None}
        yield Case({"op": "md_eq", "a": x, "b": dict(x, src=None, dst="", options=[])}, "valid", tag="eq-none-empty")
        # entity-ID TLV objects as options (outside the standard's option set): constructible, == is numerical
        for v in ("01", "0102", "010203", ""):
            y = dict(x, options=[{"kind": "entity_id", "value": v}])
            yield Case({"op": "md_new", **y}, "any", tag="entity-id-option")
            yield Case({"op": "md_eq", "a": y, "b": dict(y)}, "any", tag="entity-id-option")

    # ---- malformed stream shared by the three decoders ----
    def random_octets(self, rng, thorough):
        ops = ["eof_unpack", "fin_unpack", "md_unpack"]
        for _ in range(300000 if thorough else 6000):
            ln = rng.choice([0, 1, 3, 4, 6, 7, 8, 9, 10, 11, 12, 15, 16, 20, 24, 33, rng.randint(0, 70)])
            b = bytearray(rbytes(rng, ln))
            if ln > 0 and rng.random() < 0.9:
                b[0] = 0x20 | (b[0] & 0x0F)
            idw = sw = 1
            if ln > 3 and rng.random() < 0.9:
                idw, sw = rng.choice([1, 1, 2, 4]), rng.choice([1, 1, 2])
                b[3] = (b[3] & 0x80) | (idw - 1) << 4 | (sw - 1)
            hl = 4 + 2 * idw + sw
            if ln > 3 and rng.random() < 0.8:
                d = max(0, ln - hl + rng.choice([0, 0, 0, -1, 1, -2, 2, -3, 8]))
                b[1], b[2] = (d >> 8) & 0xFF, d & 0xFF
            if ln > hl and rng.random() < 0.7:
                b[hl] = rng.choice([4, 5, 7])
            if ln > hl + 1 and rng.random() < 0.5:
                b[hl + 1] = rng.choice([0x00, 0x40, 0x46, 0x43, 0x0F, 0x50, 0xB2])
            # TLV- / LV-shaped parameter area
            i = hl + 2 + rng.choice([0, 0, 3, 4, 8])
            while i + 1 < ln and rng.random() < 0.7:
                b[i] = rng.choice([1, 6, 6, 2, 0, 4, 5])
                b[i + 1] = rng.choice([0, 1, 2, 3, max(0, ln - i - 2), max(0, ln - i - 4)]) & 0xFF
                i += 2 + b[i + 1]
            raw = bytes(b)
            if ln > 0 and (b[0] & 2) and rng.random() < 0.7 and ln >= 2:
                raw = with_crc(raw[:-2])
            for op in (ops if rng.random() < 0.3 else [rng.choice(ops)]):
                yield Case({"op": op, "raw": hx(raw)}, "any", tag="random-octets")


PART = C06Var()


# ============================================================================================
# BEGIN factory twins (hardening I) — appended block; the only other line of this change is the
# `yield from factory_twin_cases(rng, tier)` call in C06Var.cases
#
# Finished PDUs that come from the library's factories (FinishedPdu.success_pdu(conf) /
# FinishedPdu(conf, FinishedParams.success_params())). Key "factory" of a fin_set line (not read by the model op):
#   {"how": "success_pdu" | "success_params", "twin": "before" | "after" | "both"}
# The line carries the values the factory is documented to produce (NO_ERROR, DATA_COMPLETE, FILE_RETAINED, no
# responses, no fault location), which is what the model is built from. The property at (Finished, that parameter set,
# the line's header configuration): every PDU made that way packs exactly the octets the independent encoder gives, with
# a data-field length equal to the octets after the header, and round-trips - also while / after ANOTHER PDU made the
# same way is given another condition code, filestore responses and a fault location through its setters.
# ============================================================================================
import core as _core

_FACTORY_VALUES = {"cond": 0, "delivery": 0, "status": 2, "responses": [], "fault": None}


class FactoryLineMalformed(Exception):
    """a line with the key "factory" that does not carry the documented values of the factory (only a case minimiser
    produces one): a failure of its own kind, so that a minimised case stays inside the domain"""


def _fin_from_factory(a, how: str) -> FinishedPdu:
    conf = _conf(a)
    if how == "success_pdu":
        return FinishedPdu.success_pdu(conf)
    if how == "success_params":
        return FinishedPdu(pdu_conf=conf, params=FinishedParams.success_params())
    raise FactoryLineMalformed(f"unknown factory {how!r}")


def _op_fin_set_factory(a):
    fac = a["factory"]
    how, twin = fac["how"], fac["twin"]
    if any(a.get(k) != v for k, v in _FACTORY_VALUES.items()):
        raise FactoryLineMalformed(f"line with factory={how!r} does not carry the documented values {_FACTORY_VALUES!r}")
    name = "FinishedPdu.success_pdu(conf)" if how == "success_pdu" else "FinishedPdu(conf, FinishedParams.success_params())"
    ref = spec_fin(a, 0, 0, 2, [], None)          # independent encoder: what every PDU made this way must pack

    def untouched(t, label: str, when: str, was=None):
        what = f"{name}: a PDU made {label} the one whose setters are called, never modified itself, {when}"
        try:
            raw = bytes(t.pack())
            f = _fin_fields(t)
        except SelfCheckFailure as e:
            raise SelfCheckFailure(f"{what}: {e}")
        _need(raw == ref, f"{what} packs {raw.hex()[:160]}; the standard requires {ref.hex()} for (NO_ERROR, DATA_COMPLETE, "
                          f"FILE_RETAINED, no responses, no fault location)")
        if was is not None and f != was:
            diff = {k: [was.get(k), f.get(k)] for k in sorted(set(was) | set(f)) if was.get(k) != f.get(k)}
            raise SelfCheckFailure(f"{what} exposes other parameter values than before [was, is]: {diff}")
        try:
            _fin_check(t, raw)
        except SelfCheckFailure as e:
            raise SelfCheckFailure(f"{what}: {e}")
        return f

    twins = []
    if twin in ("before", "both"):
        twins.append(["before", _fin_from_factory(a, how), None])
    p = _fin_from_factory(a, how)
    if twin in ("after", "both"):
        twins.append(["after", _fin_from_factory(a, how), None])
    restore = _core.state_snapshot(p)              # clean-up only, see core.state_snapshot
    try:
        for rec in twins:
            rec[2] = untouched(rec[1], rec[0], "right after construction")
        untouched(p, "as", "right after construction (before any setter call)")
        pending = None
        try:
            _apply_steps(p, a["steps"], FIN_SETTERS)
        except Exception as e:  # noqa   (a refused setter call: the twins are looked at all the same)
            pending = e
        when = f"after the setter calls {[s[0] for s in a['steps']]} on the other PDU"
        for label, t, was in twins:
            untouched(t, label, when, was)
        untouched(_fin_from_factory(a, how), "after the setter calls on", "made by a new call of the factory")
        if pending is not None:
            raise pending
        return _after_setter(p, _fin_fields, _fin_check)
    finally:
        restore()


def _fin_set_dispatch(plain, by_factory):
    def op(a):
        return by_factory(a) if a.get("factory") else plain(a)
    return op


OPS["fin_set"] = _fin_set_dispatch(OPS["fin_set"], _encoder_failure_is_refusal(_op_fin_set_factory))


def factory_twin_cases(rng, tier) -> Iterator[Case]:
    thorough = tier == "thorough"
    modes = ["before", "after", "both"]
    k = rng.randrange(3)
    fault_conds = [c for c in COND_MEMBERS if c not in NO_FAULT_CONDS]
    for rep in range(8 if thorough else 1):
        for how in ("success_pdu", "success_params"):
            for crc in (0, 1):
                a = rand_conf(rng, crc=crc)
                seqs = [
                    [["cond", rng.choice(fault_conds)]],
                    [["fault", hx(rand_fault(rng))]],
                    [["responses", [rand_resp(rng)]]],
                    [["cond", 4], ["responses", [rand_resp(rng)]], ["fault", hx(rand_fault(rng, 2))]],
                    [["fault", hx(rand_fault(rng))], ["cond", rng.choice(fault_conds)]],
                    [["responses", [rand_resp(rng), rand_resp(rng)]], ["cond", rng.choice(COND_MEMBERS)]],
                ]
                for _ in range(4 if thorough else 2):
                    steps = []
                    for _ in range(rng.randint(1, 4)):
                        s = rng.choice(["fault", "cond", "responses"])
                        steps.append([s, {"fault": rng.choice([None, hx(rand_fault(rng))]), "cond": rng.choice(COND_MEMBERS),
                                          "responses": rng.choice([None, [], [rand_resp(rng)], [rand_resp(rng), rand_resp(rng)]])}[s]])
                    seqs.append(steps)
                for steps in seqs:
                    yield Case({"op": "fin_set", **a, **_FACTORY_VALUES, "steps": steps,
                                "factory": {"how": how, "twin": modes[k % 3]}}, "valid", tag="factory-twin")
                    k += 1
# END factory twins (hardening I)
