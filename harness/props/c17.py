"""C17 — USLP primary headers and transfer frames (CCSDS 732.1-B-2)"""
import copy
import random
import zlib
from typing import Any, Dict, Iterator, List, Optional, Tuple

import core
from core import Case, Prop, SelfCheckFailure
from gen import hx, unhx, pool, out_pool, rbytes

import spacepackets.uslp.defs as udefs
import spacepackets.uslp.header as uhdr
import spacepackets.uslp.frame as ufrm
from spacepackets.uslp.header import (
    PrimaryHeader, TruncatedPrimaryHeader, SourceOrDestField, BypassSequenceControlFlag, ProtocolCommandFlag,
    HeaderType, determine_header_type,
)
from spacepackets.uslp.frame import (
    TransferFrame, TransferFrameDataField, TfdzConstructionRules, UslpProtocolIdentifier, FrameType,
    FixedFrameProperties, VarFrameProperties,
)

USLP_CLASS_NAMES = [
    "UslpInvalidFrameHeader", "UslpInvalidRawPacketOrFrameLen", "UslpInvalidConstructionRules",
    "UslpFhpVhopFieldMissing", "UslpTruncatedFrameNotAllowed", "UslpVersionMissmatch", "UslpTypeMissmatch",
]


# ---------------------------------------------------------------------------------------------
# building objects from op dicts, reading fields back (public API only)
# ---------------------------------------------------------------------------------------------
_code = core.std_code    # int(code read back), after `code == Enum.NAME  <=>  it is the standard's code for NAME`


def _m(E, v):
    """the member an application writes for the code `v`: the member of E with the STANDARD NAME of the code
    (core.std_member; `E(v)` for a code without a standard name, ValueError for a non-member as before)"""
    return core.std_member(E, v, strict=True)


def _rules(v):
    # by standard name; a code without one: the member of that value, else the plain int (as before)
    return core.std_member(TfdzConstructionRules, v)


def _upid(v):
    return core.std_member(UslpProtocolIdentifier, v)


def _ft(v):
    return None if v is None else FrameType(v)


def _thdr(a):
    return TruncatedPrimaryHeader(scid=a["scid"], src_dest=_m(SourceOrDestField, a["src_dest"]), vcid=a["vcid"],
                                  map_id=a["map_id"])


def _phdr(a):
    return PrimaryHeader(
        scid=a["scid"], src_dest=_m(SourceOrDestField, a["src_dest"]), vcid=a["vcid"], map_id=a["map_id"],
        frame_len=a["frame_len"], bypass_seq_ctrl_flag=_m(BypassSequenceControlFlag, a["bypass"]),
        prot_ctrl_cmd_flag=_m(ProtocolCommandFlag, a["prot"]), op_ctrl_flag=bool(a["ocf"]),
        vcf_count_len=a["vcf_len"], vcf_count=a["vcf_count"])


def _header(a):
    return _thdr(a) if a["kind"] == "truncated" else _phdr(a)


def _thdr_fields(h):
    return {"kind": "truncated", "scid": int(h.scid), "src_dest": _code(SourceOrDestField, h.src_dest), "vcid": int(h.vcid),
            "map_id": int(h.map_id), "len": int(h.len())}


def _phdr_fields(h):
    return {"kind": "primary", "scid": int(h.scid), "src_dest": _code(SourceOrDestField, h.src_dest), "vcid": int(h.vcid),
            "map_id": int(h.map_id), "frame_len": int(h.frame_len),
            "bypass": _code(BypassSequenceControlFlag, h.bypass_seq_ctrl_flag),
            "prot": _code(ProtocolCommandFlag, h.prot_ctrl_cmd_flag), "ocf": int(bool(h.op_ctrl_flag)), "vcf_len": int(h.vcf_count_len),
            "vcf_count": None if h.vcf_count is None else int(h.vcf_count), "len": int(h.len())}


def _header_fields(h):
    return _thdr_fields(h) if h.truncated() else _phdr_fields(h)


def _tfdf(a):
    return TransferFrameDataField(tfdz_cnstr_rules=_rules(a["rules"]), uslp_ident=_upid(a["upid"]),
                                  tfdz=unhx(a["tfdz"]), fhp_or_lvop=a["fhp"])


def _tfdf_fields(t):
    return {"rules": _code(TfdzConstructionRules, t.tfdz_contr_rules), "upid": _code(UslpProtocolIdentifier, t.uslp_ident),
            "fhp": None if t.fhp_or_lvop is None else int(t.fhp_or_lvop), "tfdz": hx(t.tfdz),
            "len": int(t.len()), "header_len": int(t.header_len())}


def _opt(v):
    return None if v is None else unhx(v)


def _opthex(v):
    return None if v is None else hx(v)


def _frame(a):
    return TransferFrame(header=_header(a["hdr"]), tfdf=_tfdf(a["tfdf"]), insert_zone=_opt(a["iz"]),
                         op_ctrl_field=_opt(a["ocf"]), fecf=_opt(a["fecf"]))


def _frame_fields(f):
    return {"hdr": _header_fields(f.header), "tfdf": _tfdf_fields(f.tfdf), "iz": _opthex(f.insert_zone),
            "ocf": _opthex(f.op_ctrl_field), "fecf": _opthex(f.fecf), "len": int(f.len())}


def _props(p):
    """the managed-parameter object for a parameter set: ONE instance per distinct set, reused by every later call
    with equal parameters (mission configuration is built once and handed to every unpack in real programs)"""
    return core.REUSE.get(["uslp-frame-properties", p["kind"], p["len"], p["iz"], p["fecf"]], lambda: _props_new(p))


def _props_new(p):
    kw = dict(has_insert_zone=p["iz"] is not None, has_fecf=p["fecf"] is not None,
              insert_zone_len=p["iz"], fecf_len=p["fecf"])
    if p["kind"] == 0:
        return FixedFrameProperties(fixed_len=p["len"], **kw)
    return VarFrameProperties(truncated_frame_len=p["len"], **kw)


def _norm_hdr(f: Dict[str, Any]) -> Dict[str, Any]:
    """a VCF count of length 0 carries no value: the decoder reports 0"""
    g = dict(f)
    if g.get("kind") == "primary" and g["vcf_len"] == 0:
        g["vcf_count"] = 0
    return g


# ---------------------------------------------------------------------------------------------
# objects that reached the case's values THE LONG WAY (case key "hist" of uslp_hdr_pack / uslp_thdr_pack / uslp_tfdf_new /
# uslp_tfdf_pack / uslp_frame_pack; not read by the model ops). The statement is about the VALUES a header / data field / frame
# holds: "for every spacecraft ID ... VCF count of every length 0..7, the primary header packs to exactly the 7+n octets".
# An object is obtained with OTHER values (hist.from; by the constructor or by the decoder, hist.source), some or all of its
# views are read (hist.read: len(), pack(), fields, decode(pack())), then it is given the case's values through its public
# attributes ONE BY ONE IN THE ORDER hist.path (what is not named there follows in a fixed order; a "set_len" step of a frame
# history is a call of set_frame_len_in_header() in between), every view is read again (hist.after) and must show what an
# object built directly with the case's values shows (core.read_mutate_read); the op then goes on with THAT object, so its
# result is also compared with the model's answer for the case's values.
#   * Between two assignments an object may hold a combination outside the domain (a VCF count that does not fit the VCF
#     count length still in force, a pointer without a fixed-length rule). An implementation whose setter REFUSES such a
#     combination (ValueError family) cannot tell this history: the case falls back to the plain object (no alarm). What no
#     implementation may do is take the assignment and silently keep another value.
#   * A class that does not take attribute assignment at all (frozen / read-only: AttributeError / TypeError) has no history.
# ---------------------------------------------------------------------------------------------
class _NoHistory(Exception):
    """the implementation (legitimately) does not take a step of the history: the case is the plain one"""


def _hist_assign(obj, attr: str, value, in_domain: bool) -> None:
    try:
        setattr(obj, attr, value)
    except (AttributeError, TypeError) as e:
        raise _NoHistory(f"{type(obj).__name__}.{attr} is not assignable: {e}")
    except ValueError:
        if in_domain:
            raise       # a setter that refuses a combination of the domain is a finding of the case (valid input refused)
        raise _NoHistory(f"{type(obj).__name__}.{attr}: the setter refuses a combination outside the domain")


PHDR_KEYS = ["scid", "src_dest", "vcid", "map_id", "frame_len", "bypass", "prot", "ocf", "vcf_len", "vcf_count"]
THDR_KEYS = ["scid", "src_dest", "vcid", "map_id"]
_HDR_ATTR = {"scid": "scid", "src_dest": "src_dest", "vcid": "vcid", "map_id": "map_id", "frame_len": "frame_len",
             "bypass": "bypass_seq_ctrl_flag", "prot": "prot_ctrl_cmd_flag", "ocf": "op_ctrl_flag", "vcf_len": "vcf_count_len",
             "vcf_count": "vcf_count"}
_HDR_CONV = {"src_dest": lambda v: _m(SourceOrDestField, v), "bypass": lambda v: _m(BypassSequenceControlFlag, v),
             "prot": lambda v: _m(ProtocolCommandFlag, v), "ocf": bool}


def _hdr_in_domain(h) -> bool:
    """identifiers in range; (regular header) frame length in 16 bits, VCF count length 0..7 and a count that fits it"""
    try:
        if not (0 <= h["scid"] <= 0xFFFF and 0 <= h["vcid"] <= 63 and 0 <= h["map_id"] <= 15 and h["src_dest"] in (0, 1)):
            return False
        if h["kind"] == "truncated":
            return True
        n, c = h["vcf_len"], h["vcf_count"]
        return (0 <= h["frame_len"] <= 0xFFFF and h["bypass"] in (0, 1) and h["prot"] in (0, 1) and h["ocf"] in (0, 1)
                and 0 <= n <= 7 and (n == 0 and (c is None or c >= 0) or n > 0 and c is not None and 0 <= c < 256 ** n))
    except (KeyError, TypeError):
        return False


def _hist_hdr_views():
    def decoded(h):
        return _norm_hdr(_header_fields(type(h).unpack(bytes(h.pack()) + b"\x5a")))
    return [("len", lambda h: int(h.len())), ("pack", lambda h: hx(h.pack())), ("fields", lambda h: _norm_hdr(_header_fields(h))),
            ("decoded", decoded)]


def _hdr_mutate(h, old, new, hist, keys) -> None:
    cur = {k: old[k] for k in keys}
    cur["kind"] = old["kind"]
    path = [k for k in (hist.get("path") or []) if k in keys]
    mid = hist.get("mid")
    for k in path + [k for k in keys if k not in path]:
        if k not in path and cur[k] == new[k]:
            continue
        cur[k] = new[k]
        _hist_assign(h, _HDR_ATTR[k], _HDR_CONV.get(k, lambda v: v)(new[k]), _hdr_in_domain(cur))
        if mid:
            # the application looks at the header between two assignments (whatever it sees there is not compared)
            core.read_views(h, _hist_hdr_views(), mid)


def _hdr_after_history(a, kind: str):
    hist = a["hist"]
    a = dict(a, kind=kind)
    old = dict(hist["from"], kind=kind)
    if not (_hdr_in_domain(a) and _hdr_in_domain(old)):
        return _header(a)     # (a minimiser that left the domain: the plain case)
    cls = TruncatedPrimaryHeader if kind == "truncated" else PrimaryHeader
    keys = THDR_KEYS if kind == "truncated" else PHDR_KEYS
    src = hist.get("source", "ctor")

    def make():
        return cls.unpack(enc_hdr(old) + b"\x99") if src == "unpack" else _header(old)
    got: Dict[str, Any] = {}
    try:
        err = core.read_mutate_read(make, _hist_hdr_views(), lambda h: _hdr_mutate(h, old, a, hist, keys), lambda: _header(a),
                                    f"{cls.__name__} ({'decoded' if src == 'unpack' else 'constructed'} with "
                                    f"{ {k: old[k] for k in keys} }, then its attributes assigned in the order {hist.get('path')} "
                                    f"to reach { {k: a[k] for k in keys} })", first=hist.get("read"), after=hist.get("after"), out=got)
    except _NoHistory:
        return _header(a)
    if src == "unpack":
        _decoded_like_constructed(got, _hist_hdr_views(), lambda: _header(old), hist.get("read"), f"{cls.__name__}.unpack({hx(enc_hdr(old))}..)")
    if err:
        raise SelfCheckFailure(err)
    return got["obj"]


def _decoded_like_constructed(got, views, ctor, first, what: str) -> None:
    """history with source "unpack": what the views showed IMMEDIATELY after decode (before any setter) is what an object
    CONSTRUCTED with the same values shows"""
    want = core.read_views(ctor(), views, first)
    for n, v in got["before"].items():
        if v != want.get(n):
            raise SelfCheckFailure(f"{what}: read immediately after decode (nothing was called on the object before), `{n}` shows "
                                   f"{core._short(v)} - an object constructed with the decoded values shows {core._short(want.get(n))}")


TFDF_KEYS = ["rules", "upid", "fhp", "tfdz"]
_TFDF_ATTR = {"rules": "tfdz_contr_rules", "upid": "uslp_ident", "fhp": "fhp_or_lvop", "tfdz": "tfdz"}
_TFDF_CONV = {"rules": lambda v: _rules(v), "upid": lambda v: _upid(v), "tfdz": lambda v: unhx(v)}


def _tfdf_consistent(t) -> bool:
    """the pointer is present exactly with the fixed-length rules (the data fields frames are made of)"""
    return 0 <= t["rules"] <= 7 and 0 <= t["upid"] <= 31 and (t["fhp"] is not None) == (t["rules"] in FP_RULES) and \
        (t["fhp"] is None or 0 <= t["fhp"] <= 0xFFFF)


def _hist_tfdf_views():
    def packs(t):
        out = []
        for tr in (False, True):
            for ft in (None, FrameType.FIXED, FrameType.VARIABLE):
                try:
                    out.append(hx(t.pack(truncated=tr, frame_type=ft)))
                except ValueError as e:     # (pointer required but missing: a Uslp* error of the ValueError family)
                    out.append("refused" if core.exc_categories(e) else "other")
        return out
    return [("len", lambda t: [int(t.len()), int(t.header_len())]), ("pack", packs), ("fields", _tfdf_fields),
            ("should_fhp", lambda t: [bool(t.should_have_fhp_or_lvp_field(truncated=tr, frame_type=ft))
                                      for tr in (False, True) for ft in (None, FrameType.FIXED, FrameType.VARIABLE)])]


def _tfdf_mutate(t, old, new, hist) -> None:
    cur = {k: old[k] for k in TFDF_KEYS}
    path = [k for k in (hist.get("path") or []) if k in TFDF_KEYS]
    mid = hist.get("mid")
    for k in path + [k for k in TFDF_KEYS if k not in path]:
        if k not in path and cur[k] == new[k]:
            continue
        cur[k] = new[k]
        _hist_assign(t, _TFDF_ATTR[k], _TFDF_CONV.get(k, lambda v: v)(new[k]), _tfdf_consistent(cur))
        if mid:
            core.read_views(t, _hist_tfdf_views(), mid)


def _tfdf_hist_supported(old, new, path) -> bool:
    """POINTER-PRESENCE histories (see the finding in C17.history_cases): a history in which the pointer appears / disappears
    is told only when the data zone is assigned AFTER the pointer - the documented setter `tfdz` is what recomputes the size"""
    if (old["fhp"] is None) == (new["fhp"] is None):
        return True
    order = [k for k in path if k in TFDF_KEYS] + [k for k in TFDF_KEYS if k not in path and old[k] != new[k]]
    return "tfdz" in order and "fhp" in order and order.index("fhp") < order.index("tfdz")


def _tfdf_after_history(a):
    hist = a["hist"]
    old = hist["from"]
    new = {k: a[k] for k in TFDF_KEYS}
    src = hist.get("source", "ctor")
    try:
        usable = (all(k in old for k in TFDF_KEYS) and 0 <= new["rules"] <= 7 and 0 <= new["upid"] <= 31
                  and (new["fhp"] is None or 0 <= new["fhp"] <= 0xFFFF) and len(unhx(new["tfdz"])) < 60000
                  and (src != "unpack" or _tfdf_consistent(old)) and _tfdf_hist_supported(old, new, hist.get("path") or []))
    except (TypeError, ValueError):
        usable = False
    if not usable:
        return _tfdf(a)

    def make():
        if src == "unpack":
            raw = enc_tfdf(old)
            return TransferFrameDataField.unpack(raw_tfdf=raw + b"\x99\x98", truncated=False, exact_len=len(raw), frame_type=None)
        return _tfdf(old)
    got: Dict[str, Any] = {}
    try:
        err = core.read_mutate_read(make, _hist_tfdf_views(), lambda t: _tfdf_mutate(t, old, new, hist), lambda: _tfdf(new),
                                    f"TransferFrameDataField ({'decoded' if src == 'unpack' else 'constructed'} with {old}, then "
                                    f"its attributes assigned in the order {hist.get('path')} to reach {new})",
                                    first=hist.get("read"), after=hist.get("after"), out=got)
    except _NoHistory:
        return _tfdf(a)
    if src == "unpack":
        _decoded_like_constructed(got, _hist_tfdf_views(), lambda: _tfdf(old), hist.get("read"),
                                  f"TransferFrameDataField.unpack({hx(enc_tfdf(old))}9998, truncated=False, exact_len={len(enc_tfdf(old))}, frame_type=None)")
    if err:
        raise SelfCheckFailure(err)
    return got["obj"]


# frame histories: steps of hist.path
#   "tfdz" / "fhp" / "upid" / "rules"  attribute of frame.tfdf        "tfdf"  frame.tfdf replaced by a new data field object
#   "iz" / "fecf"                       frame.insert_zone / frame.fecf "ocf"   frame.op_ctrl_field and header.op_ctrl_flag
#   "vcf"    header.vcf_count_len, header.vcf_count                    "hdr"   frame.header replaced by a new header object
#   "set_len"  frame.set_frame_len_in_header() at this point of the history (what it wrote is overwritten at the end)
# whatever still differs afterwards is assigned in the order of FRAME_STEPS; the header's frame length field is assigned last
FRAME_STEPS = ["hdr", "vcf", "ocf", "iz", "fecf", "rules", "upid", "fhp", "tfdz"]


def _hist_frame_views(truncated: bool):
    return [("len", lambda f: [int(f.len()), int(f.tfdf.len()), int(f.header.len())]),
            ("pack", lambda f: hx(f.pack(truncated=truncated, frame_type=None))), ("fields", _frame_fields_norm)]


def _frame_fields_norm(f):
    v = _frame_fields(f)
    v["hdr"] = _norm_hdr(v["hdr"])
    return v


def _frame_mutate(f, old, new, hist) -> None:
    done = set()
    primary = new["hdr"]["kind"] == "primary"

    def differs(step) -> bool:
        if step == "hdr":
            return any(old["hdr"].get(k) != new["hdr"].get(k) for k in PHDR_KEYS if k not in ("frame_len", "ocf", "vcf_len", "vcf_count"))
        if step == "vcf":
            return primary and (old["hdr"]["vcf_len"], old["hdr"]["vcf_count"]) != (new["hdr"]["vcf_len"], new["hdr"]["vcf_count"])
        if step == "ocf":
            return old["ocf"] != new["ocf"]
        if step in ("iz", "fecf"):
            return old[step] != new[step]
        return old["tfdf"][step] != new["tfdf"][step]

    def do(step):
        if step == "set_len":
            try:
                f.set_frame_len_in_header()
            except ValueError:
                pass
            return
        if step == "tfdf":
            f.tfdf = _tfdf(new["tfdf"])
            done.update(("rules", "upid", "fhp", "tfdz"))
        elif step == "hdr":
            f.header = _header(new["hdr"])
            done.update(("hdr", "vcf"))
            if primary:
                # (the OCF flag belongs to the "ocf" step: the new header shows what the frame holds at this point)
                f.header.op_ctrl_flag = bool(f.op_ctrl_field)
        elif step == "vcf":
            if primary:
                _hist_assign(f.header, "vcf_count_len", new["hdr"]["vcf_len"], False)
                _hist_assign(f.header, "vcf_count", new["hdr"]["vcf_count"], False)
        elif step == "ocf":
            _hist_assign(f, "op_ctrl_field", _opt(new["ocf"]), False)
            if primary:
                _hist_assign(f.header, "op_ctrl_flag", bool(new["hdr"]["ocf"]), False)
        elif step in ("iz", "fecf"):
            _hist_assign(f, "insert_zone" if step == "iz" else "fecf", _opt(new[step]), False)
        else:
            _hist_assign(f.tfdf, _TFDF_ATTR[step], _TFDF_CONV.get(step, lambda v: v)(new["tfdf"][step]), False)
        done.add(step)

    for step in hist.get("path") or []:
        if step in FRAME_STEPS or step in ("set_len", "tfdf"):
            do(step)
    for step in FRAME_STEPS:
        if step not in done and differs(step):
            do(step)
    if primary:
        _hist_assign(f.header, "frame_len", new["hdr"]["frame_len"], False)


def _frame_hist_usable(old, new, hist) -> bool:
    try:
        if old["hdr"]["kind"] != new["hdr"]["kind"] or not (_hdr_in_domain(old["hdr"]) and _hdr_in_domain(new["hdr"])):
            return False
        if not (_tfdf_consistent(old["tfdf"]) and _tfdf_consistent(new["tfdf"])):
            return False
        # the pointer neither appears nor disappears (fixed-length rules on both sides or on neither): see _tfdf_hist_supported
        if (old["tfdf"]["fhp"] is None) != (new["tfdf"]["fhp"] is None):
            return False
        for x in (old, new):
            trunc = x["hdr"]["kind"] == "truncated"
            has_ocf = bool(x["ocf"])
            if (has_ocf and len(unhx(x["ocf"])) != 4) or (not trunc and bool(x["hdr"]["ocf"]) != has_ocf) or (trunc and has_ocf):
                return False
            if trunc and x["tfdf"]["rules"] in FP_RULES:
                return False
        return frame_total_len(new) <= 60000 and frame_total_len(old) <= 60000
    except (KeyError, TypeError, ValueError):
        return False


def _frame_after_history(a):
    hist = a["hist"]
    old = hist["from"]
    if not _frame_hist_usable(old, a, hist):
        return _frame(a)
    src = hist.get("source", "ctor")
    truncated = a["hdr"]["kind"] == "truncated"
    if src == "unpack":
        old = copy.deepcopy(old)
        if not truncated:
            old["hdr"]["frame_len"] = frame_total_len(old) - 1      # (the octets a sender emits: the field is set)
        raw_old = enc_frame(old)

    def make():
        if src != "unpack":
            return _frame(old)
        ft = 0 if old["tfdf"]["rules"] in FP_RULES else 1
        p = {"kind": ft, "len": len(raw_old), "iz": None if old["iz"] is None else len(unhx(old["iz"])),
             "fecf": None if old["fecf"] is None else len(unhx(old["fecf"]))}
        return TransferFrame.unpack(raw_frame=raw_old + unhx(hist.get("sfx", "")), frame_type=FrameType(ft),
                                    frame_properties=_props_new(p))
    got: Dict[str, Any] = {}
    try:
        err = core.read_mutate_read(make, _hist_frame_views(truncated), lambda f: _frame_mutate(f, old, a, hist), lambda: _frame(a),
                                    f"TransferFrame ({'decoded' if src == 'unpack' else 'constructed'} with {_short_frame(old)}, then "
                                    f"changed through its public attributes / set_frame_len_in_header() in the order {hist.get('path')} "
                                    f"to reach {_short_frame(a)})", first=hist.get("read"), after=hist.get("after"), out=got)
    except _NoHistory:
        return _frame(a)
    if src == "unpack":
        _decoded_like_constructed(got, _hist_frame_views(truncated), lambda: _frame(old), hist.get("read"),
                                  f"TransferFrame.unpack({hx(raw_old)}{hist.get('sfx', '')}, matching managed parameters)")
    if err:
        raise SelfCheckFailure(err)
    return got["obj"]


def _short_frame(f) -> str:
    return str({k: f[k] for k in ("hdr", "tfdf", "iz", "ocf", "fecf")})[:400]


# ---------------------------------------------------------------------------------------------
# implementation ops
# ---------------------------------------------------------------------------------------------
def op_hdr_pack(a):
    h = _hdr_after_history(a, "primary") if a.get("hist") else _phdr(a)
    # (packs twice, the caller modifying the first returned buffer in between)
    raw = core.pack_stable(h, "PrimaryHeader.pack()")
    if a.get("check"):
        if len(raw) != h.len():
            raise SelfCheckFailure(f"len(pack())={len(raw)} != len()={h.len()}")
        h2 = PrimaryHeader.unpack(raw)
        if _norm_hdr(core.ISOLATION.check("PrimaryHeader", h2, _phdr_fields)) != _norm_hdr(_phdr_fields(h)):
            raise SelfCheckFailure("unpack(pack(h)) has different field values")
        if bytes(h2.pack()) != raw:
            raise SelfCheckFailure("re-packing the decoded header does not reproduce the octets")
    return {"raw": hx(raw), "len": int(h.len())}


def _sampled(raw: bytes) -> bool:
    """the exhaustive header sweeps decode ~250 000 headers: the receive-buffer probe (core.decode_detached) looks at one
    in eight of them, chosen by the octets themselves (a case stays self-contained)"""
    return zlib.crc32(raw) & 7 == 0


def op_hdr_unpack(a):
    raw = unhx(a["raw"])
    h = PrimaryHeader.unpack(raw, a["version"])
    # headers decoded by earlier calls must still show what they showed then
    f = _ISO_SWEEP.check("PrimaryHeader", h, _phdr_fields)
    if _sampled(raw):
        # decoded out of a receive buffer that is reused afterwards
        core.check_detached(lambda b: PrimaryHeader.unpack(b, a["version"]), raw, _hdr_view, "PrimaryHeader.unpack",
                            expect=_hdr_view(h), memview=core.accepts_memoryview(PrimaryHeader.unpack))
    if a.get("check") and core.pack_stable(h, "PrimaryHeader.pack() of a decoded header") != raw[: h.len()]:
        raise SelfCheckFailure("pack(unpack(b)) != b[:len]")
    return f


def op_thdr_pack(a):
    h = _hdr_after_history(a, "truncated") if a.get("hist") else _thdr(a)
    raw = core.pack_stable(h, "TruncatedPrimaryHeader.pack()")
    if a.get("check"):
        if len(raw) != h.len():
            raise SelfCheckFailure(f"len(pack())={len(raw)} != len()={h.len()}")
        h2 = TruncatedPrimaryHeader.unpack(raw)
        if core.ISOLATION.check("TruncatedPrimaryHeader", h2, _thdr_fields) != _thdr_fields(h):
            raise SelfCheckFailure("unpack(pack(h)) has different field values")
    return {"raw": hx(raw), "len": int(h.len())}


def op_thdr_unpack(a):
    raw = unhx(a["raw"])
    h = TruncatedPrimaryHeader.unpack(raw, a["version"])
    f = _ISO_SWEEP.check("TruncatedPrimaryHeader", h, _thdr_fields)
    if _sampled(raw):
        core.check_detached(lambda b: TruncatedPrimaryHeader.unpack(b, a["version"]), raw, _hdr_view,
                            "TruncatedPrimaryHeader.unpack", expect=_hdr_view(h),
                            memview=core.accepts_memoryview(TruncatedPrimaryHeader.unpack))
    if a.get("check") and core.pack_stable(h, "TruncatedPrimaryHeader.pack() of a decoded header") != raw[:4]:
        raise SelfCheckFailure("pack(unpack(b)) != b[:4]")
    return f


def op_hdr_type(a):
    return {"truncated": determine_header_type(unhx(a["raw"])) == HeaderType.TRUNCATED}


def op_tfdf_new(a):
    return _tfdf_fields(_tfdf_after_history(a) if a.get("hist") else _tfdf(a))


def op_tfdf_pack(a):
    t = _tfdf_after_history(a) if a.get("hist") else _tfdf(a)
    ft = _ft(a["frame_type"])
    raw = core.pack_stable(t, "TransferFrameDataField.pack()", packer=lambda: t.pack(truncated=bool(a["truncated"]), frame_type=ft))
    if a.get("check") and len(raw) != t.len():
        raise SelfCheckFailure(f"len(tfdf.pack())={len(raw)} != tfdf.len()={t.len()}")
    return {"raw": hx(raw), "len": int(t.len()),
            "should_fhp": bool(t.should_have_fhp_or_lvp_field(truncated=bool(a["truncated"]), frame_type=ft))}


def op_tfdf_unpack(a):
    raw = unhx(a["raw"])

    def decode(b):
        return TransferFrameDataField.unpack(raw_tfdf=b, truncated=bool(a["truncated"]), exact_len=a["exact_len"],
                                             frame_type=_ft(a["frame_type"]))
    t = decode(raw)
    if a.get("check"):
        # the length views, read IMMEDIATELY after decode (nothing else was called on the object): the data field as decoded has
        # header_len() + len(tfdz) octets, reports them, and packs (same arguments as the decode) to the octets it was made of
        n_len, n_hdr = int(t.len()), int(t.header_len())
        if n_len != n_hdr + len(t.tfdz):
            raise SelfCheckFailure(f"TransferFrameDataField.unpack: len() read immediately after decode is {n_len}; the decoded data field "
                                   f"has a {n_hdr} octet header and a {len(t.tfdz)} octet data zone")
        again = core.pack_stable(t, "TransferFrameDataField.pack() of a decoded data field",
                                 packer=lambda: t.pack(truncated=bool(a["truncated"]), frame_type=_ft(a["frame_type"])))
        if len(again) != n_len or again != raw[:n_len] or (a["exact_len"] >= 1 and n_len != min(a["exact_len"], len(raw))):
            raise SelfCheckFailure(f"TransferFrameDataField.unpack: len() read immediately after decode is {n_len}, pack() gives "
                                   f"{len(again)} octets ({again.hex()[:60]}) for the data field {raw[:a['exact_len']].hex()[:60]}")
    f = core.ISOLATION.check("TransferFrameDataField", t, _tfdf_fields)
    # decoded out of a receive buffer that is reused afterwards: the data zone is still the one that was decoded
    core.check_detached(decode, raw, _tfdf_fields, "TransferFrameDataField.unpack", expect=f,
                        memview=core.accepts_memoryview(TransferFrameDataField.unpack, "raw_tfdf"))
    return f


def op_tfdf_query(a):
    t = TransferFrameDataField(tfdz_cnstr_rules=_rules(a["rules"]), uslp_ident=UslpProtocolIdentifier.IDLE_DATA,
                               tfdz=b"")
    return {"should_fhp": bool(t.should_have_fhp_or_lvp_field(truncated=bool(a["truncated"]), frame_type=_ft(a["frame_type"]))),
            "fixed_ok": bool(t.verify_frame_type(FrameType.FIXED)),
            "variable_ok": bool(t.verify_frame_type(FrameType.VARIABLE))}


def op_props_new(a):
    kw = dict(has_insert_zone=bool(a["has_iz"]), has_fecf=bool(a["has_fecf"]), insert_zone_len=a["iz_len"],
              fecf_len=a["fecf_len"])
    if a["kind"] == 0:
        p = FixedFrameProperties(fixed_len=a["len"], **kw)
        ln = p.fixed_len
    else:
        p = VarFrameProperties(truncated_frame_len=a["len"], **kw)
        ln = p.truncated_frame_len
    izp, fp = p.insert_zone_properties, p.fecf_properties
    return {"iz": int(izp.size) if izp.present else None, "fecf": int(fp.size) if fp.present else None, "len": int(ln)}


def op_frame_pack(a):
    f = _frame_after_history(a) if a.get("hist") else _frame(a)
    if a["set_len"]:
        before = int(f.header.frame_len) if a["hdr"]["kind"] == "primary" else None
        try:
            f.set_frame_len_in_header()
        except ValueError:
            # a refusal (frame too long for the 16-bit field) leaves the header as it was
            if before is not None and int(f.header.frame_len) != before:
                raise SelfCheckFailure("set_frame_len_in_header() raised ValueError but changed the frame length field")
            raise
    ft = _ft(a["frame_type"])
    raw = core.pack_stable(f, "TransferFrame.pack()", packer=lambda: f.pack(truncated=bool(a["truncated"]), frame_type=ft))
    is_primary = a["hdr"]["kind"] == "primary"
    if a.get("check"):
        if len(raw) != f.len():
            raise SelfCheckFailure(f"len(pack())={len(raw)} != len()={f.len()}")
        if is_primary and a["set_len"] and f.header.frame_len != len(raw) - 1:
            raise SelfCheckFailure("frame length field after set_frame_len_in_header() is not packed size - 1")
        # decode with the matching managed parameters
        if a["set_len"] or not is_primary:
            uft = a["check_ft"]
            p = {"kind": uft, "len": len(raw), "iz": None if a["iz"] is None else len(unhx(a["iz"])),
                 "fecf": None if a["fecf"] is None else len(unhx(a["fecf"]))}
            # (a fresh managed-parameter object: the verdict of a pack case depends on this case alone)
            f2 = TransferFrame.unpack(raw_frame=raw, frame_type=FrameType(uft), frame_properties=_props_new(p))
            want, got = _frame_fields(f), core.ISOLATION.check("TransferFrame", f2, _frame_fields)
            want["hdr"], got["hdr"] = _norm_hdr(want["hdr"]), _norm_hdr(got["hdr"])
            if want != got:
                diff = sorted(k for k in want if want[k] != got[k])
                raise SelfCheckFailure(f"unpack(pack(frame)) with matching managed parameters differs in {diff}")
    return {"raw": hx(raw), "len": int(f.len()), "frame_len": int(f.header.frame_len) if is_primary else None}


def op_frame_unpack(a):
    raw = unhx(a["raw"])
    ft = FrameType(a["frame_type"])
    # `before`: frames of the same channel configuration decoded first with the SAME managed-parameter object (what a
    # receiver does); they must decode, and must not influence how the frame of this case is decoded. Such a case
    # starts from a fresh object, so it is a self-contained failing input (replayable); all other cases share one
    # object per distinct parameter set with every earlier and later case (core.REUSE).
    props = _props_new(a["props"]) if a.get("before") else _props(a["props"])
    for b in a.get("before", ()):
        TransferFrame.unpack(raw_frame=unhx(b), frame_type=ft, frame_properties=props)
    if a.get("check"):
        _decoded_frame_lengths(lambda: TransferFrame.unpack(raw_frame=raw, frame_type=ft, frame_properties=_props_new(a["props"])),
                               raw, a["props"], ft)
    f = TransferFrame.unpack(raw_frame=raw, frame_type=ft, frame_properties=props)
    # frames decoded by earlier calls must still show what they showed then
    fields = core.ISOLATION.check("TransferFrame", f, _frame_fields)
    if a.get("check"):
        again = core.pack_stable(f, "TransferFrame.pack() of a decoded frame",
                                 packer=lambda: f.pack(truncated=f.header.truncated(), frame_type=ft))
        if again != raw[: f.len()] or len(again) != f.len():
            raise SelfCheckFailure("pack(unpack(b)) != b[:len]")
    # the link receiver reads every frame into ONE frame buffer (a bytearray) and keeps the decoded frames: a frame
    # decoded earlier still has the header, insert zone, data zone, OCF and FECF it had when the buffer is overwritten
    # by the next frame (a fresh managed-parameter object: the probe leaves nothing behind for later cases)
    view = _frame_view(ft) if a.get("check") else _frame_fields
    core.check_detached(lambda b: TransferFrame.unpack(raw_frame=b, frame_type=ft, frame_properties=_props_new(a["props"])),
                        raw, view, "TransferFrame.unpack", expect=view(f),
                        memview=core.accepts_memoryview(TransferFrame.unpack, "raw_frame"))
    return fields


def _decoded_frame_lengths(decode, raw: bytes, p, ft) -> None:
    """`raw` starts with a well-formed frame (followed by anything); `decode()` decodes it with the matching managed parameters
    `p` (a fresh managed-parameter object per call). The length views of the decoded frame, read IMMEDIATELY after decode -
    before anything else is called on the object, and on a separate object for every view order:
      (i)  len() is the number of octets of the frame, tfdf.len() the number of octets of its data field
           (= tfdf.header_len() + len(tfdf.tfdz)), pack() gives the frame's octets;
      (ii) set_frame_len_in_header() as the FIRST call on a decoded frame leaves the length field at (octets - 1), and the frame
           still packs to the same octets."""
    trunc = bool(raw[3] & 1)
    total = p["len"] if trunc else ((raw[4] << 8) | raw[5]) + 1
    hl = 4 if trunc else 7 + (raw[6] & 7)
    rest = (p["iz"] or 0) + (p["fecf"] or 0) + (4 if (not trunc and raw[6] & 8) else 0)
    what = f"TransferFrame.unpack({raw.hex()[:160]}, matching managed parameters)"
    f = decode()
    n_frame = int(f.len())
    n_tfdf, n_th, n_tz = int(f.tfdf.len()), int(f.tfdf.header_len()), len(f.tfdf.tfdz)
    if n_frame != total:
        raise SelfCheckFailure(f"{what}: len() read immediately after decode is {n_frame}, the frame has {total} octets")
    if n_tfdf != total - hl - rest or n_th + n_tz != n_tfdf:
        raise SelfCheckFailure(f"{what}: tfdf.len() read immediately after decode is {n_tfdf} (header_len() {n_th}, data zone {n_tz} "
                               f"octets); the data field of the frame has {total - hl - rest} octets")
    again = bytes(f.pack(truncated=trunc, frame_type=ft))
    if again != raw[:total]:
        raise SelfCheckFailure(f"{what}: the decoded frame packs to {again.hex()[:160]}")
    g = decode()
    g.set_frame_len_in_header()
    if not trunc and int(g.header.frame_len) != total - 1:
        raise SelfCheckFailure(f"{what}: set_frame_len_in_header() as the first call on the decoded frame writes the length field "
                               f"{int(g.header.frame_len)}; the frame has {total} octets, the format requires {total - 1}")
    again = bytes(g.pack(truncated=trunc, frame_type=ft))
    if again != raw[:total] or int(g.len()) != total:
        raise SelfCheckFailure(f"{what}: after set_frame_len_in_header() as the first call on the decoded frame it packs to "
                               f"{again.hex()[:160]} and reports len() {int(g.len())}")


# the exhaustive header sweeps decode ~250 000 headers: they look back one object only (run time)
_ISO_SWEEP = core.Isolation(keep=1)


def _hdr_view(h):
    """every observable of a decoded header: its fields and the octets it packs to"""
    f = dict(_header_fields(h))
    try:
        f["raw"] = hx(h.pack())
    except ValueError:
        f["raw"] = None
    return f


def _frame_view(ft):
    """every observable of a decoded frame that re-packs: its fields and the octets it packs to"""
    def view(f):
        v = _frame_fields(f)
        v["raw"] = hx(f.pack(truncated=f.header.truncated(), frame_type=ft))
        return v
    return view


def _cls(fn):
    """outcome as a value: 'ok', the Uslp* class name, or 'value'; anything else escapes to the framework"""
    def op(a):
        try:
            fn(a)
        except SelfCheckFailure:
            raise
        except Exception as e:  # noqa
            for n in USLP_CLASS_NAMES:
                c = getattr(udefs, n, None)
                if isinstance(c, type) and isinstance(e, c):
                    return {"outcome": n}
            if isinstance(e, ValueError):
                return {"outcome": "value"}
            raise
        return {"outcome": "ok"}
    return op


OPS = {
    "uslp_hdr_pack": op_hdr_pack, "uslp_hdr_unpack": op_hdr_unpack, "uslp_hdr_unpack_cls": _cls(op_hdr_unpack),
    "uslp_thdr_pack": op_thdr_pack, "uslp_thdr_unpack": op_thdr_unpack, "uslp_thdr_unpack_cls": _cls(op_thdr_unpack),
    "uslp_hdr_type": op_hdr_type, "uslp_tfdf_new": op_tfdf_new, "uslp_tfdf_pack": op_tfdf_pack,
    "uslp_tfdf_pack_cls": _cls(op_tfdf_pack), "uslp_tfdf_unpack": op_tfdf_unpack,
    "uslp_tfdf_unpack_cls": _cls(op_tfdf_unpack), "uslp_tfdf_query": op_tfdf_query, "uslp_props_new": op_props_new,
    "uslp_frame_pack": op_frame_pack, "uslp_frame_pack_cls": _cls(op_frame_pack),
    "uslp_frame_unpack": op_frame_unpack, "uslp_frame_unpack_cls": _cls(op_frame_unpack),
}


# ---------------------------------------------------------------------------------------------
# independent encoders (CCSDS 732.1-B-2 layout) used to produce decoder inputs
# ---------------------------------------------------------------------------------------------
def enc_common(h, trunc: int) -> bytes:
    s, v, m = h["scid"], h["vcid"], h["map_id"]
    return bytes([0xC0 | (s >> 12), (s >> 4) & 0xFF, ((s & 0xF) << 4) | (h["src_dest"] << 3) | (v >> 3),
                  ((v & 7) << 5) | (m << 1) | trunc])


def enc_phdr(h) -> bytes:
    n = h["vcf_len"]
    c = 0 if h["vcf_count"] is None else h["vcf_count"]
    return (enc_common(h, 0) + h["frame_len"].to_bytes(2, "big")
            + bytes([(h["bypass"] << 7) | (h["prot"] << 6) | (h["ocf"] << 3) | n]) + c.to_bytes(n, "big"))


def enc_hdr(h) -> bytes:
    return enc_common(h, 1) if h["kind"] == "truncated" else enc_phdr(h)


def enc_tfdf(t) -> bytes:
    b = bytes([(t["rules"] << 5) | t["upid"]])
    if t["fhp"] is not None:
        b += t["fhp"].to_bytes(2, "big")
    return b + unhx(t["tfdz"])


def frame_total_len(f) -> int:
    hl = 4 if f["hdr"]["kind"] == "truncated" else 7 + f["hdr"]["vcf_len"]
    return hl + len(enc_tfdf(f["tfdf"])) + sum(len(unhx(f[k])) for k in ("iz", "ocf", "fecf") if f[k] is not None)


def enc_frame(f) -> bytes:
    """frame dict (well-formed, frame_len already set) -> octets"""
    return (enc_hdr(f["hdr"]) + (_opt(f["iz"]) or b"") + enc_tfdf(f["tfdf"]) + (_opt(f["ocf"]) or b"")
            + (_opt(f["fecf"]) or b""))


# ---------------------------------------------------------------------------------------------
# generators
# ---------------------------------------------------------------------------------------------
FP_RULES = (0, 1, 2)
VP_RULES = (3, 4, 5, 6, 7)


def rand_ids(rng):
    return {"scid": rng.randint(0, 65535), "src_dest": rng.randint(0, 1), "vcid": rng.randint(0, 63),
            "map_id": rng.randint(0, 15)}


def vcf_pool(n: int, rng) -> List[int]:
    if n == 0:
        return [0]
    top = 256 ** n - 1
    s = {0, 1, top, top - 1, 1 << (8 * n - 1), (1 << (8 * n - 1)) - 1, 0xFF, rng.randint(0, top), rng.randint(0, top)}
    if n > 1:
        s.update({0x100, 1 << (8 * (n - 1)), (1 << (8 * (n - 1))) - 1, int.from_bytes(bytes(range(1, n + 1)), "big")})
    return sorted(v for v in s if 0 <= v <= top)


def rand_phdr(rng, vcf_len=None):
    n = rng.randint(0, 7) if vcf_len is None else vcf_len
    h = {"kind": "primary", **rand_ids(rng), "frame_len": rng.randint(0, 65535), "bypass": rng.randint(0, 1),
         "prot": rng.randint(0, 1), "ocf": rng.randint(0, 1), "vcf_len": n,
         "vcf_count": rng.choice(vcf_pool(n, rng)) if n else rng.choice([None, 0])}
    return h


def rand_thdr(rng):
    return {"kind": "truncated", **rand_ids(rng)}


def wf_frame(rng, rules: int, truncated: bool, iz_len: Optional[int], ocf: bool, fecf_len: Optional[int],
             tfdz_len: int, upid: Optional[int] = None, vcf_len: Optional[int] = None) -> Tuple[Dict[str, Any], int]:
    """a well-formed frame (dict) and the frame type (0 fixed / 1 variable) it belongs to.
    truncated headers and the variable type go with the VP rules and carry no pointer; the fixed
    type goes with the FP rules and carries the 16-bit pointer"""
    if truncated:
        assert rules in VP_RULES and not ocf
        hdr = rand_thdr(rng)
    else:
        hdr = rand_phdr(rng, vcf_len)
        hdr["ocf"] = int(ocf)
    ft = 0 if rules in FP_RULES else 1
    tfdf = {"rules": rules, "upid": rng.randint(0, 31) if upid is None else upid,
            "fhp": rng.choice([0, 1, 0xFFFF, 0xFFFE, 0x100, 0xFF, rng.randint(0, 0xFFFF)]) if ft == 0 else None,
            "tfdz": hx(rbytes(rng, tfdz_len))}
    f = {"hdr": hdr, "tfdf": tfdf, "iz": None if iz_len is None else hx(rbytes(rng, iz_len)),
         "ocf": hx(rbytes(rng, 4)) if ocf else None, "fecf": None if fecf_len is None else hx(rbytes(rng, fecf_len))}
    if not truncated:
        hdr["frame_len"] = frame_total_len(f) - 1
    return f, ft


def matching_props(f, ft: int, raw_len: int, rng) -> Dict[str, Any]:
    trunc = f["hdr"]["kind"] == "truncated"
    if ft == 0 or trunc:
        ln = raw_len
    else:
        ln = rng.choice([0, raw_len, rng.randint(0, 70000)])   # unused for a variable non-truncated frame
    return {"kind": ft, "len": ln, "iz": None if f["iz"] is None else len(unhx(f["iz"])),
            "fecf": None if f["fecf"] is None else len(unhx(f["fecf"]))}


def should_fhp(rules: int, truncated: bool, ft: Optional[int]) -> bool:
    if ft is None:
        ft = 0 if rules in FP_RULES else (1 if rules in VP_RULES else None)
    return ft != 1 and not truncated and rules in FP_RULES


def frame_configs(rng, thorough: bool):
    """every construction rule x header kind x optional insert zone / OCF / FECF"""
    izs = [None, 0, 1, 5] + ([2, 17] if thorough else [])
    fecfs = [None, 2, 4] + ([0, 1, 3] if thorough else [])
    tfdzs = [0, 1, 2, 3, 9] + ([40, 300] if thorough else [])
    for rules in range(8):
        for truncated in ((False, True) if rules in VP_RULES else (False,)):
            for iz in izs:
                for ocf in ((False,) if truncated else (False, True)):
                    for fecf in fecfs:
                        for tl in tfdzs:
                            yield rules, truncated, iz, ocf, fecf, tl


class C17(Prop):
    id = "C17"
    title = "USLP headers and transfer frames"
    lean_modules = ["SpVerif.Props.C17"]
    exhaustive_note = ("all 65536 values of header octets 0-1 and of octets 2-3 and all 256 values of octet 6 (with every "
                       "tail length 0..8) through both header decoders; all 256 data-field header octets x truncated x "
                       "frame type through the data-field decoder; all 8 rules x 32 protocol ids x flags through the "
                       "data-field encoder; every truncation of sampled frames; histories (key hist): every (old, new) VCF count "
                       "length 0..7 with count and length assigned in both orders, every ordered pair of the ten primary-header "
                       "attributes, every order of the four attributes of the truncated header and of the data field")
    trusted_base = [
        "arithmetic normal form of the model vs shifts/masks of the code: tied by the exhaustive octet/word sweeps",
        "individual Uslp* exception classes are compared through the *_cls ops (class name as a value); the plain ops "
        "compare the shared category 'uslp'",
    ]
    assumptions = [
        "flag-valued fields (src/dest, bypass, protocol command, OCF flag) take their enum members 0/1; frame length, "
        "VCF count, VCF length and pointer arguments are non-negative integers",
        "a VCF count of length 0 carries no value: the decoder reports 0 whatever the encoder was given",
        "TransferFrame.pack is called with truncated = header.truncated() (as the test-suite does)",
        "histories of a data field in which the pointer (fhp_or_lvop) appears or disappears are told only with the data zone "
        "assigned after the pointer: len() is a size the `tfdz` setter remembers (see C17.history_cases for the call sequence "
        "on the unchanged tree)",
    ]

    def impl_ops(self):
        return OPS

    def table_sync(self):
        d = []
        if uhdr.USLP_VERSION_NUMBER != 12:
            d.append(f"USLP_VERSION_NUMBER={uhdr.USLP_VERSION_NUMBER} model=12")
        if ufrm.USLP_TFDF_MAX_SIZE != 65529:
            d.append(f"USLP_TFDF_MAX_SIZE={ufrm.USLP_TFDF_MAX_SIZE} model=65529")
        rules = {"FpPacketSpanningMultipleFrames": 0, "FpFixedStartOfMapaSDU": 1, "FpContinuingPortionOfMapaSDU": 2,
                 "VpOctetStream": 3, "VpStartingSegment": 4, "VpContinuingSegment": 5, "VpLastSegment": 6,
                 "VpNoSegmentation": 7}
        if {m.name: int(m) for m in TfdzConstructionRules} != rules:
            d.append("TfdzConstructionRules members")
        if {m.name: m.value for m in FrameType} != {"FIXED": 0, "VARIABLE": 1}:
            d.append("FrameType members")
        if {m.name: m.value for m in HeaderType} != {"NON_TRUNCATED": 0, "TRUNCATED": 1}:
            d.append("HeaderType members")
        for en in (SourceOrDestField, BypassSequenceControlFlag, ProtocolCommandFlag):
            if sorted(int(m) for m in en) != [0, 1]:
                d.append(f"{en.__name__} members")
        if any(not (0 <= int(m) < 32) for m in UslpProtocolIdentifier):
            d.append("UslpProtocolIdentifier member outside 5 bits")
        # every member the ops use BY NAME against the tables of the standard (a swap leaves the set of values intact)
        d += core.std_table_diffs((SourceOrDestField, BypassSequenceControlFlag, ProtocolCommandFlag, TfdzConstructionRules,
                                   UslpProtocolIdentifier))
        for n in USLP_CLASS_NAMES:
            c = getattr(udefs, n, None)
            if not (isinstance(c, type) and issubclass(c, Exception)):
                d.append(f"uslp.defs.{n} missing")
        return d

    def nontrivial(self, c: Case) -> bool:
        o = c.op
        if "raw" in o and isinstance(o["raw"], str):
            return o["raw"].strip("0") != ""
        return True

    # -----------------------------------------------------------------------------------------
    def cases(self, rng: random.Random, tier: str) -> Iterator[Case]:
        thorough = tier == "thorough"
        yield from self.header_cases(rng, thorough)
        yield from self.tfdf_cases(rng, thorough)
        yield from self.frame_cases(rng, thorough)
        # objects that reached their values through attribute assignments in every order (case key "hist")
        yield from self.history_cases(rng, thorough)

    # -----------------------------------------------------------------------------------------
    def header_cases(self, rng, thorough):
        # --- exhaustive sweeps through both decoders ---
        for w in range(65536):
            tail = bytearray(rbytes(rng, 13))
            tail[1] &= 0xFE          # octet 3: regular header
            tail[4] &= 0xCF          # octet 6: spare bits clear (they are not kept by the decoder)
            raw = bytes([w >> 8, w & 0xFF]) + bytes(tail)
            exp = "valid" if (w >> 12) == 0xC else "invalid"
            yield Case({"op": "uslp_hdr_unpack", "raw": hx(raw), "version": 12, "check": exp == "valid"}, exp, tag="word0-sweep")
            if w % 4 == 0:
                raw = bytes([w >> 8, w & 0xFF, tail[0], tail[1] | 1]) + rbytes(rng, w % 3)
                yield Case({"op": "uslp_thdr_unpack", "raw": hx(raw), "version": 12, "check": exp == "valid"}, exp, tag="word0-sweep")
        for w in range(65536):
            tail = bytearray(rbytes(rng, 10))
            tail[2] &= 0xCF
            raw = bytes([0xC0 | rng.getrandbits(4), rng.getrandbits(8), w >> 8, w & 0xFF]) + bytes(tail)
            t = w & 1
            yield Case({"op": "uslp_hdr_unpack", "raw": hx(raw), "version": 12, "check": not t},
                       "invalid" if t else "valid", tag="word1-sweep")
            yield Case({"op": "uslp_thdr_unpack", "raw": hx(raw[: 4 + w % 3]), "version": 12, "check": bool(t)},
                       "valid" if t else "invalid", tag="word1-sweep")
            if w % 16 == 0:
                yield Case({"op": "uslp_hdr_type", "raw": hx(raw[: 4 + w % 2])}, "valid", tag="word1-sweep")
        for b6 in range(256):
            for tl in range(0, 9):
                h = rand_phdr(rng, 0)
                raw = enc_phdr(h)[:6] + bytes([b6]) + rbytes(rng, tl)
                ok = (b6 & 7) <= tl
                yield Case({"op": "uslp_hdr_unpack", "raw": hx(raw), "version": 12, "check": ok and not (b6 & 0x30)},
                           "valid" if ok else "invalid", tag="octet6-sweep")
        # --- encoder: every flag combination x every VCF length x boundary counts x boundary ids ---
        scids, vcids, maps, flens = pool(65535, rng), pool(63, rng), pool(15, rng), pool(65535, rng)
        for n in range(8):
            for c in vcf_pool(n, rng):
                for flags in range(16):
                    h = {"kind": "primary", "scid": rng.choice(scids), "src_dest": flags & 1, "vcid": rng.choice(vcids),
                         "map_id": rng.choice(maps), "frame_len": rng.choice(flens), "bypass": (flags >> 1) & 1,
                         "prot": (flags >> 2) & 1, "ocf": (flags >> 3) & 1, "vcf_len": n, "vcf_count": c}
                    yield Case({"op": "uslp_hdr_pack", **h, "check": True}, "valid", tag="flags-x-vcf")
                    if flags % 4 == 0:
                        yield Case({"op": "uslp_hdr_unpack", "raw": hx(enc_phdr(h) + rbytes(rng, flags % 3)), "version": 12,
                                    "check": True}, "valid", tag="flags-x-vcf")
        for s in scids:
            for v in vcids:
                h = rand_phdr(rng)
                h.update(scid=s, vcid=v, map_id=rng.choice(maps), frame_len=rng.choice(flens))
                yield Case({"op": "uslp_hdr_pack", **h, "check": True}, "valid", tag="boundary-ids")
                t = {"kind": "truncated", "scid": s, "src_dest": rng.randint(0, 1), "vcid": v, "map_id": rng.choice(maps)}
                yield Case({"op": "uslp_thdr_pack", **t, "check": True}, "valid", tag="boundary-ids")
        for m in range(16):
            for sd in (0, 1):
                t = {"kind": "truncated", **rand_ids(rng), "map_id": m, "src_dest": sd}
                yield Case({"op": "uslp_thdr_pack", **t, "check": True}, "valid", tag="all-map-ids")
                yield Case({"op": "uslp_thdr_unpack", "raw": hx(enc_common(t, 1) + rbytes(rng, m % 3)), "version": 12,
                            "check": True}, "valid", tag="all-map-ids")
        for v in range(64):
            t = {"kind": "truncated", **rand_ids(rng), "vcid": v}
            yield Case({"op": "uslp_thdr_pack", **t, "check": True}, "valid", tag="all-vcids")
            h = rand_phdr(rng)
            h["vcid"] = v
            yield Case({"op": "uslp_hdr_pack", **h, "check": True}, "valid", tag="all-vcids")
        # --- out-of-range identifiers are refused with ValueError ---
        for fld, mx in (("scid", 65535), ("vcid", 63), ("map_id", 15)):
            for bad in out_pool(mx, rng):
                h = rand_phdr(rng)
                h[fld] = bad
                yield Case({"op": "uslp_hdr_pack", **h}, "invalid", errclass=True, tag=f"bad-{fld}")
                t = rand_thdr(rng)
                t[fld] = bad
                yield Case({"op": "uslp_thdr_pack", **t}, "invalid", errclass=True, tag=f"bad-{fld}")
        # --- VCF count missing / lengths and values outside the field (not claimed; model = code) ---
        for n in range(1, 8):
            h = rand_phdr(rng, n)
            h["vcf_count"] = None
            yield Case({"op": "uslp_hdr_pack", **h}, "invalid", errclass=True, tag="vcf-count-missing")
        for n in (3, 5, 6, 7):
            for c in (256 ** n, 256 ** n + 0x010203, 1 << 70):
                h = rand_phdr(rng, n)
                h["vcf_count"] = c
                yield Case({"op": "uslp_hdr_pack", **h}, "any", tag="vcf-count-too-wide")
        for c in (256, 257, 1 << 20):
            h = rand_phdr(rng, 1)
            h["vcf_count"] = c
            yield Case({"op": "uslp_hdr_pack", **h}, "any", tag="vcf-count-too-wide")
        for n in (8, 9, 15, 16, 64, 255, 256, 1000):
            h = rand_phdr(rng, 0)
            h.update(vcf_len=n, vcf_count=rng.randint(0, 1 << 64))
            if n >= 64:
                h["vcf_count"] = 0x0102030405
            yield Case({"op": "uslp_hdr_pack", **h}, "any", tag="vcf-len-beyond-3-bits")
        for fl in (65536, 65537, 0x12345, 1 << 40):
            h = rand_phdr(rng)
            h["frame_len"] = fl
            yield Case({"op": "uslp_hdr_pack", **h}, "any", tag="frame-len-beyond-16-bits")
        # --- random full tuples: pack, unpack(pack ‖ suffix) ---
        n = 60000 if thorough else 6000
        for i in range(n):
            h = rand_phdr(rng)
            yield Case({"op": "uslp_hdr_pack", **h, "check": True}, "valid", tag="random")
            if i % 2 == 0:
                sfx = rbytes(rng, rng.choice([0, 0, 1, 2, 7, 30]))
                yield Case({"op": "uslp_hdr_unpack", "raw": hx(enc_phdr(h) + sfx), "version": 12, "check": True}, "valid",
                           tag="random+suffix")
            if i % 4 == 0:
                t = rand_thdr(rng)
                yield Case({"op": "uslp_thdr_pack", **t, "check": True}, "valid", tag="random")
                yield Case({"op": "uslp_thdr_unpack", "raw": hx(enc_common(t, 1) + rbytes(rng, rng.choice([0, 1, 5]))),
                            "version": 12, "check": True}, "valid", tag="random+suffix")
        # --- malformed: every truncation, version nibble, header-type bit, expected version ---
        for _ in range(200 if thorough else 40):
            h = rand_phdr(rng)
            raw = enc_phdr(h)
            for k in range(len(raw)):
                yield Case({"op": "uslp_hdr_unpack", "raw": hx(raw[:k]), "version": 12}, "invalid", tag="truncation")
                if k < 4:
                    yield Case({"op": "uslp_thdr_unpack", "raw": hx(raw[:k]), "version": 12}, "invalid", tag="truncation")
                    yield Case({"op": "uslp_hdr_type", "raw": hx(raw[:k])}, "invalid", errclass=True, tag="truncation")
            t = rand_thdr(rng)
            traw = enc_common(t, 1)
            for nib in range(16):
                for op, r in (("uslp_hdr_unpack", raw), ("uslp_thdr_unpack", traw)):
                    r2 = bytes([(nib << 4) | (r[0] & 0xF)]) + r[1:]
                    yield Case({"op": op, "raw": hx(r2), "version": 12}, "valid" if nib == 12 else "invalid", tag="version-nibble")
                    if op == "uslp_thdr_unpack":   # its docstring names UslpVersionMissmatch / UslpTypeMissmatch
                        yield Case({"op": op + "_cls", "raw": hx(r2), "version": 12}, "valid", tag="version-class")
                    yield Case({"op": op, "raw": hx(r2), "version": nib}, "valid", tag="expected-version")
                    yield Case({"op": op, "raw": hx(r), "version": nib}, "valid" if nib == 12 else "invalid", tag="expected-version")
            yield Case({"op": "uslp_thdr_unpack_cls", "raw": hx(raw), "version": 12}, "valid", tag="type-class")
            yield Case({"op": "uslp_hdr_unpack", "raw": hx(traw + rbytes(rng, 10)), "version": 12}, "invalid", tag="type-mismatch")
        for _ in range(4000 if thorough else 600):
            raw = rbytes(rng, rng.choice([0, 1, 3, 4, 5, 6, 7, 8, 9, 11, 14, 15, 20]))
            if rng.random() < 0.7 and raw:
                raw = bytes([0xC0 | (raw[0] & 0xF)]) + raw[1:]
            yield Case({"op": "uslp_hdr_unpack", "raw": hx(raw), "version": 12}, "any", tag="garbage")
            yield Case({"op": "uslp_thdr_unpack", "raw": hx(raw), "version": 12}, "any", tag="garbage")

    # -----------------------------------------------------------------------------------------
    def tfdf_cases(self, rng, thorough):
        for rules in list(range(8)) + [8, 9, 100]:
            for tr in (0, 1):
                for ft in (None, 0, 1):
                    yield Case({"op": "uslp_tfdf_query", "rules": rules, "truncated": tr, "frame_type": ft}, "valid", tag="query")
        # encoder: all rules x all 32 protocol ids x truncated x frame type x pointer present/absent
        for rules in range(8):
            for upid in range(32):
                for tr in (0, 1):
                    for ft in (None, 0, 1):
                        for fhp in (None, rng.choice([0, 1, 0xFFFF, 0xABCD, rng.randint(0, 0xFFFF)])):
                            t = {"rules": rules, "upid": upid, "fhp": fhp, "tfdz": hx(rbytes(rng, rng.choice([0, 1, 2, 3, 8])))}
                            need = should_fhp(rules, bool(tr), ft)
                            a = {**t, "truncated": tr, "frame_type": ft}
                            if need and fhp is None:
                                yield Case({"op": "uslp_tfdf_pack", **a}, "invalid", errclass=True, tag="pointer-missing")
                            else:
                                # the reported length equals the packed size iff the pointer is present exactly when needed
                                yield Case({"op": "uslp_tfdf_pack", **a, "check": need == (fhp is not None)}, "valid", tag="all-rules-x-upid")
        for upid in (32, 33, 63, 64, 255, 256):
            for rules in (0, 3, 7):
                t = {"rules": rules, "upid": upid, "fhp": 5 if rules == 0 else None, "tfdz": "aa"}
                yield Case({"op": "uslp_tfdf_pack", **t, "truncated": 0, "frame_type": None}, "any", tag="upid-beyond-5-bits")
        # constructor size limit (ValueError named in the docstring)
        for fhp, lens in ((None, (65526, 65527, 65528, 65529)), (7, (65522, 65523, 65524, 65525))):
            for ln in lens:
                t = {"rules": 0 if fhp is not None else 7, "upid": 1, "fhp": fhp, "tfdz": "00" * ln}
                ok = (1 if fhp is None else 3) + ln <= 65529 - (1 if fhp is None else 3)
                yield Case({"op": "uslp_tfdf_new", **t}, "valid" if ok else "invalid", errclass=not ok, tag="size-limit")
        for _ in range(50):
            t = {"rules": rng.randint(0, 7), "upid": rng.randint(0, 31), "fhp": rng.choice([None, rng.randint(0, 65535)]),
                 "tfdz": hx(rbytes(rng, rng.randint(0, 30)))}
            yield Case({"op": "uslp_tfdf_new", **t}, "valid", tag="random")
        # decoder: all 256 header octets x truncated x frame type x buffer length x exact length
        for b0 in range(256):
            rules = b0 >> 5
            for tr in (0, 1):
                for ft in (None, 0, 1):
                    for ln in (1, 2, 3, 4, 9):
                        raw = bytes([b0]) + rbytes(rng, ln - 1)
                        for ex in {ln, rng.choice([0, 1, 2, 3, ln - 1, ln + 1, ln + 5])}:
                            bad_rules = ft is not None and ((ft == 0) != (rules in FP_RULES))
                            # a data field with a pointer needs three octets both in the buffer and in its declared length
                            short = should_fhp(rules, bool(tr), ft) and (ln < 3 or max(ex, 0) < 3)
                            a = {"raw": hx(raw), "truncated": tr, "exact_len": max(ex, 0), "frame_type": ft}
                            if bad_rules or short:
                                yield Case({"op": "uslp_tfdf_unpack", **a}, "invalid", tag="octet0-sweep")
                            else:
                                yield Case({"op": "uslp_tfdf_unpack", **a, "check": True}, "valid", tag="octet0-sweep")
        for ft in (None, 0, 1):
            for tr in (0, 1):
                a = {"raw": "", "truncated": tr, "exact_len": 0, "frame_type": ft}
                yield Case({"op": "uslp_tfdf_unpack", **a}, "invalid", tag="empty")
        for _ in range(3000 if thorough else 400):
            rules = rng.randint(0, 7)
            ft = 0 if rules in FP_RULES else 1
            t = {"rules": rules, "upid": rng.randint(0, 31), "fhp": rng.randint(0, 65535) if ft == 0 else None,
                 "tfdz": hx(rbytes(rng, rng.choice([0, 1, 2, 5, 30])))}
            raw = enc_tfdf(t)
            yield Case({"op": "uslp_tfdf_unpack", "raw": hx(raw + rbytes(rng, rng.choice([0, 1, 6]))), "truncated": 0,
                        "exact_len": len(raw), "frame_type": rng.choice([ft, None]) if ft == 0 else ft, "check": True}, "valid",
                       tag="random+suffix")

    # -----------------------------------------------------------------------------------------
    def frame_cases(self, rng, thorough):
        # --- one managed-parameter object, one virtual channel, frames of different make-up back to back ---
        yield from self.sequence_cases(rng, thorough)
        sampled = []
        reps = 3 if thorough else 1
        for rules, truncated, iz, ocf, fecf, tl in frame_configs(rng, thorough):
            for _ in range(reps):
                f, ft = wf_frame(rng, rules, truncated, iz, ocf, fecf, tl)
                fp = copy.deepcopy(f)
                if not truncated:
                    fp["hdr"]["frame_len"] = rng.randint(0, 65535)   # overwritten by set_frame_len_in_header
                yield Case({"op": "uslp_frame_pack", **fp, "truncated": int(truncated), "frame_type": rng.choice([None, ft]),
                            "set_len": 1, "check": True, "check_ft": ft}, "valid", tag="all-configs")
                raw = enc_frame(f)
                p = matching_props(f, ft, len(raw), rng)
                sfx = rbytes(rng, rng.choice([0, 0, 1, 4, 9]))
                yield Case({"op": "uslp_frame_unpack", "raw": hx(raw + sfx), "frame_type": ft, "props": p, "check": True},
                           "valid", tag="all-configs+suffix")
                if rng.random() < (0.5 if thorough else 0.12):
                    sampled.append((f, ft, raw, p))
        # every protocol id, every VCF length, boundary ids inside frames
        for upid in range(32):
            rules = rng.randint(0, 7)
            f, ft = wf_frame(rng, rules, False, rng.choice([None, 3]), bool(upid & 1), rng.choice([None, 2]), rng.randint(0, 12), upid=upid)
            yield Case({"op": "uslp_frame_pack", **f, "truncated": 0, "frame_type": ft, "set_len": 1, "check": True,
                        "check_ft": ft}, "valid", tag="all-upids")
            raw = enc_frame(f)
            yield Case({"op": "uslp_frame_unpack", "raw": hx(raw), "frame_type": ft, "props": matching_props(f, ft, len(raw), rng),
                        "check": True}, "valid", tag="all-upids")
        for n in range(8):
            for rules in (0, 2, 3, 7):
                f, ft = wf_frame(rng, rules, False, rng.choice([None, 2]), bool(n & 1), rng.choice([None, 2, 4]), rng.randint(0, 12), vcf_len=n)
                f["hdr"]["vcf_count"] = rng.choice(vcf_pool(n, rng))
                yield Case({"op": "uslp_frame_pack", **f, "truncated": 0, "frame_type": None, "set_len": 1, "check": True,
                            "check_ft": ft}, "valid", tag="all-vcf-lengths")
                raw = enc_frame(f)
                p = matching_props(f, ft, len(raw), rng)
                yield Case({"op": "uslp_frame_unpack", "raw": hx(raw + rbytes(rng, n % 3)), "frame_type": ft, "props": p,
                            "check": True}, "valid", tag="all-vcf-lengths")
                sampled.append((f, ft, raw, p))
        # without set_frame_len_in_header the header field is packed as given
        for _ in range(60):
            rules = rng.randint(0, 7)
            f, ft = wf_frame(rng, rules, False, rng.choice([None, 2]), rng.random() < 0.5, rng.choice([None, 2]), rng.randint(0, 9))
            f["hdr"]["frame_len"] = rng.choice(pool(65535, rng))
            yield Case({"op": "uslp_frame_pack", **f, "truncated": 0, "frame_type": ft, "set_len": 0, "check": True,
                        "check_ft": ft}, "valid", tag="no-set-len")
        # large frames (length field near its maximum)
        for total in ((65536, 65535, 65000) if thorough else (65536, 65535)):
            for rules in (1, 7):
                f, ft = wf_frame(rng, rules, False, 3, True, 2, 0)
                over = frame_total_len(f)
                f["tfdf"]["tfdz"] = hx(rbytes(rng, total - over))
                f["hdr"]["frame_len"] = total - 1
                yield Case({"op": "uslp_frame_pack", **f, "truncated": 0, "frame_type": ft, "set_len": 1, "check": True,
                            "check_ft": ft}, "valid", tag="large")
                raw = enc_frame(f)
                yield Case({"op": "uslp_frame_unpack", "raw": hx(raw), "frame_type": ft, "props": matching_props(f, ft, len(raw), rng),
                            "check": True}, "valid", tag="large")
        # frames too long for the 16-bit frame length field: set_frame_len_in_header() refuses (ValueError, never a
        # truncated field); without the call the frame still packs with the field as given; a truncated header has no
        # length field and nothing is checked
        for total in ((65537, 65538, 65600, 70000, 131072) if thorough else (65537, 65538, 66000)):
            for rules in (1, 7):
                f, ft = wf_frame(rng, rules, False, total - 65000, True, 2, 0)
                over = frame_total_len(f)
                f["tfdf"]["tfdz"] = hx(rbytes(rng, total - over))
                assert frame_total_len(f) == total
                f["hdr"]["frame_len"] = rng.choice([0, 0xFFFF, (total - 1) & 0xFFFF, rng.randint(0, 65535)])
                yield Case({"op": "uslp_frame_pack", **f, "truncated": 0, "frame_type": ft, "set_len": 1}, "invalid",
                           errclass=True, tag="too-long-set-len")
                yield Case({"op": "uslp_frame_pack", **f, "truncated": 0, "frame_type": ft, "set_len": 0}, "valid",
                           tag="too-long-no-set-len")
            f, ft = wf_frame(rng, rng.choice(sorted(VP_RULES)), True, total - 65000, False, 2, 0)
            f["tfdf"]["tfdz"] = hx(rbytes(rng, total - frame_total_len(f)))
            yield Case({"op": "uslp_frame_pack", **f, "truncated": 1, "frame_type": ft, "set_len": 1}, "valid",
                       tag="too-long-truncated-hdr")
        # --- encoder refusals: OCF flag / field disagree (UslpInvalidFrameHeader), OCF of the wrong size (ValueError),
        #     out-of-range ids inside a frame
        for _ in range(40):
            rules = rng.randint(0, 7)
            f, ft = wf_frame(rng, rules, False, rng.choice([None, 2]), True, rng.choice([None, 2]), rng.randint(0, 9))
            a = {"truncated": 0, "frame_type": ft, "set_len": rng.randint(0, 1)}
            g = copy.deepcopy(f); g["hdr"]["ocf"] = 0
            yield Case({"op": "uslp_frame_pack", **g, **a}, "invalid", errclass=True, tag="ocf-without-flag")
            g = copy.deepcopy(f); g["ocf"] = rng.choice([None, ""])
            yield Case({"op": "uslp_frame_pack", **g, **a}, "invalid", errclass=True, tag="flag-without-ocf")
            g = copy.deepcopy(f); g["ocf"] = hx(rbytes(rng, rng.choice([1, 2, 3, 5, 8])))
            yield Case({"op": "uslp_frame_pack", **g, **a}, "invalid", errclass=True, tag="ocf-wrong-size")
            fld, mx = rng.choice([("scid", 65535), ("vcid", 63), ("map_id", 15)])
            g = copy.deepcopy(f); g["hdr"][fld] = rng.choice(out_pool(mx, rng))
            yield Case({"op": "uslp_frame_pack", **g, **a}, "invalid", errclass=True, tag="bad-id-in-frame")
            if ft == 0:
                g = copy.deepcopy(f); g["tfdf"]["fhp"] = None
                yield Case({"op": "uslp_frame_pack", **g, **a}, "invalid", errclass=True, tag="pointer-missing")
        # --- fixed frames whose data field (1 or 2 octets) is too short for the pointer: outside the statement
        #     (no encoder output looks like this); model and code must still agree
        for tl in (1, 2, 3):
            for ocf in (0, 1):
                for fecf in (None, 2):
                    for iz in (None, 1):
                        h = rand_phdr(rng)
                        h["ocf"] = ocf
                        body = (rbytes(rng, iz or 0) + bytes([(rng.choice(FP_RULES) << 5) | rng.randint(0, 31)])
                                + rbytes(rng, tl - 1) + rbytes(rng, 4 * ocf) + rbytes(rng, fecf or 0))
                        h["frame_len"] = 7 + h["vcf_len"] + len(body) - 1
                        raw = enc_phdr(h) + body
                        yield Case({"op": "uslp_frame_unpack", "raw": hx(raw), "frame_type": 0,
                                    "props": {"kind": 0, "len": len(raw), "iz": iz, "fecf": fecf}}, "any", errclass=True,
                                   tag="short-data-field")
        # --- managed parameters that do not match ---
        for f, ft, raw, p in sampled:
            yield from self.mismatch_cases(rng, f, ft, raw, p, thorough)
        # --- garbage ---
        for _ in range(5000 if thorough else 800):
            raw = bytearray(rbytes(rng, rng.choice([0, 1, 3, 4, 5, 6, 7, 8, 10, 12, 16, 24, 40])))
            if raw and rng.random() < 0.8:
                raw[0] = 0xC0 | (raw[0] & 0xF)
            if len(raw) >= 6 and rng.random() < 0.7:
                fl = len(raw) - 1 - rng.choice([0, 0, 0, 1, 2, 5])
                raw[4], raw[5] = (max(fl, 0) >> 8) & 0xFF, max(fl, 0) & 0xFF
            ft = rng.randint(0, 1)
            p = {"kind": rng.choice([ft, ft, ft, 1 - ft]), "len": rng.choice([len(raw), len(raw), rng.randint(0, 45)]),
                 "iz": rng.choice([None, None, 0, 1, 2, 5]), "fecf": rng.choice([None, None, 0, 2, 4])}
            yield Case({"op": "uslp_frame_unpack", "raw": hx(raw), "frame_type": ft, "props": p}, "any", tag="garbage")
        for has_iz in (0, 1):
            for has_fecf in (0, 1):
                for izl in (None, 0, 3):
                    for fl in (None, 2):
                        for kind in (0, 1):
                            bad = (has_iz and izl is None) or (has_fecf and fl is None)
                            yield Case({"op": "uslp_props_new", "kind": kind, "len": rng.randint(0, 100), "has_iz": has_iz,
                                        "has_fecf": has_fecf, "iz_len": izl, "fecf_len": fl},
                                       "invalid" if bad else "valid", errclass=bool(bad), tag="props")

    # -----------------------------------------------------------------------------------------
    def history_cases(self, rng, thorough):
        """Case key "hist" (see the section "objects that reached the case's values THE LONG WAY"): the op's arguments are the
        FINAL values; hist = {"from": the values the object is obtained with, "source": "ctor" | "unpack", "path": the order in
        which the public attributes are assigned, "read": views read before the first assignment (absent = all, [] = none),
        "after": order of the views read at the end, "mid": views read between two assignments}.

        FINDING on the unchanged tree (not generated; _tfdf_hist_supported leaves these histories out, the statement of the
        property quantifies over the values of a frame and names `tfdz` / set_frame_len_in_header() as the mutators):
            t = TransferFrameDataField(TfdzConstructionRules.FpPacketSpanningMultipleFrames, UslpProtocolIdentifier.IDLE_DATA,
                                       tfdz=bytes(4), fhp_or_lvop=None)
            t.fhp_or_lvop = 5        # plain public attribute
            t.len() -> 5, t.header_len() -> 3, len(t.pack()) -> 7
        len() is a size remembered by the `tfdz` setter; it does not follow a pointer that appears / disappears afterwards
        (the same the other way round: built with a pointer, `t.fhp_or_lvop = None`, len() stays 2 too large), and so
        TransferFrame.len() / set_frame_len_in_header() of a frame holding such a data field are off by 2 until `tfdz` is
        assigned again."""
        # ---- PrimaryHeader: VCF count <-> VCF count length, every (old length, new length), both orders ----
        reads = [None, [], ["len"], ["pack"], ["pack", "len"], ["decoded"]]
        k = rng.randrange(1000)

        def full(n):           # a count that uses every octet of an n octet field
            return int.from_bytes(bytes(range(0xA1, 0xA1 + n)), "big") if n else rng.choice([None, 0])

        def hcase(old, new, path, tag, op="uslp_hdr_pack", **more):
            nonlocal k
            k += 1
            hist = {"from": {x: v for x, v in old.items() if x != "kind"}, "source": ("ctor", "unpack")[k % 2], "path": path,
                    "read": reads[k % len(reads)], **more}
            return Case({"op": op, **new, "check": True, "hist": hist}, "valid", tag=tag)

        for old_n in range(8):
            for new_n in range(8):
                for counts in ((full(old_n), full(new_n)), (rng.choice(vcf_pool(old_n, rng)), rng.choice(vcf_pool(new_n, rng)))):
                    old = rand_phdr(rng, old_n)
                    old["vcf_count"] = counts[0] if old_n else rng.choice([None, 0])
                    new = dict(old, vcf_len=new_n, vcf_count=counts[1] if new_n else rng.choice([None, 0]))
                    for path in (["vcf_count", "vcf_len"], ["vcf_len", "vcf_count"]):
                        yield hcase(old, new, path, "hist-vcf-count-x-len")
                # the count stays (it fits both widths), only the length changes; the count is assigned again before / after
                c = rng.choice(vcf_pool(min(old_n, new_n), rng)) if min(old_n, new_n) else 0
                old = rand_phdr(rng, old_n)
                old["vcf_count"] = c
                new = dict(old, vcf_len=new_n)
                yield hcase(old, new, rng.choice([["vcf_len"], ["vcf_count", "vcf_len"], ["vcf_len", "vcf_count"]]),
                            "hist-vcf-len-only", mid=rng.choice([None, ["len"], ["pack"]]))

        def other_phdr(old):
            """a header that differs from `old` in EVERY field"""
            while True:
                new = rand_phdr(rng)
                new.update(src_dest=1 - old["src_dest"], bypass=1 - old["bypass"], prot=1 - old["prot"], ocf=1 - old["ocf"])
                if new["vcf_len"] == 0:
                    new["vcf_count"] = 0 if old["vcf_count"] is None else None
                if all(new[x] != old[x] for x in PHDR_KEYS):
                    return new

        # ---- every ordered pair of attributes first, the rest afterwards ----
        for x in PHDR_KEYS:
            for y in PHDR_KEYS:
                if x != y:
                    old = rand_phdr(rng)
                    yield hcase(old, other_phdr(old), [x, y], "hist-hdr-ordered-pair")
        # ---- all attributes in random orders ----
        for i in range(1500 if thorough else 150):
            old = rand_phdr(rng)
            path = rng.sample(PHDR_KEYS, len(PHDR_KEYS))
            yield hcase(old, other_phdr(old), path, "hist-hdr-permutation",
                        mid=rng.choice([None, None, ["len"], ["pack", "len"]]), after=rng.choice([None, ["pack", "len", "fields"], ["len", "decoded"]]))
        # ---- TruncatedPrimaryHeader: every order of its four attributes ----
        import itertools
        for path in itertools.permutations(THDR_KEYS):
            for _ in range(4 if thorough else 2):
                old = rand_thdr(rng)
                while True:
                    new = rand_thdr(rng)
                    new["src_dest"] = 1 - old["src_dest"]
                    if all(new[x] != old[x] for x in THDR_KEYS):
                        break
                yield hcase(old, new, list(path), "hist-thdr-permutation", op="uslp_thdr_pack")
        # ---- TransferFrameDataField: every order of its four attributes x (fixed / variable rules before and after) ----
        def rand_tfdf(fixed: bool, other=None):
            while True:
                t = {"rules": rng.choice(FP_RULES if fixed else VP_RULES), "upid": rng.randint(0, 31),
                     "fhp": rng.choice([0, 1, 0xFFFF, 0xFFFE, 0x100, rng.randint(0, 0xFFFF)]) if fixed else None,
                     "tfdz": hx(rbytes(rng, rng.choice([0, 1, 2, 3, 9, 40])))}
                if other is None or all(t[x] != other[x] for x in ("rules", "upid", "tfdz")) and (t["fhp"] is None or t["fhp"] != other["fhp"]):
                    return t

        for path in itertools.permutations(TFDF_KEYS):
            for old_fixed in (False, True):
                for new_fixed in (False, True):
                    for _ in range(3 if thorough else 1):
                        old = rand_tfdf(old_fixed)
                        new = rand_tfdf(new_fixed, old)
                        if not _tfdf_hist_supported(old, new, list(path)):
                            continue
                        k += 1
                        hist = {"from": old, "source": ("ctor", "unpack")[k % 2], "path": list(path), "read": reads[k % 5],
                                "mid": rng.choice([None, None, ["len"], ["pack"]])}
                        yield Case({"op": "uslp_tfdf_new", **new, "hist": hist}, "valid", tag="hist-tfdf-permutation")
                        k += 1
                        hist = dict(hist, source=("ctor", "unpack")[k % 2], read=reads[k % 5])
                        tr = rng.randint(0, 1)
                        ft = rng.choice([None, 0 if new_fixed else 1])
                        yield Case({"op": "uslp_tfdf_pack", **new, "truncated": tr, "frame_type": ft,
                                    "check": should_fhp(new["rules"], bool(tr), ft) == new_fixed, "hist": hist}, "valid",
                                   tag="hist-tfdf-permutation")
        # a pointer held together with a variable-length rule (constructor only; len() counts it, see all-rules-x-upid)
        for _ in range(40 if thorough else 12):
            old = rand_tfdf(True)
            new = rand_tfdf(True, old)
            old["rules"], new["rules"] = rng.choice(range(8)), rng.choice(VP_RULES)
            path = rng.sample(TFDF_KEYS, 4)
            yield Case({"op": "uslp_tfdf_new", **new, "hist": {"from": old, "source": "ctor", "path": path, "read": rng.choice(reads[:5])}},
                       "valid", tag="hist-tfdf-pointer-with-vp-rule")
        # ---- TransferFrame: decoded / constructed, looked at, then changed part by part with the frame length written in between ----
        steps_all = FRAME_STEPS + ["tfdf"]
        for rules in range(8):
            for truncated in ((False, True) if rules in VP_RULES else (False,)):
                pool_r = FP_RULES if rules in FP_RULES else VP_RULES
                for rep in range(12 if thorough else 5):
                    iz, fecf = rng.choice([None, None, 0, 1, 5]), rng.choice([None, 2, 4])
                    ocf = (not truncated) and rng.random() < 0.5
                    n = rng.randint(0, 7)
                    old, ft = wf_frame(rng, rules, truncated, iz, ocf, fecf, rng.choice([0, 1, 2, 3, 9, 40]), vcf_len=n)
                    if rep % 5 == 0:
                        # only the frame around the data field changes: the data field object is the decoded one to the end
                        new = copy.deepcopy(old)
                        new["iz"] = rng.choice([None, hx(rbytes(rng, 3))])
                        new["fecf"] = rng.choice([None, hx(rbytes(rng, 2))])
                        if not truncated:
                            new["hdr"].update(vcf_len=(n + 1) % 8, vcf_count=rng.choice(vcf_pool((n + 1) % 8, rng)), ocf=int(not ocf))
                            new["ocf"] = None if ocf else hx(rbytes(rng, 4))
                        path = rng.sample(["iz", "fecf", "ocf", "vcf"], rng.randint(0, 4))
                    elif rep % 5 == 1:
                        new = copy.deepcopy(old)       # nothing changes but the length field (written by the op / in the path)
                        path = []
                    else:
                        new, _ = wf_frame(rng, rng.choice(pool_r), truncated, rng.choice([None, 0, 2, 5]),
                                          (not truncated) and rng.random() < 0.5, rng.choice([None, 2, 4]),
                                          rng.choice([0, 1, 2, 3, 9, 40]), vcf_len=rng.randint(0, 7))
                        path = rng.sample(steps_all, rng.randint(0, len(steps_all)))
                    for _ in range(rng.choice([0, 1, 1, 2])):
                        path.insert(rng.randint(0, len(path)), "set_len")
                    if rep % 5 == 1:
                        path = rng.choice([[], ["set_len"]])
                    set_len = rng.randint(0, 1) if not truncated else 1
                    if not truncated:
                        new["hdr"]["frame_len"] = frame_total_len(new) - 1 if set_len else rng.randint(0, 65535)
                    k += 1
                    hist = {"from": old, "source": ("unpack", "ctor", "unpack")[k % 3], "path": path, "read": [None, None, [], ["len"], ["pack"]][k % 5],
                            "sfx": hx(rbytes(rng, rng.choice([0, 0, 3])))}
                    yield Case({"op": "uslp_frame_pack", **new, "truncated": int(truncated), "frame_type": rng.choice([None, ft]),
                                "set_len": set_len, "check": True, "check_ft": ft, "hist": hist}, "valid", tag="hist-frame")

    def sequence_cases(self, rng, thorough):
        """Frames that share the managed parameters AND the virtual channel but differ in what the primary header
        says per frame (OCF flag, VCF length, MAP/SCID, header kind), decoded back to back with ONE properties object
        (`before` = frames decoded first with the very same, fresh object, see op_frame_unpack; the "seq-consecutive"
        cases instead rely on the object that core.REUSE shares between cases). Every case is decoded by the model
        on its own, so anything a decode leaves behind in the properties object (or anywhere else) shows."""
        def var_len():
            # truncated_frame_len is not consulted for regular frames
            return rng.choice([0, 16, rng.randint(0, 70000)])

        def unpack_case(raw, ft, p, before, tag):
            return Case({"op": "uslp_frame_unpack", "raw": hx(raw), "frame_type": ft, "props": p, "check": True,
                         "before": [hx(b) for b in before]}, "valid", tag=tag)

        for _ in range(12 if thorough else 4):
            for kind in (0, 1):
                pool_r = FP_RULES if kind == 0 else VP_RULES
                for iz in (None, 3):
                    for fecf in (None, 2):
                        vcid, n, tl = rng.randint(0, 63), rng.randint(0, 7), rng.randint(5, 14)
                        # A carries an OCF, B does not; same channel, same managed parameters (fixed: same total length)
                        fa, ft = wf_frame(rng, rng.choice(pool_r), False, iz, True, fecf, tl, vcf_len=n)
                        fb, _ = wf_frame(rng, rng.choice(pool_r), False, iz, False, fecf,
                                         tl + 4 if kind == 0 else rng.randint(0, 14), vcf_len=n)
                        # C: as A in everything but the OCF (same ids, same data zone length + 4)
                        fc = copy.deepcopy(fa)
                        fc["ocf"], fc["hdr"]["ocf"] = None, 0
                        fc["tfdf"]["tfdz"] = hx(unhx(fa["tfdf"]["tfdz"]) + rbytes(rng, 4))
                        for f in (fa, fb, fc):
                            f["hdr"]["vcid"] = vcid
                        ra, rb, rc = enc_frame(fa), enc_frame(fb), enc_frame(fc)
                        mk = (lambda: {"kind": 0, "len": len(ra), "iz": iz, "fecf": fecf}) if kind == 0 else \
                             (lambda: {"kind": 1, "len": var_len(), "iz": iz, "fecf": fecf})
                        sfx = rbytes(rng, rng.choice([0, 0, 3])) if kind == 1 else b""
                        yield unpack_case(rb + sfx, ft, mk(), [ra], "seq-ocf-then-none")
                        yield unpack_case(ra + sfx, ft, mk(), [rb], "seq-none-then-ocf")
                        yield unpack_case(rc, ft, mk(), [ra], "seq-same-ids-ocf-dropped")
                        yield unpack_case(ra, ft, mk(), [rc, ra, rb], "seq-flip-flop")
                        yield unpack_case(rb, ft, mk(), [ra, rb, rc, ra], "seq-flip-flop")
                        # the same frames through plain consecutive cases (the properties object is reused across cases)
                        p = mk()
                        for r in (ra, rb, rc, ra):
                            yield unpack_case(r, ft, p, [], "seq-consecutive")
                        # same channel, other managed parameters (insert zone / FECF sizes) right afterwards
                        iz2, fecf2 = (None if iz else 5), (4 if fecf else None)
                        fd, _ = wf_frame(rng, rng.choice(pool_r), False, iz2, bool(rng.getrandbits(1)), fecf2, rng.randint(0, 9), vcf_len=n)
                        fd["hdr"]["vcid"] = vcid
                        rd = enc_frame(fd)
                        yield unpack_case(rd, ft, {"kind": kind, "len": len(rd), "iz": iz2, "fecf": fecf2}, [], "seq-other-params-same-vcid")
                        yield unpack_case(ra, ft, p, [], "seq-other-params-same-vcid")
                        if kind == 1:
                            # truncated and regular frames of one channel share a VarFrameProperties object
                            ftr, _ = wf_frame(rng, rng.choice(VP_RULES), True, iz, False, fecf, rng.randint(0, 9))
                            ftr["hdr"]["vcid"] = vcid
                            rt = enc_frame(ftr)
                            pt = {"kind": 1, "len": len(rt), "iz": iz, "fecf": fecf}
                            yield unpack_case(ra, 1, pt, [rt], "seq-truncated-then-regular")
                            yield unpack_case(rt, 1, pt, [ra, rb], "seq-regular-then-truncated")
                            yield unpack_case(rb, 1, pt, [rt, ra], "seq-truncated-then-regular")

    def mismatch_cases(self, rng, f, ft, raw, p, thorough):
        trunc = f["hdr"]["kind"] == "truncated"
        base = {"op": "uslp_frame_unpack", "raw": hx(raw), "frame_type": ft, "props": p}

        def both(op, expect, tag, named=False, errclass=True):
            yield Case(op, expect, errclass=errclass, tag=tag)
            if named:
                o2 = dict(op); o2["op"] = "uslp_frame_unpack_cls"
                yield Case(o2, "valid", tag=tag + "-class")

        # wrong class of properties object
        q = dict(p, kind=1 - p["kind"], len=len(raw))
        if ft == 0 or trunc:
            yield from both(dict(base, props=q), "invalid", "props-class-mismatch")      # ValueError
        else:
            yield Case(dict(base, props=q), "valid", tag="props-class-unused")               # variable, non-truncated: never consulted
        # wrong frame type: truncated header with FIXED -> UslpTruncatedFrameNotAllowed (named in the docstring);
        # otherwise the construction rule does not belong to the type
        q = dict(p, kind=1 - ft, len=len(raw))
        yield from both(dict(base, frame_type=1 - ft, props=q), "invalid", "frame-type-mismatch", named=trunc)
        # fixed length / truncated length perturbed
        if ft == 0 or trunc:
            for d in (1, 2, 3, 4, rng.randint(5, 300)):
                # larger than the buffer: too short (the docstring names the class)
                yield from both(dict(base, props=dict(p, len=p["len"] + d)), "invalid", "len-param-plus", named=True)
                if ft == 0:
                    if p["len"] - d >= 0:
                        yield from both(dict(base, props=dict(p, len=p["len"] - d)), "invalid", "fixed-len-minus", named=True)
                    # buffer longer than the frame, fixed length follows the buffer, not the frame
                    yield from both(dict(base, raw=hx(raw + rbytes(rng, d)), props=dict(p, len=p["len"] + d)), "invalid",
                                    "fixed-len-vs-header", named=True)
                elif p["len"] - d >= 0:
                    # a shorter managed truncated length is detectable only when no data field remains
                    yield Case(dict(base, props=dict(p, len=p["len"] - d)), "any", errclass=True, tag="trunc-len-minus")
        # insert zone / FECF sizes perturbed, presence toggled
        for key in ("iz", "fecf"):
            cur = p[key]
            alts = [None, 0, 1, 2, 3, 4, 6] if cur is None else [None] + [cur + d for d in (-4, -3, -2, -1, 1, 2, 3, 4) if cur + d >= 0]
            alts += [rng.choice([50, 300, 70000])]
            for alt in alts:
                if alt == cur:
                    continue
                yield Case(dict(base, props=dict(p, **{key: alt})), "any", errclass=True, tag=f"{key}-size-mismatch")
        # every truncation of the frame with otherwise matching parameters
        cuts = range(len(raw)) if len(raw) <= 40 or thorough else sorted(set(list(range(12)) + rng.sample(range(len(raw)), 10) + [len(raw) - 1, len(raw) - 2, len(raw) - 5]))
        for k in cuts:
            # "passed raw bytearray too short" (the docstring names the class)
            yield from both(dict(base, raw=hx(raw[:k])), "invalid", "truncation", named=True)
        # header substitutions: frame length field, OCF flag, VCF length, header-type bit, version
        if not trunc:
            fl = f["hdr"]["frame_len"]
            for d in (-4, -3, -2, -1, 1, 2, 3, 4):
                if 0 <= fl + d <= 65535:
                    r2 = bytearray(raw); r2[4], r2[5] = (fl + d) >> 8, (fl + d) & 0xFF
                    if ft == 0 or d > 0:
                        yield from both(dict(base, raw=hx(r2)), "invalid", "frame-len-field", named=True)
                    else:
                        yield Case(dict(base, raw=hx(r2)), "any", errclass=True, tag="frame-len-field")
            r2 = bytearray(raw); r2[6] ^= 0x08
            yield Case(dict(base, raw=hx(r2)), "any", errclass=True, tag="ocf-flag-flipped")
            for n in range(8):
                r2 = bytearray(raw); r2[6] = (r2[6] & 0xF8) | n
                yield Case(dict(base, raw=hx(r2)), "any", errclass=True, tag="vcf-len-substituted")
        r2 = bytearray(raw); r2[3] ^= 1
        yield Case(dict(base, raw=hx(r2)), "any", errclass=True, tag="header-type-bit-flipped")
        r2 = bytearray(raw); r2[0] = (rng.choice([0, 1, 4, 8, 11, 13, 15]) << 4) | (r2[0] & 0xF)
        yield from both(dict(base, raw=hx(r2)), "invalid", "version", errclass=True)
        # data-field header octet substituted (construction rule of the other frame type)
        off = len(enc_hdr(f["hdr"])) + (0 if f["iz"] is None else len(unhx(f["iz"])))
        for rules in range(8):
            r2 = bytearray(raw); r2[off] = (rules << 5) | (r2[off] & 0x1F)
            yield Case(dict(base, raw=hx(r2)), "any", errclass=True, tag="rule-substituted")


PROP = C17()
